(* C15, the composition section of the Sentry report message
   (report.BuildSentryReport, Model/Report.v [build_report]).

   What the model (and the Go code) does, for EVERY error e:

     rp_message = [file:line: ] verbose "\n-- report composition:\n" L_1 "\n" L_2 ... "\n" L_n [ "\n(check the extra data payloads)" ]

   with exactly one line L per layer of [visit_all e], INNERMOST LAYER FIRST
   (the loop runs over [rev (visit_all e)]), and

     L = [file:line: ] short-type-name  ( " (top exception)" | " (k)" | ": first line of first safe detail" | "" )

   - short-type-name = last path component of the full Go type name; for a native
     layer it is the %T type string [go_type_string]; for an opaque (decoded,
     unknown type) layer it is computed from the ORIGINAL type name of the wire;
   - a layer that carries a reportable stack trace is preceded by the file:line of
     its innermost frame and is followed by a reference to its exception:
     the innermost such layer by " (top exception)", the k-th one after it
     (k = 1, 2, ...) by " (k)"; the same "(k)" starts the type of that exception;
   - the trailer is present iff at least two layers carry a stack trace.

   A line contains a newline iff its short type name does (only possible for an
   opaque layer whose original type name contains a newline: counter-example
   below); everything else on the line is newline free. *)
From Coq Require Import Lia List Bool NArith ZArith.
From Errv Require Import Base.Str Redact.Markers Redact.Buffer Model.Err Model.Sem Model.Details
     Model.Marks Model.Access Model.Report Proofs.StrFacts Proofs.RedactFacts Proofs.ReportFacts.

(* ------------------------------------------------------------------ *)
(* specification vocabulary *)

(* the type name printed on a layer's line *)
Definition short_type (l : err) : str := last_path_component (sd_orig (get_safe_details l)).

(* "file:line: " of the innermost frame of the layer's own stack trace *)
Definition src_prefix (l : err) : str :=
  match get_reportable_stack l with
  | Some frames =>
    match rev frames with
    | f :: _ => last_path_component (rf_abspath f) ++ [colon] ++ dec_of_Z (rf_line f) ++ lit ": "
    | [] => []
    end
  | None => []
  end.

(* reference to the exception of the k-th stack-carrying layer (k = 0: innermost) *)
Definition exc_ref (k : nat) : str :=
  match k with
  | O => lit " (top exception)"
  | S _ => [sp] ++ lit "(" ++ dec_of_N (N.of_nat k) ++ lit ")"
  end.

(* ": " + first line of the first safe detail, when it is not empty *)
Definition detail_suffix (l : err) : str :=
  match sd_details (get_safe_details l) with
  | d :: _ => match first_line d with [] => [] | d1 => lit ": " ++ d1 end
  | [] => []
  end.

(* the line of layer [l] when [k] stack-carrying layers precede it in the loop (= are deeper) *)
Definition comp_line (k : nat) (l : err) : str :=
  src_prefix l ++ short_type l ++ (if has_stack l then exc_ref k else detail_suffix l).

Fixpoint comp_lines (k : nat) (ls : list err) : list str :=
  match ls with
  | [] => []
  | l :: r => comp_line k l :: comp_lines (if has_stack l then S k else k) r
  end.

Definition stack_count (ls : list err) : nat := List.length (filter has_stack ls).

Definition report_pre (e : err) : str :=
  match get_one_line_source e with
  | Some (f, l, _) => f ++ [colon] ++ dec_of_Z l ++ lit ": "
  | None => []
  end.
Definition report_verbose (e : err) : str := strip_markers (redact (fmt_red_verbose e)).
Definition comp_header : str := [nl] ++ lit "-- report composition:" ++ [nl].
Definition check_line : str := lit "(check the extra data payloads)".
Definition report_trailer (e : err) : str :=
  if (2 <=? stack_count (visit_all e))%nat then [nl] ++ check_line else [].

(* the part of the message after the header *)
Definition composition_section (e : err) : str :=
  skipn (List.length (report_pre e ++ report_verbose e ++ comp_header)) (rp_message (build_report e)).

(* ------------------------------------------------------------------ *)
(* list / string helpers *)

Definition tail_text (ls : list str) : str := List.concat (List.map (fun x => [nl] ++ x) ls).

Lemma join_cons x r : join [nl] (x :: r) = x ++ tail_text r.
Proof.
  revert x; induction r as [|y r IH]; intro x.
  - cbn. now rewrite app_nil_r.
  - change (join [nl] (x :: y :: r)) with (x ++ [nl] ++ join [nl] (y :: r)).
    rewrite IH. unfold tail_text. cbn [List.map List.concat]. now rewrite <- !app_assoc.
Qed.

Lemma join_snoc ls x : ls <> [] -> join [nl] (ls ++ [x]) = join [nl] ls ++ [nl] ++ x.
Proof.
  destruct ls as [|a r]; [congruence|]. intros _.
  change ((a :: r) ++ [x]) with (a :: (r ++ [x])). rewrite !join_cons.
  unfold tail_text. rewrite map_app, concat_app. cbn [List.map List.concat].
  now rewrite app_nil_r, <- !app_assoc.
Qed.

Lemma no_nl_app' a b : no_nl (a ++ b) = no_nl a && no_nl b.
Proof. unfold no_nl. apply forallb_app. Qed.

Lemma no_nl_incl s t : incl t s -> no_nl s = true -> no_nl t = true.
Proof.
  unfold no_nl. rewrite !forallb_forall. intros Hi H x Hx. apply H, Hi, Hx.
Qed.

Lemma no_nl_cons x s : no_nl (x :: s) = true -> (x =? nl) = false /\ no_nl s = true.
Proof.
  unfold no_nl. cbn [forallb]. intro H. apply andb_true_iff in H as [H1 H2].
  apply negb_true_iff in H1. now split.
Qed.

Lemma split_on_one a : no_nl a = true -> split_on nl a = [a].
Proof.
  induction a as [|x a IH]; [reflexivity|]. intro H. apply no_nl_cons in H as [Hx Ha].
  cbn [split_on]. rewrite Hx, (IH Ha). reflexivity.
Qed.

Lemma split_on_line a b : no_nl a = true -> split_on nl (a ++ nl :: b) = a :: split_on nl b.
Proof.
  induction a as [|x a IH]; intro H.
  - reflexivity.
  - apply no_nl_cons in H as [Hx Ha]. cbn [app split_on]. rewrite Hx, (IH Ha). reflexivity.
Qed.

Lemma split_on_join ls :
  ls <> [] -> Forall (fun l => no_nl l = true) ls -> split_on nl (join [nl] ls) = ls.
Proof.
  induction ls as [|a r IH]; [congruence|]. intros _ H. inversion H as [|a' r' Ha Hr]; subst.
  destruct r as [|b r].
  - cbn [join]. now apply split_on_one.
  - change (join [nl] (a :: b :: r)) with (a ++ nl :: join [nl] (b :: r)).
    rewrite split_on_line by exact Ha. rewrite IH; [reflexivity|discriminate|exact Hr].
Qed.

Lemma split_on_no_nl s : Forall (fun l => no_nl l = true) (split_on nl s).
Proof.
  induction s as [|x s IH]; [repeat constructor|].
  cbn [split_on]. destruct (x =? nl) eqn:Ex.
  - constructor; [reflexivity|exact IH].
  - destruct (split_on nl s) as [|l ls]; [repeat constructor; unfold no_nl; cbn [forallb]; now rewrite Ex|].
    inversion IH as [|l' ls' Hl Hls]; subst. constructor; [|exact Hls].
    unfold no_nl in *. cbn [forallb]. now rewrite Ex, Hl.
Qed.

Lemma upto_nl_no_nl s : no_nl (upto_byte nl s) = true.
Proof.
  induction s as [|x s IH]; [reflexivity|]. cbn [upto_byte]. destruct (x =? nl) eqn:Ex; [reflexivity|].
  unfold no_nl in *. cbn [forallb]. now rewrite Ex, IH.
Qed.

Lemma dec_digits_no_nl fuel : forall n acc, no_nl acc = true -> no_nl (dec_digits fuel n acc) = true.
Proof.
  induction fuel as [|f IH]; intros n acc Ha; cbn [dec_digits]; [exact Ha|].
  assert (Hd : no_nl ((48 + n mod 10) :: acc) = true).
  { unfold no_nl in *. cbn [forallb]. rewrite Ha, andb_true_r. apply negb_true_iff, N.eqb_neq.
    unfold nl. generalize (n mod 10). intro r. lia. }
  destruct (n / 10 =? 0); [exact Hd|]. now apply IH.
Qed.

Lemma dec_of_N_no_nl n : no_nl (dec_of_N n) = true.
Proof. unfold dec_of_N. now apply dec_digits_no_nl. Qed.

Lemma dec_of_Z_no_nl z : no_nl (dec_of_Z z) = true.
Proof.
  destruct z as [|p|p]; cbn [dec_of_Z]; [reflexivity|apply dec_of_N_no_nl|].
  change (45 :: dec_of_N (N.pos p)) with ([45] ++ dec_of_N (N.pos p)).
  rewrite no_nl_app', dec_of_N_no_nl. reflexivity.
Qed.

Lemma trim_left_incl s : incl (trim_left s) s.
Proof.
  induction s as [|c r IH]; [apply incl_refl|]. cbn [trim_left].
  destruct (is_space c); [now apply incl_tl|apply incl_refl].
Qed.

Lemma trim_space_no_nl s : no_nl s = true -> no_nl (trim_space s) = true.
Proof.
  apply no_nl_incl. unfold trim_space. intros x Hx. apply in_rev in Hx.
  apply trim_left_incl in Hx. apply in_rev in Hx. now apply trim_left_incl in Hx.
Qed.

Lemma split_last_aux_incl c full : forall s cur best,
  incl (cur ++ s) full ->
  (forall a b, best = Some (a, b) -> incl a full /\ incl b full) ->
  forall a b, split_last_aux c s cur best = Some (a, b) -> incl a full /\ incl b full.
Proof.
  induction s as [|x r IH]; intros cur best Hi Hb a b; cbn [split_last_aux]; [apply Hb|].
  assert (Hi' : incl ((cur ++ [x]) ++ r) full) by (now rewrite <- app_assoc).
  destruct (x =? c).
  - apply IH; [exact Hi'|]. intros a' b' E. injection E as <- <-.
    apply incl_app_inv in Hi as [H1 H2]. split; [exact H1|]. intros y Hy. apply H2. now right.
  - apply IH; [exact Hi'|exact Hb].
Qed.

Lemma split_last_incl c s a b : split_last c s = Some (a, b) -> incl a s /\ incl b s.
Proof.
  unfold split_last. apply split_last_aux_incl; [apply incl_refl|discriminate].
Qed.

Lemma last_path_component_no_nl s : no_nl s = true -> no_nl (last_path_component s) = true.
Proof.
  unfold last_path_component. destruct (split_last 47 s) as [[a b]|] eqn:E; [|trivial].
  apply split_last_incl in E as [_ Hb]. now apply no_nl_incl.
Qed.

(* ------------------------------------------------------------------ *)
(* the file names re-parsed from a printed stack are newline free *)

Lemma parse_entry_no_nl l0 nx :
  (forall l1, nx = Some l1 -> no_nl l1 = true) ->
  no_nl (snd (fst (parse_entry l0 nx))) = true.
Proof.
  intro H. unfold parse_entry. destruct nx as [l1|]; [|reflexivity].
  specialize (H l1 eq_refl). apply trim_space_no_nl in H.
  destruct l1 as [|c r]; [reflexivity|].
  set (fl := trim_space (c :: r)) in *.
  assert (G : no_nl (snd (fst (match split_last colon fl with
                               | Some (f, ln) => (true, f, atoi ln)
                               | None => (true, fl, 0%Z)
                               end))) = true).
  { destruct (split_last colon fl) as [[f ln]|] eqn:E; cbn [fst snd]; [|exact H].
    apply split_last_incl in E as [Hf _]. now apply (no_nl_incl fl). }
  destruct c as [|p]; [reflexivity|].
  destruct p as [p|p|]; try reflexivity.
  destruct p as [p|p|]; try reflexivity.
  destruct p as [p|p|]; try reflexivity.
  destruct p as [p|p|]; try reflexivity.
  exact G.
Qed.

Definition frame_no_nl (f : rframe) : Prop := no_nl (rf_abspath f) = true.

Lemma mk_rframe_abspath fn file line : rf_abspath (mk_rframe fn file line) = file.
Proof.
  unfold mk_rframe. destruct (str_eqb fn unknown_s); [reflexivity|].
  destruct (function_name fn) as [m f]. reflexivity.
Qed.

Lemma parse_lines_no_nl fuel : forall lines,
  Forall (fun l => no_nl l = true) lines -> Forall frame_no_nl (parse_lines fuel lines).
Proof.
  induction fuel as [|f IH]; intros lines Hl; cbn [parse_lines]; [constructor|].
  destruct lines as [|l0 rest]; [constructor|].
  inversion Hl as [|l0' rest' H0 Hrest]; subst.
  pose proof (parse_entry_no_nl l0 (match rest with x :: _ => Some x | [] => None end)) as P.
  destruct (parse_entry l0 (match rest with x :: _ => Some x | [] => None end)) as [[two file] line].
  cbn [fst snd] in P. constructor.
  - unfold frame_no_nl. rewrite mk_rframe_abspath. apply P.
    intros l1 E. destruct rest as [|x r]; [discriminate|]. injection E as <-.
    now inversion Hrest.
  - apply IH. destruct two; [|exact Hrest].
    destruct rest as [|x r]; [constructor|]. now inversion Hrest.
Qed.

Lemma parse_printed_stack_no_nl st : Forall frame_no_nl (parse_printed_stack st).
Proof.
  unfold parse_printed_stack. apply Forall_forall. intros f Hf. apply in_rev in Hf.
  revert f Hf. apply Forall_forall. apply parse_lines_no_nl, split_on_no_nl.
Qed.

Lemma reportable_stack_no_nl l fr : get_reportable_stack l = Some fr -> Forall frame_no_nl fr.
Proof.
  unfold get_reportable_stack.
  destruct (own_stack_of l) as [[|f s]|].
  - discriminate.
  - intro E. injection E as <-. apply parse_printed_stack_no_nl.
  - destruct (safe_details_of l) as [[|d0 ds]|]; try discriminate.
    destruct (is_stack_key (type_key l)); [|discriminate].
    intro E. injection E as <-. apply parse_printed_stack_no_nl.
Qed.

Lemma src_prefix_no_nl l : no_nl (src_prefix l) = true.
Proof.
  unfold src_prefix. destruct (get_reportable_stack l) as [fr|] eqn:E; [|reflexivity].
  destruct (rev fr) as [|f fs] eqn:Er; [reflexivity|].
  apply reportable_stack_no_nl in E.
  assert (Hf : frame_no_nl f).
  { revert f fs Er. intros f fs Er. eapply Forall_forall; [exact E|].
    apply in_rev. rewrite Er. now left. }
  rewrite !no_nl_app', dec_of_Z_no_nl, (last_path_component_no_nl _ Hf). reflexivity.
Qed.

Lemma exc_ref_no_nl k : no_nl (exc_ref k) = true.
Proof.
  destruct k as [|j]; [reflexivity|]. unfold exc_ref.
  rewrite !no_nl_app', dec_of_N_no_nl. reflexivity.
Qed.

Lemma detail_suffix_no_nl l : no_nl (detail_suffix l) = true.
Proof.
  unfold detail_suffix. destruct (sd_details (get_safe_details l)) as [|d ds]; [reflexivity|].
  pose proof (upto_nl_no_nl d) as H. unfold first_line.
  destruct (upto_byte nl d) as [|c cs]; [reflexivity|].
  now rewrite no_nl_app', H.
Qed.

(* a line contains a newline exactly when the short type name does *)
Theorem comp_line_no_nl k l : no_nl (comp_line k l) = no_nl (short_type l).
Proof.
  unfold comp_line. rewrite !no_nl_app', src_prefix_no_nl.
  destruct (has_stack l); [rewrite exc_ref_no_nl|rewrite detail_suffix_no_nl];
    now rewrite andb_true_r.
Qed.

(* ------------------------------------------------------------------ *)
(* the type name on the line *)

Definition is_opaque (l : err) : bool :=
  match l with OLeaf _ _ _ _ | OWrap _ _ _ _ _ => true | _ => false end.

Lemma sd_orig_type_details l : sd_orig (get_safe_details l) = fst (fst (type_details l)).
Proof. unfold get_safe_details. destruct (type_details l) as [[o f] x]. reflexivity. Qed.

(* native layer: the %T type string *)
Theorem short_type_native l : is_opaque l = false -> short_type l = go_type_string l.
Proof.
  intro H. unfold short_type. rewrite sd_orig_type_details.
  destruct l as [i k|i w c|i c s|i sm m|i k cs|i msg d cs|i pfx d mt c]; try discriminate;
    cbn [type_details fst].
  - destruct k as [| | | | | | | | | | |u ? ? ?]; try (vm_compute; reflexivity).
    destruct u; vm_compute; reflexivity.
  - destruct w as [| | | | | | | | | | | | | | | | | | | | |u ? ?]; try (vm_compute; reflexivity).
    destruct u; vm_compute; reflexivity.
  - vm_compute; reflexivity.
  - vm_compute; reflexivity.
  - destruct k; vm_compute; reflexivity.
Qed.

(* opaque layer: from the original type name carried by the wire *)
Theorem short_type_opaque l :
  short_type l =
  match l with
  | OLeaf _ _ d _ | OWrap _ _ d _ _ => last_path_component (dt_orig d)
  | _ => go_type_string l
  end.
Proof.
  destruct l; try (apply short_type_native; reflexivity);
    unfold short_type; rewrite sd_orig_type_details; reflexivity.
Qed.

Lemma go_type_string_no_nl l : no_nl (go_type_string l) = true.
Proof.
  destruct l as [i k|i w c|i c s|i sm m|i k cs|i msg d cs|i pfx d mt c].
  - destruct k as [| | | | | | | | | | |u ? ? ?]; try reflexivity. destruct u; reflexivity.
  - destruct w as [| | | | | | | | | | | | | | | | | | | | |u ? ?]; try reflexivity. destruct u; reflexivity.
  - reflexivity.
  - reflexivity.
  - destruct k; reflexivity.
  - destruct cs; reflexivity.
  - reflexivity.
Qed.

(* when is the type name newline free *)
Definition type_name_ok (l : err) : Prop :=
  match l with
  | OLeaf _ _ d _ | OWrap _ _ d _ _ => no_nl (dt_orig d) = true
  | _ => True
  end.

Lemma short_type_no_nl l : type_name_ok l -> no_nl (short_type l) = true.
Proof.
  intro H. rewrite short_type_opaque.
  destruct l; try apply go_type_string_no_nl; now apply last_path_component_no_nl.
Qed.

(* ------------------------------------------------------------------ *)
(* one step of the composition loop *)

(* [k] stack-carrying layers have been seen *)
Definition inv (k : nat) (st : comp) : Prop :=
  c_extra st = N.of_nat (Nat.max 1 k) /\ (c_exc st = [] <-> k = 0%nat).

Lemma report_layer_line m b st l k :
  inv k st ->
  c_msg (report_layer m b st l) = c_msg st ++ c_sep st ++ comp_line k l /\
  c_sep (report_layer m b st l) = [nl] /\
  inv (if has_stack l then S k else k) (report_layer m b st l).
Proof.
  intros [Hx Hk].
  unfold comp_line, src_prefix, detail_suffix, short_type, has_stack, inv, report_layer.
  cbv zeta.
  destruct (get_reportable_stack l) as [fr|].
  - destruct (rev fr) as [|f fs]; destruct (c_exc st) as [|x xs] eqn:Ex;
      cbn [c_msg c_sep c_extra c_exc].
    + assert (k = 0%nat) by (now apply Hk). subst k.
      split; [now rewrite <- !app_assoc|]. split; [reflexivity|].
      split; [rewrite Hx; reflexivity|]. split; discriminate.
    + destruct k as [|j]; [destruct Hk as [_ Hk]; discriminate (Hk eq_refl)|].
      rewrite Hx. replace (Nat.max 1 (S j)) with (S j) by lia.
      split; [now rewrite <- !app_assoc|]. split; [reflexivity|].
      split; [lia|]. split; [|discriminate]. intro E. destruct xs; discriminate.
    + assert (k = 0%nat) by (now apply Hk). subst k.
      split; [now rewrite <- !app_assoc|]. split; [reflexivity|].
      split; [rewrite Hx; reflexivity|]. split; discriminate.
    + destruct k as [|j]; [destruct Hk as [_ Hk]; discriminate (Hk eq_refl)|].
      rewrite Hx. replace (Nat.max 1 (S j)) with (S j) by lia.
      split; [now rewrite <- !app_assoc|]. split; [reflexivity|].
      split; [lia|]. split; [|discriminate]. intro E. destruct xs; discriminate.
  - destruct (sd_details (get_safe_details l)) as [|d ds];
      [|destruct (first_line d) as [|c cs]];
      cbn [c_msg c_sep c_extra c_exc];
      (split; [now rewrite <- ?app_assoc, ?app_nil_r|]); (split; [reflexivity|]); now split.
Qed.

(* ------------------------------------------------------------------ *)
(* the whole loop *)

Lemma report_layers_tail m : forall ls b st k,
  inv k st -> c_sep st = [nl] ->
  c_msg (report_layers m b st ls) = c_msg st ++ tail_text (comp_lines k ls) /\
  inv (k + stack_count ls) (report_layers m b st ls).
Proof.
  induction ls as [|l r IH]; intros b st k Hi Hs; cbn [report_layers comp_lines].
  - unfold tail_text, stack_count. cbn. rewrite app_nil_r, Nat.add_0_r. now split.
  - destruct (report_layer_line m b st l k Hi) as (Hm & Hs' & Hi').
    destruct (IH false _ _ Hi' Hs') as (Hm2 & Hi2).
    split.
    + rewrite Hm2, Hm, Hs. unfold tail_text. cbn [List.map List.concat].
      now rewrite <- !app_assoc.
    + unfold stack_count in *. cbn [filter]. destruct (has_stack l); cbn [List.length].
      * now rewrite Nat.add_succ_r.
      * exact Hi2.
Qed.

Lemma report_layers_join m b st l r :
  inv 0 st -> c_sep st = [] ->
  c_msg (report_layers m b st (l :: r)) = c_msg st ++ join [nl] (comp_lines 0 (l :: r)) /\
  inv (stack_count (l :: r)) (report_layers m b st (l :: r)).
Proof.
  intros Hi Hs. cbn [report_layers comp_lines].
  destruct (report_layer_line m b st l 0 Hi) as (Hm & Hs' & Hi').
  destruct (report_layers_tail m r false _ _ Hi' Hs') as (Hm2 & Hi2).
  split.
  - rewrite Hm2, Hm, Hs, join_cons. cbn [app]. now rewrite <- app_assoc.
  - unfold stack_count in *. cbn [filter]. destruct (has_stack l); cbn [List.length]; exact Hi2.
Qed.

Lemma comp_lines_length k ls : List.length (comp_lines k ls) = List.length ls.
Proof. revert k; induction ls as [|l r IH]; intro k; cbn [comp_lines List.length]; [reflexivity|]. now rewrite IH. Qed.

Lemma comp_lines_app k a b :
  comp_lines k (a ++ b) = comp_lines k a ++ comp_lines (k + stack_count a) b.
Proof.
  revert k; induction a as [|l r IH]; intro k; cbn [app comp_lines].
  - unfold stack_count. cbn. now rewrite Nat.add_0_r.
  - rewrite IH. unfold stack_count. cbn [filter]. destruct (has_stack l); cbn [List.length].
    + now rewrite Nat.add_succ_r.
    + reflexivity.
Qed.

Lemma visit_all_cons e : exists t, visit_all e = e :: t.
Proof. destruct e; eexists; reflexivity. Qed.

Lemma stack_count_rev ls : stack_count (rev ls) = stack_count ls.
Proof. unfold stack_count. now rewrite filter_rev', rev_length. Qed.

(* ------------------------------------------------------------------ *)
(* build_report *)

(* the exact shape of the message *)
Theorem report_message_exact e :
  rp_message (build_report e) =
  report_pre e ++ report_verbose e ++ comp_header ++
  join [nl] (comp_lines 0 (rev (visit_all e))) ++ report_trailer e.
Proof.
  unfold build_report. cbn [rp_message].
  fold (report_pre e). fold (report_verbose e).
  destruct (rev (visit_all e)) as [|l r] eqn:E.
  { exfalso. destruct (visit_all_cons e) as [t Ht]. rewrite Ht in E.
    apply (f_equal (@List.length _)) in E. rewrite rev_length in E. discriminate. }
  match goal with |- context [report_layers ?m ?b ?st (l :: r)] =>
    destruct (report_layers_join m b st l r) as (Hm & Hx & _);
      [split; [reflexivity|split; reflexivity]|reflexivity|];
    set (S := report_layers m b st (l :: r)) in * end.
  cbn [c_msg] in Hm. rewrite Hm.
  unfold report_trailer. rewrite <- (stack_count_rev (visit_all e)), E.
  set (n := stack_count (l :: r)) in *. rewrite Hx.
  assert (Hn : (1 <? N.of_nat (Nat.max 1 n)) = (2 <=? n)%nat).
  { destruct (N.ltb_spec 1 (N.of_nat (Nat.max 1 n))); destruct (Nat.leb_spec 2 n); try reflexivity; lia. }
  rewrite Hn. unfold comp_header, check_line.
  destruct (2 <=? n)%nat; rewrite <- ?app_assoc, ?app_nil_r; reflexivity.
Qed.

Theorem composition_section_eq e :
  composition_section e = join [nl] (comp_lines 0 (rev (visit_all e))) ++ report_trailer e.
Proof.
  unfold composition_section. rewrite report_message_exact.
  set (J := join [nl] (comp_lines 0 (rev (visit_all e))) ++ report_trailer e).
  replace (report_pre e ++ report_verbose e ++ comp_header ++ J)
    with ((report_pre e ++ report_verbose e ++ comp_header) ++ J) by (now rewrite <- !app_assoc).
  now rewrite skipn_app, skipn_all, Nat.sub_diag.
Qed.

(* (1) one line per layer *)
Theorem composition_line_count e :
  List.length (comp_lines 0 (rev (visit_all e))) = List.length (visit_all e).
Proof. now rewrite comp_lines_length, rev_length. Qed.

(* the line of each layer: with [k] = number of stack-carrying layers before it in the
   loop order (innermost first), i.e. deeper in the error *)
Theorem composition_nth a l b :
  nth (List.length a) (comp_lines 0 (a ++ l :: b)) [] = comp_line (stack_count a) l.
Proof.
  rewrite comp_lines_app. cbn [comp_lines Nat.add].
  rewrite app_nth2; rewrite comp_lines_length; [|lia]. now rewrite Nat.sub_diag.
Qed.

(* (1) the lines obtained by splitting the section on "\n", when the type names are
   newline free: one per layer, plus the trailer line when there are >= 2 stacks *)
Theorem composition_lines e :
  (forall l, In l (visit_all e) -> no_nl (short_type l) = true) ->
  split_on nl (composition_section e) =
  comp_lines 0 (rev (visit_all e)) ++
  (if (2 <=? stack_count (visit_all e))%nat then [check_line] else []).
Proof.
  intro H. rewrite composition_section_eq. unfold report_trailer.
  assert (Hne : comp_lines 0 (rev (visit_all e)) <> []).
  { intro E. apply (f_equal (@List.length _)) in E. rewrite composition_line_count in E.
    destruct (visit_all_cons e) as [t Ht]. rewrite Ht in E. discriminate. }
  assert (Hall : Forall (fun l => no_nl l = true) (comp_lines 0 (rev (visit_all e)))).
  { assert (G : forall ls k, (forall l, In l ls -> no_nl (short_type l) = true) ->
                             Forall (fun l => no_nl l = true) (comp_lines k ls)).
    { induction ls as [|l r IH]; intros k Hl; cbn [comp_lines]; constructor.
      - rewrite comp_line_no_nl. apply Hl. now left.
      - apply IH. intros x Hx. apply Hl. now right. }
    apply G. intros l Hl. apply H. now apply in_rev. }
  destruct (2 <=? stack_count (visit_all e))%nat.
  - rewrite <- join_snoc by exact Hne. apply split_on_join.
    + intro E. destruct (comp_lines 0 (rev (visit_all e))); discriminate.
    + apply Forall_app. split; [exact Hall|]. repeat constructor.
  - rewrite !app_nil_r. now apply split_on_join.
Qed.

Corollary composition_lines_firstn e :
  (forall l, In l (visit_all e) -> no_nl (short_type l) = true) ->
  firstn (List.length (visit_all e)) (split_on nl (composition_section e)) =
  comp_lines 0 (rev (visit_all e)).
Proof.
  intro H. rewrite (composition_lines e H), <- (composition_line_count e).
  rewrite firstn_app, Nat.sub_diag, firstn_all. cbn [firstn]. now rewrite app_nil_r.
Qed.

Corollary composition_lines_ok e :
  (forall l, In l (visit_all e) -> type_name_ok l) ->
  split_on nl (composition_section e) =
  comp_lines 0 (rev (visit_all e)) ++
  (if (2 <=? stack_count (visit_all e))%nat then [check_line] else []).
Proof. intro H. apply composition_lines. intros l Hl. now apply short_type_no_nl, H. Qed.

(* ------------------------------------------------------------------ *)
(* (2) shape of a line *)

(* a layer without a stack trace: the line STARTS with the type name *)
Theorem comp_line_plain k l :
  has_stack l = false -> comp_line k l = short_type l ++ detail_suffix l.
Proof.
  unfold comp_line, src_prefix, has_stack. destruct (get_reportable_stack l); [discriminate|reflexivity].
Qed.

(* a layer with a stack trace: source position, type name, exception reference *)
Theorem comp_line_stack k l :
  has_stack l = true -> comp_line k l = src_prefix l ++ short_type l ++ exc_ref k.
Proof. unfold comp_line. now intros ->. Qed.

(* the source prefix of a stack-carrying layer is never empty: the line of such a layer
   does NOT start with the type name *)
Lemma src_prefix_stack l fr f fs :
  get_reportable_stack l = Some fr -> rev fr = f :: fs ->
  src_prefix l = last_path_component (rf_abspath f) ++ [colon] ++ dec_of_Z (rf_line f) ++ lit ": ".
Proof. unfold src_prefix. now intros -> ->. Qed.

(* ------------------------------------------------------------------ *)
(* (3) numbering of the stack-carrying layers *)

Definition numbered {A} (k : nat) (f : nat -> err -> A) (ls : list err) : list A :=
  List.map (fun p => f (fst p) (snd p)) (combine (seq k (stack_count ls)) (filter has_stack ls)).

(* the lines of the stack-carrying layers, in loop order (innermost first), are numbered
   k, k+1, ...: " (top exception)" for 0, then " (1)", " (2)", ... *)
Theorem stack_lines_numbered ls : forall k,
  List.map snd (filter (fun p => has_stack (fst p)) (combine ls (comp_lines k ls))) =
  numbered k comp_line ls.
Proof.
  unfold numbered, stack_count.
  induction ls as [|l r IH]; intro k; [reflexivity|].
  cbn [comp_lines combine filter fst]. destruct (has_stack l) eqn:H.
  - cbn [List.length seq combine List.map fst snd]. now rewrite IH.
  - apply IH.
Qed.

(* the type of the exception created for a stack-carrying layer, without its number *)
Definition exc_loc (l : err) : str :=
  match get_reportable_stack l with
  | Some frames =>
    let '(file, fn, lineno) :=
      match rev frames with
      | f :: _ => (last_path_component (rf_abspath f), rf_function f, rf_line f)
      | [] => ([], [], 0%Z)
      end in
    let ty0 := (match file with [] => [] | _ => file ++ [colon] ++ dec_of_Z lineno ++ [sp] end) ++
               (match fn with [] => [] | _ => lit "(" ++ fn ++ lit ")" end) in
    match ty0 with [] => lit "<unknown error>" | _ => ty0 end
  | None => []
  end.

Definition exc_type (k : nat) (l : err) : str :=
  match k with
  | O => exc_loc l
  | S _ => (lit "(" ++ dec_of_N (N.of_nat k) ++ lit ")") ++ [sp] ++ exc_loc l
  end.

Fixpoint exc_types (k : nat) (ls : list err) : list str :=
  match ls with
  | [] => []
  | l :: r => if has_stack l then exc_type k l :: exc_types (S k) r else exc_types k r
  end.

Lemma exc_types_numbered ls : forall k, exc_types k ls = numbered k exc_type ls.
Proof.
  unfold numbered, stack_count.
  induction ls as [|l r IH]; intro k; [reflexivity|].
  cbn [exc_types filter]. destruct (has_stack l).
  - cbn [List.length seq combine List.map fst snd]. now rewrite IH.
  - apply IH.
Qed.

Lemma report_layer_exc_type m b st l k :
  inv k st ->
  List.map ex_type (c_exc (report_layer m b st l)) =
  List.map ex_type (c_exc st) ++ (if has_stack l then [exc_type k l] else []).
Proof.
  intros [Hx Hk].
  unfold exc_type, exc_loc, has_stack, report_layer. cbv zeta.
  destruct (get_reportable_stack l) as [fr|].
  - destruct (rev fr) as [|f fs]; destruct (c_exc st) as [|x xs] eqn:Ex; cbn [c_exc].
    + assert (k = 0%nat) by (now apply Hk). subst k. reflexivity.
    + destruct k as [|j]; [destruct Hk as [_ Hk]; discriminate (Hk eq_refl)|].
      rewrite Hx. replace (Nat.max 1 (S j)) with (S j) by lia.
      rewrite map_app. reflexivity.
    + assert (k = 0%nat) by (now apply Hk). subst k. reflexivity.
    + destruct k as [|j]; [destruct Hk as [_ Hk]; discriminate (Hk eq_refl)|].
      rewrite Hx. replace (Nat.max 1 (S j)) with (S j) by lia.
      rewrite map_app. reflexivity.
  - destruct (sd_details (get_safe_details l)) as [|d ds];
      [|destruct (first_line d) as [|c cs]]; cbn [c_exc]; now rewrite app_nil_r.
Qed.

Lemma report_layers_exc_types m : forall ls b st k,
  inv k st ->
  List.map ex_type (c_exc (report_layers m b st ls)) = List.map ex_type (c_exc st) ++ exc_types k ls.
Proof.
  induction ls as [|l r IH]; intros b st k Hi; cbn [report_layers exc_types].
  - now rewrite app_nil_r.
  - destruct (report_layer_line m b st l k Hi) as (_ & _ & Hi').
    rewrite (IH false _ _ Hi'), (report_layer_exc_type m b st l k Hi).
    destruct (has_stack l); rewrite <- app_assoc; reflexivity.
Qed.

(* the exceptions (outermost first): the innermost one is unnumbered (it is the "top exception"),
   the k-th stack-carrying layer above it has type "(k) file:line (function)" *)
Theorem report_exception_types e :
  stack_count (visit_all e) <> 0%nat ->
  List.map ex_type (rp_exceptions (build_report e)) = rev (exc_types 0 (rev (visit_all e))).
Proof.
  intro Hne.
  unfold build_report. cbn [rp_exceptions]. rewrite rev_involutive.
  match goal with |- context [report_layers ?m ?b ?st ?ls] =>
    pose proof (report_layers_exc_types m ls b st 0) as H;
    pose proof (report_layers_length m b st ls) as HL;
    set (S := report_layers m b st ls) in * end.
  cbn [c_exc List.map app List.length Nat.add] in H, HL.
  rewrite <- H by (split; [reflexivity|split; reflexivity]).
  fold (stack_count (rev (visit_all e))) in HL. rewrite stack_count_rev in HL.
  destruct (c_exc S) as [|y ys]; [cbn [List.length] in HL; congruence|].
  rewrite map_rev. cbn [List.map ex_type]. reflexivity.
Qed.

(* ------------------------------------------------------------------ *)
(* examples and counter-examples *)

Definition show (s : str) : string := string_of_list_ascii (List.map ascii_of_N s).

Definition ex_st1 : stack := [mkframe 1 (lit "main.f") (lit "/a/b.go") 12].
Definition ex_st2 : stack := [mkframe 2 (lit "main.g") (lit "/a/c.go") 34].
(* 4 layers, two of them with a stack trace *)
Definition ex4 : err :=
  Wrap 103%positive (WStack ex_st2)
    (Wrap 102%positive (WHint (lit "h"))
      (Wrap 101%positive (WStack ex_st1) (Leaf 100%positive (LErrString (lit "x"))))).

Example ex4_composition :
  List.length (visit_all ex4) = 4%nat /\
  List.map show (split_on nl (composition_section ex4)) =
    ["*errors.errorString";
     "b.go:12: *withstack.withStack (top exception)";
     "*hintdetail.withHint";
     "c.go:34: *withstack.withStack (1)";
     "(check the extra data payloads)"]%string /\
  List.map show (comp_lines 0 (rev (visit_all ex4))) =
    ["*errors.errorString";
     "b.go:12: *withstack.withStack (top exception)";
     "*hintdetail.withHint";
     "c.go:34: *withstack.withStack (1)"]%string /\
  List.map (fun x => show (ex_type x)) (rp_exceptions (build_report ex4)) =
    ["(1) c.go:34 (g)"; "b.go:12 (f)"]%string.
Proof. vm_compute. repeat split. Qed.

(* safe details appear after the type name; one stack only: no trailer *)
Definition ex5 : err :=
  Wrap 105%positive (WPrefix (lit "pfx"))
    (Wrap 104%positive (WDomain (lit "dom"))
      (Wrap 101%positive (WStack ex_st1) (Leaf 100%positive (LErrString (lit "x"))))).

Example ex5_composition :
  List.map show (split_on nl (composition_section ex5)) =
    ["*errors.errorString";
     "b.go:12: *withstack.withStack (top exception)";
     "*domains.withDomain: dom";
     "*errutil.withPrefix: pfx"]%string.
Proof. vm_compute. reflexivity. Qed.

(* FALSE as a general statement: "every line starts with the type name of its layer".
   The line of a stack-carrying layer starts with the file:line of its innermost frame. *)
Example line_not_prefixed_by_type :
  let l := Wrap 101%positive (WStack ex_st1) (Leaf 100%positive (LErrString (lit "x"))) in
  has_prefix (short_type l) (comp_line 0 l) = false /\
  show (short_type l) = "*withstack.withStack"%string /\
  show (comp_line 0 l) = "b.go:12: *withstack.withStack (top exception)"%string.
Proof. vm_compute. repeat split. Qed.

(* FALSE without a hypothesis on the type names: "the composition section has one line per
   layer".  An opaque layer whose original type name (taken from the wire) contains a newline
   occupies two lines. *)
Definition ex_bad : err :=
  OLeaf 100%positive (lit "m")
    (mkdet (lit "pkg/a" ++ [nl] ++ lit "b") (lit "pkg/a" ++ [nl] ++ lit "b") [] [] None) [].

Example one_line_per_layer_needs_type_names :
  List.length (visit_all ex_bad) = 1%nat /\
  List.length (split_on nl (composition_section ex_bad)) = 2%nat /\
  List.map show (split_on nl (composition_section ex_bad)) = ["a"; "b"]%string /\
  no_nl (short_type ex_bad) = false.
Proof. vm_compute. repeat split. Qed.
