(* C10 at the level of recipes: the Error() text of an error built through the
   public API is given by a compositional function of the recipe alone
   ([spec_text]), for recipes whose strings are "plain" ([ok_recipe]).

   Contents
     1. marked strings: ASCII bytes and redaction markers
     2. printing a list of pieces (redact.Sprintf) on marked strings
     3. the formatting engine in redactable short mode (the counterpart of
        Proofs/ShortText.v for [final_short _ true false])
     4. a tree predicate [aplain] stronger than [plain_tree]
     5. the specification [spec_text], the side conditions [ok_recipe]
     6. the theorem [build_text] *)
From Errv Require Import Base.Str Redact.Markers Redact.Buffer Model.Err Model.Sem Model.Details
     Model.Marks Model.Codec Model.Build
     Proofs.StrFacts Proofs.FastIs Proofs.RedactFacts Proofs.EngineFacts Proofs.HiddenNI
     Proofs.ShortText Proofs.BuildFacts.
From Coq Require Import Lia.

(* ================================================================== *)
(* 1. marked strings                                                   *)
(* ================================================================== *)
Inductive mstr : str -> Prop :=
| ms_nil : mstr []
| ms_byte a b : mstr a -> (b <? 128) = true -> mstr (a ++ [b])
| ms_start a : mstr a -> mstr (a ++ m_start)
| ms_end a : mstr a -> mstr (a ++ m_end).

Lemma mstr_app a b : mstr a -> mstr b -> mstr (a ++ b).
Proof.
  intros Ha Hb. induction Hb as [|b x Hb IH Hx|b Hb IH|b Hb IH].
  - now rewrite app_nil_r.
  - rewrite app_assoc. now constructor.
  - rewrite app_assoc. now constructor.
  - rewrite app_assoc. now constructor.
Qed.

Lemma mstr_ascii s : ascii s = true -> mstr s.
Proof.
  induction s as [|x s IH] using rev_ind; intro H; [constructor|].
  rewrite ascii_app in H. apply andb_true_iff in H as [H1 H2].
  cbn in H2. rewrite andb_true_r in H2. constructor; auto.
Qed.

Lemma mstr_start : mstr m_start.
Proof. exact (ms_start [] ms_nil). Qed.
Lemma mstr_end : mstr m_end.
Proof. exact (ms_end [] ms_nil). Qed.

Lemma strip_app a b : mstr a -> strip_markers (a ++ b) = strip_markers a ++ strip_markers b.
Proof.
  intro Ha. revert b. induction Ha as [|a x Ha IH Hx|a Ha IH|a Ha IH]; intro b.
  - reflexivity.
  - assert (E : no_e2 [x] = true).
    { apply ascii_no_e2. cbn. now rewrite Hx. }
    rewrite <- app_assoc, IH, (IH [x]). rewrite (strip_plain [x] b E).
    replace [x] with ([x] ++ []) at 2 by reflexivity. rewrite (strip_plain [x] [] E).
    cbn. now rewrite <- app_assoc.
  - rewrite <- app_assoc, IH, (IH m_start), strip_start.
    change (strip_markers m_start) with (@nil N). now rewrite app_nil_r.
  - rewrite <- app_assoc, IH, (IH m_end), strip_end.
    change (strip_markers m_end) with (@nil N). now rewrite app_nil_r.
Qed.

Lemma strip_byte x : (x <? 128) = true -> strip_markers [x] = [x].
Proof. intro H. apply strip_ascii. cbn. now rewrite H. Qed.

Lemma mstr_strip_ascii s : mstr s -> ascii (strip_markers s) = true.
Proof.
  induction 1 as [|a x Ha IH Hx|a Ha IH|a Ha IH].
  - reflexivity.
  - rewrite strip_app by assumption. rewrite ascii_app, IH, strip_byte by assumption. cbn. now rewrite Hx.
  - rewrite strip_app by assumption. now rewrite ascii_app, IH.
  - rewrite strip_app by assumption. now rewrite ascii_app, IH.
Qed.

Lemma mstr_no_nl_strip s : mstr s -> no_nl (strip_markers s) = no_nl s.
Proof.
  induction 1 as [|a x Ha IH Hx|a Ha IH|a Ha IH].
  - reflexivity.
  - rewrite strip_app by assumption. rewrite !no_nl_app, IH, strip_byte by assumption. reflexivity.
  - rewrite strip_app by assumption. rewrite !no_nl_app, IH. reflexivity.
  - rewrite strip_app by assumption. rewrite !no_nl_app, IH. reflexivity.
Qed.

Lemma mstr_lri s : mstr s -> last_rune_invalid s = false.
Proof.
  unfold last_rune_invalid. destruct 1 as [|a x Ha Hx|a Ha|a Ha].
  - reflexivity.
  - rewrite rev_app_distr. cbn [rev app last_rune_invalid_rev]. now rewrite Hx.
  - rewrite rev_app_distr. reflexivity.
  - rewrite rev_app_distr. reflexivity.
Qed.

(* a marked string that ends with a closing marker *)
Lemma app_last_inv {A} (a b : list A) x y : a ++ [x] = b ++ [y] -> a = b /\ x = y.
Proof. apply app_inj_tail. Qed.

Lemma mstr_drop_end w : mstr (w ++ m_end) -> mstr w.
Proof.
  intro H. remember (w ++ m_end) as s eqn:E. destruct H as [|a x Ha Hx|a Ha|a Ha].
  - destruct w; discriminate.
  - change m_end with ([226; 128] ++ [186]) in E. rewrite app_assoc in E.
    apply app_last_inv in E as [_ E]. subst x. discriminate.
  - change m_end with ([226; 128] ++ [186]) in E. change m_start with ([226; 128] ++ [185]) in E.
    rewrite !app_assoc in E. apply app_last_inv in E as [_ E]. discriminate.
  - apply app_inv_tail in E. now subst.
Qed.

Lemma strip_drop_end w : mstr w -> strip_markers (w ++ m_end) = strip_markers w.
Proof. intro H. rewrite strip_app by assumption. change (strip_markers m_end) with (@nil N). apply app_nil_r. Qed.

(* escaping a pending ASCII part in safe mode is the identity *)
Lemma esc_false v p : mstr v -> ascii p = true -> escape_from v p false = v ++ p.
Proof.
  intros Hv Hp. destruct p as [|x p].
  - unfold escape_from. rewrite ?frev_eq. cbn [List.length escape_loop rev app].
    pose proof (mstr_lri v Hv) as L. unfold last_rune_invalid in L. rewrite L.
    now rewrite rev_involutive, app_nil_r.
  - apply escape_from_ascii; [discriminate|assumption|discriminate].
Qed.

Definition tagged (t : str) : str := m_start ++ t ++ m_end.

Lemma mstr_tagged t : ascii t = true -> mstr (tagged t).
Proof. intro H. unfold tagged. apply mstr_app; [apply mstr_start|]. apply mstr_app; [now apply mstr_ascii|apply mstr_end]. Qed.

Lemma strip_tagged t : ascii t = true -> strip_markers (tagged t) = t.
Proof.
  intro H. unfold tagged. rewrite strip_start, strip_app by now apply mstr_ascii.
  rewrite (strip_ascii t) by assumption. change (strip_markers m_end) with (@nil N). apply app_nil_r.
Qed.

Lemma escape_bytes_ascii t : unsafe_ok t = true -> escape_bytes t = tagged t.
Proof.
  intro H. destruct (unsafe_ok_parts t H) as (Hne & Ha & Hn).
  unfold escape_bytes, tagged. rewrite escape_from_ascii by (try assumption; intros _; assumption).
  now rewrite <- app_assoc.
Qed.

(* ================================================================== *)
(* 2. printing pieces                                                  *)
(* ================================================================== *)
Definition pc_text (p : piece) : str :=
  match p with
  | PLit s | PSafe s | PUnsafe s => s
  | PRaw r => strip_markers r
  end.

Definition pc_ok (p : piece) : Prop :=
  match p with
  | PLit s | PSafe s => ascii s = true
  | PUnsafe s => unsafe_ok s = true
  | PRaw r => mstr r /\ strip_markers r <> []
  end.

Definition texts (ps : list piece) : str := List.concat (List.map pc_text ps).

Lemma texts_app a b : texts (a ++ b) = texts a ++ texts b.
Proof. unfold texts. now rewrite map_app, concat_app. Qed.

(* the buffer between two arguments *)
Definition bgood (v p : str) : Prop := mstr v /\ ascii p = true /\ (v = [] \/ strip_markers v <> []).

Lemma print_raw_step v p r :
  mstr v -> ascii p = true ->
  print_piece (mkbuf v p SafeEscaped false) (PRaw r) = mkbuf (v ++ p ++ r) [] SafeEscaped false.
Proof.
  intros Hv Hp. unfold print_piece. cbn [bmode].
  assert (S1 : set_mode (mkbuf v p SafeEscaped false) SafeRaw = mkbuf (v ++ p) [] SafeRaw false).
  { unfold set_mode. cbn [bmode omode_eqb bopen]. unfold escape_to_end. cbn [bvalid bpend bmode bopen].
    rewrite esc_false by assumption. unfold validate_all, whole. cbn [bvalid bpend bmode bopen]. now rewrite app_nil_r. }
  rewrite S1. unfold buf_write, start_write. cbn [bmode bopen bvalid bpend app].
  unfold set_mode. cbn [bmode omode_eqb bopen]. unfold validate_all, whole. cbn [bmode bopen bvalid bpend].
  now rewrite <- app_assoc.
Qed.

Lemma print_unsafe_gen v p s :
  mstr v -> ascii p = true -> unsafe_ok s = true ->
  exists v', print_piece (mkbuf v p SafeEscaped false) (PUnsafe s) = mkbuf v' [] SafeEscaped false /\
             mstr v' /\ strip_markers v' = strip_markers v ++ p ++ s.
Proof.
  intros Hv Hp Hu. destruct (unsafe_ok_parts s Hu) as (Hsne & Hsa & Hsn).
  destruct (ascii_snoc s Hsne Hsa) as (q' & y' & Es & Hy').
  assert (S1 : set_mode (mkbuf v p SafeEscaped false) UnsafeEscaped = mkbuf (v ++ p) [] UnsafeEscaped false).
  { unfold set_mode. cbn [bmode omode_eqb bopen]. unfold escape_to_end. cbn [bvalid bpend bmode bopen].
    rewrite esc_false by assumption. unfold validate_all, whole. cbn [bvalid bpend bmode bopen]. now rewrite app_nil_r. }
  assert (Hw : mstr (v ++ p)) by (apply mstr_app; [assumption|now apply mstr_ascii]).
  assert (Sw : strip_markers (v ++ p) = strip_markers v ++ p).
  { rewrite strip_app by assumption. now rewrite (strip_ascii p). }
  (* the region is opened: either a new marker, or the previous closing marker is removed *)
  assert (S2 : exists X, buf_write (mkbuf (v ++ p) [] UnsafeEscaped false) s = mkbuf X s UnsafeEscaped true /\
                         mstr X /\ strip_markers X = strip_markers v ++ p).
  { unfold buf_write, start_write. cbn [bmode bopen]. unfold start_redactable, whole.
    cbn [bvalid bpend bmode bopen]. rewrite app_nil_r.
    destruct (drop_suffix m_end (v ++ p)) as [w'|] eqn:E.
    - apply drop_suffix_spec in E. exists w'. split; [reflexivity|].
      rewrite E in Hw, Sw. pose proof (mstr_drop_end _ Hw) as Hw'. split; [exact Hw'|].
      now rewrite strip_drop_end in Sw.
    - exists ((v ++ p) ++ m_start). split; [reflexivity|]. split; [now constructor|].
      rewrite strip_app by assumption. rewrite Sw. change (strip_markers m_start) with (@nil N). now rewrite app_nil_r. }
  destruct S2 as (X & S2 & HX & SX).
  assert (S3 : set_mode (mkbuf X s UnsafeEscaped true) SafeEscaped = mkbuf ((X ++ s) ++ m_end) [] SafeEscaped false).
  { unfold set_mode. cbn [bmode omode_eqb bopen]. unfold escape_to_end. cbn [bvalid bpend bmode bopen].
    rewrite escape_from_ascii by (try assumption; intros _; assumption).
    cbn [bopen]. unfold end_redactable, whole. cbn [bvalid bpend bmode bopen]. rewrite app_nil_r.
    assert (Hnone : drop_suffix m_start (X ++ s) = None).
    { rewrite Es. apply drop_suffix_marker_none; [exact Hy'|now left]. }
    rewrite Hnone.
    destruct (X ++ s) eqn:E0.
    { exfalso. destruct s; [contradiction|]. apply (f_equal (@List.length N)) in E0.
      rewrite app_length in E0. cbn in E0. lia. }
    rewrite <- E0. clear E0.
    unfold validate_all, whole. cbn [bvalid bpend bmode bopen]. now rewrite app_nil_r. }
  exists ((X ++ s) ++ m_end). unfold print_piece. cbn [bmode]. rewrite S1, S2, S3.
  split; [reflexivity|]. split.
  - constructor. apply mstr_app; [assumption|now apply mstr_ascii].
  - rewrite strip_drop_end by (apply mstr_app; [assumption|now apply mstr_ascii]).
    rewrite strip_app by assumption. rewrite SX, (strip_ascii s) by assumption. now rewrite <- app_assoc.
Qed.

Lemma take_gen v p : mstr v -> ascii p = true -> buf_take (mkbuf v p SafeEscaped false) = v ++ p.
Proof.
  intros Hv Hp. unfold buf_take, buf_finalize. cbn [bmode bopen]. unfold escape_to_end.
  cbn [bvalid bpend bmode bopen]. rewrite esc_false by assumption.
  unfold whole. cbn [bvalid bpend]. now rewrite app_nil_r.
Qed.

Lemma print_pieces_gen ps : Forall pc_ok ps -> forall v p, bgood v p ->
  exists v' p', fold_left print_piece ps (mkbuf v p SafeEscaped false) = mkbuf v' p' SafeEscaped false /\
                bgood v' p' /\ strip_markers v' ++ p' = strip_markers v ++ p ++ texts ps.
Proof.
  induction 1 as [|x ps Hx Hps IH]; intros v p (Hv & Hp & Hz).
  - exists v, p. cbn [fold_left]. unfold texts. cbn. rewrite app_nil_r. repeat split; assumption.
  - cbn [fold_left]. destruct x as [s|s|s|r]; cbn [pc_ok] in Hx.
    + rewrite print_lit_step.
      destruct (IH v (p ++ s)) as (v' & p' & E & G & T).
      { repeat split; try assumption. now rewrite ascii_app, Hp, Hx. }
      exists v', p'. split; [exact E|]. split; [exact G|]. rewrite T. unfold texts. cbn. now rewrite <- !app_assoc.
    + destruct (print_unsafe_gen v p s Hv Hp Hx) as (v1 & E1 & Hv1 & S1). rewrite E1.
      destruct (IH v1 []) as (v' & p' & E & G & T).
      { repeat split; try assumption. right. rewrite S1. destruct (unsafe_ok_parts s Hx) as (Hne & _ & _).
        intro E0. apply app_eq_nil in E0 as [_ E0]. apply app_eq_nil in E0 as [_ E0]. contradiction. }
      exists v', p'. split; [exact E|]. split; [exact G|]. rewrite T, S1. unfold texts. cbn. now rewrite <- !app_assoc.
    + rewrite print_safe_step.
      destruct (IH v (p ++ s)) as (v' & p' & E & G & T).
      { repeat split; try assumption. now rewrite ascii_app, Hp, Hx. }
      exists v', p'. split; [exact E|]. split; [exact G|]. rewrite T. unfold texts. cbn. now rewrite <- !app_assoc.
    + destruct Hx as [Hr Hrn]. rewrite print_raw_step by assumption.
      assert (Hvp : mstr (v ++ p)) by (apply mstr_app; [assumption|now apply mstr_ascii]).
      assert (S1 : strip_markers (v ++ p ++ r) = strip_markers v ++ p ++ strip_markers r).
      { rewrite app_assoc, strip_app by assumption. rewrite strip_app by assumption.
        rewrite (strip_ascii p) by assumption. now rewrite <- app_assoc. }
      destruct (IH (v ++ p ++ r) []) as (v' & p' & E & G & T).
      { repeat split.
        - rewrite app_assoc. now apply mstr_app.
        - right. rewrite S1. intro E0. apply app_eq_nil in E0 as [_ E0]. apply app_eq_nil in E0 as [_ E0]. contradiction. }
      exists v', p'. split; [exact E|]. split; [exact G|]. rewrite T, S1. unfold texts. cbn. now rewrite <- !app_assoc.
Qed.

(* redact.Sprintf of good pieces: a marked string whose content is the concatenation *)
Theorem sprint_ok ps : Forall pc_ok ps ->
  mstr (sprint_pieces ps) /\ strip_markers (sprint_pieces ps) = texts ps /\
  (sprint_pieces ps = [] \/ strip_markers (sprint_pieces ps) <> []).
Proof.
  intro H. unfold sprint_pieces, print_pieces.
  change (set_mode buf_empty SafeEscaped) with (mkbuf [] [] SafeEscaped false).
  destruct (print_pieces_gen ps H [] []) as (v' & p' & E & (Hv & Hp & Hz) & T).
  { repeat split; [constructor|now left]. }
  rewrite E, take_gen by assumption. cbn [app strip_markers tokenize filter untok flat_map] in T.
  assert (S : strip_markers (v' ++ p') = strip_markers v' ++ p').
  { rewrite strip_app by assumption. now rewrite (strip_ascii p'). }
  split; [apply mstr_app; [assumption|now apply mstr_ascii]|].
  split; [now rewrite S|].
  rewrite S. destruct Hz as [-> | Hz].
  - destruct p'; [now left|right; discriminate].
  - right. intro E0. apply app_eq_nil in E0 as [E0 _]. contradiction.
Qed.

(* ================================================================== *)
(* 3. the engine in redactable short mode                              *)
(* ================================================================== *)
Definition rpre (st : fstate) : Prop := fs_buf st = [] /\ fs_redout st = true /\ fs_plus st = false.

(* what formatSingleLineOutput prints for a head [b] in redactable mode *)
Definition rout (red : bool) (b : str) : str :=
  match b with [] => [] | _ => if red then b else escape_bytes b end.

Lemma rout_true b : rout true b = b.
Proof. destruct b; reflexivity. Qed.

Lemma rout_false t : unsafe_ok t = true -> rout false t = tagged t.
Proof.
  intro H. destruct (unsafe_ok_parts t H) as (Hne & _). unfold rout.
  destruct t; [contradiction|]. now apply escape_bytes_ascii.
Qed.

Lemma single_line_cons_red e r acc :
  fe_elide e = false ->
  single_line true (e :: r) acc = single_line true r (sl_add acc (rout (fe_red e) (fe_head e))).
Proof.
  intro H. cbn [single_line]. rewrite H. unfold sl_add, out_bytes, rout. cbn [negb orb].
  destruct (fe_head e) as [|x l]; [reflexivity|].
  destruct (fe_red e); [reflexivity|].
  unfold escape_bytes. destruct (escape_from m_start (x :: l) true); reflexivity.
Qed.

Lemma collect_entry_red_gen st ty red w d :
  fs_wantDetail st = false -> fs_headbuf st = [] -> fs_redout st = true ->
  fe_head (collect_entry st ty red w d) = fs_buf st /\ fe_red (collect_entry st ty red w d) = red.
Proof. intros H1 H2 H3. unfold collect_entry. rewrite H1, H2, H3. destruct red; split; reflexivity. Qed.

Lemma finish_node_proj_red ty own body o wd k st2 n2 :
  let r := body o (reset_st st2) in
  let st4 := if br_elide r then elide_short (br_st r) n2 else br_st r in
  let res := finish_node ty own body o wd k st2 n2 in
  exists e1, fs_entries (fst res) = e1 :: fs_entries st4 /\ fe_elide e1 = false /\
             fe_head e1 = fe_head (collect_entry st4 ty (br_red r) wd k) /\
             fe_red e1 = fe_red (collect_entry st4 ty (br_red r) wd k).
Proof.
  cbv zeta. unfold finish_node. cbv zeta.
  destruct (body o (reset_st st2)) as [bst bred bel bseen]. cbn [br_st br_red br_elide br_seen].
  set (st4 := if bel then elide_short bst n2 else bst).
  destruct bseen; [|destruct own as [stk|]; [destruct (elide_shared (fs_last st4) stk) as [s' el]|]];
    cbn [fst snd fs_buf fs_redout fs_plus fs_entries set_buf set_entries set_last];
    eexists; (split; [reflexivity|]); cbn [fe_elide fe_head fe_red]; (split; [apply collect_entry_elide|]);
    split; reflexivity.
Qed.

(* the body, run on [st3], leaves [h] as what the entry prints *)
Definition rbody_head (r : body_res) (st3 : fstate) (h : str) : Prop :=
  exists b, wrote st3 (br_st r) b /\ rout (br_red r) b = h.

Lemma finish_sl_red ty own body o wd k st2 n2 h acc :
  fs_redout st2 = true -> fs_buf st2 = [] ->
  rbody_head (body o (reset_st st2)) (reset_st st2) h ->
  single_line true (fs_entries (fst (finish_node ty own body o wd k st2 n2))) acc =
  single_line true (if br_elide (body o (reset_st st2)) then mark_first n2 (fs_entries st2) else fs_entries st2)
              (sl_add acc h).
Proof.
  intros R B (b & W & Hh).
  pose proof (finish_node_proj_red ty own body o wd k st2 n2) as F. cbv zeta in F.
  destruct F as (e1 & F5 & F6 & F7 & F8).
  rewrite F5, (single_line_cons_red _ _ _ F6), F7, F8. clear F5 F6 F7 F8.
  destruct W as [W1 W2 W3 W4 W5 W6]. cbn [reset_st fs_redout fs_plus fs_entries fs_headbuf fs_wantDetail fs_buf] in *.
  set (r := body o (reset_st st2)) in *.
  destruct (collect_entry_red_gen (if br_elide r then elide_short (br_st r) n2 else br_st r) ty (br_red r) wd k) as [E1 E2].
  - destruct (br_elide r); cbn [elide_short set_entries fs_wantDetail]; exact W5.
  - destruct (br_elide r); cbn [elide_short set_entries fs_headbuf]; exact W4.
  - destruct (br_elide r); cbn [elide_short set_entries fs_redout]; rewrite W1; exact R.
  - rewrite E1, E2.
    replace (fs_buf (if br_elide r then elide_short (br_st r) n2 else br_st r)) with b
      by (destruct (br_elide r); cbn [elide_short set_entries fs_buf]; rewrite W6, B; reflexivity).
    rewrite Hh. f_equal.
    destruct (br_elide r); [unfold elide_short; cbn [set_entries fs_entries]|]; now rewrite W3.
Qed.

Lemma node_elide_red ty single multi own body h :
  match single with Some sc => frame_ok (ns_fmt sc) | None => True end ->
  Forall (fun m => frame_ok (ns_fmt m)) multi ->
  (forall o st3, clean st3 -> rbody_head (body o st3) st3 h) ->
  (forall o st3, clean st3 -> br_elide (body o st3) = true) \/ (single = None /\ multi = []) ->
  forall o wd k st acc, rpre st ->
    single_line true (fs_entries (fst (format_node ty single multi own body o false wd k st))) acc =
    single_line true (fs_entries st) (sl_add acc h).
Proof.
  intros Hs Hm Hb Hel o wd k st acc (B & R & P). rewrite format_node_split.
  destruct (run_kids_frame single multi wd k st Hs Hm) as (B2 & R2 & P2 & Ec & E & L).
  assert (Hnone : single = None /\ multi = [] -> run_kids single multi wd k st = (st, 0%nat)).
  { intros [-> ->]. reflexivity. }
  destruct (run_kids single multi wd k st) as [st2 n2]. cbn [fst snd] in *.
  assert (C : clean (reset_st st2)) by (apply clean_reset; [congruence|auto]).
  rewrite (finish_sl_red ty own body o wd k st2 n2 h acc); [|congruence|auto|apply Hb; exact C].
  destruct Hel as [Hel|Hel].
  - rewrite (Hel o _ C). rewrite E, <- L. apply single_line_marked.
  - specialize (Hnone Hel). injection Hnone as -> ->.
    destruct (br_elide _); [|reflexivity]. cbn [mark_first]. destruct (fs_entries st); reflexivity.
Qed.

(* the invariant: [R] is the redactable one-line rendering of [e] *)
Definition red_ok (e : err) (R : str) : Prop :=
  forall o wd k st acc, rpre st ->
    single_line true (fs_entries (fst (ns_fmt (sem e) o false wd k st))) acc =
    single_line true (fs_entries st) (sl_add acc R).

Definition rgood (e : err) (R : str) : Prop :=
  red_ok e R /\ mstr R /\ strip_markers R = ns_text (sem e).

Lemma red_ok_final e R : red_ok e R -> final_short (sem e) true false = R.
Proof.
  intro H. unfold final_short.
  specialize (H true false 0%nat (st_init true false) []).
  destruct (ns_fmt (sem e) true false false 0%nat (st_init true false)) as [st n].
  cbn [fst] in H. rewrite H by (repeat split). cbn [st_init fs_entries single_line].
  apply sl_add_nil_l.
Qed.

Lemma node_keep_red ty c own body h Rc :
  red_ok c Rc -> Rc <> [] ->
  (forall o st3, clean st3 -> rbody_head (body o st3) st3 h) ->
  (forall o st3, clean st3 -> br_elide (body o st3) = false) ->
  forall o wd k st acc, rpre st ->
    single_line true (fs_entries (fst (format_node ty (Some (sem c)) [] own body o false wd k st))) acc =
    single_line true (fs_entries st)
                (sl_add acc (match h with [] => Rc | _ => h ++ colon_sp ++ Rc end)).
Proof.
  intros Hc Ht Hb Hel o wd k st acc (B & R & P). rewrite format_node_split.
  unfold run_kids. cbn [fold_left].
  destruct (sem_frame c false wd (S k) st) as (B2 & R2 & P2 & _).
  specialize (Hc false wd (S k) st).
  destruct (ns_fmt (sem c) false false wd (S k) st) as [st2 n2]. cbn [fst snd] in *.
  assert (C : clean (reset_st st2)) by (apply clean_reset; [congruence|auto]).
  rewrite (finish_sl_red ty own body o wd k st2 n2 h acc); [|congruence|auto|apply Hb; exact C].
  rewrite (Hel o _ C). rewrite Hc by (repeat split; assumption).
  now rewrite sl_add_assoc.
Qed.

(* ---- the ways a body prints its head ---- *)
Lemma rbh_none st red el sn : rbody_head (mkbody st red el sn) st [].
Proof. exists []. split; [apply wrote_nil|]. destruct red; reflexivity. Qed.

Lemma rbh_direct st t el sn :
  unsafe_ok t = true -> clean st -> rbody_head (mkbody (st_write st t) false el sn) st (tagged t).
Proof.
  intros Hu (_ & H0 & _). destruct (unsafe_ok_parts t Hu) as (_ & _ & Hn).
  exists t. split; [now apply st_write_wrote|]. cbn [br_red]. now apply rout_false.
Qed.

Lemma rbh_safe st t el sn :
  ascii t = true -> no_nl t = true -> clean st ->
  rbody_head (mkbody (sp_print st [PSafe t]) true el sn) st t.
Proof.
  intros Ha Hn (_ & H0 & _). exists t. split.
  - unfold sp_print. rewrite sprint_safe_ascii by assumption. now apply st_write_wrote.
  - cbn [br_red]. apply rout_true.
Qed.

Lemma rbh_raw st s el sn :
  mstr s -> no_nl s = true -> clean st ->
  rbody_head (mkbody (sp_print st [PRaw s]) true el sn) st s.
Proof.
  intros Hm Hn (_ & H0 & _). exists s. split; [|apply rout_true].
  unfold sp_print. rewrite sprint_raw by now apply mstr_lri. now apply st_write_wrote.
Qed.

Lemma no_nl_tagged t : no_nl (tagged t) = no_nl t.
Proof. unfold tagged. rewrite !no_nl_app. change (no_nl m_start) with true. change (no_nl m_end) with true. now rewrite andb_true_r. Qed.

Lemma rbh_unsafe st s el sn :
  unsafe_ok s = true -> clean st ->
  rbody_head (mkbody (sp_print st [PUnsafe s]) true el sn) st (tagged s).
Proof.
  intros Hu (_ & H0 & _). destruct (unsafe_ok_parts s Hu) as (Hne & Ha & Hn).
  exists (tagged s). split; [|apply rout_true].
  unfold sp_print. rewrite sprint_unsafe_ascii by assumption. apply st_write_wrote; [|assumption].
  fold (tagged s). now rewrite no_nl_tagged.
Qed.

Lemma rbh_printed st ps out el sn :
  sprint_pieces ps = out -> no_nl out = true -> clean st ->
  rbody_head (mkbody (sp_print st ps) true el sn) st out.
Proof.
  intros Hp Hn (_ & H0 & _). exists out. split; [|apply rout_true].
  unfold sp_print. rewrite Hp. now apply st_write_wrote.
Qed.

(* R is either the text or the text between markers *)
Definition shown (R t : str) : Prop := R = t \/ R = tagged t.

Lemma shown_mstr R t : ascii t = true -> shown R t -> mstr R /\ strip_markers R = t.
Proof.
  intros Ha [-> | ->].
  - split; [now apply mstr_ascii|now apply strip_ascii].
  - split; [now apply mstr_tagged|now apply strip_tagged].
Qed.

(* the default branch on a leaf-like node: safe printer or direct write *)
Lemma rbh_default_leaf e text sent il hm :
  (forall i w c, e <> Wrap i w c) -> unsafe_ok text = true ->
  (match e with Leaf _ (LUser ULSafeMsg m _ _) => m = text | _ => True end) ->
  exists R, shown R text /\
    forall st, clean st -> rbody_head (default_body e text sent il hm None st) st R.
Proof.
  intros Hnw Hu Hm. destruct (unsafe_ok_parts text Hu) as (Hne & Ha & Hn).
  unfold default_body. destruct (il && sent).
  - exists text. split; [now left|]. intros st0 C. now apply rbh_safe.
  - destruct e as [i k|i w c| | | | |];
      try (exists (tagged text); split; [now right|]; intros st0 C; unfold format_simple; now apply rbh_direct).
    + destruct k as [| | | | | | | | | | |u m ? ?];
        try (exists (tagged text); split; [now right|]; intros st0 C; unfold format_simple; now apply rbh_direct).
      * exists text. split; [now left|]. intros st0 C. now apply rbh_safe.
      * destruct u;
          try (exists (tagged text); split; [now right|]; intros st0 C; unfold format_simple; now apply rbh_direct).
        subst m. exists text. split; [now left|]. intros st0 C. now apply rbh_safe.
    + exfalso. now apply (Hnw i w c).
Qed.

(* ================================================================== *)
(* 4. ASCII-plain trees                                                *)
(* ================================================================== *)
(* a redactable message: marked ASCII, one line, not empty once stripped *)
Definition rawmsg (s : str) : Prop := mstr s /\ no_nl s = true /\ strip_markers s <> [].

(* a wrapper printed through formatSimple / extractPrefix: its whole text [t]
   against the cause's text [ct] *)
Definition simple_cond (t ct : str) : Prop := unsafe_ok t = true /\ t <> colon_sp ++ ct.

Definition aleaf (k : leafk) : Prop :=
  match k with
  | LLeafError rm => rawmsg rm
  | _ => unsafe_ok (leaf_text k) = true
  end.

Definition awrap (w : wlayer) (c : err) : Prop :=
  match w with
  | WPrefix rp => rp = [] \/ rawmsg rp
  | WNewMsg rm => rawmsg rm
  | WStack _ | WHint _ | WDetail _ | WIssueLink _ _ | WTelemetry _ | WDomain _ | WContext _ _
  | WAssert | WMark _ | WSafeDetails _ | WHTTP _ | WGrpc _ => True
  | WFmtWrap _ | WPkgMsg _ | WPkgStack _ | WUser _ _ _ =>
    simple_cond (wrap_text w (sem c) (lib_format c)) (ns_text (sem c))
  | WSyscallError sc => unsafe_ok sc = true
  | WPathError op path => ascii op = true /\ no_nl op = true /\ unsafe_ok path = true
  | WLinkError op old new => ascii op = true /\ no_nl op = true /\ unsafe_ok old = true /\ unsafe_ok new = true
  | WOpError op net src addr => operror_ok op net src addr = true     (* plain strings, not both src and addr *)
  end.

Fixpoint aplain (e : err) : Prop :=
  match e with
  | Leaf _ k => aleaf k
  | Wrap _ w c => aplain c /\ awrap w c
  | Second _ c _ => aplain c
  | Barrier _ smsg _ => rawmsg smsg
  | Multi _ k cs =>
    match k with
    | MFmtWraps msg => unsafe_ok msg = true
    | _ => cs <> [] /\
           (fix all (l : list err) : Prop :=
              match l with
              | [] => True
              | c :: r => (aplain c /\ no_nl (error_text c) = true) /\ all r
              end) cs
    end
  | OLeaf _ _ _ _ | OWrap _ _ _ _ _ => False
  end.

Definition one_line (c : err) : Prop := aplain c /\ no_nl (error_text c) = true.

Lemma aplain_all cs :
  (fix all (l : list err) : Prop :=
     match l with
     | [] => True
     | c :: r => (aplain c /\ no_nl (error_text c) = true) /\ all r
     end) cs <-> Forall one_line cs.
Proof.
  induction cs as [|c cs IH]; split; intro H.
  - constructor.
  - exact I.
  - destruct H as [H1 H2]. constructor; [exact H1|now apply IH].
  - inversion H; subst. split; [assumption|]. now apply IH.
Qed.

Lemma aplain_join i cs : cs <> [] -> Forall one_line cs -> aplain (Multi i MJoin cs).
Proof. intros H1 H2. cbn [aplain]. split; [exact H1|]. now apply aplain_all. Qed.
Lemma aplain_stdjoin i cs : cs <> [] -> Forall one_line cs -> aplain (Multi i MStdJoin cs).
Proof. intros H1 H2. cbn [aplain]. split; [exact H1|]. now apply aplain_all. Qed.

(* what the tree-level theorem gives *)
Definition agood (e : err) : Prop :=
  plain_tree e = true /\ ascii (error_text e) = true /\
  (no_nl (error_text e) = true -> exists R, rgood e R).

(* ---- small facts ---- *)
Lemma rawmsg_ok s : rawmsg s -> raw_msg_ok s = true.
Proof.
  intros (Hm & Hn & Hs). unfold raw_msg_ok, raw_ok. rewrite Hn, (mstr_lri s Hm). cbn.
  destruct (strip_markers s); [contradiction|reflexivity].
Qed.

Lemma unsafe_direct t safe : unsafe_ok t = true -> direct_ok t safe = true.
Proof.
  unfold unsafe_ok, direct_ok. intro H. apply andb_true_iff in H as [H H3]. apply andb_true_iff in H as [H1 H2].
  now rewrite H1, H2, H3.
Qed.

Lemma unsafe_ok_intro t : t <> [] -> ascii t = true -> no_nl t = true -> unsafe_ok t = true.
Proof. intros H1 H2 H3. unfold unsafe_ok. rewrite H2, H3. destruct t; [contradiction|reflexivity]. Qed.

Lemma simple_cond_ok t ct : simple_cond t ct -> simple_ok t ct true = true.
Proof.
  intros [Hu Hne]. destruct (unsafe_ok_parts t Hu) as (Ht & Ha & Hn).
  unfold simple_ok. rewrite Hn. cbn [andb].
  destruct (extract_prefix t ct) as [p mt] eqn:E.
  destruct (extract_prefix_spec _ _ _ _ E) as [[-> ->]|[(-> & -> & Hc)|(-> & Hp & Hc)]].
  - cbn. destruct t; [contradiction|reflexivity].
  - cbn. destruct Hc as [Hc|Hc]; [|contradiction]. subst. now rewrite str_eqb_refl.
  - cbn. destruct p; [contradiction|reflexivity].
Qed.

Lemma rgood_ne c Rc : rgood c Rc -> ns_text (sem c) <> [] -> Rc <> [].
Proof. intros (_ & _ & Hs) Hne ->. apply Hne. rewrite <- Hs. reflexivity. Qed.

Lemma colon_sp_ascii : ascii colon_sp = true. Proof. reflexivity. Qed.
Lemma colon_sp_no_nl : no_nl colon_sp = true. Proof. reflexivity. Qed.

(* ---- leaves ---- *)
Ltac ldef i k H :=
  let R := fresh "R" in let HS := fresh "HS" in let HR := fresh "HR" in
  let Ha := fresh "Ha" in let HM := fresh "HM" in let HT := fresh "HT" in
  destruct (rbh_default_leaf (Leaf i k) (leaf_text k) (ns_sent (sem (Leaf i k))) true false) as (R & HS & HR);
    [discriminate|exact H|first [exact I|reflexivity]|];
  destruct (unsafe_ok_parts _ H) as (_ & Ha & _);
  destruct (shown_mstr _ _ Ha HS) as [HM HT];
  exists R; split; [|split; [exact HM|exact HT]];
  intros o wd kk st acc Hpre; cbn [sem ns_fmt];
  apply node_elide_red; [exact I|constructor|intros o' st3 C; exact (HR st3 C)|right; split; reflexivity|exact Hpre].

Lemma red_leaf i k : aleaf k -> exists R, rgood (Leaf i k) R.
Proof.
  intro H.
  destruct k as [m| |m stk|n|m p|rm|m url det|c m|c m| |m|u m tg xs]; cbn [aleaf] in H.
  - ldef i (LErrString m) H.
  - ldef i LDeadline H.
  - (* LPkgFund *)
    cbn [leaf_text] in H. destruct (unsafe_ok_parts _ H) as (_ & Ha & _).
    exists (tagged m). split; [|split; [now apply mstr_tagged|now apply strip_tagged]].
    intros o wd kk st acc Hpre. cbn [sem ns_fmt].
    apply node_elide_red; [exact I|constructor| |right; split; reflexivity|exact Hpre].
    intros o' st3 C. destruct (negb o').
    + destruct (rbh_direct st3 m false true H C) as (b & W & Hb). exists b. split; [|exact Hb].
      cbn [br_st] in *. apply wrote_set_last. unfold fundamental_format. cbv zeta.
      destruct C as (_ & _ & -> & _). exact W.
    + unfold format_simple. now apply rbh_direct.
  - ldef i (LErrno n) H.
  - ldef i (LOpaqueErrno m p) H.
  - (* LLeafError *)
    destruct H as (Hm & Hn & Hs). exists rm. split; [|split; [exact Hm|reflexivity]].
    intros o wd kk st acc Hpre. cbn [sem ns_fmt].
    apply node_elide_red; [exact I|constructor| |right; split; reflexivity|exact Hpre].
    intros o' st3 C. unfold body_safe. now apply rbh_raw.
  - (* LUnimpl *)
    cbn [leaf_text] in H. destruct (unsafe_ok_parts _ H) as (_ & Ha & _).
    exists (tagged m). split; [|split; [now apply mstr_tagged|now apply strip_tagged]].
    intros o wd kk st acc Hpre. cbn [sem ns_fmt].
    apply node_elide_red; [exact I|constructor| |right; split; reflexivity|exact Hpre].
    intros o' st3 C. unfold body_safe.
    rewrite if_detail_short by (rewrite sp_print_wd; apply C). now apply rbh_unsafe.
  - ldef i (LGrpcStatus c m) H.
  - ldef i (LGogoStatus c m) H.
  - ldef i LTestError H.
  - ldef i (LFmtWrapNil m) H.
  - destruct u.
    + ldef i (LUser ULPlain m tg xs) H.
    + ldef i (LUser ULVal m tg xs) H.
    + ldef i (LUser ULNoCmp m tg xs) H.
    + ldef i (LUser ULIsTag m tg xs) H.
    + ldef i (LUser ULSafeDet m tg xs) H.
    + ldef i (LUser ULSafeMsg m tg xs) H.
    + ldef i (LUser ULHint m tg xs) H.
    + ldef i (LUser ULDual m tg xs) H.
Qed.

Lemma agood_leaf i k : aleaf k -> agood (Leaf i k).
Proof.
  intro H. split; [|split].
  - cbn [plain_tree].
    destruct k as [m| |m stk|n|m p|rm|m url det|c m|c m| |m|u m tg xs]; cbn [aleaf plain_leaf] in *;
      try (now apply unsafe_direct); try contradiction.
    + cbn [leaf_text] in H. destruct (unsafe_ok_parts _ H) as (Hne & _ & Hn). rewrite Hn.
      destruct m; [contradiction|reflexivity].
    + now apply rawmsg_ok.
    + exact H.
    + destruct u; now apply unsafe_direct.
  - change (ascii (leaf_text k) = true).
    destruct k; cbn [aleaf leaf_text] in *; try (now apply unsafe_ok_parts in H); try contradiction.
    apply mstr_strip_ascii, H.
  - intros _. now apply red_leaf.
Qed.

(* ---- single-cause wrappers ---- *)
Definition wrap_fbody (i : oid) (w : wlayer) (c : err) : bool -> fstate -> body_res :=
  fun (outermost : bool) (st : fstate) =>
    match wrap_body w st with
    | Some (st1, next_nil, red) => mkbody st1 red next_nil false
    | None =>
      match w with
      | WPkgMsg _ | WPkgStack _ =>
        let '(st1, el) := format_simple st (ns_text (sem (Wrap i w c))) (Some (ns_text (sem c))) in
        mkbody st1 false el false
      | _ => default_body (Wrap i w c) (ns_text (sem (Wrap i w c))) (ns_sent (sem (Wrap i w c)))
                          false false (Some (ns_text (sem c))) st
      end
    end.

Lemma wrap_fmt i w c :
  ns_fmt (sem (Wrap i w c)) =
  format_node (go_type_string (Wrap i w c)) (Some (sem c)) [] (wrap_stack w) (wrap_fbody i w c).
Proof. reflexivity. Qed.

Lemma rgood_wrap_keep0 i w c Rc :
  rgood c Rc -> ns_text (sem c) <> [] ->
  ns_text (sem (Wrap i w c)) = ns_text (sem c) ->
  (forall o st3, clean st3 -> rbody_head (wrap_fbody i w c o st3) st3 [] /\
                              br_elide (wrap_fbody i w c o st3) = false) ->
  rgood (Wrap i w c) Rc.
Proof.
  intros Hc Hne Ht Hb. pose proof (rgood_ne _ _ Hc Hne) as HR. destruct Hc as (Hc & Hm & Hs).
  split; [|split; [exact Hm|now rewrite Ht]].
  intros o wd k st acc Hpre. rewrite wrap_fmt.
  rewrite (node_keep_red _ c _ _ [] Rc Hc HR); [reflexivity| | |exact Hpre].
  - intros o' st3 C. apply Hb, C.
  - intros o' st3 C. apply Hb, C.
Qed.

Lemma rgood_wrap_keep1 i w c Rc h :
  rgood c Rc -> ns_text (sem c) <> [] -> mstr h -> h <> [] ->
  ns_text (sem (Wrap i w c)) = strip_markers h ++ colon_sp ++ ns_text (sem c) ->
  (forall o st3, clean st3 -> rbody_head (wrap_fbody i w c o st3) st3 h /\
                              br_elide (wrap_fbody i w c o st3) = false) ->
  rgood (Wrap i w c) (h ++ colon_sp ++ Rc).
Proof.
  intros Hc Hne Hh Hhne Ht Hb. pose proof (rgood_ne _ _ Hc Hne) as HR. destruct Hc as (Hc & Hm & Hs).
  split; [|split].
  - intros o wd k st acc Hpre. rewrite wrap_fmt.
    rewrite (node_keep_red _ c _ _ h Rc Hc HR); [destruct h; [contradiction|reflexivity]| | |exact Hpre].
    + intros o' st3 C. apply Hb, C.
    + intros o' st3 C. apply Hb, C.
  - apply mstr_app; [exact Hh|]. apply mstr_app; [now apply mstr_ascii|exact Hm].
  - rewrite strip_app by exact Hh. rewrite strip_app by now apply mstr_ascii.
    rewrite (strip_ascii colon_sp) by reflexivity. now rewrite Hs, Ht.
Qed.

Lemma rgood_wrap_elide i w c h :
  mstr h -> ns_text (sem (Wrap i w c)) = strip_markers h ->
  (forall o st3, clean st3 -> rbody_head (wrap_fbody i w c o st3) st3 h /\
                              br_elide (wrap_fbody i w c o st3) = true) ->
  rgood (Wrap i w c) h.
Proof.
  intros Hh Ht Hb. split; [|split; [exact Hh|now rewrite Ht]].
  intros o wd k st acc Hpre. rewrite wrap_fmt.
  apply node_elide_red; [apply sem_frame|constructor| |left|exact Hpre].
  - intros o' st3 C. apply Hb, C.
  - intros o' st3 C. apply Hb, C.
Qed.

Definition is_simple (w : wlayer) : Prop :=
  match w with WFmtWrap _ | WPkgMsg _ | WPkgStack _ | WUser _ _ _ => True | _ => False end.

Lemma wrap_fbody_simple i w c p mt o st3 :
  is_simple w ->
  extract_prefix (ns_text (sem (Wrap i w c))) (ns_text (sem c)) = (p, mt) ->
  wrap_fbody i w c o st3 = mkbody (st_write st3 p) false (mt =? 1) false.
Proof.
  intros Hk E. unfold wrap_fbody.
  destruct w; try contradiction; cbn [wrap_body]; try (unfold default_body; cbn [andb]);
    rewrite (format_simple_some _ _ _ _ _ E); try rewrite orb_false_r; reflexivity.
Qed.

Lemma red_simple i w c :
  is_simple w -> agood c -> ns_text (sem c) <> [] ->
  simple_cond (ns_text (sem (Wrap i w c))) (ns_text (sem c)) ->
  no_nl (ns_text (sem (Wrap i w c))) = true -> exists R, rgood (Wrap i w c) R.
Proof.
  intros Hk (Pc & Ac & Rc) Hcne [Hu Hnc] Hn.
  destruct (unsafe_ok_parts _ Hu) as (Htne & Hta & _).
  destruct (extract_prefix (ns_text (sem (Wrap i w c))) (ns_text (sem c))) as [p mt] eqn:E.
  destruct (extract_prefix_spec _ _ _ _ E) as [[-> ->]|[(-> & -> & Hc)|(-> & Hp & Hc)]].
  - (* the whole message; the cause is elided *)
    exists (tagged (ns_text (sem (Wrap i w c)))).
    apply rgood_wrap_elide; [now apply mstr_tagged|now rewrite strip_tagged|].
    intros o st3 C. rewrite (wrap_fbody_simple _ _ _ _ _ o st3 Hk E). split; [|reflexivity].
    now apply rbh_direct.
  - (* no prefix *)
    destruct Hc as [Hc|Hc]; [|contradiction].
    destruct Rc as [R HR]; [unfold error_text; now rewrite <- Hc|].
    exists R. apply rgood_wrap_keep0; try assumption.
    intros o st3 C. rewrite (wrap_fbody_simple _ _ _ _ _ o st3 Hk E). split; [|reflexivity].
    apply rbh_none.
  - (* prefix: cause *)
    rewrite Hc, !no_nl_app in Hn. apply andb_true_iff in Hn as [Hnp Hn]. apply andb_true_iff in Hn as [_ Hn].
    rewrite Hc, !ascii_app in Hta. apply andb_true_iff in Hta as [Hap _].
    destruct Rc as [R HR]; [exact Hn|].
    assert (Hup : unsafe_ok p = true) by now apply unsafe_ok_intro.
    exists (tagged p ++ colon_sp ++ R). apply rgood_wrap_keep1; try assumption.
    + now apply mstr_tagged.
    + discriminate.
    + now rewrite strip_tagged.
    + intros o st3 C. rewrite (wrap_fbody_simple _ _ _ _ _ o st3 Hk E). split; [|reflexivity].
      now apply rbh_direct.
Qed.

Lemma wrap_fbody_lib i w c o st3 :
  fs_wantDetail st3 = false ->
  wrap_fbody i w c o st3 =
  match w with
  | WPrefix rp => mkbody (sp_print st3 [PRaw rp]) true false false
  | WNewMsg rm => mkbody (sp_print st3 [PRaw rm]) true true false
  | WHint _ | WDetail _ => mkbody st3 false false false
  | WStack _ | WIssueLink _ _ | WTelemetry _ | WDomain _ | WContext _ _
  | WAssert | WMark _ | WSafeDetails _ | WHTTP _ | WGrpc _ => mkbody st3 true false false
  | _ => wrap_fbody i w c o st3
  end.
Proof. intro H. unfold wrap_fbody. rewrite wrap_body_clean by exact H. destruct w; reflexivity. Qed.

Lemma agood_wrap i w c : agood c -> awrap w c -> agood (Wrap i w c).
Proof.
  intros Hc Hw. pose proof Hc as (Pc & Ac & Rc).
  pose proof (plain_short_ok c Pc) as Sc. pose proof (proj1 Sc) as Hcne.
  unfold error_text in *.
  (* annotation-only layers *)
  assert (Hann : annotation w = true -> agood (Wrap i w c)).
  { intro Ha. assert (Ht : ns_text (sem (Wrap i w c)) = ns_text (sem c)) by (destruct w; try discriminate; reflexivity).
    split; [|split].
    - destruct w; try discriminate; exact Pc.
    - unfold error_text. now rewrite Ht.
    - unfold error_text. rewrite Ht. intro Hn. destruct (Rc Hn) as [R HR]. exists R.
      apply rgood_wrap_keep0; try assumption.
      intros o st3 C. rewrite wrap_fbody_lib by apply C.
      destruct w; try discriminate; (split; [apply rbh_none|reflexivity]). }
  (* formatSimple layers *)
  assert (Hsim : is_simple w ->
                 simple_cond (ns_text (sem (Wrap i w c))) (ns_text (sem c)) -> agood (Wrap i w c)).
  { intros Hk Hs. split; [|split].
    - assert (E : plain_tree (Wrap i w c) =
                  simple_ok (ns_text (sem (Wrap i w c))) (ns_text (sem c)) (plain_tree c))
        by (destruct w; try contradiction; reflexivity).
      rewrite E, Pc. now apply simple_cond_ok.
    - destruct Hs as [Hu _]. now apply unsafe_ok_parts in Hu.
    - intro Hn. now apply red_simple. }
  destruct w; cbn [awrap] in Hw; try (apply Hann; reflexivity); try (apply Hsim; [exact I|exact Hw]).
  - (* WPrefix *)
    assert (Ht : ns_text (sem (Wrap i (WPrefix rp) c)) =
                 match rp with [] => ns_text (sem c) | _ => strip_markers rp ++ colon_sp ++ ns_text (sem c) end).
    { cbn [sem ns_text wrap_text]. now rewrite (cause_v_eq c Sc). }
    destruct Hw as [-> | Hw].
    + split; [|split].
      * cbn [plain_tree is_empty orb andb]. exact Pc.
      * unfold error_text. now rewrite Ht.
      * unfold error_text. rewrite Ht. intro Hn. destruct (Rc Hn) as [R HR]. exists R.
        apply rgood_wrap_keep0; try assumption.
        intros o st3 C. rewrite wrap_fbody_lib by apply C. split; [|reflexivity].
        exists []. split; [|reflexivity]. unfold sp_print.
        change (sprint_pieces [PRaw []]) with (@nil N). apply wrote_nil.
    + pose proof Hw as (Hm & Hn & Hs).
      assert (Hrp : rp <> []) by (intros ->; now apply Hs).
      assert (Ht' : ns_text (sem (Wrap i (WPrefix rp) c)) = strip_markers rp ++ colon_sp ++ ns_text (sem c)).
      { rewrite Ht. destruct rp; [contradiction|reflexivity]. }
      split; [|split].
      * cbn [plain_tree]. rewrite (rawmsg_ok rp Hw), Pc. now rewrite orb_true_r.
      * unfold error_text. rewrite Ht', !ascii_app, Ac, (mstr_strip_ascii rp Hm). reflexivity.
      * unfold error_text. rewrite Ht', !no_nl_app. intro Hn'.
        apply andb_true_iff in Hn' as [_ Hn']. apply andb_true_iff in Hn' as [_ Hn'].
        destruct (Rc Hn') as [R HR]. exists (rp ++ colon_sp ++ R).
        apply rgood_wrap_keep1; try assumption.
        intros o st3 C. rewrite wrap_fbody_lib by apply C. split; [|reflexivity]. now apply rbh_raw.
  - (* WNewMsg *)
    pose proof Hw as (Hm & Hn & Hs). split; [|split].
    + cbn [plain_tree]. now apply rawmsg_ok.
    + change (ascii (strip_markers rm) = true). now apply mstr_strip_ascii.
    + intros _. exists rm. apply rgood_wrap_elide; [exact Hm|reflexivity|].
      intros o st3 C. rewrite wrap_fbody_lib by apply C. split; [|reflexivity]. now apply rbh_raw.
  - (* WPathError *)
    destruct Hw as (Ha & Hn & Hu). destruct (unsafe_ok_parts path Hu) as (Hne & Hpa & Hpn).
    split; [|split].
    + cbn [plain_tree]. now rewrite Ha, Hn, Hu, Pc.
    + change (ascii (op ++ [sp] ++ path ++ colon_sp ++ ns_text (sem c)) = true).
      now rewrite !ascii_app, Ha, Hpa, Ac.
    + change (no_nl (op ++ [sp] ++ path ++ colon_sp ++ ns_text (sem c)) = true -> exists R, rgood (Wrap i (WPathError op path) c) R).
      rewrite !no_nl_app. intro Hn'. repeat (apply andb_true_iff in Hn' as [_ Hn']).
      destruct (Rc Hn') as [R HR]. exists ((op ++ [sp] ++ tagged path) ++ colon_sp ++ R).
      assert (Hh : mstr (op ++ [sp] ++ tagged path)).
      { apply mstr_app; [now apply mstr_ascii|]. apply mstr_app; [now apply mstr_ascii|now apply mstr_tagged]. }
      assert (Hs : strip_markers (op ++ [sp] ++ tagged path) = op ++ [sp] ++ path).
      { rewrite strip_app by now apply mstr_ascii. rewrite strip_app by now apply mstr_ascii.
        rewrite (strip_ascii op), (strip_ascii [sp]), strip_tagged by (assumption || reflexivity). reflexivity. }
      apply rgood_wrap_keep1; try assumption.
      * destruct op; discriminate.
      * rewrite Hs. cbn [sem ns_text wrap_text]. now rewrite <- !app_assoc.
      * intros o st3 C. split; [|reflexivity]. unfold wrap_fbody. cbn [wrap_body]. unfold default_body. cbn [andb].
        apply rbh_printed; [apply (sprint_path op path Ha Hu)| |exact C].
        fold (tagged path). now rewrite !no_nl_app, Hn, no_nl_tagged, Hpn.
  - (* WLinkError *)
    destruct Hw as (Ha & Hn & Hu1 & Hu2).
    destruct (unsafe_ok_parts old Hu1) as (Hne1 & Ha1 & Hn1).
    destruct (unsafe_ok_parts new Hu2) as (Hne2 & Ha2 & Hn2).
    split; [|split].
    + cbn [plain_tree]. now rewrite Ha, Hn, Hu1, Hu2, Pc.
    + change (ascii (op ++ [sp] ++ old ++ [sp] ++ new ++ colon_sp ++ ns_text (sem c)) = true).
      now rewrite !ascii_app, Ha, Ha1, Ha2, Ac.
    + change (no_nl (op ++ [sp] ++ old ++ [sp] ++ new ++ colon_sp ++ ns_text (sem c)) = true ->
              exists R, rgood (Wrap i (WLinkError op old new) c) R).
      rewrite !no_nl_app. intro Hn'. repeat (apply andb_true_iff in Hn' as [_ Hn']).
      destruct (Rc Hn') as [R HR].
      exists ((op ++ [sp] ++ tagged old ++ [sp] ++ tagged new) ++ colon_sp ++ R).
      assert (Hh : mstr (op ++ [sp] ++ tagged old ++ [sp] ++ tagged new)).
      { repeat (apply mstr_app; [first [now apply mstr_ascii|now apply mstr_tagged]|]). now apply mstr_tagged. }
      assert (Hs : strip_markers (op ++ [sp] ++ tagged old ++ [sp] ++ tagged new) = op ++ [sp] ++ old ++ [sp] ++ new).
      { rewrite strip_app by now apply mstr_ascii. rewrite strip_app by now apply mstr_ascii.
        rewrite strip_app by now apply mstr_tagged. rewrite strip_app by now apply mstr_ascii.
        rewrite (strip_ascii op), !(strip_ascii [sp]), !strip_tagged by (assumption || reflexivity). reflexivity. }
      apply rgood_wrap_keep1; try assumption.
      * destruct op; discriminate.
      * rewrite Hs. cbn [sem ns_text wrap_text]. now rewrite <- !app_assoc.
      * intros o st3 C. split; [|reflexivity]. unfold wrap_fbody. cbn [wrap_body]. unfold default_body. cbn [andb].
        apply rbh_printed; [|  |exact C].
        -- rewrite (sprint_link op old new Ha Hu1 Hu2). unfold tagged. now rewrite <- !app_assoc.
        -- now rewrite !no_nl_app, Hn, !no_nl_tagged, Hn1, Hn2.
  - (* WSyscallError *)
    destruct (unsafe_ok_parts sc Hw) as (Hne & Ha & Hn).
    split; [|split].
    + cbn [plain_tree]. now rewrite Hw, Pc.
    + change (ascii (sc ++ colon_sp ++ ns_text (sem c)) = true). now rewrite !ascii_app, Ha, Ac.
    + change (no_nl (sc ++ colon_sp ++ ns_text (sem c)) = true -> exists R, rgood (Wrap i (WSyscallError sc) c) R).
      rewrite !no_nl_app. intro Hn'. repeat (apply andb_true_iff in Hn' as [_ Hn']).
      destruct (Rc Hn') as [R HR]. exists (sc ++ colon_sp ++ R).
      apply rgood_wrap_keep1; try assumption.
      * now apply mstr_ascii.
      * now rewrite (strip_ascii sc).
      * intros o st3 C. split; [|reflexivity]. unfold wrap_fbody. cbn [wrap_body]. unfold default_body. cbn [andb].
        now apply rbh_safe.
  - (* WOpError *)
    destruct (operror_ok_parts _ _ _ _ Hw) as (Hopa & Hopn & Hna & Hnn & Hsrc & Haddr & Hone & Hhne).
    pose proof (operror_red_strip _ _ _ _ Hw) as Hs.
    assert (Hh : mstr (operror_red op net src addr)).
    { destruct (operror_np_ok op net Hopa Hopn Hna Hnn) as [A2 _]. unfold operror_red.
      apply mstr_app; [now apply mstr_ascii|]. apply mstr_app.
      - destruct src as [|x sr]; [constructor|]. change (unsafe_ok (x :: sr) = true) in Hsrc.
        apply mstr_app; [now apply mstr_ascii|]. apply (mstr_tagged (x :: sr)).
        now apply unsafe_ok_parts in Hsrc.
      - destruct addr as [|y ar]; [constructor|]. change (unsafe_ok (y :: ar) = true) in Haddr.
        apply mstr_app; [now apply mstr_ascii|]. apply (mstr_tagged (y :: ar)).
        now apply unsafe_ok_parts in Haddr. }
    assert (Hha : ascii (operror_head op net src addr) = true).
    { rewrite <- Hs. now apply mstr_strip_ascii. }
    split; [|split].
    + cbn [plain_tree]. now rewrite Hw, Pc.
    + change (ascii (operror_head op net src addr ++ colon_sp ++ ns_text (sem c)) = true).
      now rewrite !ascii_app, Hha, Ac.
    + change (no_nl (operror_head op net src addr ++ colon_sp ++ ns_text (sem c)) = true ->
              exists R, rgood (Wrap i (WOpError op net src addr) c) R).
      rewrite !no_nl_app. intro Hn'. repeat (apply andb_true_iff in Hn' as [_ Hn']).
      destruct (Rc Hn') as [R HR]. exists (operror_red op net src addr ++ colon_sp ++ R).
      apply rgood_wrap_keep1; try assumption.
      * intro E. apply Hhne. rewrite <- Hs, E. reflexivity.
      * rewrite Hs. reflexivity.
      * intros o st3 C. split; [|reflexivity]. unfold wrap_fbody. cbn [wrap_body].
        exists (operror_red op net src addr). split; [now apply operror_wrote|exact (rout_true _)].
Qed.

(* ---- secondary, barrier ---- *)
Lemma agood_second i c s : agood c -> agood (Second i c s).
Proof.
  intros (Pc & Ac & Rc). pose proof (plain_short_ok c Pc) as Sc.
  split; [exact Pc|]. split; [exact Ac|].
  intro Hn. destruct (Rc Hn) as [R HR]. exists R.
  pose proof (rgood_ne _ _ HR (proj1 Sc)) as HRne. destruct HR as (HR & Hm & Hs).
  split; [|split; [exact Hm|exact Hs]].
  intros o wd k st acc Hpre. cbn [sem ns_fmt].
  rewrite (node_keep_red _ c _ _ [] R HR HRne); [reflexivity| | |exact Hpre].
  - intros o' st3 C. unfold body_safe. rewrite if_detail_short by apply C. apply rbh_none.
  - intros o' st3 C. reflexivity.
Qed.

Lemma agood_barrier i smsg m : rawmsg smsg -> agood (Barrier i smsg m).
Proof.
  intro Hw. pose proof Hw as (Hm & Hn & Hs). split; [|split].
  - cbn [plain_tree]. now apply rawmsg_ok.
  - change (ascii (strip_markers smsg) = true). now apply mstr_strip_ascii.
  - intros _. exists smsg. split; [|split; [exact Hm|reflexivity]].
    intros o wd k st acc Hpre. cbn [sem ns_fmt].
    apply node_elide_red; [exact I|constructor| |right; split; reflexivity|exact Hpre].
    intros o' st3 C. unfold body_safe.
    rewrite if_detail_short by (rewrite sp_print_wd; apply C). now apply rbh_raw.
Qed.

(* ---- fmt.wrapErrors ---- *)
Lemma agood_fmtwraps i msg cs : unsafe_ok msg = true -> agood (Multi i (MFmtWraps msg) cs).
Proof.
  intro H. destruct (unsafe_ok_parts _ H) as (Hne & Ha & Hn). split; [|split].
  - cbn [plain_tree]. now apply unsafe_direct.
  - exact Ha.
  - intros _.
    destruct (rbh_default_leaf (Multi i (MFmtWraps msg) cs) msg (ns_sent (sem (Multi i (MFmtWraps msg) cs)))
                (match cs with [] => true | _ => false end) true) as (R & HS & HR);
      [discriminate|exact H|exact I|].
    destruct (shown_mstr _ _ Ha HS) as [HM HT].
    exists R. split; [|split; [exact HM|exact HT]].
    intros o wd k st acc Hpre. cbn [sem ns_fmt].
    apply node_elide_red; [exact I|apply frames_map| |left|exact Hpre].
    + intros o' st3 C. exact (HR st3 C).
    + intros o' st3 C. unfold default_body.
      match goal with |- context [if ?x then _ else _] => destruct x end; [reflexivity|].
      unfold format_simple. cbn [br_elide]. apply orb_true_r.
Qed.

(* ---- joins ---- *)
Lemma ascii_join ts : Forall (fun t => ascii t = true) ts -> ascii (join [nl] ts) = true.
Proof.
  induction 1 as [|t ts Ht Hts IH]; [reflexivity|].
  destruct ts as [|t2 ts]; [exact Ht|].
  change (join [nl] (t :: t2 :: ts)) with (t ++ [nl] ++ join [nl] (t2 :: ts)).
  now rewrite !ascii_app, Ht, IH.
Qed.

Lemma join_nonempty ts : ts <> [] -> Forall (fun t => t <> []) ts -> join [nl] ts <> [].
Proof.
  intros Hne H. destruct H as [|t ts Ht Hts]; [contradiction|].
  destruct ts; [exact Ht|]. cbn [join]. destruct t; [contradiction|discriminate].
Qed.

Lemma join_flat (t : str) ts : join [nl] (t :: ts) = t ++ flat_map (fun s => nl :: s) ts.
Proof.
  revert t. induction ts as [|t2 ts IH]; intro t; [cbn; now rewrite app_nil_r|].
  change (join [nl] (t :: t2 :: ts)) with (t ++ [nl] ++ join [nl] (t2 :: ts)).
  rewrite IH. reflexivity.
Qed.

Lemma mstr_join ts : Forall mstr ts -> mstr (join [nl] ts).
Proof.
  induction 1 as [|t ts Ht Hts IH]; [constructor|].
  destruct ts as [|t2 ts]; [exact Ht|].
  change (join [nl] (t :: t2 :: ts)) with (t ++ [nl] ++ join [nl] (t2 :: ts)).
  apply mstr_app; [exact Ht|]. apply mstr_app; [now apply mstr_ascii|exact IH].
Qed.

Lemma strip_join ts : Forall mstr ts -> strip_markers (join [nl] ts) = join [nl] (List.map strip_markers ts).
Proof.
  induction 1 as [|t ts Ht Hts IH]; [reflexivity|].
  destruct ts as [|t2 ts]; [reflexivity|].
  change (join [nl] (t :: t2 :: ts)) with (t ++ [nl] ++ join [nl] (t2 :: ts)).
  rewrite strip_app by exact Ht. rewrite strip_app by now apply mstr_ascii.
  rewrite IH. reflexivity.
Qed.

(* the redactable rendering of a nested error *)
Definition rshort (c : err) : str := sprint_pieces [nested_v (sem c)].

Lemma safemsg_cases c :
  (exists i m t xs, c = Leaf i (LUser ULSafeMsg m t xs) /\ ns_safemsg (sem c) = Some m) \/
  ns_safemsg (sem c) = None.
Proof.
  destruct c as [i k|i w c|i c s|i smsg m|i k cs|i msg d cs|i pfx d mt c]; try (right; reflexivity).
  - destruct k as [| | | | | | | | | | |u m t xs]; try (right; reflexivity).
    destruct u; try (right; reflexivity). left. now exists i, m, t, xs.
  - right. apply multi_safemsg_eq.
Qed.

(* the piece a nested error contributes to a format call *)
Lemma nested_piece c :
  agood c -> no_nl (error_text c) = true ->
  pc_ok (nested_v (sem c)) /\ pc_text (nested_v (sem c)) = error_text c.
Proof.
  intros (Pc & Ac & Rc) Hn. pose proof (proj1 (plain_short_ok c Pc)) as Hne.
  unfold nested_v. destruct (safemsg_cases c) as [(i & m & t & xs & -> & E)|E]; rewrite E.
  - cbn [pc_ok pc_text]. split; [exact Ac|reflexivity].
  - destruct (Rc Hn) as [R (HR & Hm & Hs)]. rewrite (red_ok_final c R HR).
    cbn [pc_ok pc_text]. split; [|exact Hs]. split; [exact Hm|]. now rewrite Hs.
Qed.

Lemma rshort_ok c :
  agood c -> no_nl (error_text c) = true ->
  mstr (rshort c) /\ strip_markers (rshort c) = error_text c.
Proof.
  intros Hc Hn. destruct (nested_piece c Hc Hn) as [Hp Ht].
  destruct (sprint_ok [nested_v (sem c)]) as (H1 & H2 & _); [now constructor|].
  split; [exact H1|]. unfold rshort. rewrite H2. unfold texts. cbn. now rewrite app_nil_r.
Qed.

(* the writes of joinError's SafeFormatError, from the second cause on *)
Lemma join_fold_rest scs : forall st,
  Forall (fun sc => seg_ok (sprint_pieces [nested_v sc])) scs ->
  fs_wantDetail st = false -> fs_needNewline st = 0%nat -> fs_notEmpty st = true ->
  fs_buf (snd (fold_left join_step scs (false, st))) =
  fs_buf st ++ flat_map (fun s => nl :: s) (List.map (fun sc => sprint_pieces [nested_v sc]) scs).
Proof.
  induction scs as [|sc scs IH]; intros st H Hwd H0 Hne; cbn [fold_left List.map flat_map].
  - cbn [snd]. now rewrite app_nil_r.
  - inversion H as [|? ? [Hs1 Hs2] Hrest]; subst.
    unfold join_step at 2. cbn [fst snd].
    set (S := sprint_pieces [nested_v sc]) in *.
    assert (E1 : sp_print st [PUnsafe [nl]] = set_needNewline (set_buf st (fs_buf st ++ [])) 1).
    { unfold sp_print. change (sprint_pieces [PUnsafe [nl]]) with [nl].
      unfold st_write. cbn [write_loop]. rewrite N.eqb_refl.
      cbn [fs_wantDetail set_needNewline set_buf fs_buf rev app]. rewrite Hwd, H0, !app_nil_r. reflexivity. }
    destruct S as [|x r] eqn:ES; [contradiction|].
    cbn [no_nl forallb] in Hs2. apply andb_true_iff in Hs2 as [Hx Hr]. apply negb_true_iff in Hx.
    assert (E2 : sp_print (sp_print st [PUnsafe [nl]]) [nested_v sc] =
                 set_buf (set_notEmpty (set_needNewline (set_buf st (fs_buf st ++ [nl])) 0) true)
                         (fs_buf st ++ [nl] ++ x :: r)).
    { unfold sp_print at 1. fold S. rewrite ES, E1. unfold st_write.
      rewrite write_loop_after_nl; [|exact Hx|reflexivity|exact Hne|exact Hwd].
      rewrite write_loop_plain by (assumption || reflexivity).
      cbn [fs_buf set_buf set_needNewline set_notEmpty rev app]. rewrite !app_nil_r, <- !app_assoc. cbn [app].
      destruct r; reflexivity. }
    rewrite E2, IH; [|exact Hrest|exact Hwd|reflexivity|reflexivity].
    cbn [fs_buf set_buf]. rewrite <- !app_assoc. reflexivity.
Qed.

Lemma join_bytes_eq' scs :
  scs <> [] -> Forall (fun sc => seg_ok (sprint_pieces [nested_v sc])) scs ->
  join_bytes scs = join [nl] (List.map (fun sc => sprint_pieces [nested_v sc]) scs).
Proof.
  intros Hne H. destruct scs as [|sc scs]; [contradiction|]. inversion H as [|? ? [Hs1 Hs2] Hrest]; subst.
  unfold join_bytes. cbn [fold_left List.map]. unfold join_step at 2. cbn [fst snd].
  rewrite join_flat.
  assert (E : sp_print clean0 [nested_v sc] =
              set_buf (set_notEmpty clean0 true) (sprint_pieces [nested_v sc])).
  { unfold sp_print. set (S := sprint_pieces [nested_v sc]) in *.
    destruct S as [|x r] eqn:ES; [contradiction|]. unfold st_write.
    rewrite write_loop_plain by (assumption || reflexivity). reflexivity. }
  rewrite E, join_fold_rest; [reflexivity|exact Hrest|reflexivity|reflexivity|reflexivity].
Qed.

Lemma one_line_segs cs :
  Forall one_line cs -> Forall (fun c => aplain c -> agood c) cs ->
  Forall agood cs /\
  Forall (fun sc => seg_ok (sprint_pieces [nested_v sc])) (List.map sem cs) /\
  Forall mstr (List.map rshort cs) /\
  List.map strip_markers (List.map rshort cs) = List.map error_text cs /\
  Forall (fun t => ascii t = true) (List.map error_text cs) /\
  Forall (fun t => t <> []) (List.map error_text cs).
Proof.
  intros H1 H2. induction H1 as [|c cs [Ha Hn] Hcs IH]; cbn [List.map].
  - repeat split; constructor.
  - inversion H2 as [|? ? Hc Hrest]; subst. specialize (Hc Ha).
    destruct (IH Hrest) as (I1 & I2 & I3 & I4 & I5 & I6).
    destruct (rshort_ok c Hc Hn) as [Hm Hs]. pose proof Hc as (Pc & Ac & _).
    pose proof (proj1 (plain_short_ok c Pc)) as Hne.
    repeat split; try (constructor; assumption).
    + constructor; [|exact I2]. fold (rshort c). split.
      * intro E. apply Hne. unfold error_text in Hs. rewrite <- Hs, E. reflexivity.
      * rewrite <- (mstr_no_nl_strip _ Hm), Hs. exact Hn.
    + now rewrite Hs, I4.
Qed.

Lemma map_rshort cs :
  List.map (fun sc => sprint_pieces [nested_v sc]) (List.map sem cs) = List.map rshort cs.
Proof. now rewrite map_map. Qed.

(* Error() of a join of one-line errors: the texts, one per line *)
Lemma mjoin_text i cs :
  cs <> [] -> Forall one_line cs -> Forall agood cs ->
  error_text (Multi i MJoin cs) = join [nl] (List.map error_text cs).
Proof.
  intros Hne H1 H2.
  assert (H2' : Forall (fun c => aplain c -> agood c) cs) by (eapply Forall_impl; [|exact H2]; auto).
  destruct (one_line_segs cs H1 H2') as (_ & S2 & S3 & S4 & _).
  unfold error_text. rewrite mjoin_text_eq, mjoin_red_short.
  rewrite join_bytes_eq', map_rshort by (assumption || (destruct cs; [contradiction|discriminate])).
  rewrite sprint_raw by (apply mstr_lri, mstr_join, S3).
  now rewrite strip_join, S4.
Qed.

Lemma agood_mjoin i cs :
  cs <> [] -> Forall one_line cs -> Forall (fun c => aplain c -> agood c) cs -> agood (Multi i MJoin cs).
Proof.
  intros Hne H1 H2. destruct (one_line_segs cs H1 H2) as (S1 & S2 & S3 & S4 & S5 & S6).
  assert (Hmap : List.map sem cs <> []) by (destruct cs; [contradiction|discriminate]).
  assert (HJ : join_bytes (List.map sem cs) = join [nl] (List.map rshort cs)).
  { now rewrite join_bytes_eq', map_rshort. }
  pose proof (mjoin_text i cs Hne H1 S1) as HT.
  pose proof (mstr_join _ S3) as HM.
  assert (HTne : error_text (Multi i MJoin cs) <> []).
  { rewrite HT. apply join_nonempty; [destruct cs; [contradiction|discriminate]|exact S6]. }
  split; [|split].
  - cbn [plain_tree]. rewrite mjoin_red_short, HJ, (mstr_lri _ HM). cbn [negb andb].
    destruct (error_text (Multi i MJoin cs)); [contradiction|reflexivity].
  - rewrite HT. now apply ascii_join.
  - intros _. exists (join [nl] (List.map rshort cs)). split; [|split; [exact HM|]].
    + intros o wd k st acc Hpre. rewrite mjoin_fmt.
      apply node_elide_red; [exact I|apply frames_map| |left|exact Hpre].
      * intros o' st3 C. exists (join_bytes (List.map sem cs)). split; [|rewrite rout_true; exact HJ].
        unfold body_safe. cbn [br_st].
        assert (CX : cfg (snd (fold_left join_step (List.map sem cs) (true, st3))) = cfg st3).
        { rewrite fold_left_snd_cfg; [reflexivity|]. intros a x. apply join_step_cfg. }
        unfold cfg in CX. injection CX as C1 C2 C3 C4.
        constructor; try assumption.
        -- rewrite join_fold_hb; [reflexivity|apply C].
        -- rewrite (join_bytes_eq _ _ (clean_wview _ C)).
           destruct C as (_ & _ & _ & -> & _). reflexivity.
      * intros o' st3 C. reflexivity.
    + fold (error_text (Multi i MJoin cs)). rewrite HT, strip_join, S4 by exact S3. reflexivity.
Qed.

Lemma agood_stdjoin i cs :
  cs <> [] -> Forall one_line cs -> Forall (fun c => aplain c -> agood c) cs -> agood (Multi i MStdJoin cs).
Proof.
  intros Hne H1 H2. destruct (one_line_segs cs H1 H2) as (S1 & _ & _ & _ & S5 & S6).
  assert (HT : error_text (Multi i MStdJoin cs) = join [nl] (List.map error_text cs)) by apply stdjoin_text.
  assert (Hmne : List.map error_text cs <> []) by (destruct cs; [contradiction|discriminate]).
  split; [|split].
  - cbn [plain_tree]. destruct cs as [|c0 cs0]; [contradiction|]. cbn [andb].
    apply forallb_forall. intros c Hc.
    rewrite Forall_forall in H1. destruct (H1 c Hc) as [_ Hn]. rewrite Hn, andb_true_r.
    rewrite Forall_forall in S6. specialize (S6 (error_text c) (in_map _ _ _ Hc)).
    destruct (error_text c); [contradiction|reflexivity].
  - rewrite HT. now apply ascii_join.
  - rewrite HT. intro Hn.
    assert (Hu : unsafe_ok (join [nl] (List.map error_text cs)) = true).
    { apply unsafe_ok_intro; [now apply join_nonempty|now apply ascii_join|exact Hn]. }
    exists (tagged (join [nl] (List.map error_text cs))).
    split; [|split; [apply mstr_tagged; now apply ascii_join|]].
    + intros o wd k st acc Hpre. cbn [sem ns_fmt].
      apply node_elide_red; [exact I|apply frames_map| |left|exact Hpre].
      * intros o' st3 C. unfold default_body.
        destruct cs as [|c0 cs0]; [contradiction|]. cbn [andb]. unfold format_simple.
        assert (E : join [nl] (List.map ns_text (List.map sem (c0 :: cs0))) =
                    join [nl] (List.map error_text (c0 :: cs0))) by (now rewrite map_map).
        rewrite E. now apply rbh_direct.
      * intros o' st3 C. unfold default_body.
        destruct cs as [|c0 cs0]; [contradiction|]. cbn [andb]. unfold format_simple. reflexivity.
    + rewrite strip_tagged by now apply ascii_join. now rewrite <- HT.
Qed.

(* ---- the tree-level theorem ---- *)
Theorem aplain_agood e : aplain e -> agood e.
Proof.
  induction e using err_ind'; cbn [aplain]; intro Hap.
  - now apply agood_leaf.
  - destruct Hap as [H1 H2]. apply agood_wrap; auto.
  - apply agood_second; auto.
  - now apply agood_barrier.
  - destruct k.
    + destruct Hap as [H1 H2]. apply aplain_all in H2. now apply agood_mjoin.
    + destruct Hap as [H1 H2]. apply aplain_all in H2. now apply agood_stdjoin.
    + now apply agood_fmtwraps.
  - contradiction.
  - contradiction.
Qed.

Corollary aplain_plain e : aplain e -> plain_tree e = true.
Proof. intro H. apply (aplain_agood e H). Qed.

Corollary aplain_text_ne e : aplain e -> error_text e <> [].
Proof. intro H. apply (plain_short_ok e (aplain_plain e H)). Qed.

(* ================================================================== *)
(* 5. the specification                                                *)
(* ================================================================== *)
Definition nil_text (v : fverb) : str :=
  match v with
  | VV | VPlusV => lit "<nil>"
  | VS => lit "%!s(<nil>)"
  | VW => lit "%!w(<nil>)"
  | VD => lit "%!d(<nil>)"
  end.

(* arguments without a verb: %!(EXTRA type=value, ...) *)
Definition extra_one (q : fpiece) : str :=
  match q with
  | FXStr x => lit "string=" ++ x
  | FXSafeStr x => lit "redact.safeWrapper=" ++ x
  | FXInt z => lit "int=" ++ dec_of_Z z
  | _ => []
  end.

Fixpoint extras_text (l : list fpiece) (first : bool) : str :=
  match l with
  | [] => lit ")"
  | q :: r => (if first then [] else lit ", ") ++ extra_one q ++ extras_text r false
  end.

Definition spec_prefix (p : str) (c : option str) : option str :=
  match c with
  | Some c => Some (match p with [] => c | _ => p ++ lit ": " ++ c end)
  | None => None
  end.

Definition spec_fmt_with (st : recipe -> option str) : list fpiece -> str :=
  fix go (f : list fpiece) : str :=
    match f with
    | [] => []
    | p :: rest =>
      match p with
      | FLit l => l ++ go rest
      | FStr _ x | FSafeStr _ x => x ++ go rest
      | FInt _ z | FSafeInt _ z => dec_of_Z z ++ go rest
      | FErr v x => (match st x with Some t => t | None => nil_text v end) ++ go rest
      | FXStr _ | FXSafeStr _ | FXInt _ => lit "%!(EXTRA " ++ extras_text (p :: rest) true
      end
    end.

Definition spec_list_with (st : recipe -> option str) : list recipe -> list str :=
  fix go (rs : list recipe) : list str :=
    match rs with
    | [] => []
    | x :: rest => match st x with Some t => t :: go rest | None => go rest end
    end.

Definition sentinel_text (n : N) : option str :=
  match n with
  | 0 => Some (lit "context canceled")
  | 1 => Some (lit "context deadline exceeded")
  | 2 => Some (lit "invalid argument")
  | 3 => Some (lit "permission denied")
  | 4 => Some (lit "file already exists")
  | 5 => Some (lit "file does not exist")
  | 6 => Some (lit "file already closed")
  | 7 => Some (lit "file type does not support deadline")
  | 8 => Some (lit "EOF")
  | 9 => Some (lit "unexpected EOF")
  | _ => None
  end.

(* the expected Error() text, from the recipe alone; [None] = the recipe yields nil *)
Fixpoint spec_text (r : recipe) : option str :=
  match r with
  | RNil => None
  | RSentinel n => sentinel_text n
  | RStdNew m | RNew m | RPkgNew m => Some m
  | RNewf f | RAssertf f | RFmtErrorf f => Some (spec_fmt_with spec_text f)
  | RErrno n => Some (errno_text n)
  | RUnimpl _ _ m => Some m
  | RGrpcStatus c m | RGogoStatus c m => if c =? 0 then None else Some (grpc_status_text c m)
  | RTestError => Some (lit "test error")
  | RULeaf _ m _ _ => Some m
  | RWrap r m | RWithMessage r m => spec_prefix m (spec_text r)
  | RWrapf r f | RWithMessagef r f | RNewAssertWrapped r f =>
    spec_prefix (spec_fmt_with spec_text f) (spec_text r)
  | RWithStack r | RHint r _ | RDetail r _ | RIssueLink r _ _ | RTelemetry r _ | RDomain r _
  | RTags r _ | RAssert r | RMark r _ | RSafeDetails r _ | RHTTP r _ | RGrpc r _ | RSecondary r _
  | RHintf r _ | RDetailf r _
  | RPkgStack r => spec_text r
  | RCombine r s => match spec_text r with Some t => Some t | None => spec_text s end
  | RHandled r | RHandledInDomain r _ | RHandleAssert r => spec_text r
  | RHandledMsg r m | RHandledInDomainMsg r _ m =>
    match spec_text r with Some _ => Some m | None => None end
  | RHandledMsgf r f =>
    match spec_text r with Some _ => Some (spec_fmt_with spec_text f) | None => None end
  | RJoin rs | RStdJoin rs =>
    match spec_list_with spec_text rs with [] => None | ts => Some (join [nl] ts) end
  | RPkgMsg r m => option_map (fun c => m ++ lit ": " ++ c) (spec_text r)
  | RPathError r op path => option_map (fun c => op ++ lit " " ++ path ++ lit ": " ++ c) (spec_text r)
  | RLinkError r op old new =>
    option_map (fun c => op ++ lit " " ++ old ++ lit " " ++ new ++ lit ": " ++ c) (spec_text r)
  | RSyscallError r sc => option_map (fun c => sc ++ lit ": " ++ c) (spec_text r)
  | ROpError r op net src addr =>
    option_map (fun c => operror_head op net src addr ++ lit ": " ++ c) (spec_text r)
  | RForeignErrno n => Some (errno_text n)
  | RUWrap u r msg _ =>
    option_map (fun c => match u with UWFull => msg | UWEmpty => c | _ => msg ++ lit ": " ++ c end)
               (spec_text r)
  | RTransfer r _ => spec_text r
  end.

Definition spec_fmt : list fpiece -> str := spec_fmt_with spec_text.
Definition spec_list : list recipe -> list str := spec_list_with spec_text.

(* ---- the side conditions ---- *)
Definition lit_ok (s : str) : bool := ascii s && no_nl s.
Definition one_line_spec (o : option str) : bool := match o with Some t => no_nl t | None => true end.
Definition not_colon (t : str) (o : option str) : bool :=
  match o with Some ct => negb (str_eqb t (lit ": " ++ ct)) | None => true end.

Definition extra_ok (q : fpiece) : bool :=
  match q with FXStr x => unsafe_ok x | FXSafeStr x => lit_ok x | _ => true end.

(* the text of the first non-nil %w argument *)
Definition first_w_with (st : recipe -> option str) : list fpiece -> option str :=
  fix go (f : list fpiece) : option str :=
    match f with
    | [] => None
    | p :: rest =>
      match p with
      | FErr VW x => match st x with Some t => Some t | None => go rest end
      | FXStr _ | FXSafeStr _ | FXInt _ => None
      | _ => go rest
      end
    end.

Definition verb_ok (v : fverb) : bool := match v with VPlusV => false | _ => true end.

Definition ok_fmt_with (ok : recipe -> bool) (st : recipe -> option str) : list fpiece -> bool :=
  fix go (f : list fpiece) : bool :=
    match f with
    | [] => true
    | p :: rest =>
      match p with
      | FLit l => lit_ok l && go rest
      | FStr _ x => unsafe_ok x && go rest
      | FSafeStr _ x => lit_ok x && go rest
      | FInt _ _ | FSafeInt _ _ => go rest
      | FErr v x => verb_ok v && ok x && one_line_spec (st x) && go rest
      | FXStr _ | FXSafeStr _ | FXInt _ => forallb extra_ok (p :: rest)
      end
    end.

Fixpoint ok_recipe (r : recipe) : bool :=
  match r with
  | RNil | RSentinel _ | RErrno _ | RForeignErrno _ | RTestError => true
  | RStdNew m | RNew m | RPkgNew m | RUnimpl _ _ m | RULeaf _ m _ _ => unsafe_ok m
  | RNewf f | RAssertf f =>
    ok_fmt_with ok_recipe spec_text f && nonempty (spec_fmt_with spec_text f)
  | RFmtErrorf f =>
    ok_fmt_with ok_recipe spec_text f && nonempty (spec_fmt_with spec_text f) &&
    not_colon (spec_fmt_with spec_text f) (first_w_with spec_text f)
  | RGrpcStatus _ m | RGogoStatus _ m => lit_ok m
  | RWrap r m | RWithMessage r m => ok_recipe r && lit_ok m
  | RWrapf r f | RWithMessagef r f => ok_recipe r && ok_fmt_with ok_recipe spec_text f
  | RWithStack r | RHint r _ | RDetail r _ | RIssueLink r _ _ | RTelemetry r _ | RDomain r _
  | RTags r _ | RAssert r | RMark r _ | RSafeDetails r _ | RHTTP r _ | RGrpc r _ | RSecondary r _
  | RHintf r _ | RDetailf r _ =>
    ok_recipe r
  | RCombine r s => ok_recipe r && ok_recipe s
  | RHandled r | RHandledInDomain r _ | RHandleAssert r => ok_recipe r && one_line_spec (spec_text r)
  | RHandledMsg r m | RHandledInDomainMsg r _ m => ok_recipe r && unsafe_ok m
  | RHandledMsgf r f =>
    ok_recipe r && ok_fmt_with ok_recipe spec_text f && nonempty (spec_fmt_with spec_text f)
  | RNewAssertWrapped r f =>
    ok_recipe r && one_line_spec (spec_text r) && ok_fmt_with ok_recipe spec_text f
  | RJoin rs | RStdJoin rs => forallb (fun x => ok_recipe x && one_line_spec (spec_text x)) rs
  | RPkgMsg r m => ok_recipe r && one_line_spec (spec_text r) && unsafe_ok m
  | RPkgStack r => ok_recipe r && one_line_spec (spec_text r)
  | RPathError r op path => ok_recipe r && lit_ok op && unsafe_ok path
  | RLinkError r op old new => ok_recipe r && lit_ok op && unsafe_ok old && unsafe_ok new
  | RSyscallError r sc => ok_recipe r && unsafe_ok sc
  | ROpError r op net src addr => ok_recipe r && operror_ok op net src addr
  | RUWrap u r msg _ =>
    ok_recipe r &&
    match u with
    | UWFull => unsafe_ok msg && not_colon msg (spec_text r)
    | UWEmpty => one_line_spec (spec_text r)
    | _ => unsafe_ok msg && one_line_spec (spec_text r)
    end
  | RTransfer _ _ => false
  end.

Definition ok_fmt : list fpiece -> bool := ok_fmt_with ok_recipe spec_text.
Definition first_w : list fpiece -> option str := first_w_with spec_text.

(* ================================================================== *)
(* 6. the builder, piece by piece                                      *)
(* ================================================================== *)
Section BuildText.
Variable env : benv.

(* top-level copies of the local functions of [build] *)
Definition extras_one (q : fpiece) : list piece * str :=
  match q with
  | FXStr x => ([PLit (lit "string="); PUnsafe x], lit "string=" ++ x)
  | FXSafeStr x => ([PLit (lit "redact.safeWrapper="); PSafe x], lit "redact.safeWrapper=" ++ x)
  | FXInt z => ([PLit (lit "int="); PUnsafe (dec_of_Z z)], lit "int=" ++ dec_of_Z z)
  | _ => ([], [])
  end.

Fixpoint extras_go (l : list fpiece) (first : bool) : list piece * str :=
  match l with
  | [] => ([PLit (lit ")")], lit ")")
  | q :: r =>
    let '(ps, pl) := extras_one q in
    let '(rs, rl) := extras_go r false in
    ((if first then [] else [PLit (lit ", ")]) ++ ps ++ rs, (if first then [] else lit ", ") ++ pl ++ rl)
  end.

Definition blist : list recipe -> bstate -> list err * bstate :=
  fix build_list (rs : list recipe) (s : bstate) : list err * bstate :=
    match rs with
    | [] => ([], s)
    | x :: rest =>
      let '(o, s1) := build env x s in
      let '(es, s2) := build_list rest s1 in
      (match o with Some e => e :: es | None => es end, s2)
    end.

Definition bfmt : list fpiece -> built_fmt -> bstate -> built_fmt * bstate :=
  fix build_fmt (f : list fpiece) (acc : built_fmt) (s : bstate) : built_fmt * bstate :=
    match f with
    | [] => (acc, s)
    | p :: rest =>
      match p with
      | FLit l => build_fmt rest (bf_add acc (PLit l) l) s
      | FStr _ x => build_fmt rest (bf_add acc (PUnsafe x) x) s
      | FSafeStr _ x => build_fmt rest (bf_add acc (PSafe x) x) s
      | FInt _ z => build_fmt rest (bf_add acc (PUnsafe (dec_of_Z z)) (dec_of_Z z)) s
      | FSafeInt _ z => build_fmt rest (bf_add acc (PSafe (dec_of_Z z)) (dec_of_Z z)) s
      | FXStr _ | FXSafeStr _ | FXInt _ =>
        let extras := extras_go (p :: rest) true in
        (mkbf (bf_pieces acc ++ PLit (lit "%!(EXTRA ") :: fst extras) (bf_plain acc ++ lit "%!(EXTRA " ++ snd extras)
              (bf_wrapped acc) (bf_errs acc) (bf_nw acc), s)
      | FErr v x =>
        let '(o, s1) := build env x s in
        match o with
        | None =>
          let t := nil_text v in
          let acc0 := bf_add acc (PLit t) t in
          let acc1 := mkbf (bf_pieces acc0) (bf_plain acc0) (bf_wrapped acc0) (bf_errs acc0)
                           (match v with VW => S (bf_nw acc0) | _ => bf_nw acc0 end) in
          build_fmt rest acc1 s1
        | Some e =>
          let piece := match v with VPlusV => nested_plus_v (sem e) | _ => nested_v (sem e) end in
          let pl := match v with VPlusV => (if lib_format e then fmt_plain_verbose e else error_text e)
                               | _ => plain_v e end in
          let acc1 := mkbf (bf_pieces acc ++ [piece]) (bf_plain acc ++ pl)
                           (match v with VW => bf_wrapped acc ++ [e] | _ => bf_wrapped acc end)
                           (bf_errs acc ++ [e])
                           (match v with VW => S (bf_nw acc) | _ => bf_nw acc end) in
          build_fmt rest acc1 s1
        end
      end
    end.

Fixpoint add_sec (es : list err) (e : err) (s : bstate) : err * bstate :=
  match es with
  | [] => (e, s)
  | x :: rest => let '(i, s1) := fresh_oid s in add_sec rest (Second i e x) s1
  end.

Definition newf_ (f : list fpiece) (s : bstate) : err * bstate :=
  let '(b, s1) := bfmt f bf_empty s in
  let msg := sprint_pieces (bf_pieces b) in
  let '(e0, s2) := match bf_wrapped b with
                   | w :: _ => mk_wrap (WNewMsg msg) w s1
                   | [] => mk_leaf (LLeafError msg) s1
                   end in
  let '(e1, s3) := add_sec (bf_errs b) e0 s2 in
  with_stack env e1 s3.

Definition wrapf_ (e : err) (f : list fpiece) (b : built_fmt) (s1 : bstate) : err * bstate :=
  let '(e0, s2) := if is_fmt_empty f then (e, s1)
                   else mk_wrap (WPrefix (sprint_pieces (bf_pieces b))) e s1 in
  let '(e1, s3) := add_sec (bf_errs b) e0 s2 in
  with_stack env e1 s3.

Definition handled_ (e : err) (s : bstate) : err * bstate :=
  let '(i, s1) := fresh_oid s in (Barrier i (sprint_pieces [nested_v (sem e)]) e, s1).

Definition some_ (x : err * bstate) : option err * bstate := (Some (fst x), snd x).

Definition on_ (r : recipe) (s : bstate) (k : err -> bstate -> err * bstate) : option err * bstate :=
  let '(o, s1) := build env r s in
  match o with Some e => some_ (k e s1) | None => (None, s1) end.

Definition on_f_ (r : recipe) (f : list fpiece) (s : bstate)
           (k : err -> built_fmt -> bstate -> err * bstate) : option err * bstate :=
  let '(o, s1) := build env r s in
  let '(b, s2) := bfmt f bf_empty s1 in
  match o with Some e => some_ (k e b s2) | None => (None, s2) end.

(* ---- the equations of [build] ---- *)
Lemma build_newf f s : build env (RNewf f) s = some_ (newf_ f s).
Proof. reflexivity. Qed.
Lemma build_assertf f s :
  build env (RAssertf f) s = let '(e, s1) := newf_ f s in some_ (mk_wrap WAssert e s1).
Proof. reflexivity. Qed.
Lemma build_wrap r msg s :
  build env (RWrap r msg) s =
  on_ r s (fun e s1 =>
    let '(e0, s2) := match msg with
                     | [] => (e, s1)
                     | _ => mk_wrap (WPrefix (sprint_pieces [PSafe msg])) e s1
                     end in
    with_stack env e0 s2).
Proof. reflexivity. Qed.
Lemma build_wrapf r f s : build env (RWrapf r f) s = on_f_ r f s (fun e b s1 => wrapf_ e f b s1).
Proof. reflexivity. Qed.
Lemma build_withmessagef r f s :
  build env (RWithMessagef r f) s =
  on_f_ r f s (fun e b s2 => mk_wrap (WPrefix (sprint_pieces (bf_pieces b))) e s2).
Proof. reflexivity. Qed.
Lemma build_safedetails r f s :
  build env (RSafeDetails r f) s =
  on_f_ r f s (fun e b s2 =>
    if is_fmt_empty f then (e, s2) else
    mk_wrap (WSafeDetails [redact_strip (sprint_pieces (bf_pieces b))]) e s2).
Proof. reflexivity. Qed.
Lemma build_hintf r f s :
  build env (RHintf r f) s = on_f_ r f s (fun e b s2 => mk_wrap (WHint (bf_plain b)) e s2).
Proof. reflexivity. Qed.
Lemma build_detailf r f s :
  build env (RDetailf r f) s = on_f_ r f s (fun e b s2 => mk_wrap (WDetail (bf_plain b)) e s2).
Proof. reflexivity. Qed.
Lemma build_handledmsgf r f s :
  build env (RHandledMsgf r f) s =
  on_f_ r f s (fun e b s2 =>
    let '(i, s3) := fresh_oid s2 in (Barrier i (sprint_pieces (bf_pieces b)) e, s3)).
Proof. reflexivity. Qed.
Lemma build_newassertwrapped r f s :
  build env (RNewAssertWrapped r f) s =
  on_f_ r f s (fun e bf s1 =>
    let '(b, s2) := handled_ e s1 in
    let '(w, s3) := wrapf_ b f bf s2 in
    mk_wrap WAssert w s3).
Proof. reflexivity. Qed.
Lemma build_join rs s :
  build env (RJoin rs) s =
  let '(es, s1) := blist rs s in
  match es with
  | [] => (None, s1)
  | _ => let '(i, s2) := fresh_oid s1 in some_ (with_stack env (Multi i MJoin es) s2)
  end.
Proof. reflexivity. Qed.
Lemma build_stdjoin rs s :
  build env (RStdJoin rs) s =
  let '(es, s1) := blist rs s in
  match es with
  | [] => (None, s1)
  | _ => let '(i, s2) := fresh_oid s1 in (Some (Multi i MStdJoin es), s2)
  end.
Proof. reflexivity. Qed.
Lemma build_fmterrorf f s :
  build env (RFmtErrorf f) s =
  let '(b, s1) := bfmt f bf_empty s in
  let '(i, s2) := fresh_oid s1 in
  match bf_nw b with
  | O => (Some (Leaf i (LErrString (bf_plain b))), s2)
  | S O => match bf_wrapped b with
           | w :: _ => (Some (Wrap i (WFmtWrap (bf_plain b)) w), s2)
           | [] => (Some (Leaf i (LFmtWrapNil (bf_plain b))), s2)
           end
  | _ => (Some (Multi i (MFmtWraps (bf_plain b)) (bf_wrapped b)), s2)
  end.
Proof. reflexivity. Qed.
Lemma build_mark r x s :
  build env (RMark r x) s =
  let '(o, s1) := build env r s in
  let '(ox, s2) := build env x s1 in
  match o, ox with
  | Some e, Some x => some_ (mk_wrap (WMark (get_mark x)) e s2)
  | Some e, None => (Some e, s2)
  | None, _ => (None, s2)
  end.
Proof. reflexivity. Qed.
Lemma build_secondary r x s :
  build env (RSecondary r x) s =
  let '(o, s1) := build env r s in
  let '(ox, s2) := build env x s1 in
  match o, ox with
  | Some e, Some a => let '(i, s3) := fresh_oid s2 in (Some (Second i e a), s3)
  | _, _ => (o, s2)
  end.
Proof. reflexivity. Qed.
Lemma build_combine r x s :
  build env (RCombine r x) s =
  let '(o, s1) := build env r s in
  let '(ox, s2) := build env x s1 in
  match o, ox with
  | None, _ => (ox, s2)
  | Some e, Some a => let '(i, s3) := fresh_oid s2 in (Some (Second i e a), s3)
  | Some e, None => (o, s2)
  end.
Proof. reflexivity. Qed.

(* ---- induction on recipes ---- *)
Fixpoint fkids (f : list fpiece) : list recipe :=
  match f with
  | [] => []
  | FErr _ x :: rest => x :: fkids rest
  | _ :: rest => fkids rest
  end.

Definition kids (r : recipe) : list recipe :=
  match r with
  | RNil | RSentinel _ | RStdNew _ | RNew _ | RPkgNew _ | RErrno _ | RUnimpl _ _ _
  | RGrpcStatus _ _ | RGogoStatus _ _ | RTestError | RULeaf _ _ _ _ | RForeignErrno _ => []
  | RNewf f | RAssertf f | RFmtErrorf f => fkids f
  | RWrap r _ | RWithMessage r _ | RWithStack r | RHint r _ | RDetail r _ | RIssueLink r _ _
  | RTelemetry r _ | RDomain r _ | RTags r _ | RAssert r | RHTTP r _ | RGrpc r _
  | RHandled r | RHandledMsg r _ | RHandledInDomain r _ | RHandledInDomainMsg r _ _ | RHandleAssert r
  | RPkgMsg r _ | RPkgStack r | RPathError r _ _ | RLinkError r _ _ _ | RSyscallError r _
  | ROpError r _ _ _ _ | RUWrap _ r _ _ | RTransfer r _ => [r]
  | RWrapf r f | RWithMessagef r f | RSafeDetails r f | RHandledMsgf r f | RNewAssertWrapped r f
  | RHintf r f | RDetailf r f =>
    r :: fkids f
  | RMark r x | RSecondary r x | RCombine r x => [r; x]
  | RJoin rs | RStdJoin rs => rs
  end.

Ltac fk_tac F :=
  match goal with
  | |- Forall _ (fkids ?f) =>
    revert f; let G := fresh "G" in fix G 1;
    let p := fresh "p" in let f' := fresh "f" in
    intros [|p f']; [constructor|destruct p; cbn [fkids]; try apply G; constructor; [apply F|apply G]]
  end.

Lemma recipe_kids_ind (Q : recipe -> Prop) :
  (forall r, Forall Q (kids r) -> Q r) -> forall r, Q r.
Proof.
  intro H. fix F 1. intro r. apply H.
  destruct r; cbn [kids]; try (constructor; fail); try fk_tac F;
    try (constructor; [apply F|]; try (constructor; fail); try fk_tac F;
         try (constructor; [apply F|constructor]); fail).
  - revert rs. fix G 1. intros [|x rs]; constructor; [apply F|apply G].
  - revert rs. fix G 1. intros [|x rs]; constructor; [apply F|apply G].
Qed.
(* ---- what a built error satisfies ---- *)
Definition built_ok (r : recipe) (o : option err) : Prop :=
  match o with
  | Some e => spec_text r = Some (error_text e) /\ aplain e
  | None => spec_text r = None
  end.

Definition P (r : recipe) : Prop := ok_recipe r = true -> forall s, built_ok r (fst (build env r s)).

(* ---- strings ---- *)
Lemma lit_ok_parts s : lit_ok s = true -> ascii s = true /\ no_nl s = true.
Proof. unfold lit_ok. intro H. now apply andb_true_iff in H. Qed.

Lemma dec_of_Z_ne z : dec_of_Z z <> [].
Proof.
  assert (H : forall n, dec_of_N n <> []).
  { intro n. unfold dec_of_N. cbn [dec_digits]. destruct (n / 10 =? 0); [discriminate|].
    apply dec_digits_nonempty. discriminate. }
  destruct z; cbn [dec_of_Z]; [discriminate|apply H|discriminate].
Qed.

Lemma dec_of_Z_unsafe z : unsafe_ok (dec_of_Z z) = true.
Proof. destruct (dec_of_Z_ok z). apply unsafe_ok_intro; [apply dec_of_Z_ne|assumption|assumption]. Qed.

Lemma nil_text_ok v : ascii (nil_text v) = true /\ no_nl (nil_text v) = true.
Proof. destruct v; split; reflexivity. Qed.

Lemma grpc_code_name_ok c : lit_ok (grpc_code_name c) = true.
Proof.
  assert (D : lit_ok (lit "Code(" ++ dec_of_N c ++ lit ")") = true).
  { destruct (digits_ok_direct _ (dec_of_N_ok c)) as [A B]. unfold lit_ok.
    rewrite !ascii_app, !no_nl_app, A, B. reflexivity. }
  unfold grpc_code_name.
  repeat match goal with |- context [match ?x with _ => _ end] => destruct x end;
    solve [reflexivity | exact D].
Qed.

Lemma grpc_status_text_ok c m : lit_ok m = true -> unsafe_ok (grpc_status_text c m) = true.
Proof.
  intro H. destruct (lit_ok_parts _ H) as [A B]. destruct (lit_ok_parts _ (grpc_code_name_ok c)) as [A' B'].
  unfold grpc_status_text. apply unsafe_ok_intro.
  - intro E. apply (f_equal (@List.length N)) in E. rewrite app_length in E. vm_compute in E. discriminate.
  - rewrite !ascii_app, A, A'. reflexivity.
  - rewrite !no_nl_app, B, B'. reflexivity.
Qed.

Lemma errno_text_unsafe n : unsafe_ok (errno_text n) = true.
Proof.
  pose proof (errno_text_ok n) as H. apply direct_ok_parts in H as (H1 & H2 & H3).
  apply unsafe_ok_intro; auto.
Qed.

Lemma sentinel_ok n : built_ok (RSentinel n) (sentinel n).
Proof.
  unfold built_ok. cbn [spec_text].
  destruct n as [|p]; [split; reflexivity|].
  do 4 (try destruct p as [p|p|]); try (split; reflexivity); reflexivity.
Qed.

(* ---- wrapping steps ---- *)
Lemma aplain_annot i w c :
  annotation w = true -> aplain c -> aplain (Wrap i w c) /\ error_text (Wrap i w c) = error_text c.
Proof.
  intros Hw Hc. split; [|now apply annotation_text].
  cbn [aplain]. split; [exact Hc|]. destruct w; try discriminate; exact I.
Qed.

Lemma with_stack_ok e s :
  aplain e -> aplain (fst (with_stack env e s)) /\ error_text (fst (with_stack env e s)) = error_text e.
Proof. intro H. unfold with_stack, fresh_stack, mk_wrap, fresh_oid. cbn [fst]. now apply aplain_annot. Qed.

Lemma mk_wrap_annot w e s :
  annotation w = true -> aplain e ->
  aplain (fst (mk_wrap w e s)) /\ error_text (fst (mk_wrap w e s)) = error_text e.
Proof. intros Hw H. unfold mk_wrap, fresh_oid. cbn [fst]. now apply aplain_annot. Qed.

Lemma add_sec_ok es : forall e s,
  aplain e -> aplain (fst (add_sec es e s)) /\ error_text (fst (add_sec es e s)) = error_text e.
Proof.
  induction es as [|x es IH]; intros e s H; cbn [add_sec]; [now split|].
  unfold fresh_oid. destruct (IH (Second (bs_oid s) e x) (mkbs (Pos.succ (bs_oid s)) (bs_stk s))) as [A B].
  - exact H.
  - split; [exact A|]. rewrite B. reflexivity.
Qed.

Lemma prefix_text_plain i rp c :
  aplain c ->
  error_text (Wrap i (WPrefix rp) c) =
  match rp with [] => error_text c | _ => strip_markers rp ++ colon_sp ++ error_text c end.
Proof.
  intro H. rewrite prefix_text. destruct rp; [reflexivity|].
  unfold cause_v. destruct (lib_format c); [|reflexivity].
  now rewrite (fmt_plain_short_is_error_text c (aplain_plain c H)).
Qed.

(* a message wrapper whose redactable prefix [rp] has content [p] *)
Lemma prefix_ok i rp c p :
  aplain c -> mstr rp -> no_nl rp = true -> strip_markers rp = p -> (rp = [] \/ p <> []) ->
  aplain (Wrap i (WPrefix rp) c) /\
  spec_prefix p (Some (error_text c)) = Some (error_text (Wrap i (WPrefix rp) c)).
Proof.
  intros Hc Hm Hn Hs Hz. split.
  - cbn [aplain awrap]. split; [exact Hc|]. destruct Hz as [-> | Hz]; [now left|right].
    repeat split; try assumption. now rewrite Hs.
  - rewrite prefix_text_plain by exact Hc. unfold spec_prefix. f_equal.
    destruct Hz as [-> | Hz].
    + cbn in Hs. subst p. reflexivity.
    + destruct rp as [|x rp]; [cbn in Hs; subst p; contradiction|].
      rewrite Hs. destruct p; [contradiction|reflexivity].
Qed.

Lemma const_prefix_ok i m c :
  aplain c -> lit_ok m = true ->
  let rp := sprint_pieces [PSafe m] in
  aplain (Wrap i (WPrefix rp) c) /\
  spec_prefix m (Some (error_text c)) = Some (error_text (Wrap i (WPrefix rp) c)).
Proof.
  intros Hc Hm. destruct (lit_ok_parts _ Hm) as [A B]. cbv zeta.
  rewrite sprint_safe_ascii by exact A.
  apply prefix_ok; [exact Hc|now apply mstr_ascii|exact B|now apply strip_ascii|].
  destruct m; [now left|right; discriminate].
Qed.

Lemma unsafe_rawmsg m : unsafe_ok m = true -> rawmsg (sprint_pieces [PUnsafe m]) /\ strip_markers (sprint_pieces [PUnsafe m]) = m.
Proof.
  intro H. destruct (unsafe_ok_parts _ H) as (Hne & Ha & Hn).
  rewrite sprint_unsafe_ascii by assumption. fold (tagged m).
  split; [|now apply strip_tagged]. split; [now apply mstr_tagged|]. split; [now rewrite no_nl_tagged|].
  now rewrite strip_tagged.
Qed.

(* barriers.Handled *)
Lemma handled_ok e s :
  aplain e -> no_nl (error_text e) = true ->
  aplain (fst (handled_ e s)) /\ error_text (fst (handled_ e s)) = error_text e.
Proof.
  intros H Hn. unfold handled_, fresh_oid. cbn [fst].
  destruct (rshort_ok e (aplain_agood e H) Hn) as [Hm Hs]. fold (rshort e).
  split.
  - cbn [aplain]. split; [exact Hm|]. split.
    + rewrite <- (mstr_no_nl_strip _ Hm), Hs. exact Hn.
    + rewrite Hs. now apply aplain_text_ne.
  - rewrite barrier_text. exact Hs.
Qed.

(* ---- format calls ---- *)
Record fmt_inv (b : built_fmt) (t : str) : Prop := mkfi {
  fi_pieces : Forall pc_ok (bf_pieces b);
  fi_texts : texts (bf_pieces b) = t;
  fi_plain : bf_plain b = t;
  fi_errs : Forall aplain (bf_errs b);
  fi_wrapped : Forall aplain (bf_wrapped b);
  fi_ascii : ascii t = true;
  fi_nonl : no_nl t = true }.

Lemma fmt_inv_empty : fmt_inv bf_empty [].
Proof. constructor; try constructor; reflexivity. Qed.

Lemma fmt_inv_add b t p pl :
  fmt_inv b t -> pc_ok p -> pc_text p = pl -> ascii pl = true -> no_nl pl = true ->
  fmt_inv (bf_add b p pl) (t ++ pl).
Proof.
  intros [H1 H2 H3 H4 H5 H6 H7] Hp Ht Ha Hn. constructor; cbn [bf_add bf_pieces bf_plain bf_errs bf_wrapped].
  - apply Forall_app. split; [exact H1|now constructor].
  - rewrite texts_app, H2. unfold texts. cbn. now rewrite app_nil_r, Ht.
  - now rewrite H3.
  - exact H4.
  - exact H5.
  - now rewrite ascii_app, H6, Ha.
  - now rewrite no_nl_app, H7, Hn.
Qed.

Lemma extras_go_ok l : forall first,
  forallb extra_ok l = true ->
  Forall pc_ok (fst (extras_go l first)) /\
  texts (fst (extras_go l first)) = snd (extras_go l first) /\
  snd (extras_go l first) = extras_text l first /\
  ascii (extras_text l first) = true /\ no_nl (extras_text l first) = true.
Proof.
  induction l as [|q l IH]; intros first H.
  - cbn [extras_go extras_text fst snd]. repeat split; try reflexivity. constructor; [reflexivity|constructor].
  - cbn [forallb] in H. apply andb_true_iff in H as [Hq Hl].
    destruct (IH false Hl) as (I1 & I2 & I3 & I4 & I5).
    cbn [extras_go extras_text]. destruct (extras_go l false) as [rs rl]. cbn [fst snd] in *.
    assert (Q : Forall pc_ok (fst (extras_one q)) /\ texts (fst (extras_one q)) = snd (extras_one q) /\
                snd (extras_one q) = extra_one q /\ ascii (extra_one q) = true /\ no_nl (extra_one q) = true).
    { destruct q; cbn [extras_one extra_one fst snd extra_ok] in *;
        try (repeat split; try reflexivity; constructor).
      - destruct (unsafe_ok_parts _ Hq) as (_ & A & B).
        repeat split; try reflexivity.
        + constructor; [reflexivity|]. constructor; [exact Hq|constructor].
        + unfold texts. cbn. now rewrite app_nil_r.
        + now rewrite ascii_app, A.
        + now rewrite no_nl_app, B.
      - destruct (lit_ok_parts _ Hq) as [A B].
        repeat split; try reflexivity.
        + constructor; [reflexivity|]. constructor; [exact A|constructor].
        + unfold texts. cbn. now rewrite app_nil_r.
        + now rewrite ascii_app, A.
        + now rewrite no_nl_app, B.
      - destruct (dec_of_Z_ok z) as [A B].
        repeat split; try reflexivity.
        + constructor; [reflexivity|]. constructor; [apply dec_of_Z_unsafe|constructor].
        + unfold texts. cbn. now rewrite app_nil_r.
        + now rewrite ascii_app, A.
        + now rewrite no_nl_app, B. }
    destruct (extras_one q) as [ps pl]. cbn [fst snd] in *.
    destruct Q as (Q1 & Q2 & Q3 & Q4 & Q5).
    assert (HF : Forall pc_ok (ps ++ rs)) by (apply Forall_app; split; assumption).
    repeat split.
    + destruct first; cbn [app]; [exact HF|constructor; [reflexivity|exact HF]].
    + rewrite !texts_app, Q2, I2. destruct first; reflexivity.
    + rewrite Q3, I3. reflexivity.
    + rewrite !ascii_app, Q4, I4. destruct first; reflexivity.
    + rewrite !no_nl_app, Q5, I5. destruct first; reflexivity.
Qed.

Lemma plain_v_text e : aplain e -> plain_v e = error_text e.
Proof.
  intro H. unfold plain_v. destruct (lib_format e); [|reflexivity].
  apply fmt_plain_short_is_error_text, aplain_plain, H.
Qed.

Lemma spec_fmt_cons_extra p rest :
  match p with FXStr _ | FXSafeStr _ | FXInt _ => True | _ => False end ->
  spec_fmt (p :: rest) = lit "%!(EXTRA " ++ extras_text (p :: rest) true.
Proof. destruct p; intro H; try contradiction; reflexivity. Qed.

Lemma bfmt_ok f :
  Forall P (fkids f) -> ok_fmt f = true ->
  forall acc s t, fmt_inv acc t -> fmt_inv (fst (bfmt f acc s)) (t ++ spec_fmt f).
Proof.
  induction f as [|p f IH]; intros HP Hok acc s t Hi.
  - cbn [bfmt fst]. unfold spec_fmt. cbn [spec_fmt_with]. now rewrite app_nil_r.
  - assert (Hext : match p with FXStr _ | FXSafeStr _ | FXInt _ => True | _ => False end ->
                   forallb extra_ok (p :: f) = true ->
                   fmt_inv (fst (bfmt (p :: f) acc s)) (t ++ spec_fmt (p :: f))).
    { intros Hk Hall. rewrite (spec_fmt_cons_extra p f Hk).
      destruct (extras_go_ok (p :: f) true Hall) as (E1 & E2 & E3 & E4 & E5).
      assert (Hb : fst (bfmt (p :: f) acc s) =
                   mkbf (bf_pieces acc ++ PLit (lit "%!(EXTRA ") :: fst (extras_go (p :: f) true))
                        (bf_plain acc ++ lit "%!(EXTRA " ++ snd (extras_go (p :: f) true))
                        (bf_wrapped acc) (bf_errs acc) (bf_nw acc))
        by (destruct p; try contradiction; reflexivity).
      rewrite Hb. destruct Hi as [H1 H2 H3 H4 H5 H6 H7].
      constructor; cbn [bf_pieces bf_plain bf_errs bf_wrapped]; try assumption.
      - apply Forall_app. split; [exact H1|]. constructor; [reflexivity|exact E1].
      - rewrite texts_app, H2. f_equal.
        change (texts (PLit (lit "%!(EXTRA ") :: fst (extras_go (p :: f) true)))
          with (lit "%!(EXTRA " ++ texts (fst (extras_go (p :: f) true))).
        now rewrite E2, E3.
      - now rewrite H3, E3.
      - rewrite !ascii_app, H6, E4. reflexivity.
      - rewrite !no_nl_app, H7, E5. reflexivity. }
    destruct p as [l|v x|v x|v z|v z|v x|x|x|z];
      try (apply Hext; [exact I|exact Hok]);
      unfold ok_fmt in Hok; cbn [ok_fmt_with] in Hok; fold ok_fmt in Hok; cbn [fkids] in HP.
    + apply andb_true_iff in Hok as [H1 H2]. destruct (lit_ok_parts _ H1) as [A B].
      cbn [bfmt]. replace (t ++ spec_fmt (FLit l :: f)) with ((t ++ l) ++ spec_fmt f)
        by (rewrite <- app_assoc; reflexivity).
      apply IH; [exact HP|exact H2|]. now apply fmt_inv_add.
    + apply andb_true_iff in Hok as [H1 H2]. destruct (unsafe_ok_parts _ H1) as (_ & A & B).
      cbn [bfmt]. replace (t ++ spec_fmt (FStr v x :: f)) with ((t ++ x) ++ spec_fmt f)
        by (rewrite <- app_assoc; reflexivity).
      apply IH; [exact HP|exact H2|]. now apply fmt_inv_add.
    + apply andb_true_iff in Hok as [H1 H2]. destruct (lit_ok_parts _ H1) as [A B].
      cbn [bfmt]. replace (t ++ spec_fmt (FSafeStr v x :: f)) with ((t ++ x) ++ spec_fmt f)
        by (rewrite <- app_assoc; reflexivity).
      apply IH; [exact HP|exact H2|]. now apply fmt_inv_add.
    + destruct (dec_of_Z_ok z) as [A B].
      cbn [bfmt]. replace (t ++ spec_fmt (FInt v z :: f)) with ((t ++ dec_of_Z z) ++ spec_fmt f)
        by (rewrite <- app_assoc; reflexivity).
      apply IH; [exact HP|exact Hok|]. apply fmt_inv_add; try assumption; [apply dec_of_Z_unsafe|reflexivity].
    + destruct (dec_of_Z_ok z) as [A B].
      cbn [bfmt]. replace (t ++ spec_fmt (FSafeInt v z :: f)) with ((t ++ dec_of_Z z) ++ spec_fmt f)
        by (rewrite <- app_assoc; reflexivity).
      apply IH; [exact HP|exact Hok|]. apply fmt_inv_add; try assumption; reflexivity.
    + (* an error argument *)
      apply andb_true_iff in Hok as [Hok H4]. apply andb_true_iff in Hok as [Hok H3].
      apply andb_true_iff in Hok as [H1 H2].
      inversion HP as [|? ? Px HPf]; subst. specialize (Px H2 s).
      cbn [bfmt]. destruct (build env x s) as [[e|] s1]; cbn [fst built_ok] in Px.
      * destruct Px as [Tx Ax]. rewrite Tx in H3. cbn [one_line_spec] in H3.
        destruct (nested_piece e (aplain_agood e Ax) H3) as [Hp Hpt].
        pose proof (aplain_agood e Ax) as (_ & Ae & _).
        replace (t ++ spec_fmt (FErr v x :: f)) with ((t ++ error_text e) ++ spec_fmt f)
          by (rewrite <- app_assoc; unfold spec_fmt; cbn [spec_fmt_with]; now rewrite Tx).
        apply IH; [exact HPf|exact H4|].
        destruct Hi as [I1 I2 I3 I4 I5 I6 I7].
        destruct v; try discriminate; constructor; cbn [bf_pieces bf_plain bf_errs bf_wrapped];
          try (apply Forall_app; split; [assumption|constructor; [assumption|constructor]]);
          try (rewrite texts_app, I2; unfold texts; cbn; now rewrite app_nil_r, Hpt);
          try (now rewrite I3, plain_v_text);
          try assumption;
          try (now rewrite ascii_app, I6, Ae);
          try (now rewrite no_nl_app, I7, H3).
      * destruct (nil_text_ok v) as [A B].
        replace (t ++ spec_fmt (FErr v x :: f)) with ((t ++ nil_text v) ++ spec_fmt f)
          by (rewrite <- app_assoc; unfold spec_fmt; cbn [spec_fmt_with]; now rewrite Px).
        apply IH; [exact HPf|exact H4|].
        pose proof (fmt_inv_add acc t (PLit (nil_text v)) (nil_text v) Hi A eq_refl A B) as [J1 J2 J3 J4 J5 J6 J7].
        constructor; assumption.
Qed.
Lemma first_w_skip p f :
  match p with FErr VW _ | FXStr _ | FXSafeStr _ | FXInt _ => False | _ => True end ->
  first_w (p :: f) = first_w f.
Proof. destruct p as [| | | | |v x| | |]; try (intros []); try reflexivity. destruct v; try (intros []); reflexivity. Qed.

Lemma bfmt_first f :
  Forall P (fkids f) -> ok_fmt f = true ->
  forall acc s,
    option_map error_text (hd_error (bf_wrapped (fst (bfmt f acc s)))) =
    match hd_error (bf_wrapped acc) with Some w => Some (error_text w) | None => first_w f end.
Proof.
  induction f as [|p f IH]; intros HP Hok acc s.
  - cbn [bfmt fst]. destruct (hd_error (bf_wrapped acc)); reflexivity.
  - destruct p as [l|v x|v x|v z|v z|v x|x|x|z];
      try (cbn [bfmt fst bf_wrapped]; destruct (hd_error (bf_wrapped acc)); reflexivity);
      unfold ok_fmt in Hok; cbn [ok_fmt_with] in Hok; fold ok_fmt in Hok; cbn [fkids] in HP.
    + apply andb_true_iff in Hok as [_ H2]. cbn [bfmt]. rewrite IH by assumption. now rewrite first_w_skip.
    + apply andb_true_iff in Hok as [_ H2]. cbn [bfmt]. rewrite IH by assumption. now rewrite first_w_skip.
    + apply andb_true_iff in Hok as [_ H2]. cbn [bfmt]. rewrite IH by assumption. now rewrite first_w_skip.
    + cbn [bfmt]. rewrite IH by assumption. now rewrite first_w_skip.
    + cbn [bfmt]. rewrite IH by assumption. now rewrite first_w_skip.
    + apply andb_true_iff in Hok as [Hok H4]. apply andb_true_iff in Hok as [Hok H3].
      apply andb_true_iff in Hok as [H1 H2].
      inversion HP as [|? ? Px HPf]; subst. specialize (Px H2 s).
      cbn [bfmt]. destruct (build env x s) as [[e|] s1]; cbn [fst built_ok] in Px.
      * destruct Px as [Tx Ax]. rewrite IH by assumption. cbn [bf_wrapped].
        destruct v; try discriminate; try (now rewrite first_w_skip).
        unfold first_w. cbn [first_w_with]. rewrite Tx.
        destruct (bf_wrapped acc); reflexivity.
      * rewrite IH by assumption. cbn [bf_wrapped bf_add].
        destruct v; try discriminate; try (now rewrite first_w_skip).
        unfold first_w. cbn [first_w_with]. now rewrite Px.
Qed.

Lemma fmt_msg b t :
  fmt_inv b t ->
  mstr (sprint_pieces (bf_pieces b)) /\ no_nl (sprint_pieces (bf_pieces b)) = true /\
  strip_markers (sprint_pieces (bf_pieces b)) = t /\ (sprint_pieces (bf_pieces b) = [] \/ t <> []).
Proof.
  intros [H1 H2 H3 H4 H5 H6 H7]. destruct (sprint_ok _ H1) as (A & B & C). rewrite H2 in B.
  split; [exact A|]. split; [|split; [exact B|now rewrite B in C]].
  now rewrite <- (mstr_no_nl_strip _ A), B.
Qed.

Lemma fmt_rawmsg b t :
  fmt_inv b t -> nonempty t = true ->
  rawmsg (sprint_pieces (bf_pieces b)) /\ strip_markers (sprint_pieces (bf_pieces b)) = t.
Proof.
  intros Hi Hne. destruct (fmt_msg b t Hi) as (A & B & C & D). split; [|exact C].
  repeat split; try assumption. rewrite C. now apply nonempty_ne.
Qed.

Lemma is_fmt_empty_spec f : is_fmt_empty f = true -> spec_fmt f = [].
Proof.
  induction f as [|p f IH]; [reflexivity|]. unfold is_fmt_empty. cbn [forallb]. intro H.
  apply andb_true_iff in H as [H1 H2]. destruct p as [[|]| | | | | | | |]; try discriminate.
  unfold spec_fmt. cbn [spec_fmt_with app]. now apply IH.
Qed.

Lemma bfmt_start f s :
  Forall P (fkids f) -> ok_fmt f = true -> fmt_inv (fst (bfmt f bf_empty s)) (spec_fmt f).
Proof. intros HP Hok. exact (bfmt_ok f HP Hok bf_empty s [] fmt_inv_empty). Qed.

Lemma newf_ok f s :
  Forall P (fkids f) -> ok_fmt f = true -> nonempty (spec_fmt f) = true ->
  aplain (fst (newf_ f s)) /\ error_text (fst (newf_ f s)) = spec_fmt f.
Proof.
  intros HP Hok Hne. unfold newf_.
  pose proof (bfmt_start f s HP Hok) as Hi.
  destruct (bfmt f bf_empty s) as [b s1]. cbn [fst] in Hi.
  destruct (fmt_rawmsg b _ Hi Hne) as [Hraw Hs].
  set (msg := sprint_pieces (bf_pieces b)) in *.
  assert (H0 : exists e0 s2,
             (match bf_wrapped b with
              | w :: _ => mk_wrap (WNewMsg msg) w s1
              | [] => mk_leaf (LLeafError msg) s1
              end) = (e0, s2) /\ aplain e0 /\ error_text e0 = spec_fmt f).
  { pose proof (fi_wrapped _ _ Hi) as Hw. destruct (bf_wrapped b) as [|w ws].
    - eexists _, _. split; [reflexivity|]. split; [exact Hraw|exact Hs].
    - inversion Hw; subst. eexists _, _. split; [reflexivity|]. split; [|exact Hs].
      cbn [aplain awrap]. split; assumption. }
  destruct H0 as (e0 & s2 & -> & A0 & T0).
  destruct (add_sec_ok (bf_errs b) e0 s2 A0) as [A1 T1].
  destruct (add_sec (bf_errs b) e0 s2) as [e1 s3]. cbn [fst] in *.
  destruct (with_stack_ok e1 s3 A1) as [A2 T2]. split; [exact A2|]. now rewrite T2, T1.
Qed.

Lemma wrapf_ok e f b s :
  aplain e -> fmt_inv b (spec_fmt f) ->
  aplain (fst (wrapf_ e f b s)) /\
  spec_prefix (spec_fmt f) (Some (error_text e)) = Some (error_text (fst (wrapf_ e f b s))).
Proof.
  intros Ae Hi. unfold wrapf_.
  assert (H0 : exists e0 s2,
             (if is_fmt_empty f then (e, s) else mk_wrap (WPrefix (sprint_pieces (bf_pieces b))) e s) = (e0, s2) /\
             aplain e0 /\ spec_prefix (spec_fmt f) (Some (error_text e)) = Some (error_text e0)).
  { destruct (is_fmt_empty f) eqn:Ef.
    - eexists _, _. split; [reflexivity|]. split; [exact Ae|]. now rewrite (is_fmt_empty_spec f Ef).
    - destruct (fmt_msg b _ Hi) as (A & B & C & D).
      eexists _, _. split; [reflexivity|]. now apply prefix_ok. }
  destruct H0 as (e0 & s2 & -> & A0 & T0).
  destruct (add_sec_ok (bf_errs b) e0 s2 A0) as [A1 T1].
  destruct (add_sec (bf_errs b) e0 s2) as [e1 s3]. cbn [fst] in *.
  destruct (with_stack_ok e1 s3 A1) as [A2 T2]. split; [exact A2|]. now rewrite T2, T1.
Qed.

Lemma blist_ok rs :
  Forall P rs -> forallb (fun x => ok_recipe x && one_line_spec (spec_text x)) rs = true ->
  forall s, Forall one_line (fst (blist rs s)) /\ List.map error_text (fst (blist rs s)) = spec_list rs.
Proof.
  induction rs as [|x rs IH]; intros HP Hok s.
  - split; [constructor|reflexivity].
  - cbn [forallb] in Hok. apply andb_true_iff in Hok as [Hx Hrs]. apply andb_true_iff in Hx as [H1 H2].
    inversion HP as [|? ? Px HPr]; subst. specialize (Px H1 s).
    cbn [blist]. destruct (build env x s) as [o s1]. cbn [fst] in Px.
    destruct (IH HPr Hrs s1) as [I1 I2]. destruct (blist rs s1) as [es s2]. cbn [fst] in *.
    unfold spec_list. cbn [spec_list_with]. fold spec_list.
    destruct o as [e|]; cbn [built_ok] in Px.
    + destruct Px as [Te Ae]. rewrite Te in *. cbn [one_line_spec] in H2.
      split; [constructor; [split; assumption|exact I1]|]. cbn [List.map]. now rewrite I2.
    + rewrite Px. split; assumption.
Qed.

Lemma on_gen r s k r0 :
  built_ok r (fst (build env r s)) ->
  (forall e s1, spec_text r = Some (error_text e) -> aplain e ->
                spec_text r0 = Some (error_text (fst (k e s1))) /\ aplain (fst (k e s1))) ->
  (spec_text r = None -> spec_text r0 = None) ->
  built_ok r0 (fst (on_ r s k)).
Proof.
  intros H Hk Hn. unfold on_. destruct (build env r s) as [[e|] s1]; cbn [fst built_ok some_] in *.
  - destruct H. now apply Hk.
  - now apply Hn.
Qed.

Lemma on_f_gen r f s k r0 (Q : built_fmt -> Prop) :
  built_ok r (fst (build env r s)) ->
  (forall s', Q (fst (bfmt f bf_empty s'))) ->
  (forall e b s1, spec_text r = Some (error_text e) -> aplain e -> Q b ->
                  spec_text r0 = Some (error_text (fst (k e b s1))) /\ aplain (fst (k e b s1))) ->
  (spec_text r = None -> spec_text r0 = None) ->
  built_ok r0 (fst (on_f_ r f s k)).
Proof.
  intros H HQ Hk Hn. unfold on_f_. destruct (build env r s) as [o s1]. specialize (HQ s1).
  destruct (bfmt f bf_empty s1) as [b s2]. cbn [fst] in *.
  destruct o as [e|]; cbn [fst built_ok some_] in *.
  - destruct H. now apply Hk.
  - now apply Hn.
Qed.

Lemma app_ne_self (m x : str) : m <> [] -> m ++ x <> x.
Proof.
  intros Hm E. apply (f_equal (@List.length N)) in E. rewrite app_length in E.
  destruct m; [contradiction|]. cbn in E. lia.
Qed.

Lemma simple_wrap_ok i w e t :
  is_simple w -> aplain e -> wrap_text w (sem e) (lib_format e) = t ->
  unsafe_ok t = true -> t <> colon_sp ++ error_text e ->
  aplain (Wrap i w e) /\ error_text (Wrap i w e) = t.
Proof.
  intros Hk Ae Ht Hu Hne. split; [|exact Ht].
  cbn [aplain]. split; [exact Ae|].
  destruct w; try contradiction; cbn [awrap]; rewrite Ht; split; assumption.
Qed.

Lemma not_colon_ne t ct : not_colon t (Some ct) = true -> t <> colon_sp ++ ct.
Proof. cbn [not_colon]. intros H E. apply negb_true_iff in H. apply str_eqb_neq in H. now apply H. Qed.
(* an annotation-only constructor *)
Ltac on_case Pr Hok r s k :=
  match goal with
  | |- built_ok ?r0 (fst (build env ?r0 s)) =>
    change (build env r0 s) with (on_ r s k);
    apply on_gen; [apply Pr; exact Hok| |let E := fresh "E" in intro E; cbn [spec_text]; now rewrite ?E]
  end.

Ltac annot_case Pr Hok r s w :=
  on_case Pr Hok r s (mk_wrap w);
  let e := fresh "e" in let s1 := fresh "s1" in let Te := fresh "Te" in let Ae := fresh "Ae" in
  let A := fresh "A" in let B := fresh "B" in
  intros e s1 Te Ae; destruct (mk_wrap_annot w e s1 eq_refl Ae) as [A B];
  split; [cbn [spec_text]; now rewrite B|exact A].

Lemma build_text_all : forall r, P r.
Proof.
  induction r as [r IH] using recipe_kids_ind. unfold P. intros Hok s.
  destruct r; cbn [kids] in IH; cbn [ok_recipe] in Hok;
    try pose proof (Forall_inv IH) as Pr.
  - (* RNil *) reflexivity.
  - (* RSentinel *) apply sentinel_ok.
  - (* RStdNew *) split; [reflexivity|exact Hok].
  - (* RNew *)
    assert (E : exists i j st, fst (build env (RNew msg) s) =
                Some (Wrap i (WStack st) (Leaf j (LLeafError (sprint_pieces [PSafe msg])))))
      by (do 3 eexists; reflexivity).
    destruct E as (i & j & st & ->). destruct (unsafe_ok_parts _ Hok) as (Hne & Ha & Hn).
    cbn [built_ok spec_text]. rewrite sprint_safe_ascii by exact Ha. split.
    + change (Some msg = Some (strip_markers msg)). now rewrite (strip_ascii msg).
    + cbn [aplain aleaf awrap]. split; [|exact I]. split; [now apply mstr_ascii|]. split; [exact Hn|].
      now rewrite (strip_ascii msg).
  - (* RNewf *)
    apply andb_true_iff in Hok as [H1 H2]. rewrite build_newf. unfold some_. cbn [fst built_ok spec_text].
    destruct (newf_ok f s IH H1 H2) as [A B]. split; [now rewrite B|exact A].
  - (* RPkgNew *)
    assert (E : exists i st, fst (build env (RPkgNew msg) s) = Some (Leaf i (LPkgFund msg st)))
      by (do 2 eexists; reflexivity).
    destruct E as (i & st & ->). split; [reflexivity|exact Hok].
  - (* RErrno *) split; [reflexivity|]. apply errno_text_unsafe.
  - (* RUnimpl *) split; [reflexivity|exact Hok].
  - (* RAssertf *)
    apply andb_true_iff in Hok as [H1 H2]. rewrite build_assertf.
    destruct (newf_ok f s IH H1 H2) as [A B]. destruct (newf_ f s) as [e s1]. cbn [fst] in A, B.
    destruct (mk_wrap_annot WAssert e s1 eq_refl A) as [A' B'].
    unfold some_. cbn [fst built_ok spec_text]. split; [now rewrite B', B|exact A'].
  - (* RGrpcStatus *)
    change (build env (RGrpcStatus code msg) s) with
      (if code =? 0 then (@None err, s) else some_ (mk_leaf (LGrpcStatus code msg) s)).
    unfold built_ok. cbn [spec_text]. destruct (code =? 0); cbn [fst snd some_ mk_leaf fresh_oid]; [reflexivity|].
    split; [reflexivity|]. cbn [aplain aleaf leaf_text]. now apply grpc_status_text_ok.
  - (* RGogoStatus *)
    change (build env (RGogoStatus code msg) s) with
      (if code =? 0 then (@None err, s) else some_ (mk_leaf (LGogoStatus code msg) s)).
    unfold built_ok. cbn [spec_text]. destruct (code =? 0); cbn [fst snd some_ mk_leaf fresh_oid]; [reflexivity|].
    split; [reflexivity|]. cbn [aplain aleaf leaf_text]. now apply grpc_status_text_ok.
  - (* RTestError *) split; reflexivity.
  - (* RULeaf *) split; [reflexivity|exact Hok].
  - (* RWrap *)
    apply andb_true_iff in Hok as [H1 H2]. rewrite build_wrap.
    apply on_gen; [apply Pr; exact H1| |intro E; cbn [spec_text]; now rewrite E].
    intros e s1 Te Ae. cbn [spec_text]. rewrite Te.
    destruct msg as [|x msg].
    + destruct (with_stack_ok e s1 Ae) as [A B]. split; [cbn [spec_prefix]; now rewrite B|exact A].
    + set (m := x :: msg) in *.
      destruct (const_prefix_ok (bs_oid s1) m e Ae H2) as [A B].
      unfold mk_wrap, fresh_oid.
      match goal with |- context [with_stack env ?e0 ?s0] => destruct (with_stack_ok e0 s0 A) as [A' B'] end.
      split; [now rewrite B', B|exact A'].
  - (* RWrapf *)
    apply andb_true_iff in Hok as [H1 H2]. rewrite build_wrapf.
    apply (on_f_gen r f s _ _ (fun b => fmt_inv b (spec_fmt f)));
      [apply Pr; exact H1|intro s'; apply bfmt_start; [exact (Forall_inv_tail IH)|exact H2]|
      |intro E; cbn [spec_text]; now rewrite E].
    intros e b s1 Te Ae Hi. cbn [spec_text]. rewrite Te.
    destruct (wrapf_ok e f b s1 Ae Hi) as [A B]. split; [exact B|exact A].
  - (* RWithMessage *)
    apply andb_true_iff in Hok as [H1 H2].
    on_case Pr H1 r s (mk_wrap (WPrefix (sprint_pieces [PSafe msg]))).
    intros e s1 Te Ae. cbn [spec_text]. rewrite Te.
    destruct (const_prefix_ok (bs_oid s1) msg e Ae H2) as [A B]. split; [exact B|exact A].
  - (* RWithMessagef *)
    apply andb_true_iff in Hok as [H1 H2]. rewrite build_withmessagef.
    apply (on_f_gen r f s _ _ (fun b => fmt_inv b (spec_fmt f)));
      [apply Pr; exact H1|intro s'; apply bfmt_start; [exact (Forall_inv_tail IH)|exact H2]|
      |intro E; cbn [spec_text]; now rewrite E].
    intros e b s1 Te Ae Hi. cbn [spec_text]. rewrite Te.
    destruct (fmt_msg b _ Hi) as (A & B & C & D).
    destruct (prefix_ok (bs_oid s1) _ e _ Ae A B C D) as [A' B']. split; [exact B'|exact A'].
  - (* RWithStack *)
    on_case Pr Hok r s (with_stack env).
    intros e s1 Te Ae. destruct (with_stack_ok e s1 Ae) as [A B].
    split; [cbn [spec_text]; now rewrite B|exact A].
  - annot_case Pr Hok r s (WHint h).
  - (* RHintf *)
    rewrite build_hintf.
    apply (on_f_gen r f s _ _ (fun _ => True)); [apply Pr; exact Hok|intro s'; exact I|
      |intro E; cbn [spec_text]; now rewrite E].
    intros e b s1 Te Ae _. cbn [spec_text].
    match goal with |- context [mk_wrap ?w e s1] => destruct (mk_wrap_annot w e s1 eq_refl Ae) as [A B] end.
    split; [now rewrite B|exact A].
  - (* RDetailf *)
    rewrite build_detailf.
    apply (on_f_gen r f s _ _ (fun _ => True)); [apply Pr; exact Hok|intro s'; exact I|
      |intro E; cbn [spec_text]; now rewrite E].
    intros e b s1 Te Ae _. cbn [spec_text].
    match goal with |- context [mk_wrap ?w e s1] => destruct (mk_wrap_annot w e s1 eq_refl Ae) as [A B] end.
    split; [now rewrite B|exact A].
  - annot_case Pr Hok r s (WDetail d).
  - annot_case Pr Hok r s (WIssueLink url det).
  - annot_case Pr Hok r s (WTelemetry keys).
  - annot_case Pr Hok r s (WDomain d).
  - (* RTags *)
    on_case Pr Hok r s (fun e s1 => match tags with [] => (e, s1)
                                    | _ => mk_wrap (WContext (tags_of tags) None) e s1 end).
    intros e s1 Te Ae. cbn [spec_text]. destruct tags as [|tg tags].
    + split; assumption.
    + destruct (mk_wrap_annot (WContext (tags_of (tg :: tags)) None) e s1 eq_refl Ae) as [A B].
      split; [now rewrite B|exact A].
  - annot_case Pr Hok r s WAssert.
  - (* RMark *)
    rewrite build_mark. specialize (Pr Hok s). destruct (build env r1 s) as [o s1]. cbn [fst] in Pr.
    destruct (build env r2 s1) as [ox s2].
    destruct o as [e|]; cbn [built_ok] in Pr.
    + destruct Pr as [Te Ae]. destruct ox as [x|].
      * destruct (mk_wrap_annot (WMark (get_mark x)) e s2 eq_refl Ae) as [A B].
        unfold some_. cbn [fst built_ok spec_text]. split; [now rewrite B|exact A].
      * split; assumption.
    + exact Pr.
  - (* RSafeDetails *)
    rewrite build_safedetails.
    apply (on_f_gen r f s _ _ (fun _ => True)); [apply Pr; exact Hok|intro s'; exact I|
      |intro E; cbn [spec_text]; now rewrite E].
    intros e b s1 Te Ae _. cbn [spec_text]. destruct (is_fmt_empty f).
    + split; assumption.
    + match goal with |- context [mk_wrap ?w e s1] => destruct (mk_wrap_annot w e s1 eq_refl Ae) as [A B] end.
      split; [now rewrite B|exact A].
  - annot_case Pr Hok r s (WHTTP code).
  - annot_case Pr Hok r s (WGrpc code).
  - (* RSecondary *)
    rewrite build_secondary. specialize (Pr Hok s). destruct (build env r1 s) as [o s1]. cbn [fst] in Pr.
    destruct (build env r2 s1) as [ox s2].
    destruct o as [e|]; cbn [built_ok] in Pr.
    + destruct Pr as [Te Ae]. destruct ox as [x|]; (split; [exact Te|exact Ae]).
    + destruct ox; exact Pr.
  - (* RCombine *)
    apply andb_true_iff in Hok as [H1 H2]. rewrite build_combine.
    specialize (Pr H1 s). destruct (build env r1 s) as [o s1]. cbn [fst] in Pr.
    pose proof (Forall_inv (Forall_inv_tail IH) H2 s1) as Px. destruct (build env r2 s1) as [ox s2].
    cbn [fst] in Px.
    destruct o as [e|]; cbn [built_ok] in Pr.
    + destruct Pr as [Te Ae].
      destruct ox as [x|]; unfold fresh_oid; cbn [fst built_ok spec_text]; rewrite Te; (split; [reflexivity|exact Ae]).
    + destruct ox as [x|]; cbn [fst built_ok spec_text] in *; rewrite Pr; exact Px.
  - (* RHandled *)
    apply andb_true_iff in Hok as [H1 H2].
    on_case Pr H1 r s handled_.
    intros e s1 Te Ae. rewrite Te in H2. cbn [one_line_spec] in H2.
    destruct (handled_ok e s1 Ae H2) as [A B]. split; [cbn [spec_text]; now rewrite B|exact A].
  - (* RHandledMsg *)
    apply andb_true_iff in Hok as [H1 H2].
    on_case Pr H1 r s (fun e s1 => let '(i, s2) := fresh_oid s1 in (Barrier i (sprint_pieces [PUnsafe msg]) e, s2)).
    intros e s1 Te Ae. cbn [spec_text]. rewrite Te. unfold fresh_oid. cbn [fst].
    destruct (unsafe_rawmsg msg H2) as [A B]. split; [rewrite barrier_text; now rewrite B|exact A].
  - (* RHandledMsgf *)
    apply andb_true_iff in Hok as [Hok H3]. apply andb_true_iff in Hok as [H1 H2].
    rewrite build_handledmsgf.
    apply (on_f_gen r f s _ _ (fun b => fmt_inv b (spec_fmt f)));
      [apply Pr; exact H1|intro s'; apply bfmt_start; [exact (Forall_inv_tail IH)|exact H2]|
      |intro E; cbn [spec_text]; now rewrite E].
    intros e b s1 Te Ae Hi. cbn [spec_text]. rewrite Te. unfold fresh_oid. cbn [fst].
    destruct (fmt_rawmsg b _ Hi H3) as [A B]. split; [rewrite barrier_text; now rewrite B|exact A].
  - (* RHandledInDomain *)
    apply andb_true_iff in Hok as [H1 H2].
    on_case Pr H1 r s (fun e s1 => let '(b, s2) := handled_ e s1 in mk_wrap (WDomain d) b s2).
    intros e s1 Te Ae. rewrite Te in H2. cbn [one_line_spec] in H2.
    destruct (handled_ok e s1 Ae H2) as [A B]. destruct (handled_ e s1) as [b s2]. cbn [fst] in A, B.
    destruct (mk_wrap_annot (WDomain d) b s2 eq_refl A) as [A' B'].
    split; [cbn [spec_text]; now rewrite B', B|exact A'].
  - (* RHandledInDomainMsg *)
    apply andb_true_iff in Hok as [H1 H2].
    on_case Pr H1 r s (fun e s1 => let '(i, s2) := fresh_oid s1 in
                                   mk_wrap (WDomain d) (Barrier i (sprint_pieces [PUnsafe msg]) e) s2).
    intros e s1 Te Ae. cbn [spec_text]. rewrite Te. unfold fresh_oid.
    destruct (unsafe_rawmsg msg H2) as [A B].
    match goal with |- context [mk_wrap ?w ?b0 ?s0] =>
      destruct (mk_wrap_annot w b0 s0 eq_refl A) as [A' B'] end.
    split; [rewrite B', barrier_text; now rewrite B|exact A'].
  - (* RHandleAssert *)
    apply andb_true_iff in Hok as [H1 H2].
    on_case Pr H1 r s (fun e s1 => let '(b, s2) := handled_ e s1 in
                                   let '(w, s3) := with_stack env b s2 in mk_wrap WAssert w s3).
    intros e s1 Te Ae. rewrite Te in H2. cbn [one_line_spec] in H2.
    destruct (handled_ok e s1 Ae H2) as [A B]. destruct (handled_ e s1) as [b s2]. cbn [fst] in A, B.
    destruct (with_stack_ok b s2 A) as [A1 B1]. destruct (with_stack env b s2) as [w s3]. cbn [fst] in A1, B1.
    destruct (mk_wrap_annot WAssert w s3 eq_refl A1) as [A' B'].
    split; [cbn [spec_text]; now rewrite B', B1, B|exact A'].
  - (* RNewAssertWrapped *)
    apply andb_true_iff in Hok as [Hok H3]. apply andb_true_iff in Hok as [H1 H2].
    rewrite build_newassertwrapped.
    apply (on_f_gen r f s _ _ (fun b => fmt_inv b (spec_fmt f)));
      [apply Pr; exact H1|intro s'; apply bfmt_start; [exact (Forall_inv_tail IH)|exact H3]|
      |intro E; cbn [spec_text]; now rewrite E].
    intros e bf s1 Te Ae Hi. cbn [spec_text]. rewrite Te in *. cbn [one_line_spec] in H2.
    destruct (handled_ok e s1 Ae H2) as [A B]. destruct (handled_ e s1) as [b s2]. cbn [fst] in A, B.
    destruct (wrapf_ok b f bf s2 A Hi) as [A1 B1]. destruct (wrapf_ b f bf s2) as [w s3]. cbn [fst] in A1, B1.
    destruct (mk_wrap_annot WAssert w s3 eq_refl A1) as [A' B'].
    split; [now rewrite B', <- B1, B|exact A'].
  - (* RJoin *)
    rewrite build_join. destruct (blist_ok rs IH Hok s) as [L1 L2].
    destruct (blist rs s) as [es s1]. cbn [fst] in L1, L2.
    assert (ES : spec_text (RJoin rs) = match spec_list rs with [] => None | ts => Some (join [nl] ts) end)
      by reflexivity.
    destruct es as [|e0 es]; [cbn [fst built_ok]; now rewrite ES, <- L2|].
    assert (Hne : e0 :: es <> []) by discriminate.
    assert (Hag : Forall agood (e0 :: es)).
    { eapply Forall_impl; [|exact L1]. intros c [Hc _]. now apply aplain_agood. }
    unfold fresh_oid.
    match goal with |- context [with_stack env (Multi ?i MJoin (e0 :: es)) ?s0] =>
      destruct (with_stack_ok (Multi i MJoin (e0 :: es)) s0 (aplain_join i (e0 :: es) Hne L1)) as [A B];
      pose proof (mjoin_text i (e0 :: es) Hne L1 Hag) as T end.
    unfold some_. cbn [fst built_ok]. split; [|exact A]. rewrite B, T, ES, <- L2. reflexivity.
  - (* RStdJoin *)
    rewrite build_stdjoin. destruct (blist_ok rs IH Hok s) as [L1 L2].
    destruct (blist rs s) as [es s1]. cbn [fst] in L1, L2.
    assert (ES : spec_text (RStdJoin rs) = match spec_list rs with [] => None | ts => Some (join [nl] ts) end)
      by reflexivity.
    destruct es as [|e0 es]; [cbn [fst built_ok]; now rewrite ES, <- L2|].
    assert (Hne : e0 :: es <> []) by discriminate.
    unfold fresh_oid. cbn [fst built_ok]. split; [|now apply aplain_stdjoin].
    rewrite stdjoin_text, ES, <- L2. reflexivity.
  - (* RFmtErrorf *)
    apply andb_true_iff in Hok as [Hok H3]. apply andb_true_iff in Hok as [H1 H2].
    rewrite build_fmterrorf.
    assert (ES : spec_text (RFmtErrorf f) = Some (spec_fmt f)) by reflexivity.
    pose proof (bfmt_start f s IH H1) as Hi. pose proof (bfmt_first f IH H1 bf_empty s) as Hf.
    destruct (bfmt f bf_empty s) as [b s1]. cbn [fst] in Hi, Hf. unfold fresh_oid.
    pose proof (fi_plain _ _ Hi) as Hp.
    assert (Hu : unsafe_ok (bf_plain b) = true).
    { rewrite Hp. apply unsafe_ok_intro; [now apply nonempty_ne|apply (fi_ascii _ _ Hi)|apply (fi_nonl _ _ Hi)]. }
    destruct (bf_nw b) as [|[|n]].
    + cbn [fst built_ok]. split; [rewrite ES; now rewrite <- Hp|exact Hu].
    + pose proof (fi_wrapped _ _ Hi) as Hw. destruct (bf_wrapped b) as [|w ws]; cbn [fst built_ok].
      * split; [rewrite ES; now rewrite <- Hp|exact Hu].
      * inversion Hw as [|? ? Aw Hws]; subst. cbn [hd_error option_map bf_wrapped bf_empty] in Hf.
        fold first_w in H3. fold spec_fmt in H3. rewrite <- Hf in H3. apply not_colon_ne in H3.
        destruct (simple_wrap_ok (bs_oid s1) (WFmtWrap (bf_plain b)) w (bf_plain b) I Aw eq_refl Hu) as [A B].
        { now rewrite Hp. }
        split; [rewrite B, ES; now rewrite Hp|exact A].
    + cbn [fst built_ok]. split; [rewrite ES; now rewrite <- Hp|exact Hu].
  - (* RPkgMsg *)
    apply andb_true_iff in Hok as [Hok H3]. apply andb_true_iff in Hok as [H1 H2].
    on_case Pr H1 r s (mk_wrap (WPkgMsg msg)).
    intros e s1 Te Ae. cbn [spec_text]. rewrite Te in *. cbn [one_line_spec option_map] in *.
    destruct (unsafe_ok_parts _ H3) as (Hne & Ha & Hn). pose proof (aplain_agood e Ae) as (_ & Ace & _).
    unfold mk_wrap, fresh_oid. cbn [fst].
    destruct (simple_wrap_ok (bs_oid s1) (WPkgMsg msg) e (msg ++ colon_sp ++ error_text e) I Ae eq_refl) as [A B].
    { apply unsafe_ok_intro; [destruct msg; [contradiction|discriminate]| |].
      - now rewrite !ascii_app, Ha, Ace.
      - now rewrite !no_nl_app, Hn, H2. }
    { now apply app_ne_self. }
    split; [now rewrite B|exact A].
  - (* RPkgStack *)
    apply andb_true_iff in Hok as [H1 H2].
    on_case Pr H1 r s (fun e s1 => let '(st, s2) := fresh_stack env s1 in mk_wrap (WPkgStack st) e s2).
    intros e s1 Te Ae. cbn [spec_text]. rewrite Te in *. cbn [one_line_spec] in *.
    pose proof (aplain_agood e Ae) as (_ & Ace & _).
    unfold fresh_stack, mk_wrap, fresh_oid. cbn [fst].
    match goal with |- context [Wrap ?i (WPkgStack ?st) e] =>
      destruct (simple_wrap_ok i (WPkgStack st) e (error_text e) I Ae eq_refl) as [A B] end.
    { apply unsafe_ok_intro; [now apply aplain_text_ne|exact Ace|exact H2]. }
    { intro E. symmetry in E. revert E. apply app_ne_self. discriminate. }
    split; [now rewrite B|exact A].
  - (* RPathError *)
    apply andb_true_iff in Hok as [Hok H3]. apply andb_true_iff in Hok as [H1 H2].
    on_case Pr H1 r s (mk_wrap (WPathError op path)).
    intros e s1 Te Ae. cbn [spec_text]. rewrite Te. cbn [option_map].
    destruct (lit_ok_parts _ H2) as [Ha Hn].
    unfold mk_wrap, fresh_oid. cbn [fst]. split; [reflexivity|].
    cbn [aplain awrap]. repeat split; assumption.
  - (* RLinkError *)
    apply andb_true_iff in Hok as [Hok H4]. apply andb_true_iff in Hok as [Hok H3].
    apply andb_true_iff in Hok as [H1 H2].
    on_case Pr H1 r s (mk_wrap (WLinkError op old new)).
    intros e s1 Te Ae. cbn [spec_text]. rewrite Te. cbn [option_map].
    destruct (lit_ok_parts _ H2) as [Ha Hn].
    unfold mk_wrap, fresh_oid. cbn [fst]. split; [reflexivity|].
    cbn [aplain awrap]. repeat split; assumption.
  - (* RSyscallError *)
    apply andb_true_iff in Hok as [H1 H2].
    on_case Pr H1 r s (mk_wrap (WSyscallError sc)).
    intros e s1 Te Ae. cbn [spec_text]. rewrite Te. cbn [option_map].
    unfold mk_wrap, fresh_oid. cbn [fst]. split; [reflexivity|].
    cbn [aplain awrap]. split; assumption.
  - (* ROpError *)
    apply andb_true_iff in Hok as [H1 H2].
    on_case Pr H1 r s (mk_wrap (WOpError op net src addr)).
    intros e s1 Te Ae. cbn [spec_text]. rewrite Te. cbn [option_map].
    unfold mk_wrap, fresh_oid. cbn [fst]. split; [reflexivity|].
    cbn [aplain awrap]. split; assumption.
  - (* RForeignErrno *) split; [reflexivity|]. apply errno_text_unsafe.
  - (* RUWrap *)
    apply andb_true_iff in Hok as [H1 H2].
    on_case Pr H1 r s (mk_wrap (WUser u msg xs)).
    intros e s1 Te Ae. cbn [spec_text]. rewrite Te in *. cbn [option_map].
    pose proof (aplain_agood e Ae) as (_ & Ace & _).
    unfold mk_wrap, fresh_oid. cbn [fst].
    assert (Hpre : unsafe_ok msg = true -> no_nl (error_text e) = true ->
                   unsafe_ok (msg ++ colon_sp ++ error_text e) = true /\
                   msg ++ colon_sp ++ error_text e <> colon_sp ++ error_text e).
    { intros Hu Hn'. destruct (unsafe_ok_parts _ Hu) as (Hne & Ha & Hn). split.
      - apply unsafe_ok_intro; [destruct msg; [contradiction|discriminate]| |].
        + now rewrite !ascii_app, Ha, Ace.
        + now rewrite !no_nl_app, Hn, Hn'.
      - now apply app_ne_self. }
    destruct u.
    + apply andb_true_iff in H2 as [H2 H3]. cbn [one_line_spec] in H3. destruct (Hpre H2 H3) as [Q1 Q2].
      destruct (simple_wrap_ok (bs_oid s1) (WUser UWUnwrap msg xs) e (msg ++ colon_sp ++ error_text e) I Ae eq_refl Q1 Q2) as [A B].
      split; [now rewrite B|exact A].
    + apply andb_true_iff in H2 as [H2 H3]. cbn [one_line_spec] in H3. destruct (Hpre H2 H3) as [Q1 Q2].
      destruct (simple_wrap_ok (bs_oid s1) (WUser UWCause msg xs) e (msg ++ colon_sp ++ error_text e) I Ae eq_refl Q1 Q2) as [A B].
      split; [now rewrite B|exact A].
    + apply andb_true_iff in H2 as [H2 H3]. cbn [one_line_spec] in H3. destruct (Hpre H2 H3) as [Q1 Q2].
      destruct (simple_wrap_ok (bs_oid s1) (WUser UWBoth msg xs) e (msg ++ colon_sp ++ error_text e) I Ae eq_refl Q1 Q2) as [A B].
      split; [now rewrite B|exact A].
    + apply andb_true_iff in H2 as [H2 H3]. apply not_colon_ne in H3.
      destruct (simple_wrap_ok (bs_oid s1) (WUser UWFull msg xs) e msg I Ae eq_refl H2 H3) as [A B].
      split; [now rewrite B|exact A].
    + cbn [one_line_spec] in H2.
      destruct (simple_wrap_ok (bs_oid s1) (WUser UWEmpty msg xs) e (error_text e) I Ae eq_refl) as [A B].
      { apply unsafe_ok_intro; [now apply aplain_text_ne|exact Ace|exact H2]. }
      { intro E. symmetry in E. revert E. apply app_ne_self. discriminate. }
      split; [now rewrite B|exact A].
    + apply andb_true_iff in H2 as [H2 H3]. cbn [one_line_spec] in H3. destruct (Hpre H2 H3) as [Q1 Q2].
      destruct (simple_wrap_ok (bs_oid s1) (WUser UWSafeDet msg xs) e (msg ++ colon_sp ++ error_text e) I Ae eq_refl Q1 Q2) as [A B].
      split; [now rewrite B|exact A].
    + apply andb_true_iff in H2 as [H2 H3]. cbn [one_line_spec] in H3. destruct (Hpre H2 H3) as [Q1 Q2].
      destruct (simple_wrap_ok (bs_oid s1) (WUser UWAs msg xs) e (msg ++ colon_sp ++ error_text e) I Ae eq_refl Q1 Q2) as [A B].
      split; [now rewrite B|exact A].
    + apply andb_true_iff in H2 as [H2 H3]. cbn [one_line_spec] in H3. destruct (Hpre H2 H3) as [Q1 Q2].
      destruct (simple_wrap_ok (bs_oid s1) (WUser UWNoCmp msg xs) e (msg ++ colon_sp ++ error_text e) I Ae eq_refl Q1 Q2) as [A B].
      split; [now rewrite B|exact A].
  - (* RTransfer *) discriminate.
Qed.
End BuildText.

(* ================================================================== *)
(* the theorem                                                         *)
(* ================================================================== *)
Theorem build_text env r s :
  ok_recipe r = true ->
  match fst (build env r s) with
  | Some e => spec_text r = Some (error_text e) /\ plain_tree e = true
  | None => spec_text r = None
  end.
Proof.
  intro H. pose proof (build_text_all env r H s) as B.
  destruct (fst (build env r s)) as [e|]; cbn [built_ok] in B.
  - destruct B as [B1 B2]. split; [exact B1|now apply aplain_plain].
  - exact B.
Qed.

(* the key fact about format calls: the redactable message stripped of its
   markers, the plain message and the specification coincide *)
Corollary fmt_call_text env f s :
  ok_fmt f = true ->
  let b := fst (bfmt env f bf_empty s) in
  strip_markers (sprint_pieces (bf_pieces b)) = spec_fmt f /\ bf_plain b = spec_fmt f.
Proof.
  intro H. cbv zeta.
  assert (HP : Forall (P env) (fkids f)) by (apply Forall_forall; intros x _; apply build_text_all).
  pose proof (bfmt_start env f s HP H) as Hi.
  destruct (fmt_msg _ _ Hi) as (_ & _ & A & _). split; [exact A|apply (fi_plain _ _ Hi)].
Qed.

(* %v / %s of the built error is its Error() text as well (ShortText) *)
Corollary build_text_short env r s e :
  ok_recipe r = true -> fst (build env r s) = Some e ->
  fmt_plain_short e = error_text e /\ spec_text r = Some (error_text e).
Proof.
  intros H E. pose proof (build_text env r s H) as B. rewrite E in B. destruct B as [B1 B2].
  split; [now apply fmt_plain_short_is_error_text|exact B1].
Qed.

(* ================================================================== *)
(* examples                                                            *)
(* ================================================================== *)
Definition text_of (r : recipe) : option str :=
  match fst (build (mkbenv []) r bs_init) with Some e => Some (error_text e) | None => None end.

(* a recipe accepted by [ok_recipe]: Wrapf with an int, a %w of a handled
   error and extra arguments, over a Join with a nil branch *)
Definition ex_recipe : recipe :=
  RWrapf (RJoin [RNewf [FLit (lit "a "); FStr VS (lit "b"); FErr VV (RErrno 2)]; RNil; RSentinel 8])
         [FLit (lit "ctx "); FInt VD 42; FLit (lit " ");
          FErr VW (RHandled (RWrap (RPkgNew (lit "p")) (lit "w"))); FXStr (lit "extra"); FXInt 7].

Example ex_recipe_ok :
  ok_recipe ex_recipe = true /\
  spec_text ex_recipe =
  Some (lit "ctx 42 w: p%!(EXTRA string=extra, int=7): a bno such file or directory" ++ [nl] ++ lit "EOF") /\
  text_of ex_recipe = spec_text ex_recipe.
Proof. vm_compute. repeat split. Qed.

(* net.OpError with a source only, over an errno forwarded from another platform *)
Example ex_operror_ok :
  let r := RWrap (ROpError (RForeignErrno 110) (lit "dial") (lit "tcp") (lit "10.0.0.1:1") []) (lit "ctx") in
  ok_recipe r = true /\
  spec_text r = Some (lit "ctx: dial tcp 10.0.0.1:1: connection timed out") /\
  text_of r = spec_text r.
Proof. vm_compute. repeat split. Qed.

(* the side conditions are needed: without them the text differs from the
   specification.  In each case [ok_recipe] is false. *)
(* 1. fmt.Errorf(": %w", x) under a library wrapper: the engine drops the
      empty prefix, Wrap prints 'm: x' and not 'm: : x' *)
Example ce_colon_prefix :
  let r := RWrap (RHint (RFmtErrorf [FLit (lit ": "); FErr VW (RStdNew (lit "x"))]) (lit "h")) (lit "m") in
  ok_recipe r = false /\ text_of r = Some (lit "m: x") /\ spec_text r = Some (lit "m: : x").
Proof. vm_compute. repeat split. Qed.

(* 2. pkg/errors.WithMessage(x, ""): same effect *)
Example ce_empty_pkgmsg :
  let r := RWrap (RHint (RPkgMsg (RStdNew (lit "x")) []) (lit "h")) (lit "m") in
  ok_recipe r = false /\ text_of r = Some (lit "m: x") /\ spec_text r = Some (lit "m: : x").
Proof. vm_compute. repeat split. Qed.

(* 3. a message that starts with a newline: the engine drops it *)
Example ce_leading_newline :
  let r := RWrap (RHint (RStdNew ([nl] ++ lit "b")) (lit "h")) (lit "m") in
  ok_recipe r = false /\ text_of r = Some (lit "m: b") /\ spec_text r = Some (lit "m: " ++ [nl] ++ lit "b").
Proof. vm_compute. repeat split. Qed.

(* 4. a marker in a message is escaped *)
Example ce_marker :
  let r := RNew (m_start ++ lit "x") in
  ok_recipe r = false /\ text_of r = Some (lit "?x") /\ spec_text r = Some (m_start ++ lit "x").
Proof. vm_compute. repeat split. Qed.

(* 5. %+v of an error argument prints the verbose rendering *)
Example ce_plus_v :
  let r := RWrapf (RStdNew (lit "c")) [FErr VPlusV (RNew (lit "x"))] in
  ok_recipe r = false /\ spec_text r = Some (lit "x: c") /\ text_of r <> spec_text r.
Proof. vm_compute. repeat split. discriminate. Qed.

(* 6. the text can be right while the tree is not [plain_tree] (the second
      conjunct of [build_text]): a two-line message *)
Example ce_two_lines :
  let r := RWrap (RNew (lit "a" ++ [nl] ++ lit "b")) (lit "m") in
  ok_recipe r = false /\ text_of r = spec_text r /\
  match fst (build (mkbenv []) r bs_init) with Some e => plain_tree e = false | None => False end.
Proof. vm_compute. repeat split. Qed.

(* 7. net.OpError with both Source and Addr: Error() is as specified, but %v prints
      "src -> addr" (Proofs/ShortText.v, operror_arrow_refuted), so the tree is not
      [plain_tree] *)
Example ce_operror_both :
  let r := ROpError (RStdNew (lit "x")) (lit "dial") (lit "tcp") (lit "a") (lit "b") in
  ok_recipe r = false /\ text_of r = spec_text r /\
  match fst (build (mkbenv []) r bs_init) with
  | Some e => plain_tree e = false /\ fmt_plain_short e <> error_text e
  | None => False
  end.
Proof. vm_compute. repeat split. discriminate. Qed.
