(* C09 (first clause) / C10: printing an error with %v / %s through the
   library's formatting engine gives exactly its Error() text, for trees whose
   printed strings are "plain" (see [plain_tree] below). *)
From Errv Require Import Base.Str Redact.Markers Redact.Buffer Model.Err Model.Sem
     Proofs.StrFacts Proofs.FastIs Proofs.RedactFacts Proofs.EngineFacts Proofs.HiddenNI.
From Coq Require Import Lia.

(* ================================================================== *)
(* 1. strings                                                          *)
(* ================================================================== *)
Definition nonempty (s : str) : bool := negb (is_empty s).

Lemma nonempty_ne s : nonempty s = true -> s <> [].
Proof. destruct s; [discriminate|intros _; discriminate]. Qed.

Lemma no_nl_app a b : no_nl (a ++ b) = no_nl a && no_nl b.
Proof. unfold no_nl. apply forallb_app. Qed.

Lemma drop_prefix_app a b : drop_prefix a (a ++ b) = Some b.
Proof. induction a as [|x a IH]; cbn; [reflexivity|]. now rewrite N.eqb_refl. Qed.

Lemma drop_prefix_spec a : forall s r, drop_prefix a s = Some r -> s = a ++ r.
Proof.
  induction a as [|x a IH]; intros s r H; cbn in H.
  - now injection H as ->.
  - destruct s as [|y s]; [discriminate|]. destruct (x =? y) eqn:E; [|discriminate].
    apply N.eqb_eq in E. subst y. cbn. f_equal. now apply IH.
Qed.

Lemma drop_suffix_app a b : drop_suffix b (a ++ b) = Some a.
Proof.
  unfold drop_suffix. rewrite ?frev_eq. rewrite rev_app_distr, drop_prefix_app. now rewrite frev_eq, rev_involutive.
Qed.

Lemma drop_suffix_spec suf s r : drop_suffix suf s = Some r -> s = r ++ suf.
Proof.
  unfold drop_suffix. rewrite ?frev_eq. destruct (drop_prefix (rev suf) (rev s)) as [x|] eqn:E; [|discriminate].
  intro H. injection H as <-. rewrite frev_eq. apply drop_prefix_spec in E.
  apply (f_equal (@rev N)) in E. rewrite rev_involutive, rev_app_distr, rev_involutive in E. exact E.
Qed.

(* what extractPrefix can answer *)
Lemma extract_prefix_spec t c p mt :
  extract_prefix t c = (p, mt) ->
  (mt = 1 /\ p = t) \/
  (mt = 0 /\ p = [] /\ (t = c \/ t = colon_sp ++ c)) \/
  (mt = 0 /\ p <> [] /\ t = p ++ colon_sp ++ c).
Proof.
  unfold extract_prefix. destruct (drop_suffix c t) as [pre|] eqn:E1.
  - apply drop_suffix_spec in E1. destruct pre as [|x pre].
    + intro H. injection H as <- <-. right. left. repeat split. now left.
    + destruct (drop_suffix colon_sp (x :: pre)) as [q|] eqn:E2.
      * apply drop_suffix_spec in E2. intro H. injection H as <- <-.
        destruct q as [|y q].
        -- right. left. repeat split. right. rewrite E1, E2. reflexivity.
        -- right. right. repeat split; [discriminate|]. rewrite E1, E2. now rewrite <- app_assoc.
      * intro H. injection H as <- <-. now left.
  - intro H. injection H as <- <-. now left.
Qed.

(* the accumulator of formatSingleLineOutput *)
Definition sl_add (acc h : str) : str :=
  match h with
  | [] => acc
  | _ => (match acc with [] => acc | _ => acc ++ colon_sp end) ++ h
  end.

Lemma sl_add_nil_l t : sl_add [] t = t.
Proof. destruct t; reflexivity. Qed.

Lemma sl_add_assoc acc h t :
  t <> [] ->
  sl_add (sl_add acc h) t = sl_add acc (match h with [] => t | _ => h ++ colon_sp ++ t end).
Proof.
  intro Ht. destruct h as [|x h]; [reflexivity|].
  destruct t as [|y t]; [contradiction|].
  unfold sl_add at 1 3.
  assert (E : (x :: h) ++ colon_sp ++ y :: t = (x :: h) ++ colon_sp ++ (y :: t)) by reflexivity.
  destruct ((x :: h) ++ colon_sp ++ y :: t) eqn:E0; [discriminate|]. rewrite <- E0. clear E0 E.
  unfold sl_add. destruct acc as [|a acc].
  - cbn [app]. now rewrite <- app_assoc.
  - cbn [app]. f_equal. rewrite <- !app_assoc. reflexivity.
Qed.

Lemma single_line_cons e r acc :
  fe_elide e = false ->
  single_line false (e :: r) acc = single_line false r (sl_add acc (fe_head e)).
Proof.
  intro H. cbn [single_line]. rewrite H. unfold sl_add, out_bytes. cbn [negb orb].
  destruct (fe_head e); reflexivity.
Qed.

Lemma single_line_marked red Ec old acc :
  single_line red (mark_first (List.length Ec) (Ec ++ old)) acc = single_line red old acc.
Proof.
  revert acc. induction Ec as [|e Ec IH]; intro acc; cbn [List.length app mark_first].
  - destruct old; reflexivity.
  - cbn [single_line fe_elide]. apply IH.
Qed.

(* ================================================================== *)
(* 2. writing a string without newline into the engine state            *)
(* ================================================================== *)
Lemma write_loop_plain b : forall st chunk,
  no_nl b = true -> fs_needNewline st = 0%nat ->
  write_loop b st chunk =
  set_buf (match b with [] => st | _ => set_notEmpty st true end) (fs_buf st ++ rev chunk ++ b).
Proof.
  induction b as [|c r IH]; intros st chunk Hn H0.
  - cbn [write_loop]. now rewrite app_nil_r.
  - cbn [no_nl forallb] in Hn. apply andb_true_iff in Hn as [Hc Hr]. apply negb_true_iff in Hc.
    cbn [write_loop]. rewrite Hc, H0. cbn [Nat.eqb negb andb].
    rewrite IH by (assumption || reflexivity).
    cbn [rev]. rewrite <- !app_assoc. cbn [app].
    destruct r; reflexivity.
Qed.

(* [st'] is [st] after [s] has been appended to the current buffer *)
Record wrote (st st' : fstate) (s : str) : Prop := mkwrote {
  w_ro : fs_redout st' = fs_redout st;
  w_pl : fs_plus st' = fs_plus st;
  w_en : fs_entries st' = fs_entries st;
  w_hb : fs_headbuf st' = fs_headbuf st;
  w_wd : fs_wantDetail st' = fs_wantDetail st;
  w_bf : fs_buf st' = fs_buf st ++ s }.

Lemma wrote_nil st : wrote st st [].
Proof. constructor; try reflexivity. now rewrite app_nil_r. Qed.

Lemma st_write_wrote st s :
  no_nl s = true -> fs_needNewline st = 0%nat -> wrote st (st_write st s) s.
Proof.
  intros Hn H0. destruct s as [|c r]; [apply wrote_nil|].
  unfold st_write. rewrite write_loop_plain by assumption.
  constructor; reflexivity.
Qed.

Lemma wrote_set_last st st' s l : wrote st st' s -> wrote st (set_last st' l) s.
Proof. intros []. constructor; assumption. Qed.

(* ---- what the redaction layer prints for one plain argument ---- *)
Definition raw_ok (s : str) : bool := no_nl s && negb (last_rune_invalid s).
Definition unsafe_ok (s : str) : bool := nonempty s && ascii s && no_nl s.

Lemma sprint_raw s : last_rune_invalid s = false -> sprint_pieces [PRaw s] = s.
Proof.
  intro H. unfold sprint_pieces, print_pieces. cbn [fold_left].
  change (set_mode buf_empty SafeEscaped) with (mkbuf [] [] SafeEscaped false).
  unfold print_piece. cbn [bmode].
  change (set_mode (mkbuf [] [] SafeEscaped false) SafeRaw) with (mkbuf [] [] SafeRaw false).
  change (buf_write (mkbuf [] [] SafeRaw false) s) with (mkbuf [] s SafeRaw false).
  change (set_mode (mkbuf [] s SafeRaw false) SafeEscaped) with (mkbuf s [] SafeEscaped false).
  unfold buf_take, buf_finalize. cbn [bmode bopen]. unfold escape_to_end, escape_from. rewrite ?frev_eq.
  cbn [bvalid bpend bmode bopen List.length escape_loop rev app].
  unfold last_rune_invalid in H. rewrite H. rewrite rev_involutive.
  unfold whole. cbn [bvalid bpend]. now rewrite app_nil_r.
Qed.

Lemma strip_ascii s : ascii s = true -> strip_markers s = s.
Proof.
  intro H. replace s with (s ++ []) at 1 by now rewrite app_nil_r.
  rewrite strip_plain by now apply ascii_no_e2. cbn. now rewrite app_nil_r.
Qed.

(* ================================================================== *)
(* 3. the skeleton of formatRecursive in short mode                     *)
(* ================================================================== *)
Definition run_kids (single : option nsem) (multi : list nsem) (wd : bool) (depth : nat) (st : fstate)
  : fstate * nat :=
  let '(st1, n1) := match single with
                    | Some sc => ns_fmt sc false false wd (S depth) st
                    | None => (st, 0%nat)
                    end in
  fold_left
    (fun (acc : fstate * nat) (k : nsem) =>
       let '(s', m) := ns_fmt k false false true (S depth) (fst acc) in (s', (snd acc + m)%nat))
    multi (st1, n1).

Definition reset_st (st2 : fstate) : fstate :=
  mkst (fs_redout st2) (fs_plus st2) (fs_entries st2) (fs_buf st2) [] (fs_last st2) false false false 0.

Definition finish_node (ty : str) (own_stack : option stack) (body : bool -> fstate -> body_res)
           (outermost with_depth : bool) (depth : nat) (st2 : fstate) (n2 : nat) : fstate * nat :=
  let st3 := reset_st st2 in
  let r := body outermost st3 in
  let st4 := if br_elide r then elide_short (br_st r) n2 else br_st r in
  let e0 := collect_entry st4 ty (br_red r) with_depth depth in
  let '(e1, st5) :=
    if br_seen r then (e0, st4) else
    match own_stack with
    | Some stk =>
      let '(s', el) := elide_shared (fs_last st4) stk in
      (mkentry (fe_ty e0) (fe_red e0) (fe_head e0) (fe_details e0) (fe_elide e0) (Some s') el (fe_depth e0),
       set_last st4 s')
    | None => (e0, st4)
    end in
  (set_buf (set_entries st5 (e1 :: fs_entries st5)) [], S n2).

Lemma format_node_split ty single multi own body o wd k st :
  format_node ty single multi own body o false wd k st =
  let '(st2, n2) := run_kids single multi wd k st in finish_node ty own body o wd k st2 n2.
Proof.
  unfold format_node, run_kids.
  destruct (match single with Some sc => ns_fmt sc false false wd (S k) st | None => (st, 0%nat) end)
    as [st1 n1].
  reflexivity.
Qed.

Lemma collect_entry_elide st ty r w d : fe_elide (collect_entry st ty r w d) = false.
Proof.
  unfold collect_entry.
  destruct (fs_wantDetail st), (fs_hasDetail st), r, (fs_redout st); reflexivity.
Qed.

Lemma collect_entry_head_short st ty red w d :
  fs_wantDetail st = false -> fs_headbuf st = [] -> fs_redout st = false ->
  fe_head (collect_entry st ty red w d) = if red then strip_markers (fs_buf st) else fs_buf st.
Proof.
  intros H1 H2 H3. unfold collect_entry. rewrite H1, H2, H3. destruct red; reflexivity.
Qed.

Lemma finish_node_proj ty own body o wd k st2 n2 :
  let r := body o (reset_st st2) in
  let st4 := if br_elide r then elide_short (br_st r) n2 else br_st r in
  let res := finish_node ty own body o wd k st2 n2 in
  fs_buf (fst res) = [] /\ fs_redout (fst res) = fs_redout (br_st r) /\
  fs_plus (fst res) = fs_plus (br_st r) /\ snd res = S n2 /\
  exists e1, fs_entries (fst res) = e1 :: fs_entries st4 /\ fe_elide e1 = false /\
             fe_head e1 = fe_head (collect_entry st4 ty (br_red r) wd k).
Proof.
  cbv zeta. unfold finish_node. cbv zeta.
  destruct (body o (reset_st st2)) as [bst bred bel bseen]. cbn [br_st br_red br_elide br_seen].
  set (st4 := if bel then elide_short bst n2 else bst).
  assert (R : fs_redout st4 = fs_redout bst /\ fs_plus st4 = fs_plus bst).
  { subst st4. destruct bel; split; reflexivity. }
  destruct R as [R1 R2].
  destruct bseen; [|destruct own as [stk|]; [destruct (elide_shared (fs_last st4) stk) as [s' el]|]];
    cbn [fst snd fs_buf fs_redout fs_plus fs_entries set_buf set_entries set_last];
    (split; [reflexivity|]); (split; [exact R1|]); (split; [exact R2|]); (split; [reflexivity|]);
    eexists; (split; [reflexivity|]); cbn [fe_elide fe_head]; split;
    solve [apply collect_entry_elide | reflexivity].
Qed.

(* ---- frame: what every node does to the rest of the state (short mode) ---- *)
Definition frame_ok (f : bool -> bool -> bool -> nat -> fstate -> fstate * nat) : Prop :=
  forall o wd k st,
    fs_buf (fst (f o false wd k st)) = [] /\
    fs_redout (fst (f o false wd k st)) = fs_redout st /\
    fs_plus (fst (f o false wd k st)) = fs_plus st /\
    exists Ec, fs_entries (fst (f o false wd k st)) = Ec ++ fs_entries st /\
               List.length Ec = snd (f o false wd k st).

Lemma run_kids_frame single multi wd k st :
  match single with Some sc => frame_ok (ns_fmt sc) | None => True end ->
  Forall (fun m => frame_ok (ns_fmt m)) multi ->
  (fs_buf st = [] -> fs_buf (fst (run_kids single multi wd k st)) = []) /\
  fs_redout (fst (run_kids single multi wd k st)) = fs_redout st /\
  fs_plus (fst (run_kids single multi wd k st)) = fs_plus st /\
  exists Ec, fs_entries (fst (run_kids single multi wd k st)) = Ec ++ fs_entries st /\
             List.length Ec = snd (run_kids single multi wd k st).
Proof.
  intros Hs Hm. unfold run_kids.
  assert (H1 : exists st1 n1,
     match single with Some sc => ns_fmt sc false false wd (S k) st | None => (st, 0%nat) end = (st1, n1) /\
     (fs_buf st = [] -> fs_buf st1 = []) /\ fs_redout st1 = fs_redout st /\ fs_plus st1 = fs_plus st /\
     exists Ec, fs_entries st1 = Ec ++ fs_entries st /\ List.length Ec = n1).
  { destruct single as [sc|].
    - destruct (Hs false wd (S k) st) as (A & B & C & D).
      destruct (ns_fmt sc false false wd (S k) st) as [st1 n1]. cbn [fst snd] in *.
      exists st1, n1. repeat split; auto.
    - exists st, 0%nat. repeat split; auto. exists []. split; reflexivity. }
  destruct H1 as (st1 & n1 & -> & B1 & R1 & P1 & Ec1 & E1 & L1).
  revert st1 n1 B1 R1 P1 Ec1 E1 L1.
  induction Hm as [|m ms Hm1 Hms IH]; intros st1 n1 B1 R1 P1 Ec1 E1 L1; cbn [fold_left].
  - cbn [fst snd]. repeat split; auto. exists Ec1. split; assumption.
  - destruct (Hm1 false true (S k) st1) as (A & B & C & Ec & D1 & D2).
    cbn [fst snd]. destruct (ns_fmt m false false true (S k) st1) as [s' n']. cbn [fst snd] in *.
    apply IH with (Ec1 := Ec ++ Ec1).
    + intros _. exact A.
    + congruence.
    + congruence.
    + rewrite D1, E1. now rewrite app_assoc.
    + rewrite app_length. lia.
Qed.

(* configuration: what no printing helper touches *)
Definition cfg (st : fstate) := (fs_redout st, fs_plus st, fs_entries st, fs_wantDetail st).

Lemma switch_over_cfg st : cfg (switch_over st) = cfg st.
Proof. unfold switch_over. destruct (fs_hasDetail st); reflexivity. Qed.

Lemma write_loop_cfg b : forall st chunk, cfg (write_loop b st chunk) = cfg st.
Proof.
  induction b as [|c r IH]; intros st chunk; cbn [write_loop].
  - reflexivity.
  - destruct (c =? nl).
    + rewrite IH.
      match goal with |- context [if ?x then _ else _] => destruct x end;
        [rewrite switch_over_cfg|]; reflexivity.
    + rewrite IH.
      match goal with |- context [if ?x then _ else _] => destruct x end; reflexivity.
Qed.

Lemma st_write_cfg st b : cfg (st_write st b) = cfg st.
Proof. destruct b; [reflexivity|]. unfold st_write. apply write_loop_cfg. Qed.

Lemma sp_print_cfg st ps : cfg (sp_print st ps) = cfg st.
Proof. unfold sp_print. apply st_write_cfg. Qed.

Lemma cfg_wd a b : cfg a = cfg b -> fs_wantDetail a = fs_wantDetail b.
Proof. unfold cfg. congruence. Qed.

Lemma format_simple_cfg st m c : cfg (fst (format_simple st m c)) = cfg st.
Proof.
  unfold format_simple. destruct c as [cm|].
  - destruct (extract_prefix m cm) as [p mt]. cbn [fst]. apply st_write_cfg.
  - cbn [fst]. apply st_write_cfg.
Qed.

Lemma fold_left_cfg {A} (f : fstate -> A -> fstate) l :
  (forall s x, cfg (f s x) = cfg s) -> forall s, cfg (fold_left f l s) = cfg s.
Proof.
  intros Hf. induction l as [|x l IH]; intros s; cbn [fold_left]; [reflexivity|].
  now rewrite IH, Hf.
Qed.

Lemma fold_left_snd_cfg {A B} (f : B * fstate -> A -> B * fstate) l :
  (forall acc x, cfg (snd (f acc x)) = cfg (snd acc)) ->
  forall acc, cfg (snd (fold_left f l acc)) = cfg (snd acc).
Proof.
  intros Hf. induction l as [|x l IH]; intros acc; cbn [fold_left]; [reflexivity|].
  now rewrite IH, Hf.
Qed.

Lemma fundamental_format_cfg st m stk : cfg (fundamental_format st m stk) = cfg st.
Proof.
  unfold fundamental_format. cbv zeta. destruct (fs_plus st).
  - rewrite fold_left_cfg; [apply st_write_cfg|]. intros s x. apply st_write_cfg.
  - apply st_write_cfg.
Qed.

Lemma default_body_cfg e text sent il hm ct st :
  cfg (br_st (default_body e text sent il hm ct st)) = cfg st.
Proof.
  unfold default_body.
  destruct (il && sent); [cbn [br_st]; apply sp_print_cfg|].
  pose proof (format_simple_cfg st text ct) as HF.
  destruct (format_simple st text ct) as [st1 el]. cbn [fst] in HF.
  destruct e as [i k|i w c| | | | |]; try exact HF.
  - destruct k as [| | | | | | | | | |?|u ? ? ?]; try exact HF; try (cbn [br_st]; apply sp_print_cfg).
    destruct u; try exact HF; cbn [br_st]; apply sp_print_cfg.
  - destruct w as [| | | | | | | | | | | | | | | | | | | |op net src addr|];
      try exact HF; try (cbn [br_st]; apply sp_print_cfg).
    (* WOpError: a sequence of separate print calls *)
    cbv zeta. cbn [br_st].
    destruct net, src, addr; rewrite ?sp_print_cfg; reflexivity.
Qed.

Lemma wrap_body_short w st :
  fs_wantDetail st = false ->
  match wrap_body w st with
  | Some (st1, _, _) => cfg st1 = cfg st
  | None => True
  end.
Proof.
  intro H. destruct w; cbn [wrap_body]; try exact I;
    try (rewrite if_detail_short by exact H; reflexivity);
    try apply sp_print_cfg.
  unfold st_detail. rewrite H. cbn [negb andb]. reflexivity.
Qed.

Lemma format_node_frame ty single multi own body :
  match single with Some sc => frame_ok (ns_fmt sc) | None => True end ->
  Forall (fun m => frame_ok (ns_fmt m)) multi ->
  (forall o st, fs_wantDetail st = false -> cfg (br_st (body o st)) = cfg st) ->
  frame_ok (format_node ty single multi own body).
Proof.
  intros Hs Hm Hb o wd k st. rewrite format_node_split.
  destruct (run_kids_frame single multi wd k st Hs Hm) as (_ & R & P & Ec & E & L).
  destruct (run_kids single multi wd k st) as [st2 n2]. cbn [fst snd] in *.
  pose proof (finish_node_proj ty own body o wd k st2 n2) as F. cbv zeta in F.
  destruct F as (F1 & F2 & F3 & F4 & e1 & F5 & _ & _).
  pose proof (Hb o (reset_st st2) eq_refl) as C. unfold cfg in C.
  injection C as C1 C2 C3 C4.
  repeat split.
  - exact F1.
  - rewrite F2, C1. exact R.
  - rewrite F3, C2. exact P.
  - rewrite F4, F5.
    assert (E4 : exists Ec', fs_entries (if br_elide (body o (reset_st st2))
                                         then elide_short (br_st (body o (reset_st st2))) n2
                                         else br_st (body o (reset_st st2))) = Ec' ++ fs_entries st /\
                             List.length Ec' = n2).
    { destruct (br_elide (body o (reset_st st2))).
      - unfold elide_short. cbn [fs_entries set_entries]. rewrite C3. cbn [reset_st fs_entries].
        rewrite E. subst n2. clear.
        exists (mark_first (List.length Ec) Ec). split.
        + generalize (fs_entries st) as old. induction Ec as [|x Ec IH]; intro old; cbn [List.length mark_first app].
          * destruct old; reflexivity.
          * now rewrite IH.
        + apply mark_first_length.
      - rewrite C3. cbn [reset_st fs_entries]. exists Ec. split; assumption. }
    destruct E4 as (Ec' & E4 & L4). exists (e1 :: Ec'). rewrite E4. split; [reflexivity|].
    cbn [List.length]. now rewrite L4.
Qed.

(* every node of every tree satisfies the frame *)
Ltac fs_cfg :=
  match goal with
  | |- context [format_simple ?s ?t ?c] =>
    let HF := fresh "HF" in
    pose proof (format_simple_cfg s t c) as HF;
    destruct (format_simple s t c); exact HF
  end.

Lemma sem_frame e : frame_ok (ns_fmt (sem e)).
Proof.
  induction e using err_ind'.
  - cbn [sem ns_fmt]. apply format_node_frame; [exact I|constructor|].
    intros o st Hwd. destruct k as [| | | | | |m url det| | | | |]; try apply default_body_cfg.
    + destruct (negb o); [cbn [br_st]; apply fundamental_format_cfg|]. fs_cfg.
    + unfold body_safe. cbn [br_st]. apply sp_print_cfg.
    + unfold body_safe. cbn [br_st].
      rewrite if_detail_short by (rewrite sp_print_wd; exact Hwd). apply sp_print_cfg.
  - cbn [sem ns_fmt]. apply format_node_frame; [exact IHe|constructor|].
    intros o st Hwd. pose proof (wrap_body_short w st Hwd) as HW.
    destruct (wrap_body w st) as [[[st1 nn] red]|]; [exact HW|].
    destruct w; try apply default_body_cfg; fs_cfg.
  - cbn [sem ns_fmt]. apply format_node_frame; [exact IHe1|constructor|].
    intros o st Hwd. unfold body_safe. cbn [br_st]. now rewrite if_detail_short.
  - cbn [sem ns_fmt]. apply format_node_frame; [exact I|constructor|].
    intros o st Hwd. unfold body_safe. cbn [br_st].
    rewrite if_detail_short by (rewrite sp_print_wd; exact Hwd). apply sp_print_cfg.
  - assert (HF : Forall (fun m => frame_ok (ns_fmt m)) (List.map sem cs)).
    { induction H; cbn [List.map]; constructor; assumption. }
    destruct k; cbn [sem ns_fmt]; (apply format_node_frame; [exact I|exact HF|]); intros o st Hwd;
      try apply default_body_cfg.
    unfold body_safe. cbn [br_st]. rewrite fold_left_snd_cfg; [reflexivity|].
    intros acc x. cbn [snd]. rewrite sp_print_cfg. destruct (fst acc); [reflexivity|apply sp_print_cfg].
  - assert (HF : Forall (fun m => frame_ok (ns_fmt m)) (List.map sem cs)).
    { induction H; cbn [List.map]; constructor; assumption. }
    cbn [sem ns_fmt]. apply format_node_frame; [exact I|exact HF|]. intros o st Hwd.
    unfold body_safe. cbn [br_st].
    rewrite if_detail_short by (rewrite sp_print_wd; exact Hwd). apply sp_print_cfg.
  - cbn [sem ns_fmt]. apply format_node_frame; [exact IHe|constructor|].
    intros o st Hwd. unfold body_safe. cbn [br_st].
    rewrite if_detail_short; [destruct p; [reflexivity|apply sp_print_cfg]|].
    destruct p; [exact Hwd|rewrite sp_print_wd; exact Hwd].
Qed.

(* ---- writing lines joined by newlines (stdlib errors.Join) ---- *)
(* a segment without newline followed by a newline (short mode) *)
Lemma write_loop_seg t : forall rest st chunk,
  no_nl t = true -> fs_needNewline st = 0%nat -> fs_wantDetail st = false ->
  write_loop (t ++ nl :: rest) st chunk =
  write_loop rest
    (set_needNewline (set_buf (match t with [] => st | _ => set_notEmpty st true end)
                              (fs_buf st ++ rev chunk ++ t)) 1) [].
Proof.
  induction t as [|c r IH]; intros rest st chunk Hn H0 Hwd.
  - cbn [app write_loop]. rewrite N.eqb_refl.
    cbn [fs_wantDetail set_needNewline set_buf]. rewrite Hwd, H0, app_nil_r. reflexivity.
  - cbn [no_nl forallb] in Hn. apply andb_true_iff in Hn as [Hc Hr]. apply negb_true_iff in Hc.
    change ((c :: r) ++ nl :: rest) with (c :: (r ++ nl :: rest)).
    cbn [write_loop]. rewrite Hc, H0. cbn [Nat.eqb negb andb].
    rewrite IH by (assumption || reflexivity).
    cbn [rev]. rewrite <- !app_assoc. cbn [app].
    destruct r; reflexivity.
Qed.

(* the first byte after a pending newline *)
Lemma write_loop_after_nl c r st :
  (c =? nl) = false -> fs_needNewline st = 1%nat -> fs_notEmpty st = true -> fs_wantDetail st = false ->
  write_loop (c :: r) st [] =
  write_loop r (set_notEmpty (set_needNewline (set_buf st (fs_buf st ++ [nl])) 0) true) [c].
Proof.
  intros Hc H1 Hne Hwd. cbn [write_loop]. rewrite Hc, H1, Hne, Hwd. reflexivity.
Qed.

Definition seg_ok (t : str) : Prop := t <> [] /\ no_nl t = true.

Lemma write_join_aux ts :
  Forall seg_ok ts -> ts <> [] ->
  forall st, fs_wantDetail st = false -> fs_needNewline st = 1%nat -> fs_notEmpty st = true ->
    cfg (write_loop (join [nl] ts) st []) = cfg st /\
    fs_headbuf (write_loop (join [nl] ts) st []) = fs_headbuf st /\
    fs_buf (write_loop (join [nl] ts) st []) = fs_buf st ++ [nl] ++ join [nl] ts.
Proof.
  induction 1 as [|t ts [Hne Hn] Hts IH]; intros Hnn st Hwd H1 Hnot; [contradiction|].
  destruct t as [|c r]; [contradiction|].
  cbn [no_nl forallb] in Hn. apply andb_true_iff in Hn as [Hc Hr]. apply negb_true_iff in Hc.
  destruct ts as [|t2 ts].
  - cbn [join]. rewrite write_loop_after_nl by assumption.
    rewrite write_loop_plain by (assumption || reflexivity).
    repeat split.
    + destruct r; reflexivity.
    + destruct r; reflexivity.
    + cbn [fs_buf set_buf set_notEmpty set_needNewline rev app].
      destruct r; cbn [fs_buf set_buf set_notEmpty]; now rewrite <- !app_assoc.
  - change (join [nl] ((c :: r) :: t2 :: ts)) with (c :: (r ++ nl :: join [nl] (t2 :: ts))).
    rewrite write_loop_after_nl by assumption.
    rewrite write_loop_seg by (assumption || reflexivity).
    match goal with |- context [write_loop _ ?s []] => set (st3 := s) end.
    destruct (IH ltac:(discriminate) st3) as (A & B & C).
    + subst st3. destruct r; exact Hwd.
    + reflexivity.
    + subst st3. destruct r; reflexivity.
    + rewrite A, B, C. subst st3. repeat split.
      * destruct r; reflexivity.
      * destruct r; reflexivity.
      * cbn [fs_buf set_buf set_notEmpty set_needNewline rev app].
        replace (fs_buf (match r with [] => set_notEmpty (set_needNewline (set_buf st (fs_buf st ++ [nl])) 0) true
                          | _ :: _ => set_notEmpty (set_notEmpty (set_needNewline (set_buf st (fs_buf st ++ [nl])) 0) true) true
                          end)) with (fs_buf st ++ [nl]) by (destruct r; reflexivity).
        rewrite <- !app_assoc. reflexivity.
Qed.

Lemma write_join ts st :
  Forall seg_ok ts -> ts <> [] ->
  fs_wantDetail st = false -> fs_needNewline st = 0%nat ->
  wrote st (st_write st (join [nl] ts)) (join [nl] ts).
Proof.
  intros Hts Hne Hwd H0. destruct ts as [|t ts]; [contradiction|].
  inversion Hts as [|? ? [Htne Htn] Hts']; subst.
  destruct ts as [|t2 ts].
  - cbn [join]. now apply st_write_wrote.
  - assert (E : join [nl] (t :: t2 :: ts) = t ++ nl :: join [nl] (t2 :: ts)) by reflexivity.
    rewrite E. unfold st_write.
    destruct (t ++ nl :: join [nl] (t2 :: ts)) eqn:E0; [destruct t; discriminate|]. rewrite <- E0. clear E0.
    rewrite write_loop_seg by assumption.
    match goal with |- context [write_loop _ ?s []] => set (st3 := s) end.
    destruct t as [|c r]; [contradiction|].
    destruct (write_join_aux (t2 :: ts) Hts' ltac:(discriminate) st3) as (A & B & C);
      try (subst st3; first [exact Hwd | reflexivity]).
    unfold cfg in A. injection A as A1 A2 A3 A4.
    constructor; try (subst st3; assumption).
    rewrite C. subst st3. cbn [fs_buf set_buf set_needNewline rev app]. now rewrite <- !app_assoc.
Qed.

(* ================================================================== *)
(* 4. the head a node contributes, and the one-line rendering           *)
(* ================================================================== *)
(* the body, run on [st3], leaves [h] as the head of the entry *)
Definition body_head (r : body_res) (st3 : fstate) (h : str) : Prop :=
  exists b, wrote st3 (br_st r) b /\ (if br_red r then strip_markers b else b) = h.

Lemma finish_sl ty own body o wd k st2 n2 h acc :
  fs_redout st2 = false -> fs_buf st2 = [] ->
  body_head (body o (reset_st st2)) (reset_st st2) h ->
  single_line false (fs_entries (fst (finish_node ty own body o wd k st2 n2))) acc =
  single_line false (if br_elide (body o (reset_st st2)) then mark_first n2 (fs_entries st2) else fs_entries st2)
              (sl_add acc h).
Proof.
  intros R B (b & W & Hh).
  pose proof (finish_node_proj ty own body o wd k st2 n2) as F. cbv zeta in F.
  destruct F as (_ & _ & _ & _ & e1 & F5 & F6 & F7).
  rewrite F5, (single_line_cons _ _ _ F6), F7. clear F5 F6 F7.
  destruct W as [W1 W2 W3 W4 W5 W6]. cbn [reset_st fs_redout fs_plus fs_entries fs_headbuf fs_wantDetail fs_buf] in *.
  set (r := body o (reset_st st2)) in *.
  assert (E : fe_head (collect_entry (if br_elide r then elide_short (br_st r) n2 else br_st r) ty (br_red r) wd k) = h).
  { rewrite collect_entry_head_short.
    - replace (fs_buf (if br_elide r then elide_short (br_st r) n2 else br_st r)) with b; [exact Hh|].
      destruct (br_elide r); cbn [elide_short set_entries fs_buf]; rewrite W6, B; reflexivity.
    - destruct (br_elide r); cbn [elide_short set_entries fs_wantDetail]; exact W5.
    - destruct (br_elide r); cbn [elide_short set_entries fs_headbuf]; exact W4.
    - destruct (br_elide r); cbn [elide_short set_entries fs_redout]; rewrite W1; exact R. }
  rewrite E. f_equal.
  destruct (br_elide r); [unfold elide_short; cbn [set_entries fs_entries]|]; now rewrite W3.
Qed.

(* the state on which every body runs *)
Definition clean (st3 : fstate) : Prop :=
  fs_wantDetail st3 = false /\ fs_needNewline st3 = 0%nat /\ fs_plus st3 = false /\
  fs_buf st3 = [] /\ fs_headbuf st3 = [] /\ fs_hasDetail st3 = false /\ fs_notEmpty st3 = false.

Definition pre (st : fstate) : Prop := fs_buf st = [] /\ fs_redout st = false /\ fs_plus st = false.

Lemma clean_reset st2 : fs_plus st2 = false -> fs_buf st2 = [] -> clean (reset_st st2).
Proof. intros H B. repeat split; assumption. Qed.

(* a node whose children (if any) are all elided, or that has none *)
Lemma node_elide ty single multi own body h :
  match single with Some sc => frame_ok (ns_fmt sc) | None => True end ->
  Forall (fun m => frame_ok (ns_fmt m)) multi ->
  (forall o st3, clean st3 -> body_head (body o st3) st3 h) ->
  (forall o st3, clean st3 -> br_elide (body o st3) = true) \/ (single = None /\ multi = []) ->
  forall o wd k st acc, pre st ->
    single_line false (fs_entries (fst (format_node ty single multi own body o false wd k st))) acc =
    single_line false (fs_entries st) (sl_add acc h).
Proof.
  intros Hs Hm Hb Hel o wd k st acc (B & R & P). rewrite format_node_split.
  destruct (run_kids_frame single multi wd k st Hs Hm) as (B2 & R2 & P2 & Ec & E & L).
  assert (Hnone : single = None /\ multi = [] -> run_kids single multi wd k st = (st, 0%nat)).
  { intros [-> ->]. reflexivity. }
  destruct (run_kids single multi wd k st) as [st2 n2]. cbn [fst snd] in *.
  assert (C : clean (reset_st st2)) by (apply clean_reset; [congruence|auto]).
  rewrite (finish_sl ty own body o wd k st2 n2 h acc); [|congruence|auto|apply Hb; exact C].
  destruct Hel as [Hel|Hel].
  - rewrite (Hel o _ C). rewrite E, <- L. apply single_line_marked.
  - specialize (Hnone Hel). injection Hnone as -> ->.
    destruct (br_elide _); [|reflexivity]. cbn [mark_first]. destruct (fs_entries st); reflexivity.
Qed.

(* the invariant of the induction *)
Definition short_ok (e : err) : Prop :=
  ns_text (sem e) <> [] /\
  forall o wd k st acc, pre st ->
    single_line false (fs_entries (fst (ns_fmt (sem e) o false wd k st))) acc =
    single_line false (fs_entries st) (sl_add acc (ns_text (sem e))).

Lemma short_ok_final e : short_ok e -> final_short (sem e) false false = ns_text (sem e).
Proof.
  intros [_ H]. unfold final_short.
  specialize (H true false 0%nat (st_init false false) []).
  destruct (ns_fmt (sem e) true false false 0%nat (st_init false false)) as [st n].
  cbn [fst] in H. rewrite H by (repeat split). cbn [st_init fs_entries single_line].
  apply sl_add_nil_l.
Qed.

Lemma cause_v_eq c :
  short_ok c ->
  (if lib_format c then final_short (sem c) false false else ns_text (sem c)) = ns_text (sem c).
Proof. intro H. destruct (lib_format c); [now apply short_ok_final|reflexivity]. Qed.

(* a wrapper that keeps its cause: head [h] (possibly empty) in front of the cause's text *)
Lemma node_keep ty c own body h :
  short_ok c ->
  (forall o st3, clean st3 -> body_head (body o st3) st3 h) ->
  (forall o st3, clean st3 -> br_elide (body o st3) = false) ->
  forall o wd k st acc, pre st ->
    single_line false (fs_entries (fst (format_node ty (Some (sem c)) [] own body o false wd k st))) acc =
    single_line false (fs_entries st)
                (sl_add acc (match h with [] => ns_text (sem c) | _ => h ++ colon_sp ++ ns_text (sem c) end)).
Proof.
  intros [Ht Hc] Hb Hel o wd k st acc (B & R & P). rewrite format_node_split.
  unfold run_kids. cbn [fold_left].
  destruct (sem_frame c false wd (S k) st) as (B2 & R2 & P2 & _).
  specialize (Hc false wd (S k) st).
  destruct (ns_fmt (sem c) false false wd (S k) st) as [st2 n2]. cbn [fst snd] in *.
  assert (C : clean (reset_st st2)) by (apply clean_reset; [congruence|auto]).
  rewrite (finish_sl ty own body o wd k st2 n2 h acc); [|congruence|auto|apply Hb; exact C].
  rewrite (Hel o _ C). rewrite Hc by (repeat split; assumption).
  now rewrite sl_add_assoc.
Qed.

(* ---- the ways a body prints its head ---- *)
Lemma bh_none st red el sn : body_head (mkbody st red el sn) st [].
Proof. exists []. split; [apply wrote_nil|]. destruct red; reflexivity. Qed.

Lemma bh_direct st t el sn :
  no_nl t = true -> clean st -> body_head (mkbody (st_write st t) false el sn) st t.
Proof. intros Hn (_ & H0 & _). exists t. split; [now apply st_write_wrote|reflexivity]. Qed.

Lemma bh_safe st t el sn :
  ascii t = true -> no_nl t = true -> clean st ->
  body_head (mkbody (sp_print st [PSafe t]) true el sn) st t.
Proof.
  intros Ha Hn (_ & H0 & _). exists t. split.
  - unfold sp_print. rewrite sprint_safe_ascii by assumption. now apply st_write_wrote.
  - cbn [br_red]. now apply strip_ascii.
Qed.

Lemma bh_raw st s el sn :
  raw_ok s = true -> clean st ->
  body_head (mkbody (sp_print st [PRaw s]) true el sn) st (strip_markers s).
Proof.
  intros Hr (_ & H0 & _). apply andb_true_iff in Hr as [Hn Hl]. apply negb_true_iff in Hl.
  exists s. split; [|reflexivity].
  unfold sp_print. rewrite sprint_raw by assumption. now apply st_write_wrote.
Qed.

Lemma unsafe_ok_parts s : unsafe_ok s = true -> s <> [] /\ ascii s = true /\ no_nl s = true.
Proof.
  unfold unsafe_ok. intro H. apply andb_true_iff in H as [H H3]. apply andb_true_iff in H as [H1 H2].
  repeat split; try assumption. now apply nonempty_ne.
Qed.

Lemma bh_unsafe st s el sn :
  unsafe_ok s = true -> clean st ->
  body_head (mkbody (sp_print st [PUnsafe s]) true el sn) st s.
Proof.
  intros Hu (_ & H0 & _). destruct (unsafe_ok_parts s Hu) as (Hne & Ha & Hn).
  exists (m_start ++ s ++ m_end). split.
  - unfold sp_print. rewrite sprint_unsafe_ascii by assumption. apply st_write_wrote; [|assumption].
    rewrite !no_nl_app, Hn. reflexivity.
  - cbn [br_red]. rewrite <- (sprint_unsafe_ascii s) by assumption. now apply strip_unsafe_ascii.
Qed.

(* ---- several pieces in one print (fs.PathError, os.LinkError) ---- *)
Lemma ascii_snoc p : p <> [] -> ascii p = true -> exists q y, p = q ++ [y] /\ (y <? 128) = true.
Proof.
  intros Hne Ha. destruct (rev_nonempty_ascii p Hne Ha) as (b & r & E & Hb).
  exists (rev r), b. split; [|exact Hb].
  apply (f_equal (@rev N)) in E. rewrite rev_involutive in E. exact E.
Qed.

Lemma drop_suffix_last_ne suf x w y : x <> y -> drop_suffix (suf ++ [x]) (w ++ [y]) = None.
Proof.
  intro H. unfold drop_suffix. rewrite ?frev_eq. rewrite !rev_app_distr. cbn [rev app drop_prefix].
  destruct (x =? y) eqn:E; [apply N.eqb_eq in E; contradiction|reflexivity].
Qed.

(* a buffer ending with an ASCII byte does not end with a marker *)
Lemma drop_suffix_marker_none v q y m :
  (y <? 128) = true -> (m = m_start \/ m = m_end) -> drop_suffix m (v ++ q ++ [y]) = None.
Proof.
  intros Hy Hm. rewrite app_assoc.
  apply N.ltb_lt in Hy.
  destruct Hm as [-> | ->].
  - change m_start with ([226; 128] ++ [185]). apply drop_suffix_last_ne. lia.
  - change m_end with ([226; 128] ++ [186]). apply drop_suffix_last_ne. lia.
Qed.

Lemma escape_from_ascii v p brk :
  p <> [] -> ascii p = true -> (brk = true -> no_nl p = true) -> escape_from v p brk = v ++ p.
Proof.
  intros Hne Ha Hn. destruct (rev_nonempty_ascii p Hne Ha) as (b & r & E & Hb).
  unfold escape_from. rewrite ?frev_eq.
  assert (Hc : escape_loop (List.length p) p (rev v) brk = rev p ++ rev v).
  { destruct brk.
    - apply escape_loop_copy; [now apply ascii_no_e2|now apply Hn|lia].
    - apply escape_loop_copy_nobrk; [now apply ascii_no_e2|lia]. }
  rewrite Hc.
  assert (Hl : last_rune_invalid_rev (rev p ++ rev v) = false).
  { rewrite E. cbn [app last_rune_invalid_rev]. now rewrite Hb. }
  rewrite Hl, <- rev_app_distr. apply rev_involutive.
Qed.

Lemma print_lit_step v p s :
  print_piece (mkbuf v p SafeEscaped false) (PLit s) = mkbuf v (p ++ s) SafeEscaped false.
Proof. reflexivity. Qed.

Lemma print_safe_step v p s :
  print_piece (mkbuf v p SafeEscaped false) (PSafe s) = mkbuf v (p ++ s) SafeEscaped false.
Proof. reflexivity. Qed.

Lemma print_unsafe_step v p s :
  p <> [] -> ascii p = true -> unsafe_ok s = true ->
  print_piece (mkbuf v p SafeEscaped false) (PUnsafe s) =
  mkbuf (v ++ p ++ m_start ++ s ++ m_end) [] SafeEscaped false.
Proof.
  intros Hne Ha Hu. destruct (unsafe_ok_parts s Hu) as (Hsne & Hsa & Hsn).
  destruct (ascii_snoc p Hne Ha) as (q & y & Ep & Hy).
  destruct (ascii_snoc s Hsne Hsa) as (q' & y' & Es & Hy').
  assert (S1 : set_mode (mkbuf v p SafeEscaped false) UnsafeEscaped = mkbuf (v ++ p) [] UnsafeEscaped false).
  { unfold set_mode. cbn [bmode omode_eqb bopen]. unfold escape_to_end. cbn [bvalid bpend bmode bopen].
    rewrite escape_from_ascii by (try assumption; intro; discriminate).
    unfold validate_all, whole. cbn [bvalid bpend bmode bopen]. now rewrite app_nil_r. }
  assert (S2 : buf_write (mkbuf (v ++ p) [] UnsafeEscaped false) s =
               mkbuf ((v ++ p) ++ m_start) s UnsafeEscaped true).
  { unfold buf_write, start_write. cbn [bmode bopen]. unfold start_redactable, whole.
    cbn [bvalid bpend bmode bopen]. rewrite app_nil_r.
    assert (Hn : drop_suffix m_end (v ++ p) = None).
    { rewrite Ep. apply drop_suffix_marker_none; [exact Hy|now right]. }
    rewrite Hn. reflexivity. }
  assert (S3 : set_mode (mkbuf ((v ++ p) ++ m_start) s UnsafeEscaped true) SafeEscaped =
               mkbuf ((((v ++ p) ++ m_start) ++ s) ++ m_end) [] SafeEscaped false).
  { unfold set_mode. cbn [bmode omode_eqb bopen]. unfold escape_to_end. cbn [bvalid bpend bmode bopen].
    rewrite escape_from_ascii by (try assumption; intros _; assumption).
    cbn [bopen]. unfold end_redactable, whole. cbn [bvalid bpend bmode bopen]. rewrite app_nil_r.
    assert (Hnone : drop_suffix m_start (((v ++ p) ++ m_start) ++ s) = None).
    { rewrite Es. rewrite <- (app_assoc (v ++ p)).
      replace ((v ++ p) ++ m_start ++ q' ++ [y']) with ((v ++ p) ++ (m_start ++ q') ++ [y'])
        by now rewrite <- !app_assoc.
      apply drop_suffix_marker_none; [exact Hy'|now left]. }
    rewrite Hnone.
    destruct (((v ++ p) ++ m_start) ++ s) eqn:E0.
    { exfalso. destruct s; [contradiction|]. apply (f_equal (@List.length N)) in E0.
      rewrite !app_length in E0. cbn in E0. lia. }
    rewrite <- E0. clear E0.
    unfold validate_all, whole. cbn [bvalid bpend bmode bopen]. now rewrite app_nil_r. }
  unfold print_piece. cbn [bmode]. rewrite S1, S2, S3.
  f_equal. now rewrite <- !app_assoc.
Qed.

Lemma take_pend v p : p <> [] -> ascii p = true -> buf_take (mkbuf v p SafeEscaped false) = v ++ p.
Proof.
  intros Hne Ha. unfold buf_take, buf_finalize. cbn [bmode bopen]. unfold escape_to_end.
  cbn [bvalid bpend bmode bopen]. rewrite escape_from_ascii by (try assumption; intro; discriminate).
  unfold whole. cbn [bvalid bpend]. now rewrite app_nil_r.
Qed.

Lemma take_end v : buf_take (mkbuf (v ++ m_end) [] SafeEscaped false) = v ++ m_end.
Proof.
  unfold buf_take, buf_finalize. cbn [bmode bopen]. unfold escape_to_end, escape_from. rewrite ?frev_eq.
  cbn [bvalid bpend bmode bopen List.length escape_loop rev app].
  replace (last_rune_invalid_rev (rev (v ++ m_end))) with false by (rewrite rev_app_distr; reflexivity).
  rewrite rev_involutive. unfold whole. cbn [bvalid bpend]. now rewrite app_nil_r.
Qed.

Lemma sprint_path op path :
  ascii op = true -> unsafe_ok path = true ->
  sprint_pieces [PSafe op; PLit [sp]; PUnsafe path] = op ++ [sp] ++ m_start ++ path ++ m_end.
Proof.
  intros Ha Hu. unfold sprint_pieces, print_pieces. cbn [fold_left].
  change (set_mode buf_empty SafeEscaped) with (mkbuf [] [] SafeEscaped false).
  rewrite print_safe_step, print_lit_step. cbn [app].
  rewrite print_unsafe_step; [| |rewrite ascii_app, Ha; reflexivity|exact Hu].
  2:{ destruct op; discriminate. }
  cbn [app].
  replace ((op ++ [sp]) ++ m_start ++ path ++ m_end) with (((op ++ [sp]) ++ m_start ++ path) ++ m_end)
    by now rewrite <- !app_assoc.
  rewrite take_end. now rewrite <- !app_assoc.
Qed.

Lemma sprint_link op old new :
  ascii op = true -> unsafe_ok old = true -> unsafe_ok new = true ->
  sprint_pieces [PSafe op; PLit [sp]; PUnsafe old; PLit [sp]; PUnsafe new] =
  op ++ [sp] ++ m_start ++ old ++ m_end ++ [sp] ++ m_start ++ new ++ m_end.
Proof.
  intros Ha Hu1 Hu2. unfold sprint_pieces, print_pieces. cbn [fold_left].
  change (set_mode buf_empty SafeEscaped) with (mkbuf [] [] SafeEscaped false).
  rewrite print_safe_step, print_lit_step. cbn [app].
  rewrite print_unsafe_step; [| |rewrite ascii_app, Ha; reflexivity|exact Hu1].
  2:{ destruct op; discriminate. }
  rewrite print_lit_step. cbn [app].
  rewrite print_unsafe_step; [|discriminate|reflexivity|exact Hu2].
  cbn [app].
  match goal with |- buf_take (mkbuf ?x _ _ _) = _ =>
    replace x with (((op ++ [sp]) ++ m_start ++ old ++ m_end ++ [sp] ++ m_start ++ new) ++ m_end)
      by (rewrite <- !app_assoc; reflexivity) end.
  rewrite take_end. now rewrite <- !app_assoc.
Qed.

Lemma strip_region a s rest :
  ascii a = true -> ascii s = true ->
  strip_markers (a ++ m_start ++ s ++ m_end ++ rest) = a ++ s ++ strip_markers rest.
Proof.
  intros Ha Hs. rewrite strip_plain by now apply ascii_no_e2. rewrite strip_start.
  rewrite strip_plain by now apply ascii_no_e2. now rewrite strip_end.
Qed.

Lemma bh_printed st ps out h el sn :
  sprint_pieces ps = out -> no_nl out = true -> strip_markers out = h -> clean st ->
  body_head (mkbody (sp_print st ps) true el sn) st h.
Proof.
  intros Hp Hn Hs (_ & H0 & _). exists out. split; [|exact Hs].
  unfold sp_print. rewrite Hp. now apply st_write_wrote.
Qed.

(* ---- several print calls in a row (net.OpError) ---- *)
Definition wrote0 (st st' : fstate) (s : str) : Prop :=
  wrote st st' s /\ fs_needNewline st' = 0%nat.

Lemma wrote0_refl st : fs_needNewline st = 0%nat -> wrote0 st st [].
Proof. intro H. split; [apply wrote_nil|exact H]. Qed.

Lemma st_write_nn st s :
  no_nl s = true -> fs_needNewline st = 0%nat -> fs_needNewline (st_write st s) = 0%nat.
Proof.
  intros Hn H0. destruct s as [|c r]; [exact H0|].
  unfold st_write. rewrite write_loop_plain by assumption. exact H0.
Qed.

Lemma wrote0_step st st1 a ps out :
  wrote0 st st1 a -> sprint_pieces ps = out -> no_nl out = true ->
  wrote0 st (sp_print st1 ps) (a ++ out).
Proof.
  intros [[W1 W2 W3 W4 W5 W6] H0] Hp Hn. unfold sp_print. rewrite Hp.
  destruct (st_write_wrote st1 out Hn H0) as [V1 V2 V3 V4 V5 V6].
  split; [|now apply st_write_nn].
  constructor; try congruence. rewrite V6, W6. now rewrite <- app_assoc.
Qed.

Lemma sprint_sp_safe s : ascii s = true -> sprint_pieces [PLit [sp]; PSafe s] = sp :: s.
Proof.
  intro Ha. unfold sprint_pieces, print_pieces. cbn [fold_left].
  change (set_mode buf_empty SafeEscaped) with (mkbuf [] [] SafeEscaped false).
  rewrite print_lit_step, print_safe_step. cbn [app].
  rewrite take_pend; [reflexivity|discriminate|].
  change (ascii ([sp] ++ s) = true). rewrite ascii_app, Ha. reflexivity.
Qed.

Lemma sprint_sp_unsafe s :
  unsafe_ok s = true -> sprint_pieces [PLit [sp]; PUnsafe s] = [sp] ++ m_start ++ s ++ m_end.
Proof.
  intro Hu. unfold sprint_pieces, print_pieces. cbn [fold_left].
  change (set_mode buf_empty SafeEscaped) with (mkbuf [] [] SafeEscaped false).
  rewrite print_lit_step. cbn [app].
  rewrite print_unsafe_step; [|discriminate|reflexivity|exact Hu].
  match goal with |- buf_take (mkbuf ?x _ _ _) = _ =>
    replace x with (([sp] ++ m_start ++ s) ++ m_end) by (rewrite <- !app_assoc; reflexivity) end.
  rewrite take_end. now rewrite <- !app_assoc.
Qed.

(* one more print call " %s" with an unsafe argument after an ASCII buffer *)
Lemma strip_tail a u :
  ascii a = true -> unsafe_ok u = true ->
  strip_markers (a ++ [sp] ++ m_start ++ u ++ m_end) = a ++ sp :: u.
Proof.
  intros Ha Hu. destruct (unsafe_ok_parts u Hu) as (Hne & Hua & Hun).
  replace (a ++ [sp] ++ m_start ++ u ++ m_end) with ((a ++ [sp]) ++ m_start ++ u ++ m_end ++ [])
    by (rewrite app_nil_r, <- !app_assoc; reflexivity).
  rewrite strip_region; [|rewrite ascii_app, Ha; reflexivity|exact Hua].
  cbn [strip_markers tokenize filter untok flat_map]. now rewrite app_nil_r, <- !app_assoc.
Qed.

Lemma operror_tail st s2 a u :
  wrote0 st s2 a -> unsafe_ok u = true ->
  wrote0 st (sp_print s2 [PLit [sp]; PUnsafe u]) (a ++ [sp] ++ m_start ++ u ++ m_end).
Proof.
  intros W Hu. destruct (unsafe_ok_parts u Hu) as (Hne & Hua & Hun).
  apply (wrote0_step _ _ _ _ _ W (sprint_sp_unsafe u Hu)).
  rewrite !no_nl_app, Hun. reflexivity.
Qed.

(* net.OpError: Op and Net are printed as safe strings, Source and Addr (absent when
   empty) as unsafe ones.  With BOTH Source and Addr the engine prints "src -> addr"
   while Error() says "src->addr" (see [operror_arrow_refuted] below), hence the
   "not both" clause; and an entirely empty head makes Error() start with ": " while
   the engine skips the empty entry (see [operror_empty_head_refuted]). *)
Definition opt_unsafe_ok (s : str) : bool := is_empty s || unsafe_ok s.

Definition operror_ok (op net src addr : str) : bool :=
  ascii op && no_nl op && ascii net && no_nl net &&
  opt_unsafe_ok src && opt_unsafe_ok addr &&
  (is_empty src || is_empty addr) &&
  nonempty (operror_head op net src addr).

Lemma operror_ok_parts op net src addr :
  operror_ok op net src addr = true ->
  ascii op = true /\ no_nl op = true /\ ascii net = true /\ no_nl net = true /\
  opt_unsafe_ok src = true /\ opt_unsafe_ok addr = true /\
  (is_empty src || is_empty addr) = true /\ operror_head op net src addr <> [].
Proof.
  unfold operror_ok. intro Hok.
  apply andb_true_iff in Hok as [Hok Hh]. apply andb_true_iff in Hok as [Hok Hone].
  apply andb_true_iff in Hok as [Hok Haddr]. apply andb_true_iff in Hok as [Hok Hsrc].
  apply andb_true_iff in Hok as [Hok Hnn]. apply andb_true_iff in Hok as [Hok Hna].
  apply andb_true_iff in Hok as [Hopa Hopn].
  repeat split; try assumption. now apply nonempty_ne.
Qed.

(* the redactable bytes the special-case printer writes (at most one of src, addr) *)
Definition operror_np (net : str) : str := match net with [] => [] | _ => sp :: net end.
Definition operror_red (op net src addr : str) : str :=
  (op ++ operror_np net)
  ++ (match src with [] => [] | _ => [sp] ++ m_start ++ src ++ m_end end)
  ++ (match addr with [] => [] | _ => [sp] ++ m_start ++ addr ++ m_end end).

Lemma operror_np_ok op net :
  ascii op = true -> no_nl op = true -> ascii net = true -> no_nl net = true ->
  ascii (op ++ operror_np net) = true /\ no_nl (op ++ operror_np net) = true.
Proof.
  intros Hopa Hopn Hna Hnn. rewrite ascii_app, no_nl_app, Hopa, Hopn. unfold operror_np.
  destruct net as [|n0 nr]; [split; reflexivity|].
  change (sp :: n0 :: nr) with ([sp] ++ n0 :: nr). rewrite ascii_app, no_nl_app, Hna, Hnn. split; reflexivity.
Qed.

Lemma operror_red_strip op net src addr :
  operror_ok op net src addr = true ->
  strip_markers (operror_red op net src addr) = operror_head op net src addr.
Proof.
  intro Hok. destruct (operror_ok_parts _ _ _ _ Hok) as (Hopa & Hopn & Hna & Hnn & Hsrc & Haddr & Hone & _).
  destruct (operror_np_ok op net Hopa Hopn Hna Hnn) as [A2 _].
  unfold operror_red, operror_head. fold (operror_np net).
  destruct src as [|x sr].
  - destruct addr as [|y ar].
    + rewrite !app_nil_r. rewrite strip_ascii by exact A2. reflexivity.
    + change (unsafe_ok (y :: ar) = true) in Haddr. rewrite !app_nil_l.
      rewrite (strip_tail _ _ A2 Haddr). now rewrite <- app_assoc.
  - destruct addr as [|y ar]; [|discriminate Hone].
    change (unsafe_ok (x :: sr) = true) in Hsrc. rewrite !app_nil_r.
    rewrite (strip_tail _ _ A2 Hsrc). now rewrite <- app_assoc.
Qed.

Lemma operror_wrote i c op net src addr text sent hm ct st :
  operror_ok op net src addr = true -> clean st ->
  wrote st (br_st (default_body (Wrap i (WOpError op net src addr) c) text sent false hm ct st))
        (operror_red op net src addr).
Proof.
  intros Hok C. destruct (operror_ok_parts _ _ _ _ Hok) as (Hopa & Hopn & Hna & Hnn & Hsrc & Haddr & Hone & _).
  unfold default_body. cbn [andb]. cbv zeta. cbn [br_st].
  assert (W1 : wrote0 st (sp_print st [PSafe op]) op).
  { exact (wrote0_step st st [] _ op (wrote0_refl st (proj1 (proj2 C))) (sprint_safe_ascii op Hopa) Hopn). }
  set (s1 := sp_print st [PSafe op]) in *.
  assert (W2 : wrote0 st (match net with [] => s1 | _ => sp_print s1 [PLit [sp]; PSafe net] end)
                      (op ++ operror_np net)).
  { unfold operror_np. destruct net as [|n0 nr]; [rewrite app_nil_r; exact W1|].
    apply (wrote0_step _ _ _ _ _ W1 (sprint_sp_safe _ Hna)).
    change (no_nl ([sp] ++ n0 :: nr) = true). rewrite no_nl_app, Hnn. reflexivity. }
  set (s2 := match net with [] => s1 | _ => sp_print s1 [PLit [sp]; PSafe net] end) in *.
  unfold operror_red.
  destruct src as [|x sr].
  - destruct addr as [|y ar].
    + rewrite !app_nil_r. exact (proj1 W2).
    + change (unsafe_ok (y :: ar) = true) in Haddr.
      exact (proj1 (operror_tail st s2 _ (y :: ar) W2 Haddr)).
  - destruct addr as [|y ar]; [|discriminate Hone].
    change (unsafe_ok (x :: sr) = true) in Hsrc. rewrite app_nil_r.
    exact (proj1 (operror_tail st s2 _ (x :: sr) W2 Hsrc)).
Qed.

Lemma bh_operror i c op net src addr text sent hm ct st :
  operror_ok op net src addr = true -> clean st ->
  body_head (default_body (Wrap i (WOpError op net src addr) c) text sent false hm ct st) st
            (operror_head op net src addr).
Proof.
  intros Hok C. exists (operror_red op net src addr). split.
  - now apply operror_wrote.
  - change (strip_markers (operror_red op net src addr) = operror_head op net src addr).
    now apply operror_red_strip.
Qed.

(* ================================================================== *)
(* 5. plain trees                                                       *)
(* ================================================================== *)
(* a redactable string written as such (leafError, withPrefix, withNewMessage, barrier) *)
Definition raw_msg_ok (s : str) : bool := raw_ok s && nonempty (strip_markers s).
(* a message written directly (st_write), or as a safe string when [safe] *)
Definition direct_ok (t : str) (safe : bool) : bool :=
  nonempty t && no_nl t && (ascii t || negb safe).
(* formatSimple with a cause: the wrapper's text [t] against the cause's text [ct];
   [rec] is the condition on the cause when it is not elided *)
Definition simple_ok (t ct : str) (rec : bool) : bool :=
  no_nl t &&
  (let '(p, mt) := extract_prefix t ct in
   if mt =? 1 then nonempty t else (nonempty p || str_eqb t ct) && rec).

Definition plain_leaf (sent : bool) (k : leafk) : bool :=
  match k with
  | LLeafError rm => raw_msg_ok rm
  | LUnimpl m _ _ => unsafe_ok m
  | LPkgFund m _ => nonempty m && no_nl m
  | LErrno _ | LUser ULSafeMsg _ _ _ => direct_ok (leaf_text k) true
  | _ => direct_ok (leaf_text k) sent
  end.

Fixpoint plain_tree (e : err) : bool :=
  match e with
  | Leaf i k => plain_leaf (ns_sent (sem (Leaf i k))) k
  | Wrap i w c =>
    match w with
    | WNewMsg rm => raw_msg_ok rm                               (* the cause is elided *)
    | WPrefix rp => (is_empty rp || raw_msg_ok rp) && plain_tree c
    | WStack _ | WHint _ | WDetail _ | WIssueLink _ _ | WTelemetry _ | WDomain _ | WContext _ _
    | WAssert | WMark _ | WSafeDetails _ | WHTTP _ | WGrpc _ => plain_tree c
    | WFmtWrap _ | WPkgMsg _ | WPkgStack _ | WUser _ _ _ =>
      simple_ok (wrap_text w (sem c) (lib_format c)) (ns_text (sem c)) (plain_tree c)
    | WSyscallError sc => unsafe_ok sc && plain_tree c
    | WPathError op path => ascii op && no_nl op && unsafe_ok path && plain_tree c
    | WLinkError op old new => ascii op && no_nl op && unsafe_ok old && unsafe_ok new && plain_tree c
    | WOpError op net src addr => operror_ok op net src addr && plain_tree c   (* not both src and addr *)
    end
  | Second i c s => plain_tree c
  | Barrier i smsg m => raw_msg_ok smsg
  | Multi i k cs =>
    match k with
    | MFmtWraps msg => direct_ok msg ((match cs with [] => true | _ => false end) && ns_sent (sem (Multi i k cs)))
    | MStdJoin =>                                               (* the causes are elided *)
      (match cs with [] => false | _ => true end) &&
      forallb (fun c => nonempty (error_text c) && no_nl (error_text c)) cs
    | MJoin =>                                                  (* Error() goes through the engine *)
      negb (last_rune_invalid (final_short (sem (Multi i k cs)) true false)) &&
      nonempty (error_text (Multi i k cs))
    end
  | OLeaf i msg d cs => unsafe_ok msg                           (* the causes are elided *)
  | OWrap i pfx d mt c =>
    if is_full_msg mt then unsafe_ok pfx
    else (is_empty pfx || unsafe_ok pfx) && plain_tree c
  end.

Lemma direct_ok_parts t safe :
  direct_ok t safe = true -> t <> [] /\ no_nl t = true /\ (safe = true -> ascii t = true).
Proof.
  unfold direct_ok. intro H. apply andb_true_iff in H as [H H3]. apply andb_true_iff in H as [H1 H2].
  repeat split; try assumption; [now apply nonempty_ne|].
  intros ->. now rewrite orb_false_r in H3.
Qed.

Lemma raw_msg_ok_parts s : raw_msg_ok s = true -> raw_ok s = true /\ strip_markers s <> [].
Proof.
  unfold raw_msg_ok. intro H. apply andb_true_iff in H as [H1 H2]. split; [assumption|now apply nonempty_ne].
Qed.

(* the default branch on a leaf-like node: safe printer or direct write *)
Lemma bh_default_leaf e text sent il hm st :
  (forall i w c, e <> Wrap i w c) ->
  direct_ok text (match e with
                  | Leaf _ (LErrno _) | Leaf _ (LUser ULSafeMsg _ _ _) => true
                  | _ => il && sent
                  end) = true ->
  (match e with Leaf _ (LUser ULSafeMsg m _ _) => m = text | _ => True end) ->
  clean st ->
  body_head (default_body e text sent il hm None st) st text.
Proof.
  intros Hnw Hd Hm C. apply direct_ok_parts in Hd as (Hne & Hn & Ha).
  unfold default_body. destruct (il && sent) eqn:Es.
  - apply bh_safe; try assumption. apply Ha.
    destruct e as [? [| | | | | | | | | | |[] ? ? ?]| | | | | |]; reflexivity.
  - destruct e as [i k|i w c| | | | |];
      try (unfold format_simple; apply bh_direct; assumption).
    + destruct k as [| | | | | | | | | | |u m ? ?];
        try (unfold format_simple; apply bh_direct; assumption).
      * apply bh_safe; auto.
      * destruct u; try (unfold format_simple; apply bh_direct; assumption).
        subst m. apply bh_safe; auto.
    + exfalso. now apply (Hnw i w c).
Qed.

Lemma short_ok_leaf i k : plain_tree (Leaf i k) = true -> short_ok (Leaf i k).
Proof.
  cbn [plain_tree]. intro Hp.
  assert (Ht : ns_text (sem (Leaf i k)) <> []).
  { change (leaf_text k <> []).
    destruct k as [| | | | |rm| | | | | |u ? ? ?]; cbn [plain_leaf] in Hp;
      try (apply direct_ok_parts in Hp; apply Hp).
    - apply andb_true_iff in Hp as [Hp _]. now apply nonempty_ne.
    - now apply raw_msg_ok_parts in Hp.
    - now apply unsafe_ok_parts in Hp.
    - destruct u; apply direct_ok_parts in Hp; apply Hp. }
  split; [exact Ht|].
  intros o wd kk st acc Hpre. cbn [sem ns_fmt ns_text].
  apply node_elide; [exact I|constructor| |right; split; reflexivity|exact Hpre].
  clear o wd kk st acc Hpre. intros o st3 C.
  destruct k as [m| |m stk| | |rm|m url det| | | |m|u m tg xs]; cbn [plain_leaf leaf_text] in *;
    try (apply bh_default_leaf; [discriminate|exact Hp|exact I|exact C]).
  - (* LPkgFund *)
    apply andb_true_iff in Hp as [_ Hn].
    destruct (negb o).
    + destruct (bh_direct st3 m false true Hn C) as (b & W & Hb). exists b. split; [|exact Hb].
      cbn [br_st] in *. apply wrote_set_last. unfold fundamental_format. cbv zeta.
      destruct C as (_ & _ & -> & _). exact W.
    + unfold format_simple. now apply bh_direct.
  - (* LLeafError *)
    apply raw_msg_ok_parts in Hp as [Hr _]. unfold body_safe. now apply bh_raw.
  - (* LUnimpl *)
    unfold body_safe.
    rewrite if_detail_short by (rewrite sp_print_wd; apply C). now apply bh_unsafe.
  - (* LUser *)
    destruct u; apply bh_default_leaf; try discriminate; try exact Hp; try exact I; try exact C; reflexivity.
Qed.

(* ---- single-cause wrappers ---- *)
Lemma wrap_body_clean w st :
  fs_wantDetail st = false ->
  wrap_body w st =
  match w with
  | WPrefix rp => Some (sp_print st [PRaw rp], false, true)
  | WNewMsg rm => Some (sp_print st [PRaw rm], true, true)
  | WHint _ | WDetail _ => Some (st, false, false)
  | WFmtWrap _ | WPkgMsg _ | WPkgStack _ | WPathError _ _ | WLinkError _ _ _ | WSyscallError _
  | WOpError _ _ _ _ | WUser _ _ _ => None
  | _ => Some (st, false, true)
  end.
Proof.
  intro H. destruct w; cbn [wrap_body]; try rewrite if_detail_short by exact H; try reflexivity.
  unfold st_detail. rewrite H. reflexivity.
Qed.

(* a wrapper handled by formatSimple / extractPrefix *)
Lemma short_ok_simple ty c own body t :
  simple_ok t (ns_text (sem c)) (plain_tree c) = true ->
  (plain_tree c = true -> short_ok c) ->
  (forall o st3 p mt, extract_prefix t (ns_text (sem c)) = (p, mt) ->
                      body o st3 = mkbody (st_write st3 p) false (mt =? 1) false) ->
  t <> [] /\
  forall o wd k st acc, pre st ->
    single_line false (fs_entries (fst (format_node ty (Some (sem c)) [] own body o false wd k st))) acc =
    single_line false (fs_entries st) (sl_add acc t).
Proof.
  intros Hs IH Hb. unfold simple_ok in Hs. apply andb_true_iff in Hs as [Hn Hs].
  destruct (extract_prefix t (ns_text (sem c))) as [p mt] eqn:E.
  specialize (fun o st3 => Hb o st3 p mt eq_refl).
  destruct (extract_prefix_spec _ _ _ _ E) as [[-> ->]|[(-> & -> & Ht)|(-> & Hp & Ht)]].
  - (* the whole message; causes elided *)
    cbn [N.eqb Pos.eqb] in Hs, Hb. split; [now apply nonempty_ne|].
    intros o wd k st acc Hpre.
    apply node_elide; [apply sem_frame|constructor| |left|exact Hpre].
    + intros o' st3 C. rewrite Hb. now apply bh_direct.
    + intros o' st3 C. now rewrite Hb.
  - (* empty prefix *)
    cbn [N.eqb] in Hs, Hb. apply andb_true_iff in Hs as [Hs Hc]. cbn [nonempty is_empty negb orb] in Hs.
    apply str_eqb_eq in Hs. specialize (IH Hc). split; [rewrite Hs; apply IH|].
    intros o wd k st acc Hpre.
    rewrite (node_keep ty c own body [] IH); [now rewrite Hs| | |exact Hpre].
    + intros o' st3 C. rewrite Hb. apply bh_none.
    + intros o' st3 C. now rewrite Hb.
  - (* prefix: cause *)
    cbn [N.eqb] in Hs, Hb. apply andb_true_iff in Hs as [_ Hc]. specialize (IH Hc).
    split; [rewrite Ht; destruct p; [contradiction|discriminate]|].
    intros o wd k st acc Hpre.
    rewrite (node_keep ty c own body p IH); [| | |exact Hpre].
    + destruct p; [contradiction|]. now rewrite Ht.
    + intros o' st3 C. rewrite Hb. apply bh_direct; [|exact C].
      rewrite Ht, no_nl_app in Hn. now apply andb_true_iff in Hn as [Hn _].
    + intros o' st3 C. now rewrite Hb.
Qed.

Lemma format_simple_some st t ct p mt :
  extract_prefix t ct = (p, mt) -> format_simple st t (Some ct) = (st_write st p, mt =? 1).
Proof. intro E. unfold format_simple. now rewrite E. Qed.

Lemma short_ok_wrap i w c :
  (plain_tree c = true -> short_ok c) -> plain_tree (Wrap i w c) = true -> short_ok (Wrap i w c).
Proof.
  intros IH Hp.
  (* wrappers that print nothing in short mode *)
  assert (Hinv : plain_tree c = true ->
                 wrap_text w (sem c) (lib_format c) = ns_text (sem c) ->
                 (forall st, fs_wantDetail st = false -> exists red, wrap_body w st = Some (st, false, red)) ->
                 short_ok (Wrap i w c)).
  { intros Hc Ht Hw. specialize (IH Hc). split; [cbn [sem ns_text]; rewrite Ht; apply IH|].
    intros o wd k st acc Hpre. cbn [sem ns_fmt ns_text]. rewrite Ht.
    rewrite (node_keep _ c _ _ [] IH); [reflexivity| | |exact Hpre].
    - intros o' st3 C. destruct (Hw st3 (proj1 C)) as [red ->]. apply bh_none.
    - intros o' st3 C. destruct (Hw st3 (proj1 C)) as [red ->]. reflexivity. }
  (* wrappers handled by formatSimple *)
  assert (Hsimple : simple_ok (wrap_text w (sem c) (lib_format c)) (ns_text (sem c)) (plain_tree c) = true ->
                    (forall st, wrap_body w st = None /\
                       match w with
                       | WPkgMsg _ | WPkgStack _ => True
                       | _ => forall text sent ct, default_body (Wrap i w c) text sent false false ct st =
                                let '(st1, el) := format_simple st text ct in mkbody st1 false (el || false) false
                       end) ->
                    match w with WPkgMsg _ | WPkgStack _ | WFmtWrap _ | WUser _ _ _ => True | _ => False end ->
                    short_ok (Wrap i w c)).
  { intros Hs Hw Hk.
    pose proof (short_ok_simple (go_type_string (Wrap i w c)) c (wrap_stack w)) as L.
    cbn [sem ns_fmt ns_text]. unfold short_ok. cbn [sem ns_fmt ns_text].
    apply L; [exact Hs|exact IH|].
    intros o st3 p mt E. destruct (Hw st3) as [-> Hd].
    destruct w; try contradiction;
      try (rewrite Hd); rewrite (format_simple_some _ _ _ _ _ E); try rewrite orb_false_r; reflexivity. }
  destruct w; cbn [plain_tree] in Hp; try discriminate;
    try (apply Hinv; [exact Hp|reflexivity|];
         intros st0 Hwd; rewrite wrap_body_clean by exact Hwd; eexists; reflexivity);
    try (apply Hsimple; [exact Hp| |exact I]; intros st0; split; reflexivity).
  - (* WPrefix *)
    apply andb_true_iff in Hp as [Hr Hc]. specialize (IH Hc).
    assert (Hr' : raw_ok rp = true /\ (rp = [] \/ strip_markers rp <> [])).
    { apply orb_true_iff in Hr as [Hr|Hr].
      - destruct rp; [|discriminate]. split; [reflexivity|now left].
      - apply raw_msg_ok_parts in Hr as [? ?]. split; [assumption|now right]. }
    destruct Hr' as [Hraw Hne].
    assert (Ht : ns_text (sem (Wrap i (WPrefix rp) c)) =
                 match strip_markers rp with
                 | [] => ns_text (sem c)
                 | _ => strip_markers rp ++ colon_sp ++ ns_text (sem c)
                 end).
    { cbn [sem ns_text wrap_text]. rewrite (cause_v_eq c IH).
      destruct Hne as [->|Hne]; [reflexivity|].
      destruct rp; [now contradiction Hne|]. destruct (strip_markers (n :: rp)); [contradiction|reflexivity]. }
    split.
    + rewrite Ht. destruct (strip_markers rp); [apply IH|discriminate].
    + intros o wd k st acc Hpre. rewrite Ht. cbn [sem ns_fmt].
      apply (node_keep _ c _ _ (strip_markers rp) IH); [| |exact Hpre].
      * intros o' st3 C. rewrite wrap_body_clean by apply C. now apply bh_raw.
      * intros o' st3 C. rewrite wrap_body_clean by apply C. reflexivity.
  - (* WNewMsg *)
    apply raw_msg_ok_parts in Hp as [Hraw Hne]. split; [exact Hne|].
    intros o wd k st acc Hpre. cbn [sem ns_fmt ns_text wrap_text].
    apply node_elide; [apply sem_frame|constructor| |left|exact Hpre].
    + intros o' st3 C. rewrite wrap_body_clean by apply C. now apply bh_raw.
    + intros o' st3 C. rewrite wrap_body_clean by apply C. reflexivity.
  - (* WPathError *)
    apply andb_true_iff in Hp as [Hp Hc]. apply andb_true_iff in Hp as [Hp Hu].
    apply andb_true_iff in Hp as [Ha Hn]. specialize (IH Hc).
    destruct (unsafe_ok_parts path Hu) as (Hne & Hpa & Hpn).
    split; [cbn [sem ns_text wrap_text]; destruct op; discriminate|].
    intros o wd k st acc Hpre. cbn [sem ns_fmt ns_text wrap_text].
    rewrite (node_keep _ c _ _ (op ++ [sp] ++ path) IH); [| | |exact Hpre].
    + destruct (op ++ [sp] ++ path) eqn:E0; [destruct op; discriminate|]. rewrite <- E0.
      now rewrite <- !app_assoc.
    + intros o' st3 C. cbn [wrap_body]. unfold default_body. cbn [andb].
      apply (bh_printed _ _ _ _ _ _ (sprint_path op path Ha Hu)); [| |exact C].
      * rewrite !no_nl_app, Hn, Hpn. reflexivity.
      * replace (op ++ [sp] ++ m_start ++ path ++ m_end) with ((op ++ [sp]) ++ m_start ++ path ++ m_end ++ [])
          by (rewrite app_nil_r, <- !app_assoc; reflexivity).
        rewrite strip_region; [|rewrite ascii_app, Ha; reflexivity|exact Hpa].
        cbn [strip_markers tokenize filter untok flat_map]. now rewrite app_nil_r, <- !app_assoc.
    + intros o' st3 C. reflexivity.
  - (* WLinkError *)
    apply andb_true_iff in Hp as [Hp Hc]. apply andb_true_iff in Hp as [Hp Hu2].
    apply andb_true_iff in Hp as [Hp Hu1]. apply andb_true_iff in Hp as [Ha Hn]. specialize (IH Hc).
    destruct (unsafe_ok_parts old Hu1) as (Hne1 & Ha1 & Hn1).
    destruct (unsafe_ok_parts new Hu2) as (Hne2 & Ha2 & Hn2).
    split; [cbn [sem ns_text wrap_text]; destruct op; discriminate|].
    intros o wd k st acc Hpre. cbn [sem ns_fmt ns_text wrap_text].
    rewrite (node_keep _ c _ _ (op ++ [sp] ++ old ++ [sp] ++ new) IH); [| | |exact Hpre].
    + destruct (op ++ [sp] ++ old ++ [sp] ++ new) eqn:E0; [destruct op; discriminate|]. rewrite <- E0.
      now rewrite <- !app_assoc.
    + intros o' st3 C. cbn [wrap_body]. unfold default_body. cbn [andb].
      apply (bh_printed _ _ _ _ _ _ (sprint_link op old new Ha Hu1 Hu2)); [| |exact C].
      * rewrite !no_nl_app, Hn, Hn1, Hn2. reflexivity.
      * replace (op ++ [sp] ++ m_start ++ old ++ m_end ++ [sp] ++ m_start ++ new ++ m_end)
          with ((op ++ [sp]) ++ m_start ++ old ++ m_end ++ ([sp] ++ m_start ++ new ++ m_end ++ []))
          by (rewrite app_nil_r, <- !app_assoc; reflexivity).
        rewrite strip_region; [|rewrite ascii_app, Ha; reflexivity|exact Ha1].
        rewrite strip_region; [|reflexivity|exact Ha2].
        cbn [strip_markers tokenize filter untok flat_map]. now rewrite app_nil_r, <- !app_assoc.
    + intros o' st3 C. reflexivity.
  - (* WSyscallError *)
    apply andb_true_iff in Hp as [Hu Hc]. specialize (IH Hc).
    destruct (unsafe_ok_parts sc Hu) as (Hne & Ha & Hn).
    split; [cbn [sem ns_text wrap_text]; destruct sc; [contradiction|discriminate]|].
    intros o wd k st acc Hpre. cbn [sem ns_fmt ns_text wrap_text].
    rewrite (node_keep _ c _ _ sc IH); [destruct sc; [contradiction|reflexivity]| | |exact Hpre].
    + intros o' st3 C. cbn [wrap_body]. unfold default_body. cbn [andb]. now apply bh_safe.
    + intros o' st3 C. reflexivity.
  - (* WOpError *)
    apply andb_true_iff in Hp as [Hok Hc]. specialize (IH Hc).
    assert (Hne : operror_head op net src addr <> []).
    { unfold operror_ok in Hok. apply andb_true_iff in Hok as [_ Hh]. now apply nonempty_ne. }
    split; [cbn [sem ns_text wrap_text]; destruct (operror_head op net src addr); [contradiction|discriminate]|].
    intros o wd k st acc Hpre. cbn [sem ns_fmt ns_text wrap_text].
    rewrite (node_keep _ c _ _ (operror_head op net src addr) IH); [| | |exact Hpre].
    + destruct (operror_head op net src addr); [contradiction|reflexivity].
    + intros o' st3 C. cbn [wrap_body]. now apply bh_operror.
    + intros o' st3 C. reflexivity.
Qed.

(* ---- the other node kinds ---- *)
Lemma short_ok_second i c s : short_ok c -> short_ok (Second i c s).
Proof.
  intro IH. split; [apply IH|].
  intros o wd k st acc Hpre. cbn [sem ns_fmt ns_text].
  rewrite (node_keep _ c _ _ [] IH); [reflexivity| | |exact Hpre].
  - intros o' st3 C. unfold body_safe. rewrite if_detail_short by apply C. apply bh_none.
  - intros o' st3 C. reflexivity.
Qed.

Lemma short_ok_barrier i smsg m : raw_msg_ok smsg = true -> short_ok (Barrier i smsg m).
Proof.
  intro Hp. apply raw_msg_ok_parts in Hp as [Hraw Hne]. split; [exact Hne|].
  intros o wd k st acc Hpre. cbn [sem ns_fmt ns_text].
  apply node_elide; [exact I|constructor| |right; split; reflexivity|exact Hpre].
  intros o' st3 C. unfold body_safe.
  rewrite if_detail_short by (rewrite sp_print_wd; apply C). now apply bh_raw.
Qed.

Lemma frames_map cs : Forall (fun m => frame_ok (ns_fmt m)) (List.map sem cs).
Proof. induction cs; cbn [List.map]; constructor; [apply sem_frame|assumption]. Qed.

Lemma short_ok_oleaf i msg d cs : unsafe_ok msg = true -> short_ok (OLeaf i msg d cs).
Proof.
  intro Hp. split; [cbn [sem ns_text]; now apply unsafe_ok_parts in Hp|].
  intros o wd k st acc Hpre. cbn [sem ns_fmt ns_text].
  apply node_elide; [exact I|apply frames_map| |left|exact Hpre].
  - intros o' st3 C. unfold body_safe.
    rewrite if_detail_short by (rewrite sp_print_wd; apply C). now apply bh_unsafe.
  - intros o' st3 C. reflexivity.
Qed.

Lemma short_ok_owrap i pfx d mt c :
  (plain_tree c = true -> short_ok c) -> plain_tree (OWrap i pfx d mt c) = true ->
  short_ok (OWrap i pfx d mt c).
Proof.
  intros IH Hp. cbn [plain_tree] in Hp. destruct (is_full_msg mt) eqn:Ef.
  - (* full message: the cause is elided *)
    split; [cbn [sem ns_text]; rewrite Ef; now apply unsafe_ok_parts in Hp|].
    intros o wd k st acc Hpre. cbn [sem ns_fmt ns_text]. rewrite Ef.
    apply node_elide; [apply sem_frame|constructor| |left|exact Hpre].
    + intros o' st3 C. unfold body_safe.
      destruct pfx as [|x pfx]; [discriminate|].
      rewrite if_detail_short by (rewrite sp_print_wd; apply C). now apply bh_unsafe.
    + intros o' st3 C. reflexivity.
  - apply andb_true_iff in Hp as [Hu Hc]. specialize (IH Hc).
    assert (Ht : ns_text (sem (OWrap i pfx d mt c)) =
                 match pfx with [] => ns_text (sem c) | _ => pfx ++ colon_sp ++ ns_text (sem c) end).
    { cbn [sem ns_text]. rewrite Ef, (cause_v_eq c IH). reflexivity. }
    split.
    + rewrite Ht. destruct pfx; [apply IH|discriminate].
    + intros o wd k st acc Hpre. rewrite Ht. cbn [sem ns_fmt]. rewrite Ef.
      apply (node_keep _ c _ _ pfx IH); [| |exact Hpre].
      * intros o' st3 C. unfold body_safe. destruct pfx as [|x pfx].
        -- rewrite if_detail_short by apply C. apply bh_none.
        -- rewrite if_detail_short by (rewrite sp_print_wd; apply C). now apply bh_unsafe.
      * intros o' st3 C. reflexivity.
Qed.

Lemma short_ok_fmtwraps i msg cs :
  plain_tree (Multi i (MFmtWraps msg) cs) = true -> short_ok (Multi i (MFmtWraps msg) cs).
Proof.
  cbn [plain_tree]. intro Hp. split; [cbn [sem ns_text]; apply direct_ok_parts in Hp; apply Hp|].
  intros o wd k st acc Hpre. cbn [sem ns_fmt ns_text].
  apply node_elide; [exact I|apply frames_map| |left|exact Hpre].
  - intros o' st3 C. apply bh_default_leaf; [discriminate|exact Hp|exact I|exact C].
  - intros o' st3 C. unfold default_body.
    match goal with |- context [if ?x then _ else _] => destruct x end; [reflexivity|].
    unfold format_simple. cbn [br_elide]. apply orb_true_r.
Qed.

Lemma short_ok_stdjoin i cs :
  plain_tree (Multi i MStdJoin cs) = true -> short_ok (Multi i MStdJoin cs).
Proof.
  cbn [plain_tree]. intro Hp. apply andb_true_iff in Hp as [Hne Hall].
  assert (Hcs : cs <> []) by (destruct cs; [discriminate|discriminate]).
  assert (Hsegs : Forall seg_ok (List.map ns_text (List.map sem cs))).
  { rewrite forallb_forall in Hall. clear Hne Hcs.
    induction cs as [|c cs IH]; cbn [List.map]; constructor.
    - specialize (Hall c (or_introl eq_refl)). apply andb_true_iff in Hall as [H1 H2].
      split; [now apply nonempty_ne|exact H2].
    - apply IH. intros x Hx. apply Hall. now right. }
  assert (Hmap : List.map ns_text (List.map sem cs) <> []) by (destruct cs; [contradiction|discriminate]).
  split.
  - cbn [sem ns_text]. destruct (List.map ns_text (List.map sem cs)) as [|t ts]; [contradiction|].
    inversion Hsegs as [|? ? [Ht _] _]; subst. destruct ts; cbn [join]; [exact Ht|].
    destruct t; [contradiction|discriminate].
  - intros o wd k st acc Hpre. cbn [sem ns_fmt ns_text].
    apply node_elide; [exact I|apply frames_map| |left|exact Hpre].
    + intros o' st3 C. unfold default_body.
      destruct cs as [|c0 cs0]; [contradiction|]. cbn [andb]. unfold format_simple.
      eexists. split; [|reflexivity]. cbn [br_st].
      apply write_join; [exact Hsegs|exact Hmap|apply C|apply C].
    + intros o' st3 C. unfold default_body.
      destruct cs as [|c0 cs0]; [contradiction|]. cbn [andb]. unfold format_simple. reflexivity.
Qed.

(* ---- join.joinError: Error() is defined through the engine itself ---- *)
(* the fields of the state that state.Write reads *)
Definition wview (st : fstate) :=
  (fs_buf st, fs_headbuf st, fs_hasDetail st, fs_wantDetail st, fs_notEmpty st, fs_needNewline st).

Lemma write_loop_wview b : forall st st' chunk,
  wview st = wview st' -> wview (write_loop b st chunk) = wview (write_loop b st' chunk).
Proof.
  induction b as [|c r IH]; intros st st' chunk H;
    destruct st as [a1 a2 a3 a4 a5 a6 a7 a8 a9 a10], st' as [b1 b2 b3 b4 b5 b6 b7 b8 b9 b10];
    unfold wview in H; cbn in H; injection H as -> -> -> -> -> ->.
  - reflexivity.
  - cbn [write_loop]. destruct (c =? nl).
    + apply IH. cbn. destruct b8; [|reflexivity].
      unfold switch_over. cbn. destruct b7; reflexivity.
    + apply IH. cbn.
      match goal with |- context [if ?x then _ else _] => destruct x end; reflexivity.
Qed.

Lemma st_write_wview st st' b : wview st = wview st' -> wview (st_write st b) = wview (st_write st' b).
Proof. intro H. destruct b; [exact H|]. unfold st_write. now apply write_loop_wview. Qed.

Lemma write_loop_hb b : forall st chunk,
  fs_wantDetail st = false -> fs_headbuf (write_loop b st chunk) = fs_headbuf st.
Proof.
  induction b as [|c r IH]; intros st chunk H; cbn [write_loop]; [reflexivity|].
  destruct (c =? nl).
  - cbn [fs_wantDetail set_needNewline set_buf]. rewrite H. now rewrite IH.
  - rewrite IH.
    + match goal with |- context [if ?x then _ else _] => destruct x end; reflexivity.
    + match goal with |- context [if ?x then _ else _] => destruct x end; exact H.
Qed.

Lemma st_write_hb st b : fs_wantDetail st = false -> fs_headbuf (st_write st b) = fs_headbuf st.
Proof. intro H. destruct b; [reflexivity|]. unfold st_write. now apply write_loop_hb. Qed.

Definition join_step (acc : bool * fstate) (sc : nsem) : bool * fstate :=
  (false, sp_print (if fst acc then snd acc else sp_print (snd acc) [PUnsafe [nl]]) [nested_v sc]).

Lemma join_step_wview a st st' sc :
  wview st = wview st' -> wview (snd (join_step (a, st) sc)) = wview (snd (join_step (a, st') sc)).
Proof.
  intro H. unfold join_step, sp_print. cbn [fst snd]. apply st_write_wview.
  destruct a; [exact H|]. now apply st_write_wview.
Qed.

Lemma join_fold_wview scs : forall a st st',
  wview st = wview st' ->
  wview (snd (fold_left join_step scs (a, st))) = wview (snd (fold_left join_step scs (a, st'))).
Proof.
  induction scs as [|sc scs IH]; intros a st st' H; cbn [fold_left]; [exact H|].
  unfold join_step at 2 4. cbn [fst snd]. apply IH.
  apply (join_step_wview a st st' sc H).
Qed.

Lemma join_step_cfg acc sc : cfg (snd (join_step acc sc)) = cfg (snd acc).
Proof.
  unfold join_step. cbn [snd]. rewrite sp_print_cfg. destruct (fst acc); [reflexivity|apply sp_print_cfg].
Qed.

Lemma join_step_hb acc sc :
  fs_wantDetail (snd acc) = false -> fs_headbuf (snd (join_step acc sc)) = fs_headbuf (snd acc).
Proof.
  intro H. unfold join_step, sp_print. cbn [snd]. destruct (fst acc).
  - now apply st_write_hb.
  - rewrite st_write_hb by (rewrite st_write_wd; exact H). now apply st_write_hb.
Qed.

Lemma join_fold_hb scs : forall acc,
  fs_wantDetail (snd acc) = false ->
  fs_headbuf (snd (fold_left join_step scs acc)) = fs_headbuf (snd acc).
Proof.
  induction scs as [|sc scs IH]; intros acc H; cbn [fold_left]; [reflexivity|].
  rewrite IH.
  - now apply join_step_hb.
  - rewrite (cfg_wd _ _ (join_step_cfg acc sc)). exact H.
Qed.

(* the (redactable) bytes a joinError writes: independent of the state it starts from *)
Definition clean0 : fstate := reset_st (st_init false false).
Definition join_bytes (scs : list nsem) : str := fs_buf (snd (fold_left join_step scs (true, clean0))).

Lemma clean_wview st3 : clean st3 -> wview st3 = wview clean0.
Proof. intros (A & B & _ & C & D & E & F). unfold wview. rewrite A, B, C, D, E, F. reflexivity. Qed.

Lemma join_bytes_eq scs st3 :
  wview st3 = wview clean0 -> fs_buf (snd (fold_left join_step scs (true, st3))) = join_bytes scs.
Proof.
  intro H. pose proof (join_fold_wview scs true st3 clean0 H) as E. unfold wview in E.
  unfold join_bytes. congruence.
Qed.

Lemma mjoin_fmt i cs :
  ns_fmt (sem (Multi i MJoin cs)) =
  format_node (go_type_string (Multi i MJoin cs)) None (List.map sem cs) None
              (fun _ st => body_safe (snd (fold_left join_step (List.map sem cs) (true, st))) true).
Proof. reflexivity. Qed.

Lemma collect_entry_red st ty w d :
  fs_wantDetail st = false -> fs_headbuf st = [] -> fs_redout st = true ->
  collect_entry st ty true w d = mkentry ty true (fs_buf st) [] false None false (if w then d else 0%nat).
Proof. intros H1 H2 H3. unfold collect_entry. rewrite H1, H2, H3. reflexivity. Qed.

Lemma mjoin_red_short i cs :
  final_short (sem (Multi i MJoin cs)) true false = join_bytes (List.map sem cs).
Proof.
  unfold final_short. rewrite mjoin_fmt. rewrite format_node_split.
  destruct (run_kids_frame None (List.map sem cs) false 0%nat (st_init true false) I (frames_map cs))
    as (B & R & P & Ec & E & L).
  destruct (run_kids None (List.map sem cs) false 0%nat (st_init true false)) as [st2 n2].
  cbn [fst snd] in *. specialize (B eq_refl). cbn [st_init fs_redout fs_plus fs_entries] in R, P, E.
  unfold finish_node. cbv zeta. unfold body_safe. cbn [br_st br_red br_elide br_seen].
  set (X := snd (fold_left join_step (List.map sem cs) (true, reset_st st2))).
  assert (CX : cfg X = cfg (reset_st st2)).
  { subst X. rewrite fold_left_snd_cfg; [reflexivity|]. intros acc x. apply join_step_cfg. }
  unfold cfg in CX. injection CX as C1 C2 C3 C4. cbn [reset_st fs_redout fs_plus fs_entries fs_wantDetail] in C1, C2, C3, C4.
  assert (HX : fs_headbuf X = []).
  { subst X. rewrite join_fold_hb; reflexivity. }
  assert (BX : fs_buf X = join_bytes (List.map sem cs)).
  { subst X. apply join_bytes_eq. unfold wview. cbn [reset_st fs_buf fs_headbuf fs_hasDetail fs_wantDetail fs_notEmpty fs_needNewline].
    rewrite B. reflexivity. }
  rewrite collect_entry_red;
    [|cbn [elide_short set_entries fs_wantDetail]; exact C4
     |cbn [elide_short set_entries fs_headbuf]; exact HX
     |cbn [elide_short set_entries fs_redout]; congruence].
  cbn [fst set_buf set_entries fs_entries elide_short fs_buf].
  cbn [single_line fe_elide fe_head]. rewrite C3, E, <- L, BX.
  destruct (join_bytes (List.map sem cs)) eqn:EB; rewrite single_line_marked; reflexivity.
Qed.

Lemma short_ok_mjoin i cs :
  plain_tree (Multi i MJoin cs) = true -> short_ok (Multi i MJoin cs).
Proof.
  cbn [plain_tree]. intro Hp. apply andb_true_iff in Hp as [Hl Hne]. apply negb_true_iff in Hl.
  apply nonempty_ne in Hne. unfold error_text in Hne.
  assert (Ht : ns_text (sem (Multi i MJoin cs)) = strip_markers (join_bytes (List.map sem cs))).
  { rewrite mjoin_text_eq. rewrite sprint_raw by exact Hl. now rewrite mjoin_red_short. }
  split; [exact Hne|].
  intros o wd k st acc Hpre. rewrite Ht, mjoin_fmt.
  apply node_elide; [exact I|apply frames_map| |left|exact Hpre].
  - intros o' st3 C. exists (join_bytes (List.map sem cs)). split; [|reflexivity].
    unfold body_safe. cbn [br_st].
    assert (CX : cfg (snd (fold_left join_step (List.map sem cs) (true, st3))) = cfg st3).
    { rewrite fold_left_snd_cfg; [reflexivity|]. intros a x. apply join_step_cfg. }
    unfold cfg in CX. injection CX as C1 C2 C3 C4.
    constructor; try assumption.
    + rewrite join_fold_hb; [reflexivity|apply C].
    + rewrite (join_bytes_eq _ _ (clean_wview _ C)).
      destruct C as (_ & _ & _ & -> & _). reflexivity.
  - intros o' st3 C. reflexivity.
Qed.

(* ================================================================== *)
(* 6. the theorem                                                       *)
(* ================================================================== *)
Lemma plain_short_ok e : plain_tree e = true -> short_ok e.
Proof.
  induction e as [i k|i w c IH|i c IHc s _|i smsg m _|i k cs|i msg d cs|i pfx d mt c IH].
  - apply short_ok_leaf.
  - now apply short_ok_wrap.
  - intro H. apply short_ok_second. now apply IHc.
  - apply short_ok_barrier.
  - destruct k; [apply short_ok_mjoin|apply short_ok_stdjoin|apply short_ok_fmtwraps].
  - apply short_ok_oleaf.
  - now apply short_ok_owrap.
Qed.

(* %v / %s of a plain tree is its Error() text *)
Theorem short_is_text e : plain_tree e = true -> final_short (sem e) false false = ns_text (sem e).
Proof. intro H. apply short_ok_final, plain_short_ok, H. Qed.

Corollary fmt_plain_short_is_error_text e : plain_tree e = true -> fmt_plain_short e = error_text e.
Proof. apply short_is_text. Qed.

(* Recorded finding about the code: for a *net.OpError with BOTH Source and Addr the
   special-case printer of the engine prints "src -> addr" while Error() says
   "src->addr"; so the conclusion of [short_is_text] fails there, and the clause
   "not both" of [operror_ok] cannot be dropped. *)
Definition operror_both : err :=
  Wrap 2%positive (WOpError (lit "dial") (lit "tcp") (lit "10.0.0.1:1") (lit "10.0.0.2:2"))
       (Leaf 1%positive (LErrString (lit "refused"))).

Example operror_arrow_texts :
  error_text operror_both = lit "dial tcp 10.0.0.1:1->10.0.0.2:2: refused" /\
  fmt_plain_short operror_both = lit "dial tcp 10.0.0.1:1 -> 10.0.0.2:2: refused".
Proof. vm_compute. split; reflexivity. Qed.

Example operror_arrow_refuted : fmt_plain_short operror_both <> error_text operror_both.
Proof. vm_compute. discriminate. Qed.

(* with at most one of the two the theorem applies *)
Example operror_src_only_plain :
  plain_tree (Wrap 2%positive (WOpError (lit "dial") (lit "tcp") (lit "10.0.0.1:1") [])
                   (Leaf 1%positive (LErrString (lit "refused")))) = true.
Proof. vm_compute. reflexivity. Qed.

(* an OpError whose four strings are all empty: Error() is ": cause" but the engine
   skips the empty entry; hence the clause [nonempty (operror_head ...)] *)
Example operror_empty_head_refuted :
  let e := Wrap 2%positive (WOpError [] [] [] []) (Leaf 1%positive (LErrString (lit "refused"))) in
  fmt_plain_short e <> error_text e.
Proof. vm_compute. discriminate. Qed.

(* ================================================================== *)
(* 7. leaves that are always plain                                      *)
(* ================================================================== *)
(* ---- syscall.Errno leaves are always plain ---- *)
Definition digits_ok (s : str) : bool := forallb (fun b => (48 <=? b) && (b <? 58)) s.

Lemma dec_digits_ok fuel : forall n acc, digits_ok acc = true -> digits_ok (dec_digits fuel n acc) = true.
Proof.
  induction fuel as [|f IH]; intros n acc H; cbn [dec_digits]; [exact H|].
  assert (Hd : digits_ok ((48 + n mod 10) :: acc) = true).
  { unfold digits_ok in *. cbn [forallb]. rewrite H, andb_true_r.
    pose proof (N.mod_lt n 10 ltac:(discriminate)).
    apply andb_true_iff. split; [apply N.leb_le|apply N.ltb_lt]. all: clear - H0; generalize dependent (n mod 10); intros; lia. }
  destruct (n / 10 =? 0); [exact Hd|now apply IH].
Qed.

Lemma dec_digits_nonempty fuel : forall n acc, acc <> [] -> dec_digits fuel n acc <> [].
Proof.
  induction fuel as [|f IH]; intros n acc H; cbn [dec_digits]; [exact H|].
  destruct (n / 10 =? 0); [discriminate|apply IH; discriminate].
Qed.

Lemma digits_ok_direct s : digits_ok s = true -> ascii s = true /\ no_nl s = true.
Proof.
  unfold digits_ok, ascii, no_nl. rewrite !forallb_forall. intro H. split; intros b Hb;
    specialize (H b Hb); apply andb_true_iff in H as [H1 H2]; apply N.leb_le in H1; apply N.ltb_lt in H2.
  - apply N.ltb_lt. lia.
  - apply negb_true_iff, N.eqb_neq. unfold nl. lia.
Qed.

Lemma dec_of_N_ok n : digits_ok (dec_of_N n) = true.
Proof. unfold dec_of_N. now apply dec_digits_ok. Qed.

Lemma dec_of_Z_ok z : ascii (dec_of_Z z) = true /\ no_nl (dec_of_Z z) = true.
Proof.
  destruct z as [|p|p]; cbn [dec_of_Z]; [split; reflexivity|apply digits_ok_direct, dec_of_N_ok|].
  destruct (digits_ok_direct _ (dec_of_N_ok (N.pos p))) as [A B].
  unfold ascii, no_nl in *. cbn [forallb]. rewrite A, B. split; reflexivity.
Qed.

Lemma errno_text_ok n : direct_ok (errno_text n) true = true.
Proof.
  assert (D : direct_ok (lit "errno " ++ dec_of_Z n) true = true).
  { destruct (dec_of_Z_ok n) as [A B]. unfold direct_ok.
    rewrite no_nl_app, ascii_app, A, B. reflexivity. }
  unfold errno_text.
  repeat match goal with |- context [match ?x with _ => _ end] => destruct x end;
    solve [reflexivity | exact D].
Qed.

Lemma plain_errno i n : plain_tree (Leaf i (LErrno n)) = true.
Proof. cbn [plain_tree plain_leaf leaf_text]. apply errno_text_ok. Qed.

Lemma plain_deadline i : plain_tree (Leaf i LDeadline) = true.
Proof. reflexivity. Qed.

Lemma plain_test_error i : plain_tree (Leaf i LTestError) = true.
Proof. reflexivity. Qed.
