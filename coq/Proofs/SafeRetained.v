(* C12: what the library declares PII-free is retained.
   Layer 1: per channel, the safe detail of ONE layer.
   Layer 2: whole tree, hidden errors (barriers, secondary errors) included.
   Layer 3: after transfer.
   Witnesses (vm_compute) for what is NOT retained are at the end. *)
From Coq Require Import Lia List Bool.
From Errv Require Import Base.Str Redact.Markers Redact.Buffer Model.Err Model.Sem Model.Details Model.Marks
     Model.Codec Model.Access Model.Report Proofs.StrFacts Proofs.FastIs Proofs.RedactFacts Proofs.RedactWf
     Proofs.EngineFacts Proofs.ShortText Proofs.EraseDef Proofs.EraseFacts Proofs.HopIdem Proofs.ExactHop
     Proofs.ReportFacts Proofs.HiddenVisible.
Import ListNotations.

(* what one node contributes to GetAllSafeDetails *)
Definition own_details (n : err) : list str := sd_details (get_safe_details n).

(* ================================================================== *)
(* 1. one layer, channel by channel                                     *)
(* ================================================================== *)
Section Channels.
Variables (i : oid) (c : err).

(* telemetry keys: verbatim, one string per key *)
Theorem telemetry_details keys : own_details (Wrap i (WTelemetry keys) c) = keys.
Proof. reflexivity. Qed.

Corollary telemetry_key_retained keys k : In k keys -> In k (own_details (Wrap i (WTelemetry keys) c)).
Proof. rewrite telemetry_details. trivial. Qed.

(* domain: the only detail, and also the extension of the type key *)
Theorem domain_details d :
  own_details (Wrap i (WDomain d) c) = [d] /\ sd_ext (get_safe_details (Wrap i (WDomain d) c)) = d.
Proof. split; reflexivity. Qed.

(* issue link: url then detail *)
Theorem issue_link_details url det : own_details (Wrap i (WIssueLink url det) c) = [url; det].
Proof. reflexivity. Qed.

(* unimplemented leaf: url then detail (the message is NOT a safe detail) *)
Theorem unimplemented_details msg url det : own_details (Leaf i (LUnimpl msg url det)) = [url; det].
Proof. reflexivity. Qed.

(* explicit safe details *)
Theorem safe_details_details ds : own_details (Wrap i (WSafeDetails ds) c) = ds.
Proof. reflexivity. Qed.

(* stack trace: the printed stack *)
Theorem stack_details st : own_details (Wrap i (WStack st) c) = [print_stack st].
Proof. reflexivity. Qed.

(* message layers: the redacted message with the markers stripped *)
Theorem leaf_error_details rm : own_details (Leaf i (LLeafError rm)) = [redact_strip rm].
Proof. reflexivity. Qed.
Theorem prefix_details rp : own_details (Wrap i (WPrefix rp) c) = [redact_strip rp].
Proof. reflexivity. Qed.
Theorem new_message_details rm : own_details (Wrap i (WNewMsg rm) c) = [redact_strip rm].
Proof. reflexivity. Qed.

(* context tags: one string per tag; a layer decoded from the wire carries the strings computed by the sender *)
Theorem context_details_local tags :
  own_details (Wrap i (WContext tags None) c) = List.map (fun kv => redact_strip (tag_redactable kv)) tags.
Proof. reflexivity. Qed.
Theorem context_details_received tags r : own_details (Wrap i (WContext tags (Some r)) c) = r.
Proof. reflexivity. Qed.

(* layers WITHOUT a SafeDetails method: only the type name is in GetAllSafeDetails *)
Theorem codes_and_assert_no_details :
  (forall code, own_details (Wrap i (WHTTP code) c) = []) /\
  (forall code, own_details (Wrap i (WGrpc code) c) = []) /\
  own_details (Wrap i WAssert c) = [] /\
  (forall h, own_details (Wrap i (WHint h) c) = []) /\
  (forall d, own_details (Wrap i (WDetail d) c) = []) /\
  (forall m, own_details (Wrap i (WMark m) c) = []).
Proof. repeat split. Qed.

(* opaque layers: what the sender put on the wire *)
Theorem opaque_details_kept pfx d mt msg cs :
  own_details (OWrap i pfx d mt c) = dt_rep d /\ own_details (OLeaf i msg d cs) = dt_rep d.
Proof. split; reflexivity. Qed.

End Channels.

(* type names: every layer of the chain gives its full Go type name and its type key *)
Theorem type_names_native e :
  match e with OLeaf _ _ _ _ | OWrap _ _ _ _ _ => False | _ => True end ->
  sd_orig (get_safe_details e) = go_full_name e /\
  sd_fam (get_safe_details e) = tm_family (own_tmark e) /\
  sd_ext (get_safe_details e) = own_ext e.
Proof. destruct e; intro H; try contradiction; repeat split. Qed.

Theorem type_names_opaque :
  (forall i m d cs, sd_orig (get_safe_details (OLeaf i m d cs)) = dt_orig d /\
                    sd_fam (get_safe_details (OLeaf i m d cs)) = dt_fam d /\
                    sd_ext (get_safe_details (OLeaf i m d cs)) = dt_ext d) /\
  (forall i p d mt c, sd_orig (get_safe_details (OWrap i p d mt c)) = dt_orig d /\
                      sd_fam (get_safe_details (OWrap i p d mt c)) = dt_fam d /\
                      sd_ext (get_safe_details (OWrap i p d mt c)) = dt_ext d).
Proof. split; intros; repeat split. Qed.

(* ================================================================== *)
(* 1b. the message layers: what Redact().StripMarkers() keeps           *)
(* ================================================================== *)
Lemma untok_tokenize_len n : forall s, (List.length s <= n)%nat -> untok (tokenize s) = s.
Proof.
  induction n as [|n IH]; intros s Hs.
  - destruct s; [reflexivity|cbn in Hs; lia].
  - destruct s as [|a [|b [|c r]]]; try reflexivity.
    rewrite tokenize_step3. cbn [List.length] in Hs.
    destruct ((a =? 226) && (b =? 128) && (c =? 185)) eqn:E1.
    + apply andb_true_iff in E1 as [E1 Ec]. apply andb_true_iff in E1 as [Ea Eb].
      apply N.eqb_eq in Ea, Eb, Ec. subst.
      change (untok (TOpen :: tokenize r)) with (m_start ++ untok (tokenize r)).
      rewrite IH by lia. reflexivity.
    + destruct ((a =? 226) && (b =? 128) && (c =? 186)) eqn:E2.
      * apply andb_true_iff in E2 as [E2 Ec]. apply andb_true_iff in E2 as [Ea Eb].
        apply N.eqb_eq in Ea, Eb, Ec. subst.
        change (untok (TClose :: tokenize r)) with (m_end ++ untok (tokenize r)).
        rewrite IH by lia. reflexivity.
      * change (untok (TB a :: tokenize (b :: c :: r))) with (a :: untok (tokenize (b :: c :: r))).
        rewrite IH by (cbn [List.length]; lia). reflexivity.
Qed.

Lemma untok_tokenize s : untok (tokenize s) = s.
Proof. exact (untok_tokenize_len _ s (le_n _)). Qed.

Lemma redact_toks_no_marker l : existsb is_marker l = false -> redact_toks l None = l.
Proof.
  induction l as [|t l IH]; [reflexivity|]. cbn [existsb]. intro H. apply orb_false_iff in H as [Ht Hl].
  destruct t; try discriminate. cbn [redact_toks]. now rewrite IH.
Qed.

Lemma filter_no_marker l : existsb is_marker l = false -> filter (fun t => negb (is_marker t)) l = l.
Proof.
  induction l as [|t l IH]; [reflexivity|]. cbn [existsb]. intro H. apply orb_false_iff in H as [Ht Hl].
  cbn [filter]. rewrite Ht. cbn [negb]. now rewrite IH.
Qed.

(* a string without markers is a fixed point of Redact() and of StripMarkers() *)
Theorem redact_no_markers s : has_markers s = false -> redact s = s.
Proof. intro H. unfold redact. rewrite redact_toks_no_marker by exact H. apply untok_tokenize. Qed.

Theorem strip_no_markers s : has_markers s = false -> strip_markers s = s.
Proof. intro H. unfold strip_markers. rewrite filter_no_marker by exact H. apply untok_tokenize. Qed.

Theorem redact_strip_no_markers s : has_markers s = false -> redact_strip s = s.
Proof. intro H. unfold redact_strip. rewrite redact_no_markers by exact H. now apply strip_no_markers. Qed.

Definition piece_text (p : piece) : str :=
  match p with PLit s | PUnsafe s | PSafe s | PRaw s => s end.
Definition safe_piece (p : piece) : Prop :=
  match p with PLit _ | PSafe _ => True | _ => False end.
Definition pieces_text (ps : list piece) : str := List.concat (List.map piece_text ps).

(* a message made of constant text and Safe() arguments, ANY bytes: the safe detail of the
   layer is the whole message as printed *)
Theorem redact_strip_all_safe ps :
  Forall safe_piece ps -> redact_strip (sprint_pieces ps) = sprint_pieces ps.
Proof. intro H. apply redact_strip_no_markers. now apply safe_pieces_no_markers. Qed.

Lemma fold_safe_pieces ps : Forall safe_piece ps -> forall v p,
  fold_left print_piece ps (mkbuf v p SafeEscaped false) = mkbuf v (p ++ pieces_text ps) SafeEscaped false.
Proof.
  induction 1 as [|q ps Hq _ IH]; intros v p; cbn [fold_left].
  - unfold pieces_text. cbn. now rewrite app_nil_r.
  - destruct q as [s|s|s|s]; try contradiction.
    + rewrite print_lit_step, IH. unfold pieces_text. cbn [List.map List.concat piece_text].
      now rewrite <- app_assoc.
    + rewrite print_safe_step, IH. unfold pieces_text. cbn [List.map List.concat piece_text].
      now rewrite <- app_assoc.
Qed.

(* ... and for ASCII pieces the printed message is the concatenation of the pieces *)
Theorem sprint_all_safe_ascii ps :
  Forall safe_piece ps -> ascii (pieces_text ps) = true -> sprint_pieces ps = pieces_text ps.
Proof.
  intros H Ha. unfold sprint_pieces, print_pieces.
  change (set_mode buf_empty SafeEscaped) with (mkbuf [] [] SafeEscaped false).
  rewrite fold_safe_pieces by exact H. cbn [app].
  destruct (pieces_text ps) as [|x t] eqn:E; [reflexivity|].
  rewrite take_pend by (discriminate || exact Ha). reflexivity.
Qed.

Corollary message_all_safe_retained ps :
  Forall safe_piece ps -> ascii (pieces_text ps) = true ->
  redact_strip (sprint_pieces ps) = pieces_text ps.
Proof. intros H Ha. rewrite redact_strip_all_safe by exact H. now apply sprint_all_safe_ascii. Qed.

(* ================================================================== *)
(* 2. the whole tree, hidden errors included                            *)
(* ================================================================== *)
(* every node GetAllSafeDetails reaches, directly (level 0: the chain of causes) or
   through SafeDetails() of a barrier / secondary-error layer (one level per hiding
   layer crossed).  The causes of a multi-cause node are NOT reached: see
   [multi_cause_children_not_in_details]. *)
Definition bump (l : list (nat * err)) : list (nat * err) := List.map (fun kn => (S (fst kn), snd kn)) l.

Fixpoint deep_nodes (e : err) : list (nat * err) :=
  (0%nat, e) ::
  match e with
  | Wrap _ _ c | OWrap _ _ _ _ c => deep_nodes c
  | Second _ c s => bump (deep_nodes s) ++ deep_nodes c
  | Barrier _ _ m => bump (deep_nodes m)
  | _ => []
  end.

(* the error a layer hides *)
Definition hidden_of (e : err) : option err :=
  match e with Second _ _ s => Some s | Barrier _ _ m => Some m | _ => None end.

(* Fill prefixes two spaces per hiding level *)
Fixpoint indent_k (k : nat) (d : str) : str :=
  match k with O => d | S k' => lit "  " ++ indent_k k' d end.

Lemma indent_k_app k d : indent_k k d = rep_str k (lit "  ") ++ d.
Proof. induction k as [|k IH]; [reflexivity|]. cbn [indent_k rep_str]. now rewrite IH, <- app_assoc. Qed.

Lemma in_bump k n l : In (k, n) (bump l) -> exists k', k = S k' /\ In (k', n) l.
Proof.
  unfold bump. rewrite in_map_iff. intros [[k' n'] [E H]]. cbn [fst snd] in E. injection E as <- <-.
  eauto.
Qed.

Lemma bump_in k n l : In (k, n) l -> In (S k, n) (bump l).
Proof. intro H. unfold bump. apply in_map_iff. exists (k, n). split; [reflexivity|exact H]. Qed.

Lemma gasd_cons e : exists t, get_all_safe_details e = get_safe_details e :: t.
Proof. unfold get_all_safe_details. destruct e; cbn [chain List.map]; eexists; reflexivity. Qed.

Lemma gasd_head e : In (get_safe_details e) (get_all_safe_details e).
Proof. destruct (gasd_cons e) as [t ->]. now left. Qed.

Lemma gasd_step e c : unwrap_once e = Some c ->
  get_all_safe_details e = get_safe_details e :: get_all_safe_details c.
Proof. unfold get_all_safe_details. destruct e; cbn [unwrap_once]; intro H; inversion H; subst; reflexivity. Qed.

(* level-0 nodes are the chain *)
Lemma deep_chain e n : In n (chain e) -> In (0%nat, n) (deep_nodes e).
Proof.
  induction e using err_ind'; cbn [chain deep_nodes]; intros [<- | Hn]; try (now left); try contradiction;
    right; try (now apply IHe).
  apply in_or_app. right. now apply IHe1.
Qed.

(* (2) NOTHING a layer declares safe is lost, however deeply it is hidden:
   a detail [d] of a node at hiding level [k] is, indented by 2k spaces, a detail
   of some layer of the visible chain. *)
Theorem deep_details_retained e : forall k n d,
  In (k, n) (deep_nodes e) -> In d (own_details n) ->
  exists p d', In p (get_all_safe_details e) /\ In d' (sd_details p) /\ d' = indent_k k d.
Proof.
  assert (Head : forall x d, In d (own_details x) ->
            exists p d', In p (get_all_safe_details x) /\ In d' (sd_details p) /\ d' = indent_k 0 d).
  { intros x d Hd. exists (get_safe_details x), d. split; [apply gasd_head|]. split; [exact Hd|reflexivity]. }
  assert (Below : forall x c lv d, unwrap_once x = Some c ->
            (exists p d', In p (get_all_safe_details c) /\ In d' (sd_details p) /\ d' = indent_k lv d) ->
            exists p d', In p (get_all_safe_details x) /\ In d' (sd_details p) /\ d' = indent_k lv d).
  { intros x c lv d Hu (p & d' & Hp & Hd' & E). exists p, d'. split; [|split; assumption].
    rewrite (gasd_step x c Hu). now right. }
  induction e using err_ind'; intros lv n dd Hn Hd; cbn [deep_nodes] in Hn;
    (destruct Hn as [E | Hn]; [injection E as <- <-; now apply Head|]); try contradiction.
  - apply (Below (Wrap i w e) e); [reflexivity|]. now apply (IHe lv n).
  - apply in_app_or in Hn as [Hn | Hn].
    + apply in_bump in Hn as (k' & -> & Hn).
      destruct (IHe2 k' n dd Hn Hd) as (p & d' & Hp & Hd' & E). subst d'.
      exists (get_safe_details (Second i e1 e2)), (indent_k (S k') dd).
      split; [apply gasd_head|]. split; [|reflexivity].
      cbn [indent_k]. now apply (secondary_details_contribute i e1 e2 p).
    + apply (Below (Second i e1 e2) e1); [reflexivity|]. now apply (IHe1 lv n).
  - apply in_bump in Hn as (k' & -> & Hn).
    destruct (IHe k' n dd Hn Hd) as (p & d' & Hp & Hd' & E). subst d'.
    exists (get_safe_details (Barrier i m e)), (indent_k (S k') dd).
    split; [apply gasd_head|]. split; [|reflexivity].
    cbn [indent_k]. now apply (barrier_details_contribute i m e p).
  - apply (Below (OWrap i p d mt e) e); [reflexivity|]. now apply (IHe lv n).
Qed.

(* same, in one line *)
Corollary deep_details_retained' e k n d :
  In (k, n) (deep_nodes e) -> In d (own_details n) ->
  exists p, In p (get_all_safe_details e) /\ In (indent_k k d) (sd_details p).
Proof.
  intros Hn Hd. destruct (deep_details_retained e k n d Hn Hd) as (p & d' & Hp & Hd' & ->). eauto.
Qed.

(* all the details of one node land in the SAME payload *)
Theorem deep_details_retained_same e : forall lv n,
  In (lv, n) (deep_nodes e) ->
  exists p, In p (get_all_safe_details e) /\ forall d, In d (own_details n) -> In (indent_k lv d) (sd_details p).
Proof.
  assert (Below : forall x c lv n, unwrap_once x = Some c ->
            (exists p, In p (get_all_safe_details c) /\ forall d, In d (own_details n) -> In (indent_k lv d) (sd_details p)) ->
            exists p, In p (get_all_safe_details x) /\ forall d, In d (own_details n) -> In (indent_k lv d) (sd_details p)).
  { intros x c lv n Hu (p & Hp & Hall). exists p. split; [|exact Hall]. rewrite (gasd_step x c Hu). now right. }
  induction e using err_ind'; intros lv n Hn; cbn [deep_nodes] in Hn;
    (destruct Hn as [E | Hn];
     [injection E as <- <-; eexists; split; [apply gasd_head|intros d0 Hd0; exact Hd0]|]); try contradiction.
  - apply (Below (Wrap i w e) e); [reflexivity|]. now apply IHe.
  - apply in_app_or in Hn as [Hn | Hn].
    + apply in_bump in Hn as (k' & -> & Hn). destruct (IHe2 k' n Hn) as (p & Hp & Hall).
      exists (get_safe_details (Second i e1 e2)). split; [apply gasd_head|]. intros d0 Hd0.
      cbn [indent_k]. apply (secondary_details_contribute i e1 e2 p); [exact Hp|now apply Hall].
    + apply (Below (Second i e1 e2) e1); [reflexivity|]. now apply IHe1.
  - apply in_bump in Hn as (k' & -> & Hn). destruct (IHe k' n Hn) as (p & Hp & Hall).
    exists (get_safe_details (Barrier i m e)). split; [apply gasd_head|]. intros d0 Hd0.
    cbn [indent_k]. apply (barrier_details_contribute i m e p); [exact Hp|now apply Hall].
  - apply (Below (OWrap i p d mt e) e); [reflexivity|]. now apply IHe.
Qed.

(* the level-0 nodes keep their three type strings, as fields of the payload *)
Theorem chain_types_retained e n :
  In n (chain e) -> In (get_safe_details n) (get_all_safe_details e).
Proof. intro H. unfold get_all_safe_details. now apply in_map. Qed.

(* a hidden node: its type key heads its details -- when it has any (Fill prints nothing for a
   payload without details: see [hidden_type_without_details_lost]) *)
Definition fill_header (n : err) : str :=
  lit "details for " ++ sd_fam (get_safe_details n) ++ lit "::" ++ sd_ext (get_safe_details n) ++ lit ":".

Lemma sdp_fill_header p acc : sd_details p <> [] ->
  In (lit "details for " ++ sd_fam p ++ lit "::" ++ sd_ext p ++ lit ":") (sdp_fill p acc).
Proof.
  intro H. unfold sdp_fill. destruct (sd_details p) as [|d0 ds]; [contradiction|].
  apply in_or_app. right. apply in_or_app. left. now left.
Qed.

Lemma filled_header h n : In n (chain h) -> own_details n <> [] -> In (fill_header n) (filled_details h).
Proof.
  intros Hn Hd. unfold filled_details, get_all_safe_details.
  generalize (@nil str) as acc. induction (chain h) as [|x l IH]; intro acc; [destruct Hn|].
  cbn [List.map fold_left]. destruct Hn as [-> | Hn].
  - apply fold_fill_keeps. now apply sdp_fill_header.
  - now apply IH.
Qed.

Lemma hiding_details_filled h s : hidden_of h = Some s -> forall x, In x (filled_details s) -> In x (own_details h).
Proof.
  destruct h; cbn [hidden_of]; intro E; inversion E; subst; intros x Hx; unfold own_details.
  - now rewrite secondary_get_safe_details.
  - rewrite barrier_get_safe_details. apply in_or_app. now left.
Qed.

(* level 0 = the chain *)
Lemma deep_level0 e n : In (0%nat, n) (deep_nodes e) -> In n (chain e).
Proof.
  induction e using err_ind'; cbn [deep_nodes chain]; intros [E | Hn];
    try (injection E as <-; now left); try contradiction; right.
  - now apply IHe.
  - apply in_app_or in Hn as [Hn | Hn]; [apply in_bump in Hn as (k' & E & _); discriminate|now apply IHe1].
  - apply in_bump in Hn as (k' & E & _). discriminate.
  - now apply IHe.
Qed.

Theorem deep_header_retained e : forall lv n,
  In (S lv, n) (deep_nodes e) -> own_details n <> [] ->
  exists p, In p (get_all_safe_details e) /\ In (indent_k lv (fill_header n)) (sd_details p).
Proof.
  assert (Below : forall x c s, unwrap_once x = Some c ->
            (exists p, In p (get_all_safe_details c) /\ In s (sd_details p)) ->
            exists p, In p (get_all_safe_details x) /\ In s (sd_details p)).
  { intros x c s Hu (p & Hp & Hs). exists p. split; [|exact Hs]. rewrite (gasd_step x c Hu). now right. }
  assert (Hide : forall x h lv n, hidden_of x = Some h ->
            (forall lv n, In (S lv, n) (deep_nodes h) -> own_details n <> [] ->
               exists p, In p (get_all_safe_details h) /\ In (indent_k lv (fill_header n)) (sd_details p)) ->
            In (lv, n) (deep_nodes h) -> own_details n <> [] ->
            exists p, In p (get_all_safe_details x) /\ In (indent_k lv (fill_header n)) (sd_details p)).
  { intros x h lv n Hh IH Hn Hd. exists (get_safe_details x). split; [apply gasd_head|].
    apply (hiding_details_filled x h Hh). destruct lv as [|lv].
    - cbn [indent_k]. apply filled_header; [now apply deep_level0|exact Hd].
    - destruct (IH lv n Hn Hd) as (p & Hp & Hs). cbn [indent_k].
      now apply (hidden_details_contribute h p). }
  induction e using err_ind'; intros lv n Hn Hd; cbn [deep_nodes] in Hn;
    (destruct Hn as [E | Hn]; [discriminate|]); try contradiction.
  - apply (Below (Wrap i w e) e); [reflexivity|]. now apply IHe.
  - apply in_app_or in Hn as [Hn | Hn].
    + apply in_bump in Hn as (k' & E & Hn). injection E as <-.
      now apply (Hide (Second i e1 e2) e2).
    + apply (Below (Second i e1 e2) e1); [reflexivity|]. now apply IHe1.
  - apply in_bump in Hn as (k' & E & Hn). injection E as <-.
    now apply (Hide (Barrier i m e) e).
  - apply (Below (OWrap i p d mt e) e); [reflexivity|]. now apply IHe.
Qed.

(* ================================================================== *)
(* 2b. the Sentry report                                                *)
(* ================================================================== *)
Lemma infix_concat {A} (f : A -> str) x l : In x l -> infix_of (f x) (List.concat (List.map f l)).
Proof.
  induction l as [|y l IH]; intro H; [destruct H|]. cbn [List.map List.concat]. destruct H as [-> | H].
  - apply infix_app_r, infix_refl.
  - apply infix_app_l. now apply IH.
Qed.

(* the "error types" extra has the line (full type name, family, extension) of EVERY node
   the report visits: the chain AND the causes of multi-cause nodes *)
Theorem report_type_line_retained e n :
  In n (visit_all e) -> infix_of (type_line n) (rp_types (build_report e)).
Proof. intro H. rewrite report_types. apply infix_concat. now apply in_rev in H. Qed.

(* the message carries the redacted verbose rendering, markers stripped *)
Theorem report_message_has_verbose e :
  infix_of (redact_strip (fmt_red_verbose e)) (rp_message (build_report e)).
Proof.
  destruct (report_message_prefix e) as [rest ->]. apply infix_app_l. apply infix_app_r. apply infix_refl.
Qed.

(* ================================================================== *)
(* 3. after transfer                                                    *)
(* ================================================================== *)
Lemma gasd_erase e : get_all_safe_details (erase e) = get_all_safe_details e.
Proof.
  unfold get_all_safe_details. rewrite chain_erase, map_map. apply map_ext. intro x.
  apply get_safe_details_erase.
Qed.

Lemma same_erase_gasd a b : erase a = erase b -> get_all_safe_details a = get_all_safe_details b.
Proof. intro H. rewrite <- (gasd_erase a), <- (gasd_erase b). now rewrite H. Qed.

(* quoted from Proofs/ExactHop.v: the top layer after one hop *)
Definition exact_hop_details_quoted := exact_hop_details.

(* all layers, any number of hops between processes that know the types *)
Theorem exact_transfer_all_details e k n :
  exact_tree e = true ->
  get_all_safe_details (fst (transfer (List.repeat all_knowing k) e n)) = get_all_safe_details e.
Proof. intro H. apply same_erase_gasd. now apply exact_transfer. Qed.

Corollary exact_hop_all_details e n :
  exact_tree e = true -> get_all_safe_details (fst (hop all_knowing e n)) = get_all_safe_details e.
Proof.
  intro H. pose proof (exact_transfer_all_details e 1 n H) as X. cbn [List.repeat transfer] in X.
  destruct (hop all_knowing e n) as [e1 n1]. exact X.
Qed.

(* (3) = (2) after k hops *)
Theorem deep_details_retained_after_transfer e k n lv x d :
  exact_tree e = true ->
  In (lv, x) (deep_nodes e) -> In d (own_details x) ->
  exists p, In p (get_all_safe_details (fst (transfer (List.repeat all_knowing k) e n))) /\
            In (indent_k lv d) (sd_details p).
Proof. intros H Hx Hd. rewrite exact_transfer_all_details by exact H. now apply (deep_details_retained' e lv x). Qed.

(* the report channels after k hops *)
Lemma visit_all_erase e : visit_all (erase e) = List.map erase (visit_all e).
Proof.
  induction e using err_ind'.
  - reflexivity.
  - assert (E : exists w', erase (Wrap i w e) = Wrap 1%positive w' (erase e)).
    { destruct w; try (eexists; reflexivity). destruct redacted; eexists; reflexivity. }
    destruct E as [w' E]. cbn [visit_all List.map]. rewrite E. cbn [visit_all]. now rewrite IHe.
  - cbn [erase visit_all List.map]. now rewrite IHe1.
  - reflexivity.
  - cbn [erase visit_all List.map]. f_equal.
    induction H as [|x l Hx _ IH]; [reflexivity|]. cbn [List.map flat_map]. now rewrite Hx, IH, map_app.
  - cbn [erase visit_all List.map]. f_equal.
    induction H as [|x l Hx _ IH]; [reflexivity|]. cbn [List.map flat_map]. now rewrite Hx, IH, map_app.
  - cbn [erase visit_all List.map]. now rewrite IHe.
Qed.

Lemma type_line_erase x : type_line (erase x) = type_line x.
Proof. unfold type_line. now rewrite get_safe_details_erase. Qed.

Lemma rp_types_erase e : rp_types (build_report (erase e)) = rp_types (build_report e).
Proof.
  rewrite !report_types, visit_all_erase, <- map_rev, map_map. f_equal. apply map_ext. intro x.
  apply type_line_erase.
Qed.

Theorem exact_transfer_report e k n :
  exact_tree e = true ->
  let e' := fst (transfer (List.repeat all_knowing k) e n) in
  rp_types (build_report e') = rp_types (build_report e) /\
  redact_strip (fmt_red_verbose e') = redact_strip (fmt_red_verbose e).
Proof.
  intro H. cbv zeta. pose proof (exact_transfer e k n H) as E. split.
  - rewrite <- rp_types_erase, E. apply rp_types_erase.
  - unfold fmt_red_verbose. now rewrite (same_erase_sem _ _ E).
Qed.

(* ================================================================== *)
(* 1c. a safe ASCII piece survives Redact().StripMarkers() whatever the *)
(*     other arguments of the call are                                  *)
(* ================================================================== *)
Lemma ascii_byte_neq a : (a <? 128) = true ->
  (a =? 226) = false /\ (a =? 128) = false /\ (a =? 185) = false /\ (a =? 186) = false.
Proof. intro H. apply N.ltb_lt in H. repeat split; apply N.eqb_neq; lia. Qed.

Lemma tokenize_app_ascii n : forall p, (List.length p <= n)%nat -> forall a t, (a <? 128) = true ->
  tokenize (p ++ a :: t) = tokenize p ++ tokenize (a :: t).
Proof.
  induction n as [|n IH]; intros p Hp a t Ha.
  - destruct p; [reflexivity|cbn in Hp; lia].
  - destruct (ascii_byte_neq a Ha) as (E226 & E128 & E185 & E186).
    destruct p as [|x [|y [|z r]]].
    + reflexivity.
    + cbn [app]. destruct t as [|c r].
      * reflexivity.
      * rewrite tokenize_step3. rewrite E128, !andb_false_r. cbn [andb]. reflexivity.
    + cbn [app]. rewrite tokenize_step3. rewrite E185, E186, !andb_false_r.
      change (y :: a :: t) with ([y] ++ a :: t). rewrite IH by (cbn [List.length] in *; lia || exact Ha).
      reflexivity.
    + cbn [app]. rewrite !tokenize_step3. cbn [List.length] in Hp.
      destruct ((x =? 226) && (y =? 128) && (z =? 185)).
      * rewrite IH by (lia || exact Ha). reflexivity.
      * destruct ((x =? 226) && (y =? 128) && (z =? 186)).
        -- rewrite IH by (lia || exact Ha). reflexivity.
        -- change (y :: z :: r ++ a :: t) with ((y :: z :: r) ++ a :: t).
           rewrite IH by (cbn [List.length]; lia || exact Ha). reflexivity.
Qed.

(* the tokens around a non-empty ASCII infix *)
Lemma tokenize_mid A s B : s <> [] -> ascii s = true ->
  tokenize (A ++ s ++ B) = tokenize A ++ List.map TB s ++ tokenize B.
Proof.
  intros Hne Ha. destruct s as [|a s']; [contradiction|].
  assert (Hb : (a <? 128) = true) by (cbn in Ha; now apply andb_true_iff in Ha as [Ha _]).
  cbn [app]. rewrite (tokenize_app_ascii _ A (le_n _)) by exact Hb. f_equal.
  change (a :: s' ++ B) with ((a :: s') ++ B). apply tokenize_plain_app. now apply ascii_no_e2.
Qed.

Lemma redact_toks_wf_app T rest :
  (wf_toks T false = true -> redact_toks (T ++ rest) None = redact_toks T None ++ redact_toks rest None) /\
  (wf_toks T true = true -> forall p, redact_toks (T ++ rest) (Some p) = redact_toks T (Some p) ++ redact_toks rest None).
Proof.
  induction T as [|t T [IH0 IH1]]; [split; [reflexivity|discriminate]|]. split.
  - intro H. destruct t as [| |b]; cbn [wf_toks negb andb] in H.
    + cbn [app redact_toks]. now apply IH1.
    + discriminate.
    + apply andb_true_iff in H as [_ H]. cbn [app redact_toks]. now rewrite IH0.
  - intros H p. destruct t as [| |b]; cbn [wf_toks negb andb] in H.
    + discriminate.
    + cbn [app redact_toks]. now rewrite IH0.
    + apply andb_true_iff in H as [_ H]. cbn [app redact_toks]. now apply IH1.
Qed.

Lemma filter_TB s : filter (fun t => negb (is_marker t)) (List.map TB s) = List.map TB s.
Proof. induction s as [|a s IH]; [reflexivity|]. cbn. now rewrite IH. Qed.

Lemma strip_mid A s B : s <> [] -> ascii s = true ->
  strip_markers (A ++ s ++ B) = strip_markers A ++ s ++ strip_markers B.
Proof.
  intros Hne Ha. unfold strip_markers. rewrite tokenize_mid by assumption.
  rewrite !filter_app, !untok_app, filter_TB, untok_TB. reflexivity.
Qed.

Lemma redact_mid A s B : s <> [] -> ascii s = true -> wf_red A = true ->
  redact (A ++ s ++ B) = redact A ++ s ++ redact B.
Proof.
  intros Hne Ha Hw. unfold redact. rewrite tokenize_mid by assumption.
  rewrite (proj1 (redact_toks_wf_app (tokenize A) _) Hw), redact_toks_plain.
  rewrite !untok_app, untok_TB. reflexivity.
Qed.

(* ASCII text standing after a well-formed redactable prefix is kept *)
Theorem redact_strip_mid A s B : s <> [] -> ascii s = true -> wf_red A = true ->
  redact_strip (A ++ s ++ B) = redact_strip A ++ s ++ redact_strip B.
Proof.
  intros Hne Ha Hw. unfold redact_strip. rewrite redact_mid by assumption. now apply strip_mid.
Qed.

(* ---- the buffer keeps what stands before an ASCII byte ---- *)
Definition Keeps (v v' : str) : Prop :=
  forall B0 a W2, (a <? 128) = true -> v = B0 ++ a :: W2 -> exists W2', v' = B0 ++ a :: W2'.

Lemma Keeps_trans a b c : Keeps a b -> Keeps b c -> Keeps a c.
Proof. intros H1 H2 B0 x W2 Hx E. destruct (H1 B0 x W2 Hx E) as [W2' E']. exact (H2 B0 x W2' Hx E'). Qed.

Lemma Keeps_app v r : Keeps v (v ++ r).
Proof. intros B0 a W2 _ ->. exists (W2 ++ r). now rewrite <- app_assoc. Qed.

Lemma marker_before_ascii m1 m2 m3 acc a base x :
  (a <? 128) = true -> (m1 <? 128) = false -> (m2 <? 128) = false -> (m3 <? 128) = false ->
  acc ++ a :: base = [m1; m2; m3] ++ x -> exists acc0, acc = [m1; m2; m3] ++ acc0 /\ x = acc0 ++ a :: base.
Proof.
  intros Ha H1 H2 H3 E. destruct acc as [|c1 [|c2 [|c3 acc0]]]; cbn [app] in E; injection E; intros; subst;
    try congruence.
  exists acc0. split; reflexivity.
Qed.

Lemma rev_mid B0 (a : N) W2 : rev (B0 ++ a :: W2) = rev W2 ++ a :: rev B0.
Proof. rewrite rev_app_distr. cbn [rev]. now rewrite <- app_assoc. Qed.

Lemma rev_mid' X (a : N) B0 : rev (X ++ a :: rev B0) = B0 ++ a :: rev X.
Proof. rewrite rev_mid, rev_involutive. reflexivity. Qed.

Lemma drop_suffix_keeps suf B0 a W2 w :
  suf = m_end \/ suf = m_start -> (a <? 128) = true ->
  drop_suffix suf (B0 ++ a :: W2) = Some w -> exists W2', w = B0 ++ a :: W2'.
Proof.
  intros Hs Ha E. apply drop_suffix_Some in E. apply (f_equal (@rev N)) in E.
  rewrite rev_mid, rev_app_distr in E.
  assert (M : exists m1 m2 m3, rev suf = [m1; m2; m3] /\ (m1 <? 128) = false /\ (m2 <? 128) = false /\ (m3 <? 128) = false).
  { destruct Hs as [-> | ->]; do 3 eexists; repeat split. }
  destruct M as (m1 & m2 & m3 & Em & H1 & H2 & H3). rewrite Em in E.
  destruct (marker_before_ascii m1 m2 m3 _ a _ _ Ha H1 H2 H3 E) as (acc0 & _ & Ew).
  exists (rev acc0). apply (f_equal (@rev N)) in Ew. rewrite rev_involutive in Ew. rewrite Ew. apply rev_mid'.
Qed.

Lemma Keeps_sr v : Keeps v (sr v).
Proof.
  intros B0 a W2 Ha ->. unfold sr. destruct (drop_suffix m_end (B0 ++ a :: W2)) as [w|] eqn:E.
  - now apply (drop_suffix_keeps m_end B0 a W2 w (or_introl eq_refl)).
  - exists (W2 ++ m_start). now rewrite <- app_assoc.
Qed.

Lemma Keeps_er v : Keeps v (er v).
Proof.
  intros B0 a W2 Ha ->. unfold er. destruct (drop_suffix m_start (B0 ++ a :: W2)) as [w|] eqn:E.
  - now apply (drop_suffix_keeps m_start B0 a W2 w (or_intror eq_refl)).
  - exists (W2 ++ m_end). now rewrite <- app_assoc.
Qed.

Lemma escape_from_nobrk_app v p : exists X, escape_from v p false = v ++ X.
Proof.
  unfold escape_from. rewrite ?frev_eq.
  pose proof (escape_loop_base_nobrk (List.length p) p [] (rev v)) as E. cbn [app] in E. rewrite E.
  destruct (last_rune_invalid_rev (rev p ++ rev v)).
  - exists (rev (escape_loop (List.length p) p [] false) ++ [qmark]).
    cbn [rev]. rewrite rev_app_distr, rev_involutive, <- app_assoc. reflexivity.
  - exists (rev (escape_loop (List.length p) p [] false)). now rewrite rev_app_distr, rev_involutive.
Qed.

Lemma Keeps_esc_nobrk v p : Keeps v (escape_from v p false).
Proof. destruct (escape_from_nobrk_app v p) as [X ->]. apply Keeps_app. Qed.

Lemma escape_loop_keeps_brk a base : (a <? 128) = true -> forall fuel p acc,
  exists acc', escape_loop fuel p (acc ++ a :: base) true = acc' ++ a :: base.
Proof.
  intro Ha. induction fuel as [|f IH]; intros p acc; [exists acc; reflexivity|].
  destruct p as [|x t]; [exists acc; reflexivity|].
  cbn [escape_loop andb]. destruct (x =? nl) eqn:Ex.
  - assert (A1 : exists acc1', match drop_prefix rstart (acc ++ a :: base) with
                               | Some acc' => acc' | None => rend ++ acc ++ a :: base end = acc1' ++ a :: base).
    { destruct (drop_prefix rstart (acc ++ a :: base)) as [y|] eqn:E.
      - apply drop_prefix_Some in E.
        destruct (marker_before_ascii 185 128 226 acc a base y Ha eq_refl eq_refl eq_refl E) as (acc0 & _ & ->).
        now exists acc0.
      - exists (rend ++ acc). now rewrite <- app_assoc. }
    destruct A1 as [acc1' ->]. cbv zeta. rewrite skip_nls_eq. cbv iota beta.
    destruct (IH (skipn (cnt (x :: t)) (x :: t)) (rstart ++ repeat nl (cnt (x :: t)) ++ acc1')) as [acc' E].
    exists acc'. rewrite <- E. f_equal. now rewrite <- !app_assoc.
  - assert (Hc : exists acc', escape_loop f t (x :: acc ++ a :: base) true = acc' ++ a :: base)
      by (apply (IH t (x :: acc))).
    destruct t as [|b [|c r]]; try exact Hc.
    destruct ((x =? 226) && (b =? 128) && ((c =? 185) || (c =? 186))); [|exact Hc].
    apply (IH r (qmark :: acc)).
Qed.

Lemma Keeps_esc_brk v p : Keeps v (escape_from v p true).
Proof.
  intros B0 a W2 Ha ->. unfold escape_from. rewrite ?frev_eq. rewrite rev_mid.
  destruct (escape_loop_keeps_brk a (rev B0) Ha (List.length p) p (rev W2)) as [acc' ->].
  destruct (last_rune_invalid_rev (rev p ++ rev W2 ++ a :: rev B0)).
  - exists (rev (qmark :: acc')). change (qmark :: acc' ++ a :: rev B0) with ((qmark :: acc') ++ a :: rev B0).
    apply rev_mid'.
  - exists (rev acc'). apply rev_mid'.
Qed.

(* ---- the escaping loop (safe mode) splits at an ASCII byte ---- *)
Lemma esc_fuel : forall f1 f2 s acc, (List.length s <= f1)%nat -> (List.length s <= f2)%nat ->
  escape_loop f1 s acc false = escape_loop f2 s acc false.
Proof.
  induction f1 as [|f1 IH]; intros f2 s acc H1 H2.
  - destruct s; [|cbn in H1; lia]. destruct f2; reflexivity.
  - destruct s as [|x t]; [destruct f2; reflexivity|].
    destruct f2 as [|f2]; [cbn in H2; lia|]. cbn [List.length] in H1, H2.
    cbn [escape_loop andb].
    assert (Hc : escape_loop f1 t (x :: acc) false = escape_loop f2 t (x :: acc) false) by (apply IH; lia).
    destruct t as [|b [|c r]]; try exact Hc.
    destruct ((x =? 226) && (b =? 128) && ((c =? 185) || (c =? 186))); [|exact Hc].
    apply IH; cbn [List.length] in *; lia.
Qed.

Lemma esc2 f x y acc : escape_loop (S f) [x; y] acc false = escape_loop f [y] (x :: acc) false.
Proof. reflexivity. Qed.
Lemma esc3 f x y z r acc :
  escape_loop (S f) (x :: y :: z :: r) acc false =
  if (x =? 226) && (y =? 128) && ((z =? 185) || (z =? 186))
  then escape_loop f r (qmark :: acc) false else escape_loop f (y :: z :: r) (x :: acc) false.
Proof. reflexivity. Qed.

Lemma esc_split n : forall p1, (List.length p1 <= n)%nat -> forall a r acc F, (a <? 128) = true ->
  (List.length (p1 ++ a :: r) <= F)%nat ->
  escape_loop F (p1 ++ a :: r) acc false =
  escape_loop (List.length (a :: r)) (a :: r) (escape_loop (List.length p1) p1 acc false) false.
Proof.
  induction n as [|n IH]; intros p1 Hn a r acc F Ha HF.
  - destruct p1; [|cbn in Hn; lia]. cbn [app]. change (escape_loop (List.length (@nil N)) [] acc false) with acc.
    apply esc_fuel; [exact HF|apply le_n].
  - destruct (ascii_byte_neq a Ha) as (E226 & E128 & E185 & E186).
    destruct p1 as [|x q];
      [cbn [app]; change (escape_loop (List.length (@nil N)) [] acc false) with acc; apply esc_fuel; [exact HF|apply le_n]|].
    destruct F as [|F']; [cbn in HF; lia|]. cbn [List.length] in Hn.
    assert (HF' : (List.length (q ++ a :: r) <= F')%nat) by (cbn [app List.length] in HF; lia).
    destruct q as [|y [|z q']].
    + change (escape_loop (List.length [x]) [x] acc false) with (x :: acc). cbn [app].
      destruct r as [|c r'].
      * rewrite esc2. apply esc_fuel; [exact HF'|apply le_n].
      * rewrite esc3, E128, !andb_false_r. cbn [andb]. apply esc_fuel; [exact HF'|apply le_n].
    + change (escape_loop (List.length [x; y]) [x; y] acc false) with (escape_loop (List.length [y]) [y] (x :: acc) false).
      cbn [app]. rewrite esc3, E185, E186. cbn [orb]. rewrite !andb_false_r.
      apply (IH [y]); [cbn [List.length] in *; lia|exact Ha|exact HF'].
    + cbn [app]. change (List.length (x :: y :: z :: q')) with (S (List.length (y :: z :: q'))).
      rewrite !esc3.
      destruct ((x =? 226) && (y =? 128) && ((z =? 185) || (z =? 186))).
      * rewrite (esc_fuel (List.length (y :: z :: q')) (List.length q') q') by (cbn [List.length]; lia).
        apply IH; [cbn [List.length] in Hn; lia|exact Ha|cbn [app List.length] in HF'; lia].
      * apply (IH (y :: z :: q')); [cbn [List.length] in *; lia|exact Ha|exact HF'].
Qed.

(* [s] stands in [v] after a well-formed redactable prefix *)
Definition Mid (s v : str) : Prop := exists W1 W2, v = (W1 ++ s) ++ W2 /\ wf_red W1 = true.

Lemma Mid_keep s v v' : s <> [] -> ascii s = true -> Mid s v -> Keeps v v' -> Mid s v'.
Proof.
  intros Hne Ha (W1 & W2 & -> & Hw) K. destruct (ascii_snoc s Hne Ha) as (s0 & a & -> & Hb).
  destruct (K (W1 ++ s0) a W2 Hb) as [W2' ->].
  - rewrite <- !app_assoc. reflexivity.
  - exists W1, W2'. split; [|exact Hw]. rewrite <- !app_assoc. reflexivity.
Qed.

Lemma escape_from_split v p1 s p2 :
  sst true v = Some st0 -> s <> [] -> ascii s = true -> Mid s (escape_from v (p1 ++ s ++ p2) false).
Proof.
  intros Hv Hne Ha. destruct s as [|a s'] eqn:Es; [contradiction|]. rewrite <- Es in *.
  assert (Hb : (a <? 128) = true) by (rewrite Es in Ha; cbn in Ha; now apply andb_true_iff in Ha as [Ha _]).
  unfold escape_from. rewrite ?frev_eq.
  set (X := escape_loop (List.length p1) p1 (rev v) false).
  set (Y := escape_loop (List.length p2) p2 [] false).
  assert (EL : escape_loop (List.length (p1 ++ s ++ p2)) (p1 ++ s ++ p2) (rev v) false = Y ++ rev s ++ X).
  { rewrite Es. cbn [app]. rewrite (esc_split _ p1 (le_n _)) by (exact Hb || apply le_n). fold X.
    change (a :: s' ++ p2) with ((a :: s') ++ p2). rewrite <- Es.
    rewrite app_length, escape_loop_prefix_nobrk by now apply ascii_no_e2.
    pose proof (escape_loop_base_nobrk (List.length p2) p2 [] (rev s ++ X)) as E. cbn [app] in E. exact E. }
  rewrite EL.
  assert (WX : wf_red (rev X) = true).
  { assert (R0 : rs true (rev v) = Some (false, K0, false)) by (now rewrite rs_rev).
    destruct (loop_inv true false (ff_imp true) (List.length p1) p1 (rev v) (rev v) K0 false
                (le_n _) R0 (fun _ => eq_refl) eq_refl eq_refl) as (k' & d' & R1 & _).
    fold X in R1. unfold rs in R1. exact (sst_wf _ _ _ R1). }
  destruct (last_rune_invalid_rev (rev (p1 ++ s ++ p2) ++ rev v)).
  - exists (rev X), (rev Y ++ [qmark]). split; [|exact WX].
    cbn [rev]. rewrite !rev_app_distr, rev_involutive, <- !app_assoc. reflexivity.
  - exists (rev X), (rev Y). split; [|exact WX].
    rewrite !rev_app_distr, rev_involutive, <- !app_assoc. reflexivity.
Qed.

(* invariant of the printing loop once the safe piece has been written *)
Definition J (s : str) (b : rbuf) : Prop :=
  Inv true b /\ (Mid s (bvalid b) \/ exists p1 p2, bpend b = p1 ++ s ++ p2).

Lemma J_flush s b : s <> [] -> ascii s = true -> J s b -> Mid s (escape_from (bvalid b) (bpend b) false).
Proof.
  intros Hne Ha [[Hm [Ho Hv]] [HM | (p1 & p2 & ->)]].
  - apply (Mid_keep s (bvalid b)); try assumption. apply Keeps_esc_nobrk.
  - now apply escape_from_split.
Qed.

Lemma J_step s b q : s <> [] -> ascii s = true -> J s b -> piece_ok true q -> J s (print_piece b q).
Proof.
  intros Hne Ha HJ Hq. pose proof HJ as [HI HC]. split; [now apply print_piece_inv|].
  destruct q as [x|x|x|r].
  - rewrite (print_lit_eq true b x HI). cbn [bvalid bpend]. destruct HC as [HM | (p1 & p2 & ->)]; [now left|].
    right. exists p1, (p2 ++ x). now rewrite <- !app_assoc.
  - rewrite (print_unsafe_eq b x HI). cbn [bvalid]. left. unfold unsafe_result.
    apply (Mid_keep s (escape_from (bvalid b) (bpend b) false)); try assumption; [now apply J_flush|].
    eapply Keeps_trans; [apply Keeps_sr|]. eapply Keeps_trans; [apply Keeps_esc_brk|]. apply Keeps_er.
  - rewrite (print_safe_eq true b x HI). cbn [bvalid bpend]. destruct HC as [HM | (p1 & p2 & ->)]; [now left|].
    right. exists p1, (p2 ++ x). now rewrite <- !app_assoc.
  - rewrite (print_raw_eq true b r HI). cbn [bvalid]. left.
    apply (Mid_keep s (escape_from (bvalid b) (bpend b) false)); try assumption; [now apply J_flush|].
    apply Keeps_app.
Qed.

Lemma J_fold s ps : s <> [] -> ascii s = true -> forall b, J s b -> Forall (piece_ok true) ps ->
  J s (fold_left print_piece ps b).
Proof.
  intros Hne Ha. induction ps as [|q ps IH]; intros b HJ Hf; [exact HJ|].
  inversion Hf; subst. cbn [fold_left]. apply IH; [|assumption]. now apply J_step.
Qed.

Lemma Mid_infix s v : s <> [] -> ascii s = true -> Mid s v -> infix_of s (redact_strip v).
Proof.
  intros Hne Ha (W1 & W2 & -> & Hw). rewrite <- app_assoc, redact_strip_mid by assumption.
  apply infix_app_l, infix_app_r, infix_refl.
Qed.

Definition is_safe_piece_of (q : piece) (s : str) : Prop := q = PSafe s \/ q = PLit s.

(* THE statement: whatever the other arguments of the call (any bytes, unsafe values,
   redactable strings [raw_ok], nested errors), an ASCII literal or Safe() argument is
   present in the safe detail strip_markers (redact message) *)
Theorem safe_piece_retained pre q post s :
  pieces_ok pre -> pieces_ok post -> is_safe_piece_of q s -> ascii s = true ->
  infix_of s (redact_strip (sprint_pieces (pre ++ q :: post))).
Proof.
  intros Hpre Hpost Hq Ha. destruct s as [|a s'] eqn:Es; [apply infix_nil|]. rewrite <- Es in *.
  assert (Hne : s <> []) by (rewrite Es; discriminate).
  unfold sprint_pieces, print_pieces. rewrite fold_left_app. cbn [fold_left].
  set (b0 := fold_left print_piece pre (set_mode buf_empty SafeEscaped)).
  assert (I0 : Inv true b0).
  { apply print_pieces_inv; [repeat split|now apply pieces_ok_piece_ok]. }
  assert (J1 : J s (print_piece b0 q)).
  { split; [apply print_piece_inv; [exact I0|destruct Hq as [-> | ->]; exact I]|].
    right. exists (bpend b0), [].
    destruct Hq as [-> | ->]; [rewrite (print_safe_eq true b0 s I0)|rewrite (print_lit_eq true b0 s I0)];
      cbn [bpend]; now rewrite app_nil_r. }
  pose proof (J_fold s post Hne Ha _ J1 (pieces_ok_piece_ok _ Hpost)) as JF.
  rewrite (take_eq true _ (proj1 JF)). apply Mid_infix; try assumption. now apply J_flush.
Qed.

(* the statement is not vacuous: hostile neighbours (newlines in an unsafe value, a nested
   redactable string, a dangling lead byte before the safe piece) *)
Example safe_piece_retained_example :
  let ps := [PUnsafe (lit "a" ++ [nl; nl] ++ lit "b"); PLit [226]; PSafe (lit "SAFE"); PUnsafe [128; 185];
             PRaw (m_start ++ lit "x" ++ m_end); PLit (lit " tail")] in
  redact_strip (sprint_pieces ps) =
  [195; 151] ++ [nl; nl] ++ [195; 151] ++ [226] ++ lit "SAFE" ++ [195; 151; 195; 151] ++ lit " tail".
Proof. vm_compute. reflexivity. Qed.

(* message layers built by a redact call *)
Corollary message_layers_keep_safe_pieces i c pre q post s :
  pieces_ok pre -> pieces_ok post -> is_safe_piece_of q s -> ascii s = true ->
  let rm := sprint_pieces (pre ++ q :: post) in
  (exists d, own_details (Leaf i (LLeafError rm)) = [d] /\ infix_of s d) /\
  (exists d, own_details (Wrap i (WPrefix rm) c) = [d] /\ infix_of s d) /\
  (exists d, own_details (Wrap i (WNewMsg rm) c) = [d] /\ infix_of s d).
Proof.
  intros H1 H2 H3 H4. cbv zeta. pose proof (safe_piece_retained pre q post s H1 H2 H3 H4) as X.
  repeat split; eexists; (split; [reflexivity|exact X]).
Qed.

(* ---- context tags ---- *)
Definition tag_eq (k : str) (v : tagval) : str :=
  match v with TVNil => [] | _ => if Nat.ltb 1 (List.length k) then lit "=" else [] end.

Lemma tag_eq_ascii k v : ascii (tag_eq k v) = true.
Proof. unfold tag_eq. destruct v; try reflexivity; destruct (Nat.ltb 1 (List.length k)); reflexivity. Qed.

Lemma tag_pieces_ok kv : pieces_ok (tag_piece_list kv).
Proof. destruct kv as [k v]. unfold tag_piece_list. destruct v; repeat constructor. Qed.

(* the KEY of every tag is in the tag's safe string, whatever the value *)
Theorem tag_key_retained k v : ascii k = true -> infix_of k (redact_strip (tag_redactable (k, v))).
Proof.
  intro Ha. unfold tag_redactable.
  pose proof (tag_pieces_ok (k, v)) as Hok. unfold tag_piece_list in *.
  apply (safe_piece_retained [] (PSafe k)); [constructor| |now left|exact Ha].
  inversion Hok; assumption.
Qed.

Corollary context_tag_keys_retained i c tags k v :
  In (k, v) tags -> ascii k = true ->
  exists d, In d (own_details (Wrap i (WContext tags None) c)) /\ infix_of k d.
Proof.
  intros Hin Ha. exists (redact_strip (tag_redactable (k, v))). split; [|now apply tag_key_retained].
  rewrite context_details_local. apply (in_map (fun kv => redact_strip (tag_redactable kv))). exact Hin.
Qed.

(* values: kept when Safe() (or absent), replaced by the redaction mark otherwise *)
Theorem tag_safe_value k s : ascii k = true -> ascii s = true ->
  redact_strip (tag_redactable (k, TVSafe s)) = k ++ tag_eq k (TVSafe s) ++ s.
Proof.
  intros Hk Hs. unfold tag_redactable.
  change (tag_piece_list (k, TVSafe s)) with [PSafe k; PSafe (tag_eq k (TVSafe s)); PSafe s].
  rewrite message_all_safe_retained.
  - unfold pieces_text. cbn [List.map List.concat piece_text]. now rewrite app_nil_r.
  - repeat constructor.
  - unfold pieces_text. cbn [List.map List.concat piece_text]. rewrite !ascii_app, Hk, Hs, tag_eq_ascii. reflexivity.
Qed.

Theorem tag_nil_value k : ascii k = true -> redact_strip (tag_redactable (k, TVNil)) = k.
Proof.
  intros Hk. unfold tag_redactable.
  change (tag_piece_list (k, TVNil)) with [PSafe k; PSafe []; PSafe []].
  rewrite message_all_safe_retained.
  - unfold pieces_text. cbn [List.map List.concat piece_text]. now rewrite !app_nil_r.
  - repeat constructor.
  - unfold pieces_text. cbn [List.map List.concat piece_text]. rewrite !ascii_app, Hk. reflexivity.
Qed.

Lemma tag_unsafe_closed k eq s : k <> [] -> ascii k = true -> ascii eq = true -> unsafe_ok s = true ->
  redact_strip (sprint_pieces [PSafe k; PSafe eq; PUnsafe s]) = k ++ eq ++ [195; 151].
Proof.
  intros Hne Hk He Hu. destruct (unsafe_ok_parts s Hu) as (Hsne & Hsa & Hsn).
  unfold sprint_pieces, print_pieces. cbn [fold_left].
  change (set_mode buf_empty SafeEscaped) with (mkbuf [] [] SafeEscaped false).
  rewrite !print_safe_step. cbn [app].
  rewrite print_unsafe_step; [|destruct k; [contradiction|discriminate]|now rewrite ascii_app, Hk, He|exact Hu].
  cbn [app].
  replace ((k ++ eq) ++ m_start ++ s ++ m_end) with ((k ++ eq ++ m_start ++ s) ++ m_end)
    by (rewrite <- !app_assoc; reflexivity).
  rewrite take_end. unfold redact_strip.
  replace ((k ++ eq ++ m_start ++ s) ++ m_end) with ((k ++ eq) ++ m_start ++ s ++ m_end ++ [])
    by (rewrite app_nil_r, <- !app_assoc; reflexivity).
  assert (Hke : no_e2 (k ++ eq) = true) by (apply ascii_no_e2; now rewrite ascii_app, Hk, He).
  rewrite redact_plain by exact Hke. rewrite redact_region by now apply ascii_no_e2.
  rewrite redact_nil, app_nil_r. rewrite strip_plain by exact Hke.
  change (strip_markers m_redacted) with [195; 151]. now rewrite <- app_assoc.
Qed.

Theorem tag_unsafe_value k s : k <> [] -> ascii k = true -> unsafe_ok s = true ->
  redact_strip (tag_redactable (k, TVStr s)) = k ++ tag_eq k (TVStr s) ++ [195; 151].
Proof.
  intros Hne Hk Hu. unfold tag_redactable.
  change (tag_piece_list (k, TVStr s)) with [PSafe k; PSafe (tag_eq k (TVStr s)); PUnsafe s].
  apply tag_unsafe_closed; try assumption. apply tag_eq_ascii.
Qed.

(* ---- the codes: safe details exist only ON THE WIRE ---- *)
(* withHTTPCode / withGrpcCode have no SafeDetails() method (see [codes_and_assert_no_details]);
   their ENCODERS emit "HTTP <n>" / "gRPC <n>" as reportable detail.  So the code shows up in
   GetAllSafeDetails only in a process that does not know the type (opaque wrapper). *)
Theorem http_code_on_the_wire p i code c n :
  knows p k_withHTTP = false ->
  own_details (fst (hop p (Wrap i (WHTTP code) c) n)) = [lit "HTTP " ++ dec_of_Z code].
Proof.
  intro H. unfold hop.
  change (encode (Wrap i (WHTTP code) c))
    with (EWrap (encode c) [] (mkdet (lib "exthttp/*exthttp.withHTTPCode") k_withHTTP []
                                     [lit "HTTP " ++ dec_of_Z code] (Some (PlHTTP (Z.to_N code)))) 0).
  cbn [decode]. destruct (decode p (encode c) n) as [ec n0].
  rewrite H, andb_false_r. reflexivity.
Qed.

Theorem grpc_code_on_the_wire p i code c n :
  knows p k_withGrpc = false ->
  own_details (fst (hop p (Wrap i (WGrpc code) c) n)) = [lit "gRPC " ++ dec_of_N code].
Proof.
  intro H. unfold hop.
  change (encode (Wrap i (WGrpc code) c))
    with (EWrap (encode c) [] (mkdet (lib "extgrpc/*extgrpc.withGrpcCode") k_withGrpc []
                                     [lit "gRPC " ++ dec_of_N code] (Some (PlGrpc code))) 0).
  cbn [decode]. destruct (decode p (encode c) n) as [ec n0].
  rewrite H, andb_false_r. reflexivity.
Qed.

(* ================================================================== *)
(* 3b. end to end: a channel of a layer anywhere in the tree            *)
(* ================================================================== *)
Corollary deep_telemetry_key_retained e lv i keys c k :
  In (lv, Wrap i (WTelemetry keys) c) (deep_nodes e) -> In k keys ->
  exists p, In p (get_all_safe_details e) /\ In (indent_k lv k) (sd_details p).
Proof. intros Hn Hk. apply (deep_details_retained' e lv _ k Hn). now apply telemetry_key_retained. Qed.

Corollary deep_domain_retained e lv i d c :
  In (lv, Wrap i (WDomain d) c) (deep_nodes e) ->
  exists p, In p (get_all_safe_details e) /\ In (indent_k lv d) (sd_details p).
Proof. intros Hn. apply (deep_details_retained' e lv _ d Hn). now left. Qed.

Corollary deep_issue_link_retained e lv i url det c :
  In (lv, Wrap i (WIssueLink url det) c) (deep_nodes e) ->
  exists p, In p (get_all_safe_details e) /\ In (indent_k lv url) (sd_details p) /\ In (indent_k lv det) (sd_details p).
Proof.
  intros Hn. destruct (deep_details_retained_same e lv _ Hn) as (p & Hp & Hall).
  exists p. split; [exact Hp|]. split; apply Hall; [now left|right; now left].
Qed.

Corollary deep_unimplemented_retained e lv i msg url det :
  In (lv, Leaf i (LUnimpl msg url det)) (deep_nodes e) ->
  exists p, In p (get_all_safe_details e) /\ In (indent_k lv url) (sd_details p) /\ In (indent_k lv det) (sd_details p).
Proof.
  intros Hn. destruct (deep_details_retained_same e lv _ Hn) as (p & Hp & Hall).
  exists p. split; [exact Hp|]. split; apply Hall; [now left|right; now left].
Qed.

(* a safe ASCII piece of the message of a layer anywhere in the tree *)
Corollary deep_message_piece_retained e lv i c pre q post s :
  pieces_ok pre -> pieces_ok post -> is_safe_piece_of q s -> ascii s = true ->
  let rm := sprint_pieces (pre ++ q :: post) in
  In (lv, Wrap i (WPrefix rm) c) (deep_nodes e) \/ In (lv, Wrap i (WNewMsg rm) c) (deep_nodes e) \/
  In (lv, Leaf i (LLeafError rm)) (deep_nodes e) ->
  exists p d, In p (get_all_safe_details e) /\ In (indent_k lv d) (sd_details p) /\ infix_of s d.
Proof.
  intros H1 H2 H3 H4. cbv zeta. intro Hn.
  pose proof (safe_piece_retained pre q post s H1 H2 H3 H4) as X.
  destruct Hn as [Hn | [Hn | Hn]];
    destruct (deep_details_retained' e lv _ _ Hn (or_introl eq_refl)) as (p & Hp & Hd);
    exists p; eexists; (split; [exact Hp|]); (split; [exact Hd|exact X]).
Qed.

(* a context tag key of a layer anywhere in the tree *)
Corollary deep_tag_key_retained e lv i tags c k v :
  In (lv, Wrap i (WContext tags None) c) (deep_nodes e) -> In (k, v) tags -> ascii k = true ->
  exists p d, In p (get_all_safe_details e) /\ In (indent_k lv d) (sd_details p) /\ infix_of k d.
Proof.
  intros Hn Hin Ha. destruct (context_tag_keys_retained i c tags k v Hin Ha) as (d & Hd & Hk).
  destruct (deep_details_retained' e lv _ d Hn Hd) as (p & Hp & Hd'). exists p, d. auto.
Qed.

(* ================================================================== *)
(* 4. witnesses: what is NOT retained                                   *)
(* ================================================================== *)
Definition details_text (e : err) : list str := flat_map sd_details (get_all_safe_details e).
Definition mentions (w : str) (e : err) : bool := existsb (is_infix w) (details_text e).
Definition in_report (w : str) (e : err) : bool := is_infix w (rp_message (build_report e)).

Definition wx : err := Leaf 100%positive (LErrString (lit "x")).
Definition wy : err := Leaf 101%positive (LErrString (lit "y")).

(* (a) GetAllSafeDetails follows the single-cause chain only: what the causes of a
   multi-cause error declare safe is absent from it (it is in the report: verbose
   rendering and "error types") *)
Definition w_multi : err := Multi 1%positive MJoin [Wrap 2%positive (WTelemetry [lit "key1"]) wx; wy].
Example multi_cause_children_not_in_details :
  details_text w_multi = [] /\ mentions (lit "key1") w_multi = false /\
  in_report (lit "keys: [key1]") w_multi = true /\
  is_infix (lit "telemetrykeys/*telemetrykeys.withTelemetry") (rp_types (build_report w_multi)) = true.
Proof. repeat split; vm_compute; reflexivity. Qed.

(* (b) a hidden layer WITHOUT details leaves no trace in GetAllSafeDetails, not even its type
   (Fill prints nothing for it); behind a secondary error there is no "masked error" string
   either.  The report's verbose rendering shows it. *)
Definition w_sec_assert : err := Second 1%positive wy (Wrap 2%positive WAssert wx).
Example hidden_type_without_details_lost :
  In (1%nat, Wrap 2%positive WAssert wx) (deep_nodes w_sec_assert) /\
  details_text w_sec_assert = [] /\
  in_report (lit "(1) assertion failure") w_sec_assert = true /\
  in_report (lit "*assert.withAssertionFailure") w_sec_assert = true.
Proof. split; [right; left; reflexivity|]. repeat split; vm_compute; reflexivity. Qed.

(* (c) the HTTP code is retained NOWHERE locally: no SafeDetails(), and SafeFormatError prints it
   with %d without Safe(), so the report shows the redaction mark.  It appears only after a hop
   through a process that does not know the type ([http_code_on_the_wire]); a process that knows
   the type rebuilds the layer and the code is hidden again. *)
Definition w_http : err := Wrap 1%positive (WHTTP 404) wx.
Example http_code_not_retained :
  details_text w_http = [] /\
  in_report (lit "404") w_http = false /\ in_report (lit "http code: " ++ [195; 151]) w_http = true /\
  details_text (fst (hop all_knowing w_http 200%positive)) = [] /\
  details_text (fst (hop (mkproc [k_withHTTP]) w_http 200%positive)) = [lit "HTTP 404"] /\
  details_text (fst (transfer [mkproc [k_withHTTP]; all_knowing] w_http 200%positive)) = [].
Proof. repeat split; vm_compute; reflexivity. Qed.

(* (d) the gRPC code and the assertion marker: not in GetAllSafeDetails, but printed safe in the report *)
Example grpc_code_and_assert_in_report_only :
  details_text (Wrap 1%positive (WGrpc 5) wx) = [] /\
  in_report (lit "gRPC code: NotFound") (Wrap 1%positive (WGrpc 5) wx) = true /\
  details_text (Wrap 1%positive WAssert wx) = [] /\
  in_report (lit "assertion failure") (Wrap 1%positive WAssert wx) = true.
Proof. repeat split; vm_compute; reflexivity. Qed.

(* (e) context tags: keys always, values only when Safe(); after a hop the safe VALUE survives in
   GetAllSafeDetails (the sender's strings travel) but no longer in the verbose rendering, where the
   rebuilt tags are plain strings; the report still has it on the composition line of the layer,
   which quotes the first line of the layer's first safe detail *)
Definition w_tags : err :=
  Wrap 1%positive (WContext [(lit "user", TVSafe (lit "n1")); (lit "q", TVStr (lit "secret"))] None) wx.
Example tag_values :
  details_text w_tags = [lit "user=n1"; lit "q" ++ [195; 151]] /\
  in_report (lit "tags: [user=n1,q") w_tags = true /\
  mentions (lit "secret") w_tags = false /\ in_report (lit "secret") w_tags = false /\
  let e' := fst (hop all_knowing w_tags 200%positive) in
  details_text e' = [lit "user=n1"; lit "q" ++ [195; 151]] /\
  is_infix (lit "tags: [user=n1") (redact_strip (fmt_red_verbose w_tags)) = true /\
  is_infix (lit "n1") (redact_strip (fmt_red_verbose e')) = false /\
  is_infix (lit "tags: [user=" ++ [195; 151]) (redact_strip (fmt_red_verbose e')) = true /\
  in_report (lit "withContext: user=n1") e' = true.
Proof. repeat split; vm_compute; reflexivity. Qed.

(* (f) the secondary error's details travel in the payload only (its encoder returns no
   reportable strings): a process that does not know withSecondaryError sees none of them; they
   come back at the next process that knows the type *)
Definition w_sec_keys : err := Second 1%positive wy (Wrap 2%positive (WTelemetry [lit "key1"]) wx).
Example secondary_details_need_the_decoder :
  mentions (lit "  key1") w_sec_keys = true /\
  mentions (lit "key1") (fst (hop (mkproc [k_withSecondary]) w_sec_keys 200%positive)) = false /\
  mentions (lit "  key1") (fst (transfer [mkproc [k_withSecondary]; all_knowing] w_sec_keys 200%positive)) = true.
Proof. repeat split; vm_compute; reflexivity. Qed.

(* (g) behind a barrier: the message of the hidden error is kept exactly as far as it is safe:
   a redactable message (leafError) gives its safe detail, indented; a plain message is replaced
   by the redaction mark in the "masked error" string *)
Definition w_barrier : err :=
  Barrier 1%positive (lit "boom")
    (Wrap 2%positive (WPrefix (sprint_pieces [PLit (lit "while "); PUnsafe (lit "alice")])) (Leaf 3%positive (LErrString (lit "secret")))).
Example message_behind_barrier :
  mentions (lit "  while " ++ [195; 151]) w_barrier = true /\
  mentions (lit "alice") w_barrier = false /\ mentions (lit "secret") w_barrier = false /\
  mentions (lit "masked error: while " ++ [195; 151] ++ lit ": " ++ [195; 151]) w_barrier = true.
Proof. repeat split; vm_compute; reflexivity. Qed.

(* (h) non-ASCII safe pieces are NOT kept verbatim in general: marker look-alikes are escaped *)
Example non_ascii_safe_piece_escaped :
  redact_strip (sprint_pieces [PSafe (lit "a" ++ m_start ++ lit "b")]) = lit "a?b".
Proof. vm_compute. reflexivity. Qed.

Print Assumptions deep_details_retained.
Print Assumptions deep_header_retained.
Print Assumptions deep_details_retained_after_transfer.
Print Assumptions safe_piece_retained.
Print Assumptions exact_transfer_report.
Print Assumptions deep_message_piece_retained.
