(* C07, last clause: the errors hidden behind a barrier, attached as secondary
   error, or given as reference to Mark stay visible in the verbose rendering
   (%+v) and contribute to the safe details (their invisibility to Is / As / the
   accessors is in Proofs/HiddenNI.v). *)
From Coq Require Import Lia List Bool.
From Errv Require Import Base.Str Redact.Markers Redact.Buffer Model.Err Model.Sem Model.Details Model.Marks
     Model.Report Proofs.StrFacts Proofs.FastIs Proofs.RedactFacts Proofs.EngineFacts Proofs.ShortText
     Proofs.EraseFacts.
Import ListNotations.

Definition infix_of (a b : str) : Prop := exists p s, b = p ++ a ++ s.

Lemma infix_nil b : infix_of [] b.
Proof. exists [], b. reflexivity. Qed.

Lemma infix_app_l a b p : infix_of a b -> infix_of a (p ++ b).
Proof. intros (x & y & ->). exists (p ++ x), y. now rewrite <- app_assoc. Qed.

Lemma infix_app_r a b s : infix_of a b -> infix_of a (b ++ s).
Proof. intros (x & y & ->). exists x, (y ++ s). now rewrite <- !app_assoc. Qed.

Lemma infix_refl a : infix_of a a.
Proof. exists [], []. now rewrite app_nil_r. Qed.

(* ================================================================== *)
(* 1. how the engine lays out detail text                               *)
(* ================================================================== *)
(* state.Write in detail mode, once the detail buffer holds something: a run of
   n pending newlines followed by a byte becomes (n-1) x "\n  |" and "\n  | ";
   newlines at the very end are dropped. *)
Definition nl_fill (n : nat) : str :=
  if Nat.eqb n 0 then [] else rep_str (n - 1) detail_sep_m1 ++ detail_sep.

Fixpoint dind (n : nat) (s : str) : str :=
  match s with
  | [] => []
  | c :: r => if c =? nl then dind (S n) r else nl_fill n ++ c :: dind 0 r
  end.

Fixpoint nn_after (n : nat) (s : str) : nat :=
  match s with
  | [] => n
  | c :: r => if c =? nl then nn_after (S n) r else nn_after 0 r
  end.

(* the text [s] as it appears below a line already written: one newline is pending *)
Definition indent_detail (s : str) : str := dind 1 s.

Lemma dind_app a : forall n b, dind n (a ++ b) = dind n a ++ dind (nn_after n a) b.
Proof.
  induction a as [|c r IH]; intros n b; cbn [app dind nn_after]; [reflexivity|].
  destruct (c =? nl); [apply IH|].
  rewrite IH, <- app_assoc. reflexivity.
Qed.

Lemma dind_plain t : forall r, no_nl t = true -> dind 0 (t ++ r) = t ++ dind 0 r.
Proof.
  induction t as [|c t IH]; intros r H; [reflexivity|].
  cbn [no_nl forallb] in H. apply andb_true_iff in H as [Hc Ht]. apply negb_true_iff in Hc.
  cbn [app dind]. rewrite Hc. cbn [nl_fill Nat.eqb app]. f_equal. now apply IH.
Qed.

(* for text without empty lines and without trailing newline this is the
   familiar "replace every newline by newline + margin" *)
Fixpoint tidy (s : str) : bool :=
  match s with
  | [] => true
  | c :: r => if c =? nl then match r with [] => false | d :: _ => negb (d =? nl) && tidy r end
              else tidy r
  end.

Lemma dind_tidy s : tidy s = true ->
  dind 0 s = replace_nl s detail_sep /\
  (forall d r, s = d :: r -> (d =? nl) = false -> dind 1 s = detail_sep ++ replace_nl s detail_sep).
Proof.
  induction s as [|c r IH]; intro H.
  - split; [reflexivity|]. intros d r0 E; discriminate.
  - cbn [tidy] in H. destruct (c =? nl) eqn:Ec.
    + destruct r as [|d r']; [discriminate|]. apply andb_true_iff in H as [Hd Hr]. apply negb_true_iff in Hd.
      destruct (IH Hr) as [_ I2]. split.
      * cbn [dind replace_nl]. rewrite Ec. apply (I2 d r' eq_refl Hd).
      * intros d0 r0 E Hd0. injection E as -> ->. congruence.
    + destruct (IH H) as [I1 _]. split.
      * cbn [dind replace_nl]. rewrite Ec. cbn [nl_fill Nat.eqb app]. now rewrite I1.
      * intros d0 r0 _ _. cbn [dind replace_nl]. rewrite Ec.
        cbn [nl_fill Nat.eqb Nat.sub rep_str app]. now rewrite I1.
Qed.

Lemma indent_detail_tidy c r :
  (c =? nl) = false -> tidy (c :: r) = true ->
  indent_detail (c :: r) = replace_nl (nl :: c :: r) detail_sep.
Proof.
  intros Hc Ht. unfold indent_detail. destruct (dind_tidy _ Ht) as [_ H]. rewrite (H c r eq_refl Hc).
  cbn [replace_nl]. rewrite N.eqb_refl. now rewrite Hc.
Qed.

(* the indented text is empty or starts a new line *)
Definition nl_head (t : str) : Prop := t = [] \/ exists t', t = nl :: t'.

Lemma nl_fill_head n : nl_head (nl_fill (S n)).
Proof.
  right. unfold nl_fill. cbn [Nat.eqb]. destruct n; cbn; eexists; reflexivity.
Qed.

Lemma dind_head s : forall n, nl_head (dind (S n) s).
Proof.
  induction s as [|c r IH]; intro n; cbn [dind]; [now left|].
  destruct (c =? nl); [apply IH|].
  destruct (nl_fill_head n) as [E | [t' E]]; rewrite E.
  - unfold nl_fill in E. cbn [Nat.eqb] in E. destruct (rep_str (S n - 1) detail_sep_m1); discriminate.
  - right. eexists. reflexivity.
Qed.

(* ---- state.Write, closed form ---- *)
Ltac fsimp :=
  cbv beta iota zeta delta [set_needNewline set_buf set_notEmpty set_entries set_last switch_over
    fs_redout fs_plus fs_entries fs_buf fs_headbuf fs_last fs_hasDetail fs_wantDetail fs_notEmpty fs_needNewline].
Ltac fsimp_in H :=
  cbv beta iota zeta delta [set_needNewline set_buf set_notEmpty set_entries set_last switch_over
    fs_redout fs_plus fs_entries fs_buf fs_headbuf fs_last fs_hasDetail fs_wantDetail fs_notEmpty fs_needNewline] in H.

Lemma write_loop_detail b : forall st chunk,
  fs_hasDetail st = true -> fs_wantDetail st = true -> fs_notEmpty st = true ->
  (fs_needNewline st <> 0%nat -> chunk = []) ->
  write_loop b st chunk =
  mkst (fs_redout st) (fs_plus st) (fs_entries st)
       (fs_buf st ++ rev chunk ++ dind (fs_needNewline st) b)
       (fs_headbuf st) (fs_last st) true true true (nn_after (fs_needNewline st) b).
Proof.
  induction b as [|c r IH]; intros st chunk H1 H2 H3 H4;
    destruct st as [ro pl es bf hb la hd wd ne nn]; fsimp_in H1; fsimp_in H2; fsimp_in H3; fsimp_in H4;
    subst hd wd ne.
  - cbn [write_loop dind nn_after]. fsimp. now rewrite app_nil_r.
  - cbn [write_loop dind nn_after]. destruct (c =? nl) eqn:Ec.
    + fsimp. rewrite IH; try reflexivity. fsimp. cbn [rev app]. now rewrite <- app_assoc.
    + fsimp. destruct nn as [|k].
      * cbn [Nat.eqb negb andb]. fsimp.
        rewrite IH by (try reflexivity; intro X; exfalso; apply X; reflexivity).
        fsimp. cbn [rev nl_fill Nat.eqb app].
        now rewrite <- !app_assoc.
      * rewrite (H4 (Nat.neq_succ_0 k)).
        cbn [Nat.eqb negb andb]. fsimp.
        rewrite IH by (try reflexivity; intro X; exfalso; apply X; reflexivity).
        fsimp. cbn [rev app nl_fill Nat.eqb].
        now rewrite <- !app_assoc.
Qed.

(* from ANY detail-mode state, text starting with two bytes that are not
   newlines ends up the same way *)
Lemma write_loop_detail2 c1 c2 r st :
  fs_hasDetail st = true -> fs_wantDetail st = true ->
  (c1 =? nl) = false -> (c2 =? nl) = false ->
  write_loop (c1 :: c2 :: r) st [] =
  mkst (fs_redout st) (fs_plus st) (fs_entries st)
       (fs_buf st ++ nl_fill (fs_needNewline st) ++ c1 :: c2 :: dind 0 r)
       (fs_headbuf st) (fs_last st) true true true (nn_after 0 r).
Proof.
  intros H1 H2 E1 E2. destruct (fs_notEmpty st) eqn:H3.
  - rewrite write_loop_detail by (assumption || reflexivity).
    cbn [dind nn_after rev app]. rewrite E1, E2. cbn [nl_fill Nat.eqb app]. reflexivity.
  - destruct st as [ro pl es bf hb la hd wd ne nn]; fsimp_in H1; fsimp_in H2; fsimp_in H3; subst hd wd ne.
    cbn [write_loop]. rewrite E1, E2. fsimp.
    rewrite andb_false_r. fsimp.
    destruct nn as [|k]; cbn [Nat.eqb negb andb]; fsimp.
    + rewrite write_loop_detail by (try reflexivity; intro X; exfalso; apply X; reflexivity).
      fsimp. cbn [rev app nl_fill Nat.eqb].
      reflexivity.
    + rewrite write_loop_detail by (try reflexivity; intro X; exfalso; apply X; reflexivity).
      fsimp. cbn [rev app nl_fill Nat.eqb].
      now rewrite <- !app_assoc.
Qed.

(* ================================================================== *)
(* 2. every node returns an empty buffer and keeps the output mode      *)
(* ================================================================== *)
Lemma st_detail_cfg st : cfg (fst (st_detail st)) = cfg st.
Proof.
  unfold st_detail. destruct (negb (fs_wantDetail st)); cbn [fst]; [reflexivity|].
  rewrite switch_over_cfg. destruct (fs_notEmpty st); reflexivity.
Qed.

Lemma if_detail_cfg st k : (forall s, cfg (k s) = cfg s) -> cfg (if_detail st k) = cfg st.
Proof.
  intros Hk. unfold if_detail. pose proof (st_detail_cfg st) as H.
  destruct (st_detail st) as [st1 d]. cbn [fst] in H.
  destruct d; [rewrite Hk|]; exact H.
Qed.

Lemma print_tags_cfg tags : forall st first, cfg (print_tags st tags first) = cfg st.
Proof.
  induction tags as [|kv r IH]; intros st first; cbn [print_tags]; [reflexivity|].
  rewrite IH, sp_print_cfg. destruct first; [reflexivity|apply sp_print_cfg].
Qed.

Lemma print_safe_details_cfg ds : forall st comma, cfg (print_safe_details st ds comma) = cfg st.
Proof.
  induction ds as [|d r IH]; intros st comma; cbn [print_safe_details]; [reflexivity|].
  now rewrite IH, sp_print_cfg.
Qed.

Lemma opaque_details_cfg kind d st : cfg (opaque_details kind d st) = cfg st.
Proof.
  unfold opaque_details. cbv zeta.
  destruct (dt_full d); [rewrite sp_print_cfg|];
    (rewrite fold_left_snd_cfg;
     [cbn [snd]; rewrite !sp_print_cfg; reflexivity
     |intros acc x; cbn [snd]; apply sp_print_cfg]).
Qed.

Lemma pl_print_cfg st s : cfg (pl_print st s) = cfg st.
Proof. unfold pl_print. apply st_write_cfg. Qed.

Ltac cf_step :=
  first [ reflexivity
        | rewrite sp_print_cfg
        | rewrite pl_print_cfg
        | rewrite print_tags_cfg
        | rewrite print_safe_details_cfg
        | rewrite opaque_details_cfg
        | rewrite st_write_cfg ].
Ltac cf := repeat cf_step.

Lemma wrap_body_cfg w st :
  match wrap_body w st with
  | Some (st1, _, _) => cfg st1 = cfg st
  | None => True
  end.
Proof.
  destruct w; cbn [wrap_body]; try exact I;
    try (apply if_detail_cfg; intros s; cf; fail).
  - cf.
  - cf.
  - apply if_detail_cfg; intros s.
    match goal with |- context [match ?u with [] => s | _ => _ end] => destruct u end;
    match goal with |- context [match ?u with [] => _ | _ => _ end] => destruct u end; cf.
  - pose proof (st_detail_cfg st) as H. destruct (st_detail st) as [st1 d]. cbn [fst] in H.
    match goal with |- context [if ?x then _ else _] => destruct x end; cf; exact H.
  - apply if_detail_cfg; intros s. cbv zeta.
    match goal with |- context [if ?x then _ else _] => destruct x end; cf.
Qed.

Definition keeps (f : bool -> bool -> bool -> nat -> fstate -> fstate * nat) : Prop :=
  forall o d w k st, fs_redout (fst (f o d w k st)) = fs_redout st.

Lemma cfg_ro a b : cfg a = cfg b -> fs_redout a = fs_redout b.
Proof. unfold cfg. congruence. Qed.

Lemma format_node_keeps ty single multi own body :
  match single with Some sc => keeps (ns_fmt sc) | None => True end ->
  Forall (fun m => keeps (ns_fmt m)) multi ->
  (forall o st, fs_redout (br_st (body o st)) = fs_redout st) ->
  keeps (format_node ty single multi own body).
Proof.
  intros Hs Hm Hb o d w k st. unfold format_node.
  assert (H1 : fs_redout (fst (match single with
                               | Some sc => ns_fmt sc false d w (S k) st
                               | None => (st, 0%nat)
                               end)) = fs_redout st).
  { destruct single as [sc|]; [apply Hs|reflexivity]. }
  destruct (match single with Some sc => ns_fmt sc false d w (S k) st | None => (st, 0%nat) end) as [st1 n1].
  cbn [fst] in H1.
  assert (H2 : forall acc,
             fs_redout (fst (fold_left
               (fun (acc : fstate * nat) (k0 : nsem) =>
                  let '(s', m) := ns_fmt k0 false d true (S k) (fst acc) in (s', (snd acc + m)%nat))
               multi acc)) = fs_redout (fst acc)).
  { clear H1. induction Hm as [|m ms Hm1 Hms IH]; intro acc; cbn [fold_left]; [reflexivity|].
    rewrite IH. pose proof (Hm1 false d true (S k) (fst acc)) as X.
    destruct (ns_fmt m false d true (S k) (fst acc)) as [s' mm]. exact X. }
  specialize (H2 (st1, n1)). cbn [fst] in H2.
  destruct (fold_left _ multi (st1, n1)) as [st2 n2]. cbn [fst] in H2.
  cbv zeta.
  match goal with |- context [body o ?s3] => set (st3 := s3) end.
  pose proof (Hb o st3) as B3.
  destruct (body o st3) as [bst bred bel bseen]. cbn [br_st br_elide br_red br_seen] in *.
  assert (R4 : fs_redout (if bel then elide_short bst n2 else bst) = fs_redout st).
  { destruct bel; [unfold elide_short; cbn [fs_redout set_entries]|]; rewrite B3; subst st3;
      cbn [fs_redout]; congruence. }
  set (st4 := if bel then elide_short bst n2 else bst) in *.
  destruct bseen; [|destruct own as [stk|]; [destruct (elide_shared (fs_last st4) stk) as [s' el]|]];
    cbn [fst fs_redout set_buf set_entries set_last]; exact R4.
Qed.

Ltac fs_ro :=
  match goal with
  | |- context [format_simple ?s ?t ?c] =>
    let HF := fresh "HF" in
    pose proof (cfg_ro _ _ (format_simple_cfg s t c)) as HF;
    destruct (format_simple s t c); exact HF
  end.

Lemma sem_keeps e : keeps (ns_fmt (sem e)).
Proof.
  induction e using err_ind'.
  - cbn [sem ns_fmt]. apply format_node_keeps; [exact I|constructor|].
    intros o st. destruct k as [| | | | | |m url det| | | | |];
      try (apply cfg_ro; apply default_body_cfg).
    + destruct (negb o); [cbn [br_st set_last fs_redout]; apply cfg_ro, fundamental_format_cfg|]. fs_ro.
    + unfold body_safe. cbn [br_st]. apply cfg_ro, sp_print_cfg.
    + unfold body_safe. cbn [br_st]. apply cfg_ro. rewrite if_detail_cfg; [apply sp_print_cfg|].
      intros s0. destruct url, det; cf.
  - cbn [sem ns_fmt]. apply format_node_keeps; [exact IHe|constructor|].
    intros o st. pose proof (wrap_body_cfg w st) as HW.
    destruct (wrap_body w st) as [[[st1 nn] red]|]; [exact (cfg_ro _ _ HW)|].
    destruct w; try (apply cfg_ro; apply default_body_cfg); fs_ro.
  - cbn [sem ns_fmt]. apply format_node_keeps; [exact IHe1|constructor|].
    intros o st. unfold body_safe. cbn [br_st]. apply cfg_ro, if_detail_cfg. intros s0. apply sp_print_cfg.
  - cbn [sem ns_fmt]. apply format_node_keeps; [exact I|constructor|].
    intros o st. unfold body_safe. cbn [br_st]. apply cfg_ro.
    rewrite if_detail_cfg; [apply sp_print_cfg|]. intros s0. apply sp_print_cfg.
  - assert (HF : Forall (fun m => keeps (ns_fmt m)) (List.map sem cs)).
    { induction H; cbn [List.map]; constructor; assumption. }
    destruct k; cbn [sem ns_fmt]; (apply format_node_keeps; [exact I|exact HF|]); intros o st;
      try (apply cfg_ro; apply default_body_cfg).
    unfold body_safe. cbn [br_st]. apply cfg_ro. rewrite fold_left_snd_cfg; [reflexivity|].
    intros acc x. cbn [snd]. rewrite sp_print_cfg. destruct (fst acc); [reflexivity|apply sp_print_cfg].
  - assert (HF : Forall (fun m => keeps (ns_fmt m)) (List.map sem cs)).
    { induction H; cbn [List.map]; constructor; assumption. }
    cbn [sem ns_fmt]. apply format_node_keeps; [exact I|exact HF|]. intros o st.
    unfold body_safe. cbn [br_st]. apply cfg_ro.
    rewrite if_detail_cfg; [apply sp_print_cfg|]. intros s0. apply opaque_details_cfg.
  - cbn [sem ns_fmt]. apply format_node_keeps; [exact IHe|constructor|].
    intros o st. unfold body_safe. cbn [br_st]. apply cfg_ro.
    rewrite if_detail_cfg; [|intros s0; apply opaque_details_cfg].
    destruct p; [reflexivity|apply sp_print_cfg].
Qed.

Lemma format_node_buf_nil ty single multi own body o d w k st :
  fs_buf (fst (format_node ty single multi own body o d w k st)) = [].
Proof.
  unfold format_node.
  destruct (match single with Some sc => ns_fmt sc false d w (S k) st | None => (st, 0%nat) end) as [st1 n1].
  destruct (fold_left _ multi (st1, n1)) as [st2 n2].
  cbv zeta.
  match goal with |- context [body o ?s3] => set (st3 := s3) end.
  destruct (body o st3) as [bst bred bel bseen]. cbn [br_st br_elide br_red br_seen].
  set (st4 := if bel then elide_short bst n2 else bst).
  destruct bseen; [|destruct own as [stk|]; [destruct (elide_shared (fs_last st4) stk) as [s' el]|]];
    reflexivity.
Qed.

Lemma fmt_buf_nil e o d w k st : fs_buf (fst (ns_fmt (sem e) o d w k st)) = [].
Proof.
  destruct e as [i k0|i w0 c|i c s|i m h|i k0 cs|i m dd cs|i p dd mt c]; try destruct k0;
    cbn [sem ns_fmt]; apply format_node_buf_nil.
Qed.

Lemma fmt_redout e o d w k st : fs_redout (fst (ns_fmt (sem e) o d w k st)) = fs_redout st.
Proof. apply sem_keeps. Qed.

(* ================================================================== *)
(* 3. a literal followed by a nested error, printed by redact           *)
(* ================================================================== *)
Definition qm (r : str) : str := if last_rune_invalid_rev r then [qmark] else [].

Lemma ascii_not_lead a :
  (a <? 128) = true ->
  rune_start a = true /\ (forall x, valid2 a x = false) /\ (forall x y, valid3 a x y = false) /\
  (forall x y z, valid4 a x y z = false).
Proof.
  intro H. apply N.ltb_lt in H.
  assert (L : forall k, 128 <= k -> (k <=? a) = false) by (intros k Hk; apply N.leb_gt; lia).
  assert (Q : forall k, 128 <= k -> (a =? k) = false) by (intros k Hk; apply N.eqb_neq; lia).
  repeat split.
  - unfold rune_start, is_cont. rewrite (L 128) by lia. reflexivity.
  - intro x. unfold valid2, in_rng. rewrite (L 194) by lia. reflexivity.
  - intros x y. unfold valid3, in_rng. rewrite (Q 224), (L 225), (L 238), (Q 237) by lia.
    cbn [andb orb]. apply andb_false_r.
  - intros x y z. unfold valid4, in_rng. rewrite (Q 240), (L 241), (Q 244) by lia.
    cbn [andb orb]. apply andb_false_r.
Qed.

(* DecodeLastRune never looks past an ASCII byte *)
Lemma lri_ascii_base r a t :
  (a <? 128) = true -> last_rune_invalid_rev (r ++ a :: t) = last_rune_invalid_rev r.
Proof.
  intro Ha. destruct (ascii_not_lead a Ha) as (R & V2 & V3 & V4).
  destruct r as [|b0 [|b1 [|b2 [|b3 r']]]]; cbn [app last_rune_invalid_rev].
  - now rewrite Ha.
  - destruct (b0 <? 128); [reflexivity|]. now rewrite R, V2.
  - destruct (b0 <? 128); [reflexivity|]. destruct (rune_start b1); [reflexivity|]. now rewrite R, V3.
  - destruct (b0 <? 128); [reflexivity|]. destruct (rune_start b1); [reflexivity|].
    destruct (rune_start b2); [reflexivity|]. now rewrite R, V4.
  - reflexivity.
Qed.

Lemma qm_ascii_base r l :
  l <> [] -> ascii l = true -> qm (r ++ rev l) = qm r.
Proof.
  intros Hne Ha. destruct (rev_nonempty_ascii l Hne Ha) as (b & t & E & Hb).
  unfold qm. rewrite E, lri_ascii_base by exact Hb. reflexivity.
Qed.

Lemma take_valid v : buf_take (mkbuf v [] SafeEscaped false) = v ++ qm (rev v).
Proof.
  unfold buf_take, buf_finalize. cbn [bmode bopen]. unfold escape_to_end, escape_from. rewrite ?frev_eq.
  cbn [bvalid bpend bmode bopen List.length escape_loop rev app].
  unfold qm. destruct (last_rune_invalid_rev (rev v)); unfold whole; cbn [bvalid bpend bopen rev];
    rewrite ?rev_app_distr, ?rev_involutive, app_nil_r; reflexivity.
Qed.

Lemma sprint_raw_gen s : sprint_pieces [PRaw s] = s ++ qm (rev s).
Proof.
  unfold sprint_pieces, print_pieces. cbn [fold_left].
  change (set_mode buf_empty SafeEscaped) with (mkbuf [] [] SafeEscaped false).
  unfold print_piece. cbn [bmode].
  change (set_mode (mkbuf [] [] SafeEscaped false) SafeRaw) with (mkbuf [] [] SafeRaw false).
  change (buf_write (mkbuf [] [] SafeRaw false) s) with (mkbuf [] s SafeRaw false).
  change (set_mode (mkbuf [] s SafeRaw false) SafeEscaped) with (mkbuf s [] SafeEscaped false).
  apply take_valid.
Qed.

Lemma sprint_lit_raw l s :
  l <> [] -> ascii l = true -> sprint_pieces [PLit l; PRaw s] = l ++ sprint_pieces [PRaw s].
Proof.
  intros Hne Ha. rewrite sprint_raw_gen.
  unfold sprint_pieces, print_pieces. cbn [fold_left].
  change (set_mode buf_empty SafeEscaped) with (mkbuf [] [] SafeEscaped false).
  rewrite print_lit_step. cbn [app].
  assert (S1 : set_mode (mkbuf [] l SafeEscaped false) SafeRaw = mkbuf l [] SafeRaw false).
  { unfold set_mode. cbn [bmode omode_eqb bopen]. unfold escape_to_end. cbn [bvalid bpend bmode bopen].
    rewrite escape_from_ascii by (try assumption; intro; discriminate).
    unfold validate_all, whole. cbn [bvalid bpend bmode bopen app]. now rewrite app_nil_r. }
  unfold print_piece. cbn [bmode]. rewrite S1.
  change (buf_write (mkbuf l [] SafeRaw false) s) with (mkbuf l s SafeRaw false).
  change (set_mode (mkbuf l s SafeRaw false) SafeEscaped) with (mkbuf (l ++ s) [] SafeEscaped false).
  rewrite take_valid, rev_app_distr, qm_ascii_base by assumption.
  now rewrite <- app_assoc.
Qed.

Lemma escape_loop_prefix_nobrk l : forall s acc fuel,
  no_e2 l = true ->
  escape_loop (List.length l + fuel) (l ++ s) acc false = escape_loop fuel s (rev l ++ acc) false.
Proof.
  induction l as [|a l IH]; intros s acc fuel H; [reflexivity|].
  cbn in H. apply andb_true_iff in H as [Ha H]. apply negb_true_iff in Ha.
  cbn [List.length Nat.add app escape_loop andb].
  assert (Hstep : escape_loop (List.length l + fuel) (l ++ s) (a :: acc) false
                  = escape_loop fuel s (rev (a :: l) ++ acc) false).
  { rewrite IH by assumption. cbn [rev]. now rewrite <- app_assoc. }
  destruct (l ++ s) as [|b [|c r]] eqn:E; try exact Hstep.
  rewrite Ha. cbn [andb]. exact Hstep.
Qed.

Lemma escape_loop_base_nobrk fuel : forall s acc base,
  escape_loop fuel s (acc ++ base) false = escape_loop fuel s acc false ++ base.
Proof.
  induction fuel as [|f IH]; intros s acc base; [reflexivity|].
  destruct s as [|a t]; [reflexivity|].
  cbn [escape_loop andb].
  destruct t as [|b [|c r]]; try (apply (IH _ (a :: acc) base)).
  destruct ((a =? 226) && (b =? 128) && ((c =? 185) || (c =? 186))).
  - apply (IH _ (qmark :: acc) base).
  - apply (IH _ (a :: acc) base).
Qed.

Lemma escape_from_lit_nobrk l s :
  l <> [] -> ascii l = true -> escape_from [] (l ++ s) false = l ++ escape_from [] s false.
Proof.
  intros Hne Ha. unfold escape_from. rewrite ?frev_eq. cbn [rev app].
  rewrite !app_nil_r, app_length, escape_loop_prefix_nobrk by now apply ascii_no_e2.
  rewrite app_nil_r.
  replace (escape_loop (List.length s) s (rev l) false)
    with (escape_loop (List.length s) s [] false ++ rev l)
    by (rewrite <- escape_loop_base_nobrk; reflexivity).
  rewrite rev_app_distr.
  assert (Q : (if last_rune_invalid_rev (rev s ++ rev l)
               then qmark :: escape_loop (List.length s) s [] false ++ rev l
               else escape_loop (List.length s) s [] false ++ rev l)
              = (qm (rev s ++ rev l) ++ escape_loop (List.length s) s [] false) ++ rev l).
  { unfold qm. destruct (last_rune_invalid_rev (rev s ++ rev l)); reflexivity. }
  rewrite Q, qm_ascii_base by assumption.
  rewrite rev_app_distr, rev_involutive. f_equal.
  unfold qm. destruct (last_rune_invalid_rev (rev s)); reflexivity.
Qed.

Lemma sprint_lit_safe l s :
  l <> [] -> ascii l = true -> sprint_pieces [PLit l; PSafe s] = l ++ sprint_pieces [PSafe s].
Proof.
  intros Hne Ha.
  unfold sprint_pieces, print_pieces. cbn [fold_left].
  change (set_mode buf_empty SafeEscaped) with (mkbuf [] [] SafeEscaped false).
  rewrite print_lit_step, !print_safe_step. cbn [app].
  unfold buf_take, buf_finalize. cbn [bmode bopen]. unfold escape_to_end. cbn [bvalid bpend bmode bopen].
  unfold whole. cbn [bvalid bpend]. rewrite !app_nil_r.
  now apply escape_from_lit_nobrk.
Qed.

Lemma sprint_lit_nested l (ns : nsem) :
  l <> [] -> ascii l = true ->
  sprint_pieces [PLit l; nested_plus_v ns] = l ++ sprint_pieces [nested_plus_v ns].
Proof.
  intros Hne Ha. unfold nested_plus_v. destruct (ns_safemsg ns).
  - now apply sprint_lit_safe.
  - now apply sprint_lit_raw.
Qed.

(* ================================================================== *)
(* 4. markers never straddle a newline                                  *)
(* ================================================================== *)
Lemma tokenize_step3 a b c r :
  tokenize (a :: b :: c :: r) =
  if (a =? 226) && (b =? 128) && (c =? 185) then TOpen :: tokenize r
  else if (a =? 226) && (b =? 128) && (c =? 186) then TClose :: tokenize r
  else TB a :: tokenize (b :: c :: r).
Proof. reflexivity. Qed.

Lemma tokenize_app_nl n : forall p, (List.length p <= n)%nat -> forall t,
  tokenize (p ++ nl :: t) = tokenize p ++ tokenize (nl :: t).
Proof.
  induction n as [|n IH]; intros p Hp t.
  - destruct p; [reflexivity|cbn in Hp; lia].
  - destruct p as [|a [|b [|c r]]].
    + reflexivity.
    + cbn [app]. destruct t as [|c r].
      * reflexivity.
      * rewrite tokenize_step3. change (nl =? 128) with false. rewrite !andb_false_r. cbn [andb]. reflexivity.
    + cbn [app]. rewrite tokenize_step3. change (nl =? 185) with false. change (nl =? 186) with false.
      rewrite !andb_false_r.
      change (b :: nl :: t) with ([b] ++ nl :: t). rewrite IH by (cbn [List.length] in *; lia). reflexivity.
    + cbn [app]. rewrite !tokenize_step3.
      cbn [List.length] in Hp.
      destruct ((a =? 226) && (b =? 128) && (c =? 185)).
      * rewrite IH by lia. reflexivity.
      * destruct ((a =? 226) && (b =? 128) && (c =? 186)).
        -- rewrite IH by lia. reflexivity.
        -- change (b :: c :: r ++ nl :: t) with ((b :: c :: r) ++ nl :: t).
           rewrite IH by (cbn [List.length]; lia). reflexivity.
Qed.

Lemma strip_app_nl_head p t : nl_head t -> strip_markers (p ++ t) = strip_markers p ++ strip_markers t.
Proof.
  intros [-> | [t' ->]].
  - rewrite app_nil_r. change (strip_markers []) with (@nil N). now rewrite app_nil_r.
  - unfold strip_markers. rewrite (tokenize_app_nl (List.length p) p (le_n _)), filter_app, untok_app.
    reflexivity.
Qed.

(* ================================================================== *)
(* 5. the top-level %+v of a node whose own entry has details           *)
(* ================================================================== *)
Definition fv (f : bool -> bool -> bool -> nat -> fstate -> fstate * nat) (red : bool) : str :=
  let '(st, _) := f true true false 0%nat (st_init red true) in format_entries red (fs_entries st).

Lemma final_verbose_fv ns red : final_verbose ns red = fv (ns_fmt ns) red.
Proof. reflexivity. Qed.

Lemma print_entry_details red e B' T' :
  fe_details e = B' ++ T' -> out_bytes red e (fe_details e) = fe_details e ->
  infix_of T' (print_entry red e).
Proof.
  intros E O. unfold print_entry. cbv zeta. rewrite O.
  destruct (fe_details e) as [|c d'] eqn:D.
  - symmetry in E. apply app_eq_nil in E as [_ ->]. apply infix_nil.
  - rewrite E. apply infix_app_l. apply infix_app_r. apply infix_app_l. apply infix_app_l.
    apply infix_refl.
Qed.

Lemma format_entries_first red e r a :
  infix_of a (print_entry red e) -> infix_of a (format_entries red (e :: r)).
Proof.
  intro H. unfold format_entries. apply infix_app_l.
  change (nl :: lit "(1)" ++ print_entry red e ++ wraps_lines red r 2 ++ nl :: lit "Error types:" ++ types_line (e :: r) 1)
    with ((nl :: lit "(1)") ++ print_entry red e ++ wraps_lines red r 2 ++ nl :: lit "Error types:" ++ types_line (e :: r) 1).
  apply infix_app_l. apply infix_app_r. exact H.
Qed.

Definition shown (red : bool) (T : str) : str := if red then T else strip_markers T.
Lemma shown_true T : shown true T = T.
Proof. reflexivity. Qed.
Lemma shown_false T : shown false T = strip_markers T.
Proof. reflexivity. Qed.

Lemma verbose_node ty single body red T :
  (let r := match single with
            | Some sc => ns_fmt sc false true false 1%nat (st_init red true)
            | None => (st_init red true, 0%nat)
            end in fs_buf (fst r) = [] /\ fs_redout (fst r) = red) ->
  (forall ro pl es la, exists stB el B,
      body true (mkst ro pl es [] [] la false true false 0) = mkbody stB true el false /\
      fs_redout stB = ro /\ fs_wantDetail stB = true /\ fs_hasDetail stB = true /\
      fs_buf stB = B ++ T) ->
  (red = false -> nl_head T) ->
  infix_of (shown red T) (fv (format_node ty single [] None body) red).
Proof.
  intros Hk Hb HT. unfold fv, format_node. cbv zeta in Hk.
  destruct (match single with
            | Some sc => ns_fmt sc false true false 1%nat (st_init red true)
            | None => (st_init red true, 0%nat)
            end) as [st1 n1]. cbn [fst] in Hk. destruct Hk as [K1 K2].
  cbn [fold_left]. rewrite K1, K2.
  destruct (Hb red (fs_plus st1) (fs_entries st1) (fs_last st1)) as (stB & el & B & E & R & W & Hd & Bf).
  rewrite E. cbn [br_st br_red br_elide br_seen].
  set (st4 := if el then elide_short stB n1 else stB).
  assert (F : fs_redout st4 = red /\ fs_wantDetail st4 = true /\ fs_hasDetail st4 = true /\
              fs_buf st4 = B ++ T /\ fs_headbuf st4 = fs_headbuf stB).
  { subst st4. destruct el; unfold elide_short; cbn [set_entries fs_redout fs_wantDetail fs_hasDetail fs_buf fs_headbuf];
      repeat split; assumption. }
  destruct F as (F1 & F2 & F3 & F4 & F5).
  cbn [fst snd fs_entries set_buf set_entries].
  apply format_entries_first.
  assert (HD : exists B', fe_details (collect_entry st4 ty true false 0) = B' ++ shown red T /\
                          out_bytes red (collect_entry st4 ty true false 0)
                                    (fe_details (collect_entry st4 ty true false 0))
                          = fe_details (collect_entry st4 ty true false 0)).
  { unfold collect_entry. rewrite F1, F2, F3, F4. destruct red; cbn [fe_details].
    - exists B. split; [reflexivity|]. reflexivity.
    - exists (strip_markers B). split; [|reflexivity]. unfold shown. apply strip_app_nl_head. now apply HT. }
  destruct HD as (B' & D1 & D2).
  exact (print_entry_details red _ B' _ D1 D2).
Qed.

(* the own entry's details end with a heading line [L] followed by the indented text [I] *)
Lemma verbose_node2 ty single body red L I :
  (let r := match single with
            | Some sc => ns_fmt sc false true false 1%nat (st_init red true)
            | None => (st_init red true, 0%nat)
            end in fs_buf (fst r) = [] /\ fs_redout (fst r) = red) ->
  (forall ro pl es la, exists stB el B,
      body true (mkst ro pl es [] [] la false true false 0) = mkbody stB true el false /\
      fs_redout stB = ro /\ fs_wantDetail stB = true /\ fs_hasDetail stB = true /\
      fs_buf stB = (B ++ L) ++ I) ->
  nl_head I ->
  infix_of (shown red I) (fv (format_node ty single [] None body) red) /\
  (red = true -> infix_of (L ++ I) (fv (format_node ty single [] None body) red)).
Proof.
  intros Hk Hb HI. split.
  - apply verbose_node; [exact Hk| |intros _; exact HI].
    intros ro pl es la. destruct (Hb ro pl es la) as (stB & el & B & E & R & W & Hd & Bf).
    exists stB, el, (B ++ L). repeat split; assumption.
  - intros ->. rewrite <- (shown_true (L ++ I)).
    apply verbose_node; [exact Hk| |discriminate].
    intros ro pl es la. destruct (Hb ro pl es la) as (stB & el & B & E & R & W & Hd & Bf).
    exists stB, el, B. repeat split; try assumption. now rewrite Bf, <- app_assoc.
Qed.

(* ================================================================== *)
(* 6. printing in detail mode                                           *)
(* ================================================================== *)
Lemma st_write_detail st b :
  fs_hasDetail st = true -> fs_wantDetail st = true -> fs_notEmpty st = true ->
  st_write st b =
  mkst (fs_redout st) (fs_plus st) (fs_entries st) (fs_buf st ++ dind (fs_needNewline st) b)
       (fs_headbuf st) (fs_last st) true true true (nn_after (fs_needNewline st) b).
Proof.
  intros H1 H2 H3. destruct b as [|c r].
  - destruct st as [ro pl es bf hb la hd wd ne nn]; fsimp_in H1; fsimp_in H2; fsimp_in H3; subst hd wd ne.
    cbn [st_write dind nn_after]. fsimp. now rewrite app_nil_r.
  - unfold st_write. rewrite write_loop_detail by (assumption || reflexivity). reflexivity.
Qed.

(* a line (at least two bytes, no newline) followed by a newline and [x] *)
Lemma st_write_line st c1 c2 t x :
  fs_hasDetail st = true -> fs_wantDetail st = true -> no_nl (c1 :: c2 :: t) = true ->
  st_write st ((c1 :: c2 :: t) ++ nl :: x) =
  mkst (fs_redout st) (fs_plus st) (fs_entries st)
       ((fs_buf st ++ nl_fill (fs_needNewline st) ++ c1 :: c2 :: t) ++ indent_detail x)
       (fs_headbuf st) (fs_last st) true true true (nn_after 1 x).
Proof.
  intros H1 H2 Hn. cbn [no_nl forallb] in Hn.
  apply andb_true_iff in Hn as [E1 Hn]. apply andb_true_iff in Hn as [E2 Hn].
  apply negb_true_iff in E1, E2.
  cbn [app st_write]. rewrite write_loop_detail2 by assumption.
  rewrite dind_plain by exact Hn. cbn [dind]. rewrite N.eqb_refl.
  assert (A : nn_after 0 (t ++ nl :: x) = nn_after 1 x).
  { clear -Hn. induction t as [|c t IH]; cbn [app nn_after]; [now rewrite N.eqb_refl|].
    cbn [forallb] in Hn. apply andb_true_iff in Hn as [Hc Ht]. apply negb_true_iff in Hc.
    rewrite Hc. now apply IH. }
  rewrite A. unfold indent_detail. f_equal.
  rewrite <- !app_assoc. cbn [app]. reflexivity.
Qed.

(* p.Detail() when details are wanted *)
Lemma if_detail_want st K :
  fs_wantDetail st = true ->
  exists stD, if_detail st K = K stD /\ fs_hasDetail stD = true /\ fs_wantDetail stD = true /\
              fs_redout stD = fs_redout st.
Proof.
  intro H. destruct st as [ro pl es bf hb la hd wd ne nn]. fsimp_in H. subst wd.
  unfold if_detail, st_detail. fsimp. cbn [negb].
  eexists. split; [reflexivity|].
  destruct ne, hd; fsimp; repeat split; reflexivity.
Qed.

(* ... on the fresh state a node's own part starts from *)
Lemma if_detail_fresh ro pl es la K :
  if_detail (mkst ro pl es [] [] la false true false 0) K = K (mkst ro pl es [] [] la true true false 0).
Proof. reflexivity. Qed.

(* ================================================================== *)
(* 7. (1) barrier                                                       *)
(* ================================================================== *)
Definition barrier_line : str := lit "-- cause hidden behind barrier".
Definition secondary_line : str := lit "secondary error attachment".
Definition mark_line : str := lit "forced error mark".

Lemma kids_none red :
  let r := match @None nsem with
           | Some sc => ns_fmt sc false true false 1%nat (st_init red true)
           | None => (st_init red true, 0%nat)
           end in fs_buf (fst r) = [] /\ fs_redout (fst r) = red.
Proof. split; reflexivity. Qed.

Lemma kids_some c red :
  let r := match Some (sem c) with
           | Some sc => ns_fmt sc false true false 1%nat (st_init red true)
           | None => (st_init red true, 0%nat)
           end in fs_buf (fst r) = [] /\ fs_redout (fst r) = red.
Proof. cbv zeta. split; [apply fmt_buf_nil|rewrite fmt_redout; reflexivity]. Qed.

Lemma fmt_red_verbose_lib e :
  ns_safemsg (sem e) = None -> fmt_red_verbose e = final_verbose (sem e) true ++ qm (rev (final_verbose (sem e) true)).
Proof. intro H. unfold fmt_red_verbose, nested_plus_v. rewrite H. apply sprint_raw_gen. Qed.

(* the general statement: [shown red] is the identity for the redactable rendering
   and StripMarkers for the plain one *)
Lemma barrier_node red i smsg m :
  infix_of (shown red (indent_detail (fmt_red_verbose m))) (final_verbose (sem (Barrier i smsg m)) red) /\
  (red = true ->
   infix_of (barrier_line ++ indent_detail (fmt_red_verbose m)) (final_verbose (sem (Barrier i smsg m)) red)).
Proof.
  rewrite final_verbose_fv. cbn [sem ns_fmt].
  apply verbose_node2; [apply kids_none| |apply dind_head].
  intros ro pl es la.
  set (st3 := mkst ro pl es [] [] la false true false 0).
  set (st1 := sp_print st3 [PRaw smsg]).
  assert (C1 : cfg st1 = cfg st3) by apply sp_print_cfg.
  assert (W1 : fs_wantDetail st1 = true) by (rewrite (cfg_wd _ _ C1); reflexivity).
  assert (R1 : fs_redout st1 = ro) by (rewrite (cfg_ro _ _ C1); reflexivity).
  destruct (if_detail_want st1
              (fun s' => sp_print s' [PLit (lit "-- cause hidden behind barrier" ++ [nl]); nested_plus_v (sem m)])
              W1) as (stD & E & Hd & Wd & Rd).
  unfold body_safe. rewrite E. unfold sp_print.
  rewrite sprint_lit_nested by (discriminate || reflexivity).
  change (lit "-- cause hidden behind barrier" ++ [nl]) with ((45 :: 45 :: lit " cause hidden behind barrier") ++ [nl]).
  rewrite <- app_assoc. cbn [app].
  change (45 :: 45 :: lit " cause hidden behind barrier" ++ nl :: sprint_pieces [nested_plus_v (sem m)])
    with ((45 :: 45 :: lit " cause hidden behind barrier") ++ nl :: fmt_red_verbose m).
  rewrite st_write_line by (assumption || reflexivity).
  exists (mkst (fs_redout stD) (fs_plus stD) (fs_entries stD)
               ((fs_buf stD ++ nl_fill (fs_needNewline stD) ++ 45 :: 45 :: lit " cause hidden behind barrier") ++
                indent_detail (fmt_red_verbose m))
               (fs_headbuf stD) (fs_last stD) true true true (nn_after 1 (fmt_red_verbose m))),
         true, (fs_buf stD ++ nl_fill (fs_needNewline stD)).
  split; [reflexivity|]. cbn [fs_redout fs_wantDetail fs_hasDetail fs_buf].
  repeat split; [congruence|]. now rewrite <- !app_assoc.
Qed.

Theorem barrier_verbose_shows_hidden_gen red i smsg m :
  infix_of (shown red (indent_detail (fmt_red_verbose m)))
           (final_verbose (sem (Barrier i smsg m)) red).
Proof. apply barrier_node. Qed.

(* redact.Sprintf("%+v", barrier) contains redact.Sprintf("%+v", hidden), indented,
   below the line that announces it *)
Theorem barrier_verbose_shows_hidden_line i smsg m :
  infix_of (barrier_line ++ indent_detail (fmt_red_verbose m)) (fmt_red_verbose (Barrier i smsg m)).
Proof.
  rewrite (fmt_red_verbose_lib (Barrier i smsg m)) by reflexivity. apply infix_app_r.
  now apply barrier_node.
Qed.

Theorem barrier_verbose_shows_hidden i smsg m :
  infix_of (indent_detail (fmt_red_verbose m)) (fmt_red_verbose (Barrier i smsg m)).
Proof.
  rewrite (fmt_red_verbose_lib (Barrier i smsg m)) by reflexivity. apply infix_app_r.
  pose proof (barrier_verbose_shows_hidden_gen true i smsg m) as H. rewrite shown_true in H. exact H.
Qed.

(* fmt.Sprintf("%+v", barrier) contains the same text without the markers *)
Theorem barrier_plain_verbose_shows_hidden i smsg m :
  infix_of (strip_markers (indent_detail (fmt_red_verbose m))) (fmt_plain_verbose (Barrier i smsg m)).
Proof.
  pose proof (barrier_verbose_shows_hidden_gen false i smsg m) as H. rewrite shown_false in H. exact H.
Qed.

(* ================================================================== *)
(* 8. (2) secondary error                                               *)
(* ================================================================== *)
Lemma secondary_node red i c s :
  infix_of (shown red (indent_detail (fmt_red_verbose s))) (final_verbose (sem (Second i c s)) red) /\
  (red = true ->
   infix_of (secondary_line ++ indent_detail (fmt_red_verbose s)) (final_verbose (sem (Second i c s)) red)).
Proof.
  rewrite final_verbose_fv. cbn [sem ns_fmt].
  apply verbose_node2; [apply kids_some| |apply dind_head].
  intros ro pl es la.
  unfold body_safe. rewrite if_detail_fresh. unfold sp_print.
  rewrite sprint_lit_nested by (discriminate || reflexivity).
  change (lit "secondary error attachment" ++ [nl]) with ((115 :: 101 :: lit "condary error attachment") ++ [nl]).
  rewrite <- app_assoc. cbn [app].
  change (115 :: 101 :: lit "condary error attachment" ++ nl :: sprint_pieces [nested_plus_v (sem s)])
    with ((115 :: 101 :: lit "condary error attachment") ++ nl :: fmt_red_verbose s).
  rewrite st_write_line by reflexivity.
  eexists _, false, []. split; [reflexivity|]. cbn [fs_redout fs_wantDetail fs_hasDetail fs_buf].
  repeat split.
Qed.

Theorem secondary_verbose_shows_hidden_gen red i c s :
  infix_of (shown red (indent_detail (fmt_red_verbose s)))
           (final_verbose (sem (Second i c s)) red).
Proof. apply secondary_node. Qed.

Theorem secondary_verbose_shows_hidden_line i c s :
  infix_of (secondary_line ++ indent_detail (fmt_red_verbose s)) (fmt_red_verbose (Second i c s)).
Proof.
  rewrite (fmt_red_verbose_lib (Second i c s)) by reflexivity. apply infix_app_r.
  now apply secondary_node.
Qed.

Theorem secondary_verbose_shows_hidden i c s :
  infix_of (indent_detail (fmt_red_verbose s)) (fmt_red_verbose (Second i c s)).
Proof.
  rewrite (fmt_red_verbose_lib (Second i c s)) by reflexivity. apply infix_app_r.
  pose proof (secondary_verbose_shows_hidden_gen true i c s) as H. rewrite shown_true in H. exact H.
Qed.

Theorem secondary_plain_verbose_shows_hidden i c s :
  infix_of (strip_markers (indent_detail (fmt_red_verbose s))) (fmt_plain_verbose (Second i c s)).
Proof.
  pose proof (secondary_verbose_shows_hidden_gen false i c s) as H. rewrite shown_false in H. exact H.
Qed.

(* ================================================================== *)
(* 9. (4) Mark                                                          *)
(* ================================================================== *)
(* what withMark.SafeFormatError prints below "forced error mark":
   p.Printf("%q\n%s::%s", mark.msg, Safe(family), Safe(extension)) of the FIRST type of the mark *)
Definition mark_first_type (mk : emark) : tmark :=
  match em_types mk with t :: _ => t | [] => mktm [] [] end.
Definition mark_text (mk : emark) : str :=
  sprint_pieces [PUnsafe (go_quote (em_msg mk)); PLit [nl]; PSafe (tm_family (mark_first_type mk));
                 PLit (lit "::"); PSafe (tm_ext (mark_first_type mk))].

Lemma mark_layer_mark i mk c : get_mark (Wrap i (WMark mk) c) = mk.
Proof. reflexivity. Qed.

Lemma mark_of_reference i e r : get_mark (mark_ i e r) = get_mark r.
Proof. reflexivity. Qed.

Lemma sprint_mark_line : sprint_pieces [PLit (lit "forced error mark" ++ [nl])] = lit "forced error mark" ++ [nl].
Proof. vm_compute. reflexivity. Qed.

Lemma mark_node red i mk c :
  infix_of (shown red (indent_detail (mark_text mk))) (final_verbose (sem (Wrap i (WMark mk) c)) red) /\
  (red = true ->
   infix_of (mark_line ++ indent_detail (mark_text mk)) (final_verbose (sem (Wrap i (WMark mk) c)) red)).
Proof.
  rewrite final_verbose_fv. cbn [sem ns_fmt].
  apply verbose_node2; [apply kids_some| |apply dind_head].
  intros ro pl es la.
  cbn [wrap_body]. rewrite if_detail_fresh. cbv zeta.
  assert (E : forall s, sp_print s [PUnsafe (go_quote (em_msg mk)); PLit [nl];
                                     PSafe (tm_family match em_types mk with t :: _ => t | [] => mktm [] [] end);
                                     PLit (lit "::");
                                     PSafe (tm_ext match em_types mk with t :: _ => t | [] => mktm [] [] end)]
                        = st_write s (mark_text mk)).
  { intro s. unfold mark_text, mark_first_type, sp_print. reflexivity. }
  rewrite E. clear E.
  generalize (mark_text mk) as W2. intro W2.
  unfold sp_print.
  rewrite sprint_mark_line.
  change (lit "forced error mark" ++ [nl]) with ((102 :: 111 :: lit "rced error mark") ++ nl :: []).
  rewrite st_write_line by reflexivity.
  rewrite st_write_detail by reflexivity.
  cbn [fs_redout fs_plus fs_entries fs_buf fs_headbuf fs_last fs_needNewline].
  fold (indent_detail W2).
  eexists _, false, []. split; [reflexivity|]. cbn [fs_redout fs_wantDetail fs_hasDetail fs_buf].
  repeat split.
Qed.

Theorem mark_verbose_shows_mark_gen red i mk c :
  infix_of (shown red (indent_detail (mark_text mk)))
           (final_verbose (sem (Wrap i (WMark mk) c)) red).
Proof. apply mark_node. Qed.

Theorem mark_verbose_shows_mark_line i mk c :
  infix_of (mark_line ++ indent_detail (mark_text mk)) (fmt_red_verbose (Wrap i (WMark mk) c)).
Proof.
  rewrite (fmt_red_verbose_lib (Wrap i (WMark mk) c)) by reflexivity. apply infix_app_r.
  now apply mark_node.
Qed.

Theorem mark_verbose_shows_mark i mk c :
  infix_of (indent_detail (mark_text mk)) (fmt_red_verbose (Wrap i (WMark mk) c)).
Proof.
  rewrite (fmt_red_verbose_lib (Wrap i (WMark mk) c)) by reflexivity. apply infix_app_r.
  pose proof (mark_verbose_shows_mark_gen true i mk c) as H. rewrite shown_true in H. exact H.
Qed.

Theorem mark_plain_verbose_shows_mark i mk c :
  infix_of (strip_markers (indent_detail (mark_text mk))) (fmt_plain_verbose (Wrap i (WMark mk) c)).
Proof.
  pose proof (mark_verbose_shows_mark_gen false i mk c) as H. rewrite shown_false in H. exact H.
Qed.

(* ================================================================== *)
(* 10. (3) safe details                                                 *)
(* ================================================================== *)
(* SafeDetailPayload.Fill over GetAllSafeDetails(hidden): what
   withSecondaryError.SafeDetails / barrierErr.SafeDetails compute first *)
Definition filled_details (h : err) : list str :=
  fold_left (fun acc p => sdp_fill p acc) (get_all_safe_details h) [].

Lemma fill_chain_fold x : forall acc,
  fill_chain_top x acc = fold_left (fun a p => sdp_fill p a) (get_all_safe_details x) acc.
Proof.
  unfold get_all_safe_details.
  induction x as [i k|i w c IH|i c IH s _|i m h _|i k cs|i m d cs|i p d mt c IH]; intro acc;
    rewrite fill_chain_top_step; cbn [chain List.map fold_left];
    match goal with |- context [get_safe_details ?e] =>
      change (get_safe_details e) with (let '(o, f, xt) := type_details e in mksdp o f xt (get_details e));
      destruct (type_details e) as [[o f] xt] end; cbv zeta;
    try reflexivity; apply IH.
Qed.

Theorem secondary_safe_details i c s :
  safe_details_of (Second i c s) = Some (filled_details s).
Proof. rewrite safe_details_second, fill_chain_fold. reflexivity. Qed.

(* the barrier adds one more string: "masked error: " followed by the redacted
   (sensitive parts replaced by the redaction marker, markers stripped) %+v of the hidden error *)
Theorem barrier_safe_details i smsg m :
  safe_details_of (Barrier i smsg m) =
  Some (filled_details m ++ [lit "masked error: " ++ redact_strip (fmt_red_verbose m)]).
Proof.
  rewrite safe_details_barrier, fill_chain_fold.
  rewrite sprint_lit_nested by (discriminate || reflexivity).
  unfold redact_strip. rewrite redact_plain, strip_plain by reflexivity. reflexivity.
Qed.

(* the same through errbase.GetSafeDetails / GetAllSafeDetails *)
Corollary barrier_get_safe_details i smsg m :
  sd_details (get_safe_details (Barrier i smsg m)) =
  filled_details m ++ [lit "masked error: " ++ redact_strip (fmt_red_verbose m)].
Proof.
  unfold get_safe_details. cbn [type_details]. cbn [sd_details]. unfold get_details.
  now rewrite barrier_safe_details.
Qed.

Corollary secondary_get_safe_details i c s :
  sd_details (get_safe_details (Second i c s)) = filled_details s.
Proof.
  unfold get_safe_details. cbn [type_details]. cbn [sd_details]. unfold get_details.
  now rewrite secondary_safe_details.
Qed.

Corollary barrier_get_all_safe_details i smsg m :
  List.map sd_details (get_all_safe_details (Barrier i smsg m)) =
  [filled_details m ++ [lit "masked error: " ++ redact_strip (fmt_red_verbose m)]].
Proof.
  unfold get_all_safe_details. cbn [chain List.map]. now rewrite barrier_get_safe_details.
Qed.

Corollary secondary_get_all_safe_details i c s :
  List.map sd_details (get_all_safe_details (Second i c s)) =
  filled_details s :: List.map sd_details (get_all_safe_details c).
Proof.
  unfold get_all_safe_details. cbn [chain List.map]. now rewrite secondary_get_safe_details.
Qed.

(* every safe detail string of every layer of the hidden error is in there *)
Lemma sdp_fill_keeps p acc x : In x acc -> In x (sdp_fill p acc).
Proof.
  intro H. unfold sdp_fill. destruct (sd_details p); [exact H|].
  apply in_or_app. now left.
Qed.

Lemma sdp_fill_adds p acc d : In d (sd_details p) -> In (lit "  " ++ d) (sdp_fill p acc).
Proof.
  intro H. unfold sdp_fill. destruct (sd_details p) as [|d0 ds] eqn:E; [destruct H|].
  apply in_or_app. right. apply in_or_app. right.
  apply (in_map (fun d1 => lit "  " ++ d1)). exact H.
Qed.

Lemma fold_fill_keeps ps : forall acc x, In x acc -> In x (fold_left (fun a q => sdp_fill q a) ps acc).
Proof.
  induction ps as [|q ps IH]; intros acc x H; cbn [fold_left]; [exact H|].
  apply IH. now apply sdp_fill_keeps.
Qed.

Lemma fold_fill_adds ps : forall acc p d, In p ps -> In d (sd_details p) ->
  In (lit "  " ++ d) (fold_left (fun a q => sdp_fill q a) ps acc).
Proof.
  induction ps as [|q ps IH]; intros acc p d Hp Hd; cbn [fold_left]; [destruct Hp|].
  destruct Hp as [-> | Hp].
  - apply fold_fill_keeps. now apply sdp_fill_adds.
  - now apply (IH _ p).
Qed.

Theorem hidden_details_contribute h p d :
  In p (get_all_safe_details h) -> In d (sd_details p) -> In (lit "  " ++ d) (filled_details h).
Proof. apply fold_fill_adds. Qed.

Corollary secondary_details_contribute i c s p d :
  In p (get_all_safe_details s) -> In d (sd_details p) ->
  In (lit "  " ++ d) (sd_details (get_safe_details (Second i c s))).
Proof. rewrite secondary_get_safe_details. apply hidden_details_contribute. Qed.

Corollary barrier_details_contribute i smsg m p d :
  In p (get_all_safe_details m) -> In d (sd_details p) ->
  In (lit "  " ++ d) (sd_details (get_safe_details (Barrier i smsg m))).
Proof.
  intros Hp Hd. rewrite barrier_get_safe_details. apply in_or_app. left.
  now apply (hidden_details_contribute m p).
Qed.

(* a Mark layer has no safe details of its own: the reference contributes only its mark *)
Lemma mark_no_safe_details i mk c : safe_details_of (Wrap i (WMark mk) c) = None.
Proof. reflexivity. Qed.

(* ================================================================== *)
(* 11. the mark lines in closed form, for ASCII marks                   *)
(* ================================================================== *)
Lemma print_unsafe_first s :
  unsafe_ok s = true ->
  print_piece (mkbuf [] [] SafeEscaped false) (PUnsafe s) = mkbuf (m_start ++ s ++ m_end) [] SafeEscaped false.
Proof.
  intro Hu. destruct (unsafe_ok_parts s Hu) as (Hne & Ha & Hn).
  assert (He := ascii_no_e2 s Ha).
  destruct (rev_nonempty_ascii s Hne Ha) as [b0 [r1 [Er Hb]]].
  unfold print_piece. cbn [bmode].
  change (set_mode (mkbuf [] [] SafeEscaped false) UnsafeEscaped) with (mkbuf [] [] UnsafeEscaped false).
  change (buf_write (mkbuf [] [] UnsafeEscaped false) s) with (mkbuf m_start s UnsafeEscaped true).
  unfold set_mode. cbn [bmode omode_eqb bopen]. unfold escape_to_end. cbn [bvalid bpend bmode bopen].
  rewrite escape_from_ascii by (try assumption; intros _; assumption).
  cbn [bopen]. unfold end_redactable, whole. cbn [bvalid bpend bmode bopen]. rewrite app_nil_r.
  assert (Hnone : drop_suffix m_start (m_start ++ s) = None).
  { unfold drop_suffix. rewrite ?frev_eq. rewrite rev_app_distr, Er. change (rev m_start) with [185;128;226].
    cbn [app drop_prefix]. destruct (N.eqb 185 b0) eqn:E1; [apply N.eqb_eq in E1; apply N.ltb_lt in Hb; lia|reflexivity]. }
  rewrite Hnone.
  destruct (m_start ++ s) eqn:E0; [discriminate|]. rewrite <- E0. clear E0.
  unfold validate_all, whole. cbn [bvalid bpend bmode bopen]. rewrite app_nil_r, <- app_assoc. reflexivity.
Qed.

Lemma sprint_mark q fam ext :
  unsafe_ok q = true -> ascii fam = true -> ascii ext = true ->
  sprint_pieces [PUnsafe q; PLit [nl]; PSafe fam; PLit (lit "::"); PSafe ext] =
  m_start ++ q ++ m_end ++ nl :: fam ++ lit "::" ++ ext.
Proof.
  intros Hq Hf He. unfold sprint_pieces, print_pieces. cbn [fold_left].
  change (set_mode buf_empty SafeEscaped) with (mkbuf [] [] SafeEscaped false).
  rewrite print_unsafe_first by exact Hq.
  rewrite print_lit_step, print_safe_step, print_lit_step, print_safe_step. cbn [app].
  rewrite take_pend.
  - rewrite <- ?app_assoc. cbn [app]. rewrite <- ?app_assoc. reflexivity.
  - discriminate.
  - change (nl :: (fam ++ lit "::") ++ ext) with ([nl] ++ (fam ++ lit "::") ++ ext).
    rewrite !ascii_app, Hf, He. reflexivity.
Qed.

Lemma hex_digit_ok n : n < 16 -> (hex_digit n <? 128) = true /\ negb (hex_digit n =? nl) = true.
Proof.
  intro H. unfold hex_digit. destruct (n <? 10) eqn:E.
  - apply N.ltb_lt in E. split; [apply N.ltb_lt; lia|].
    apply negb_true_iff, N.eqb_neq. unfold nl. lia.
  - split; [apply N.ltb_lt; lia|]. apply negb_true_iff, N.eqb_neq. unfold nl. lia.
Qed.

Lemma quote_byte_ok b : (b <? 128) = true -> ascii (quote_byte b) = true /\ no_nl (quote_byte b) = true.
Proof.
  intro Hb. unfold quote_byte.
  destruct (b =? 34); [split; reflexivity|].
  destruct (b =? 92); [split; reflexivity|].
  destruct (b =? 10) eqn:E10; [split; reflexivity|].
  destruct (b =? 13); [split; reflexivity|].
  destruct (b =? 9); [split; reflexivity|].
  destruct (b =? 7); [split; reflexivity|].
  destruct (b =? 8); [split; reflexivity|].
  destruct (b =? 12); [split; reflexivity|].
  destruct (b =? 11); [split; reflexivity|].
  destruct ((b <? 32) || (b =? 127)).
  - assert (B : b < 128) by now apply N.ltb_lt.
    assert (D : b / 16 < 16) by (apply N.div_lt_upper_bound; lia).
    assert (M : b mod 16 < 16) by (apply N.mod_lt; lia).
    destruct (hex_digit_ok _ D) as [D1 D2]. destruct (hex_digit_ok _ M) as [M1 M2].
    unfold ascii, no_nl. cbn [forallb]. rewrite D1, D2, M1, M2. split; reflexivity.
  - unfold ascii, no_nl. cbn [forallb]. rewrite Hb. change (b =? nl) with (b =? 10). rewrite E10.
    split; reflexivity.
Qed.

Lemma quote_bytes_ok s : ascii s = true -> ascii (quote_bytes s 0) = true /\ no_nl (quote_bytes s 0) = true.
Proof.
  induction s as [|b r IH]; intro H; [split; reflexivity|].
  cbn [ascii forallb] in H. apply andb_true_iff in H as [Hb Hr].
  cbn [quote_bytes]. rewrite Hb.
  destruct (quote_byte_ok b Hb) as [A1 N1]. destruct (IH Hr) as [A2 N2].
  rewrite ascii_app, no_nl_app, A1, A2, N1, N2. split; reflexivity.
Qed.

Lemma go_quote_ok s : ascii s = true -> unsafe_ok (go_quote s) = true.
Proof.
  intro H. destruct (quote_bytes_ok s H) as [A N]. unfold go_quote, unsafe_ok, nonempty.
  cbn [is_empty negb andb].
  change (34 :: quote_bytes s 0 ++ [34]) with ([34] ++ quote_bytes s 0 ++ [34]).
  rewrite !ascii_app, !no_nl_app, A, N. reflexivity.
Qed.

Lemma dind1_plain r : r <> [] -> no_nl r = true -> dind 1 r = detail_sep ++ r.
Proof.
  intros Hne Hn. destruct r as [|c r]; [contradiction|].
  cbn [no_nl forallb] in Hn. apply andb_true_iff in Hn as [Hc Hr]. apply negb_true_iff in Hc.
  cbn [dind]. rewrite Hc. cbn [nl_fill Nat.eqb Nat.sub rep_str app].
  replace r with (r ++ []) at 1 by apply app_nil_r. rewrite dind_plain by exact Hr.
  cbn [dind]. now rewrite app_nil_r.
Qed.

Theorem mark_text_ascii mk :
  ascii (em_msg mk) = true ->
  ascii (tm_family (mark_first_type mk)) = true -> no_nl (tm_family (mark_first_type mk)) = true ->
  ascii (tm_ext (mark_first_type mk)) = true -> no_nl (tm_ext (mark_first_type mk)) = true ->
  indent_detail (mark_text mk) =
  detail_sep ++ m_start ++ go_quote (em_msg mk) ++ m_end ++
  detail_sep ++ tm_family (mark_first_type mk) ++ lit "::" ++ tm_ext (mark_first_type mk).
Proof.
  intros Hm Hf Nf He Ne. pose proof (go_quote_ok _ Hm) as Hq.
  destruct (unsafe_ok_parts _ Hq) as (_ & _ & Nq).
  unfold mark_text. rewrite sprint_mark by assumption.
  set (q := go_quote (em_msg mk)) in *. set (fam := tm_family (mark_first_type mk)) in *.
  set (ext := tm_ext (mark_first_type mk)) in *.
  unfold indent_detail.
  change (m_start ++ q ++ m_end ++ nl :: fam ++ lit "::" ++ ext)
    with (226 :: ([128; 185] ++ q ++ m_end ++ nl :: fam ++ lit "::" ++ ext)).
  cbn [dind]. change (226 =? nl) with false. cbn [nl_fill Nat.eqb Nat.sub rep_str].
  replace ([128; 185] ++ q ++ m_end ++ nl :: fam ++ lit "::" ++ ext)
    with (([128; 185] ++ q ++ m_end) ++ nl :: fam ++ lit "::" ++ ext) by (rewrite <- !app_assoc; reflexivity).
  rewrite dind_plain by (rewrite !no_nl_app, Nq; reflexivity).
  cbn [dind]. rewrite N.eqb_refl.
  rewrite dind1_plain.
  - rewrite <- !app_assoc. reflexivity.
  - destruct fam; discriminate.
  - rewrite !no_nl_app, Nf, Ne. reflexivity.
Qed.

Corollary mark_verbose_shows_mark_ascii i mk c :
  ascii (em_msg mk) = true ->
  ascii (tm_family (mark_first_type mk)) = true -> no_nl (tm_family (mark_first_type mk)) = true ->
  ascii (tm_ext (mark_first_type mk)) = true -> no_nl (tm_ext (mark_first_type mk)) = true ->
  infix_of (detail_sep ++ m_start ++ go_quote (em_msg mk) ++ m_end ++
            detail_sep ++ tm_family (mark_first_type mk) ++ lit "::" ++ tm_ext (mark_first_type mk))
           (fmt_red_verbose (Wrap i (WMark mk) c)).
Proof.
  intros H1 H2 H3 H4 H5. rewrite <- mark_text_ascii by assumption. apply mark_verbose_shows_mark.
Qed.

(* ================================================================== *)
(* 12. witnesses (evaluated on the model)                               *)
(* ================================================================== *)
Definition ex_hidden : err :=
  Wrap 4%positive (WDomain (lit "dom")) (Leaf 2%positive (LErrString (lit "secret"))).
Definition ex_main : err := Leaf 3%positive (LErrString (lit "main")).
Definition ex_mark : emark := mkem (lit "ref msg") [mktm (lit "fam/ily") (lit "ext")].

(* the statements are not vacuous: what is shown is the whole %+v of the hidden error *)
Example ex_hidden_verbose :
  fmt_red_verbose ex_hidden = lit "‹secret›
(1) dom
Wraps: (2) ‹secret›
Error types: (1) *domains.withDomain (2) *errors.errorString".
Proof. vm_compute. reflexivity. Qed.

Example ex_hidden_indented :
  indent_detail (fmt_red_verbose ex_hidden) = lit "
  | ‹secret›
  | (1) dom
  | Wraps: (2) ‹secret›
  | Error types: (1) *domains.withDomain (2) *errors.errorString".
Proof. vm_compute. reflexivity. Qed.

Example ex_barrier_verbose :
  fmt_red_verbose (Barrier 1%positive (lit "boom") ex_hidden) = lit "boom
(1) boom
  | -- cause hidden behind barrier
  | ‹secret›
  | (1) dom
  | Wraps: (2) ‹secret›
  | Error types: (1) *domains.withDomain (2) *errors.errorString
Error types: (1) *barriers.barrierErr".
Proof. vm_compute. reflexivity. Qed.

Example ex_barrier_plain_verbose :
  fmt_plain_verbose (Barrier 1%positive (lit "boom") ex_hidden) = lit "boom
(1) boom
  | -- cause hidden behind barrier
  | secret
  | (1) dom
  | Wraps: (2) secret
  | Error types: (1) *domains.withDomain (2) *errors.errorString
Error types: (1) *barriers.barrierErr".
Proof. vm_compute. reflexivity. Qed.

Example ex_secondary_verbose :
  fmt_red_verbose (Second 1%positive ex_main ex_hidden) = lit "‹main›
(1) secondary error attachment
  | ‹secret›
  | (1) dom
  | Wraps: (2) ‹secret›
  | Error types: (1) *domains.withDomain (2) *errors.errorString
Wraps: (2) ‹main›
Error types: (1) *secondary.withSecondaryError (2) *errors.errorString".
Proof. vm_compute. reflexivity. Qed.

Example ex_mark_verbose :
  fmt_red_verbose (Wrap 1%positive (WMark ex_mark) ex_main) = lit "‹main›
(1) forced error mark
  | ‹""ref msg""›
  | fam/ily::ext
Wraps: (2) ‹main›
Error types: (1) *markers.withMark (2) *errors.errorString".
Proof. vm_compute. reflexivity. Qed.

Example ex_barrier_details :
  safe_details_of (Barrier 1%positive (lit "boom") ex_hidden) =
  Some [lit "details for github.com/cockroachdb/errors/domains/*domains.withDomain::dom:";
        lit "  dom";
        lit "masked error: ×
(1) dom
Wraps: (2) ×
Error types: (1) *domains.withDomain (2) *errors.errorString"].
Proof. vm_compute. reflexivity. Qed.

Example ex_secondary_details :
  safe_details_of (Second 1%positive ex_main ex_hidden) =
  Some [lit "details for github.com/cockroachdb/errors/domains/*domains.withDomain::dom:"; lit "  dom"].
Proof. vm_compute. reflexivity. Qed.

(* the indentation is needed: the hidden rendering itself is NOT a substring *)
Example unindented_infix_refuted :
  is_infix (fmt_red_verbose ex_hidden) (fmt_red_verbose (Barrier 1%positive (lit "boom") ex_hidden)) = false /\
  is_infix (indent_detail (fmt_red_verbose ex_hidden))
           (fmt_red_verbose (Barrier 1%positive (lit "boom") ex_hidden)) = true.
Proof. split; vm_compute; reflexivity. Qed.

(* ... and it is not "newline -> newline + margin" in general (see [indent_detail_tidy]
   for when it is): a hidden SafeMessager whose message has an empty line and a
   trailing newline *)
Definition ex_safemsg : err :=
  Leaf 2%positive (LUser ULSafeMsg (lit "a" ++ [nl; nl] ++ lit "b" ++ [nl]) 0%Z []).

Example indent_is_not_replace_nl :
  fmt_red_verbose ex_safemsg = lit "a" ++ [nl; nl] ++ lit "b" ++ [nl] /\
  indent_detail (fmt_red_verbose ex_safemsg) = nl :: lit "  | a" ++ nl :: lit "  |" ++ nl :: lit "  | b" /\
  replace_nl (nl :: fmt_red_verbose ex_safemsg) detail_sep
    = nl :: lit "  | a" ++ nl :: lit "  | " ++ nl :: lit "  | b" ++ nl :: lit "  | " /\
  is_infix (indent_detail (fmt_red_verbose ex_safemsg))
           (fmt_red_verbose (Barrier 1%positive (lit "boom") ex_safemsg)) = true /\
  is_infix (replace_nl (nl :: fmt_red_verbose ex_safemsg) detail_sep)
           (fmt_red_verbose (Barrier 1%positive (lit "boom") ex_safemsg)) = false.
Proof. repeat split; vm_compute; reflexivity. Qed.

(* where it is: the common case *)
Example ex_hidden_tidy :
  indent_detail (fmt_red_verbose ex_hidden) = replace_nl (nl :: fmt_red_verbose ex_hidden) detail_sep.
Proof.
  rewrite ex_hidden_verbose. apply indent_detail_tidy; vm_compute; reflexivity.
Qed.

(* barriers nest: the inner hidden error is shown with two margins (the first
   newline of the inner indentation is the one the outer indentation replaces) *)
Example ex_nested_barrier :
  is_infix (indent_detail (List.tl (indent_detail (fmt_red_verbose ex_hidden))))
           (fmt_red_verbose (Barrier 1%positive (lit "boom") (Barrier 5%positive (lit "inner") ex_hidden))) = true.
Proof. vm_compute. reflexivity. Qed.
