(* Facts about encode / decode (C01, C04, C05). *)
From Errv Require Import Base.Str Redact.Markers Redact.Buffer Model.Err Model.Sem Model.Details Model.Marks
     Model.Codec Proofs.StrFacts Proofs.FastIs.
From Coq Require Import Lia.

(* induction over wire messages (the nested payload is not descended into) *)
Definition enc_ind' (P : enc -> Prop)
  (HL : forall msg d cs, Forall P cs -> P (ELeaf msg d cs))
  (HW : forall c msg d mt, P c -> P (EWrap c msg d mt)) : forall x, P x :=
  fix F (x : enc) : P x :=
    match x with
    | ELeaf msg d cs =>
      HL msg d cs ((fix G (l : list enc) : Forall P l :=
                      match l with [] => Forall_nil _ | y :: r => Forall_cons _ (F y) (G r) end) cs)
    | EWrap c msg d mt => HW c msg d mt (F c)
    end.

(* a process that knows none of the registered types *)
Definition has_decoder (k : str) : bool :=
  mem_str k leaf_decoder_keys || mem_str k multi_decoder_keys || mem_str k wrap_decoder_keys.
Definition knows_nothing (p : proc) : Prop := forall k, has_decoder k = true -> knows p k = false.

Lemma knows_nothing_leaf p k : knows_nothing p -> mem_str k leaf_decoder_keys && knows p k = false.
Proof.
  intro Hp. destruct (mem_str k leaf_decoder_keys) eqn:E; [|reflexivity]. cbn. apply Hp.
  unfold has_decoder. now rewrite E.
Qed.
Lemma knows_nothing_multi p k : knows_nothing p -> mem_str k multi_decoder_keys && knows p k = false.
Proof.
  intro Hp. destruct (mem_str k multi_decoder_keys) eqn:E; [|reflexivity]. cbn. apply Hp.
  unfold has_decoder. rewrite E. now rewrite orb_true_r.
Qed.
Lemma knows_nothing_wrap p k : knows_nothing p -> mem_str k wrap_decoder_keys && knows p k = false.
Proof.
  intro Hp. destruct (mem_str k wrap_decoder_keys) eqn:E; [|reflexivity]. cbn. apply Hp.
  unfold has_decoder. rewrite E. now rewrite orb_true_r.
Qed.

Lemma mem_str_app k l1 l2 : mem_str k (l1 ++ l2) = mem_str k l1 || mem_str k l2.
Proof. induction l1 as [|x l1 IH]; cbn; [reflexivity|]. now rewrite IH, orb_assoc. Qed.

(* the process that has none of the decoders *)
Definition unknowing : proc := mkproc (leaf_decoder_keys ++ multi_decoder_keys ++ wrap_decoder_keys).
Lemma unknowing_knows_nothing : knows_nothing unknowing.
Proof.
  intros k H. unfold knows, unknowing. cbn [p_unknown]. rewrite !mem_str_app.
  unfold has_decoder in H. rewrite <- orb_assoc in H. now rewrite H.
Qed.

(* no node carries a payload that is itself an error (errorspb.TestError): such
   a payload is returned as the error whatever the process knows *)
Fixpoint no_error_payload (x : enc) : bool :=
  match x with
  | ELeaf _ d cs =>
    match dt_full d with Some PlTestError => false | _ => true end && forallb no_error_payload cs
  | EWrap c _ _ _ => no_error_payload c
  end.

Lemma decode_list_map p cs :
  Forall (fun x => forall n, encode (fst (decode p x n)) = x) cs ->
  forall n, List.map encode (fst (decode_list (decode p) cs n)) = cs.
Proof.
  induction 1 as [|x l Hx Hl IH]; intro n; cbn; [reflexivity|].
  destruct (decode p x n) as [e n1] eqn:E1.
  destruct (decode_list (decode p) l n1) as [es n2] eqn:E2. cbn.
  specialize (Hx n). rewrite E1 in Hx. cbn in Hx. rewrite Hx.
  specialize (IH n1). rewrite E2 in IH. cbn in IH. now rewrite IH.
Qed.

Lemma forallb_Forall_impl {A} (f : A -> bool) (P : A -> Prop) l :
  Forall (fun x => f x = true -> P x) l -> forallb f l = true -> Forall P l.
Proof.
  induction 1 as [|x l Hx Hl IH]; cbn; intro H; constructor.
  - apply Hx. now apply andb_true_iff in H as [H _].
  - apply IH. now apply andb_true_iff in H as [_ H].
Qed.

(* C04: a process that knows none of the types re-emits exactly what it received *)
Lemma reencode_exact p (Hp : knows_nothing p) x :
  no_error_payload x = true -> forall n, encode (fst (decode p x n)) = x.
Proof.
  induction x using enc_ind'; intros Hx n.
  - destruct d as [o f xt rep pl]. cbn [no_error_payload dt_full] in Hx.
    apply andb_true_iff in Hx as [Hpl Hcs].
    cbn [decode]. rewrite (knows_nothing_leaf p f Hp), (knows_nothing_multi p f Hp).
    assert (Hmap : forall n, List.map encode (fst (decode_list (decode p) cs n)) = cs).
    { apply decode_list_map. eapply forallb_Forall_impl in Hcs; [exact Hcs|].
      eapply Forall_impl; [|exact H]. cbn. intros a Ha Hb. now apply Ha. }
    destruct pl as [pl|]; [destruct pl|]; try discriminate;
      destruct (decode_list (decode p) cs n) as [es n1] eqn:E; cbn;
      specialize (Hmap n); rewrite E in Hmap; cbn in Hmap; now rewrite Hmap.
  - destruct d as [o f xt rep pl]. cbn [no_error_payload] in Hx. cbn [decode].
    destruct (decode p x n) as [ec n0] eqn:E. rewrite (knows_nothing_wrap p f Hp). cbn.
    specialize (IHx Hx n). rewrite E in IHx. cbn in IHx. now rewrite IHx.
Qed.

(* opaque nodes show the message they received *)
Lemma opaque_leaf_text i msg d cs : error_text (OLeaf i msg d cs) = msg.
Proof. reflexivity. Qed.
Lemma opaque_wrapper_full_text i pfx d c : error_text (OWrap i pfx d 1 c) = pfx.
Proof. reflexivity. Qed.

(* opaque nodes keep the origin's type name, family, extension and reportable strings *)
Lemma opaque_details_kept i msg d cs :
  get_safe_details (OLeaf i msg d cs) = mksdp (dt_orig d) (dt_fam d) (dt_ext d) (dt_rep d).
Proof. destruct d; reflexivity. Qed.
Lemma opaque_wrapper_details_kept i pfx d mt c :
  get_safe_details (OWrap i pfx d mt c) = mksdp (dt_orig d) (dt_fam d) (dt_ext d) (dt_rep d).
Proof. destruct d; reflexivity. Qed.

(* re-encoding an opaque node emits the stored fields verbatim *)
Lemma encode_opaque_leaf i msg d cs : encode (OLeaf i msg d cs) = ELeaf msg d (List.map encode cs).
Proof. reflexivity. Qed.
Lemma encode_opaque_wrapper i pfx d mt c : encode (OWrap i pfx d mt c) = EWrap (encode c) pfx d mt.
Proof. reflexivity. Qed.

(* the visible shape (single cause / branches / leaf) of a wire message *)
Inductive shape := SLeaf | SWrap (c : shape) | SMulti (cs : list shape).

Fixpoint enc_shape (x : enc) : shape :=
  match x with
  | ELeaf _ _ [] => SLeaf
  | ELeaf _ _ cs => SMulti (List.map enc_shape cs)
  | EWrap c _ _ _ => SWrap (enc_shape c)
  end.

Fixpoint err_shape (e : err) : shape :=
  match e with
  | Wrap _ _ c | Second _ c _ | OWrap _ _ _ _ c => SWrap (err_shape c)
  | Multi _ _ [] | OLeaf _ _ _ [] => SLeaf
  | Multi _ _ cs | OLeaf _ _ _ cs => SMulti (List.map err_shape cs)
  | _ => SLeaf
  end.

(* encoding keeps the shape of the visible cause tree *)
Lemma encode_shape e : enc_shape (encode e) = err_shape e.
Proof.
  induction e using err_ind'.
  - (* Leaf *) destruct k; reflexivity.
  - (* Wrap: every wrapper encoder produces an EWrap over the encoded cause *)
    cbn [err_shape]. rewrite <- IHe.
    destruct w; cbn [encode]; try reflexivity;
      try (destruct (extract_prefix _ _); reflexivity).
  - cbn. now rewrite IHe1.
  - reflexivity.
  - cbn [encode err_shape].
    assert (Hm : List.map enc_shape (List.map encode cs) = List.map err_shape cs).
    { induction H as [|x l Hx Hl IH]; cbn; [reflexivity|]. now rewrite Hx, IH. }
    destruct cs as [|c cs']; [reflexivity|]. cbn [List.map enc_shape] in *. now rewrite Hm.
  - cbn [encode err_shape].
    assert (Hm : List.map enc_shape (List.map encode cs) = List.map err_shape cs).
    { induction H as [|x l Hx Hl IH]; cbn; [reflexivity|]. now rewrite Hx, IH. }
    destruct cs as [|c cs']; [reflexivity|]. cbn [List.map enc_shape] in *. now rewrite Hm.
  - cbn. now rewrite IHe.
Qed.
