(* Structural facts about the formatting engine of Model/Sem.v: every visible
   node (Report.visit_all) contributes exactly one entry to the engine state. *)
From Errv Require Import Base.Str Redact.Markers Redact.Buffer Model.Err Model.Sem Model.Report
     Proofs.StrFacts Proofs.FastIs.
From Coq Require Import Lia.

(* ---------- helpers that never touch fs_entries ---------- *)
Definition same_entries (a b : fstate) : Prop := fs_entries a = fs_entries b.

Lemma switch_over_se st : fs_entries (switch_over st) = fs_entries st.
Proof. unfold switch_over. destruct (fs_hasDetail st); reflexivity. Qed.

Lemma write_loop_se b : forall st chunk, fs_entries (write_loop b st chunk) = fs_entries st.
Proof.
  induction b as [|c r IH]; intros st chunk; cbn [write_loop].
  - reflexivity.
  - destruct (c =? nl).
    + rewrite IH.
      match goal with |- context [if ?x then _ else _] => destruct x end;
        [rewrite switch_over_se|]; reflexivity.
    + rewrite IH.
      match goal with |- context [if ?x then _ else _] => destruct x end; reflexivity.
Qed.

Lemma st_write_se st b : fs_entries (st_write st b) = fs_entries st.
Proof. destruct b; [reflexivity|]. unfold st_write. apply write_loop_se. Qed.

Lemma sp_print_se st ps : fs_entries (sp_print st ps) = fs_entries st.
Proof. unfold sp_print. apply st_write_se. Qed.

Lemma pl_print_se st s : fs_entries (pl_print st s) = fs_entries st.
Proof. unfold pl_print. apply st_write_se. Qed.

Lemma st_detail_se st : fs_entries (fst (st_detail st)) = fs_entries st.
Proof.
  unfold st_detail. destruct (negb (fs_wantDetail st)); cbn [fst]; [reflexivity|].
  rewrite switch_over_se. destruct (fs_notEmpty st); reflexivity.
Qed.

Lemma if_detail_se st k :
  (forall s, fs_entries (k s) = fs_entries s) ->
  fs_entries (if_detail st k) = fs_entries st.
Proof.
  intros Hk. unfold if_detail. pose proof (st_detail_se st) as H.
  destruct (st_detail st) as [st1 d]. cbn [fst] in H.
  destruct d; [rewrite Hk|]; exact H.
Qed.

Lemma fold_left_se {A} (f : fstate -> A -> fstate) l :
  (forall s x, fs_entries (f s x) = fs_entries s) ->
  forall s, fs_entries (fold_left f l s) = fs_entries s.
Proof.
  intros Hf. induction l as [|x l IH]; intros s; cbn [fold_left]; [reflexivity|].
  now rewrite IH, Hf.
Qed.

Lemma fold_left_snd_se {A B} (f : B * fstate -> A -> B * fstate) l :
  (forall acc x, fs_entries (snd (f acc x)) = fs_entries (snd acc)) ->
  forall acc, fs_entries (snd (fold_left f l acc)) = fs_entries (snd acc).
Proof.
  intros Hf. induction l as [|x l IH]; intros acc; cbn [fold_left]; [reflexivity|].
  now rewrite IH, Hf.
Qed.

Lemma print_tags_se tags : forall st first, fs_entries (print_tags st tags first) = fs_entries st.
Proof.
  induction tags as [|kv r IH]; intros st first; cbn [print_tags]; [reflexivity|].
  rewrite IH, sp_print_se. destruct first; [reflexivity|apply sp_print_se].
Qed.

Lemma print_safe_details_se ds :
  forall st comma, fs_entries (print_safe_details st ds comma) = fs_entries st.
Proof.
  induction ds as [|d r IH]; intros st comma; cbn [print_safe_details]; [reflexivity|].
  now rewrite IH, sp_print_se.
Qed.

Lemma opaque_details_se kind d st : fs_entries (opaque_details kind d st) = fs_entries st.
Proof.
  unfold opaque_details. cbv zeta.
  destruct (dt_full d); [rewrite sp_print_se|];
    (rewrite fold_left_snd_se;
     [cbn [snd]; rewrite !sp_print_se; reflexivity
     |intros acc x; cbn [snd]; apply sp_print_se]).
Qed.

Lemma format_simple_se st m c : fs_entries (fst (format_simple st m c)) = fs_entries st.
Proof.
  unfold format_simple. destruct c as [cm|].
  - destruct (extract_prefix m cm) as [p mt]. cbn [fst]. apply st_write_se.
  - cbn [fst]. apply st_write_se.
Qed.

Lemma fundamental_format_se st m stk : fs_entries (fundamental_format st m stk) = fs_entries st.
Proof.
  unfold fundamental_format. cbv zeta. destruct (fs_plus st).
  - rewrite fold_left_se; [apply st_write_se|]. intros s x. apply st_write_se.
  - apply st_write_se.
Qed.

Ltac se_step :=
  first [ reflexivity
        | rewrite sp_print_se
        | rewrite pl_print_se
        | rewrite print_tags_se
        | rewrite print_safe_details_se
        | rewrite opaque_details_se
        | rewrite st_write_se ].
Ltac se := repeat se_step.

Lemma wrap_body_se w st :
  match wrap_body w st with
  | Some (st1, _, _) => fs_entries st1 = fs_entries st
  | None => True
  end.
Proof.
  destruct w; cbn [wrap_body]; try exact I;
    try (apply if_detail_se; intros s; se; fail).
  - se.
  - se.
  - apply if_detail_se; intros s.
    match goal with |- context [match ?u with [] => s | _ => _ end] => destruct u end;
    match goal with |- context [match ?u with [] => _ | _ => _ end] => destruct u end; se.
  - pose proof (st_detail_se st) as H. destruct (st_detail st) as [st1 d]. cbn [fst] in H.
    match goal with |- context [if ?x then _ else _] => destruct x end; se; exact H.
  - apply if_detail_se; intros s. cbv zeta.
    match goal with |- context [if ?x then _ else _] => destruct x end; se.
Qed.

Lemma default_body_se e text sent il hm ct st :
  fs_entries (br_st (default_body e text sent il hm ct st)) = fs_entries st.
Proof.
  unfold default_body.
  destruct (il && sent); [cbn [br_st]; apply sp_print_se|].
  pose proof (format_simple_se st text ct) as HF.
  destruct (format_simple st text ct) as [st1 el]. cbn [fst] in HF.
  destruct e as [i k|i w c| | | | |]; try exact HF.
  - destruct k as [| | | | | | | | | |?|u ? ? ?]; try exact HF; try (cbn [br_st]; apply sp_print_se).
    destruct u; try exact HF; cbn [br_st]; apply sp_print_se.
  - destruct w as [| | | | | | | | | | | | | | | | | | | |op net src addr|];
      try exact HF; try (cbn [br_st]; apply sp_print_se).
    (* WOpError: a sequence of separate print calls *)
    cbv zeta. cbn [br_st].
    destruct net, src, addr; se.
Qed.

(* ---------- mark_first / elide_short keep the length ---------- *)
Lemma mark_first_length n : forall es, List.length (mark_first n es) = List.length es.
Proof.
  induction n as [|n IH]; intros [|e r]; cbn [mark_first List.length]; try reflexivity.
  now rewrite IH.
Qed.

Lemma elide_short_length st n :
  List.length (fs_entries (elide_short st n)) = List.length (fs_entries st).
Proof. unfold elide_short. cbn [fs_entries set_entries]. apply mark_first_length. Qed.

(* ---------- the skeleton ---------- *)
Definition goodf (f : bool -> bool -> bool -> nat -> fstate -> fstate * nat) (n : nat) : Prop :=
  forall o d w k st,
    snd (f o d w k st) = n /\
    List.length (fs_entries (fst (f o d w k st))) = (List.length (fs_entries st) + n)%nat.

Definition good (ns : nsem) (n : nat) : Prop := goodf (ns_fmt ns) n.

Lemma fold_multi_good d depth cs :
  Forall (fun c => good (sem c) (List.length (visit_all c))) cs ->
  forall acc,
    let r := fold_left
      (fun (acc : fstate * nat) (k : nsem) =>
         let '(s', m) := ns_fmt k false d true (S depth) (fst acc) in (s', (snd acc + m)%nat))
      (List.map sem cs) acc in
    snd r = (snd acc + List.length (flat_map visit_all cs))%nat /\
    List.length (fs_entries (fst r)) =
    (List.length (fs_entries (fst acc)) + List.length (flat_map visit_all cs))%nat.
Proof.
  induction 1 as [|c cs Hc Hcs IH]; intros acc; cbn [List.map fold_left flat_map List.length].
  - cbv zeta. split; lia.
  - cbv zeta.
    destruct (Hc false d true (S depth) (fst acc)) as [H1 H2].
    destruct (ns_fmt (sem c) false d true (S depth) (fst acc)) as [s' m].
    cbn [fst snd] in H1, H2.
    specialize (IH (s', (snd acc + m)%nat)). cbv zeta in IH. cbn [fst snd] in IH.
    destruct IH as [I1 I2]. rewrite app_length. split; lia.
Qed.

Lemma format_node_good ty single cs own body nS n :
  match single with Some sc => good sc nS | None => nS = 0%nat end ->
  Forall (fun c => good (sem c) (List.length (visit_all c))) cs ->
  (forall o st, fs_entries (br_st (body o st)) = fs_entries st) ->
  n = S (nS + List.length (flat_map visit_all cs)) ->
  goodf (format_node ty single (List.map sem cs) own body) n.
Proof.
  intros Hs Hm Hb -> o d w k st. unfold format_node.
  assert (H1 : exists st1 n1,
             match single with
             | Some sc => ns_fmt sc false d w (S k) st
             | None => (st, 0%nat)
             end = (st1, n1) /\ n1 = nS /\
             List.length (fs_entries st1) = (List.length (fs_entries st) + nS)%nat).
  { destruct single as [sc|].
    - destruct (Hs false d w (S k) st) as [A B].
      destruct (ns_fmt sc false d w (S k) st) as [st1 n1]. cbn [fst snd] in A, B.
      exists st1, n1. auto.
    - exists st, 0%nat. subst nS. repeat split; lia. }
  destruct H1 as (st1 & n1 & -> & -> & L1).
  pose proof (fold_multi_good d k cs Hm (st1, nS)) as H2. cbv zeta in H2.
  destruct (fold_left _ (List.map sem cs) (st1, nS)) as [st2 n2].
  cbn [fst snd] in H2. destruct H2 as [-> L2].
  cbv zeta.
  match goal with |- context [body o ?s3] => set (st3 := s3) end.
  pose proof (Hb o st3) as B3.
  destruct (body o st3) as [bst bred bel bseen]. cbn [br_st br_elide br_red br_seen] in *.
  assert (L4 : List.length (fs_entries (if bel then elide_short bst (nS + List.length (flat_map visit_all cs)) else bst))
               = List.length (fs_entries st2)).
  { destruct bel; [rewrite elide_short_length|]; rewrite B3; reflexivity. }
  set (st4 := if bel then elide_short bst (nS + List.length (flat_map visit_all cs)) else bst) in *.
  destruct bseen; [|destruct own as [stk|]; [destruct (elide_shared (fs_last st4) stk) as [s' el]|]];
    cbn [fst snd fs_entries set_buf set_entries set_last List.length]; split; lia.
Qed.

(* ---------- the induction ---------- *)
Ltac fs_case :=
  match goal with
  | |- context [format_simple ?s ?t ?c] =>
    let HF := fresh "HF" in
    pose proof (format_simple_se s t c) as HF;
    destruct (format_simple s t c); exact HF
  end.

Lemma sem_good e : good (sem e) (List.length (visit_all e)).
Proof.
  induction e using err_ind'; unfold good.
  - (* Leaf *)
    cbn [sem ns_fmt].
    apply (format_node_good _ None [] _ _ 0%nat); [reflexivity|constructor| |reflexivity].
    intros o st. destruct k as [| | | | | |m url det| | | | |]; try apply default_body_se.
    + (* LPkgFund *)
      destruct (negb o); [cbn [br_st set_last fs_entries]; apply fundamental_format_se|].
      fs_case.
    + (* LLeafError *)
      unfold body_safe. cbn [br_st]. apply sp_print_se.
    + (* LUnimpl *)
      unfold body_safe. cbn [br_st]. rewrite if_detail_se; [apply sp_print_se|].
      intros s0.
      destruct url, det; se.
  - (* Wrap *)
    cbn [sem ns_fmt].
    apply (format_node_good _ (Some (sem e)) [] _ _ (List.length (visit_all e)));
      [exact IHe|constructor| |cbn [visit_all flat_map List.length]; lia].
    intros o st. pose proof (wrap_body_se w st) as HW.
    destruct (wrap_body w st) as [[[st1 nn] red]|]; [exact HW|].
    destruct w; try apply default_body_se.
    + fs_case.
    + fs_case.
  - (* Second *)
    cbn [sem ns_fmt].
    apply (format_node_good _ (Some (sem e1)) [] _ _ (List.length (visit_all e1)));
      [exact IHe1|constructor| |cbn [visit_all flat_map List.length]; lia].
    intros o st. unfold body_safe. cbn [br_st]. apply if_detail_se. intros s0. apply sp_print_se.
  - (* Barrier *)
    cbn [sem ns_fmt].
    apply (format_node_good _ None [] _ _ 0%nat); [reflexivity|constructor| |reflexivity].
    intros o st. unfold body_safe. cbn [br_st].
    rewrite if_detail_se; [apply sp_print_se|]. intros s0. apply sp_print_se.
  - (* Multi *)
    destruct k; cbn [sem ns_fmt].
    + apply (format_node_good _ None cs _ _ 0%nat);
        [reflexivity|exact H| |cbn [visit_all List.length]; lia].
      intros o st. unfold body_safe. cbn [br_st].
      rewrite fold_left_snd_se; [reflexivity|].
      intros acc x. cbn [snd]. rewrite sp_print_se.
      destruct (fst acc); [reflexivity|apply sp_print_se].
    + apply (format_node_good _ None cs _ _ 0%nat);
        [reflexivity|exact H| |cbn [visit_all List.length]; lia].
      intros o st. apply default_body_se.
    + apply (format_node_good _ None cs _ _ 0%nat);
        [reflexivity|exact H| |cbn [visit_all List.length]; lia].
      intros o st. apply default_body_se.
  - (* OLeaf *)
    cbn [sem ns_fmt].
    apply (format_node_good _ None cs _ _ 0%nat);
      [reflexivity|exact H| |cbn [visit_all List.length]; lia].
    intros o st. unfold body_safe. cbn [br_st].
    rewrite if_detail_se; [apply sp_print_se|]. intros s0. apply opaque_details_se.
  - (* OWrap *)
    cbn [sem ns_fmt].
    apply (format_node_good _ (Some (sem e)) [] _ _ (List.length (visit_all e)));
      [exact IHe|constructor| |cbn [visit_all flat_map List.length]; lia].
    intros o st. unfold body_safe. cbn [br_st].
    rewrite if_detail_se; [|intros s0; apply opaque_details_se].
    destruct p; [reflexivity|apply sp_print_se].
Qed.

(* every visible node contributes exactly one entry: the count returned by formatRecursive *)
Lemma fmt_count e o d w k st :
  snd (ns_fmt (sem e) o d w k st) = List.length (visit_all e).
Proof. exact (proj1 (sem_good e o d w k st)). Qed.

(* and the entry list grows by exactly that many entries *)
Lemma fmt_entries_length e o d w k st :
  List.length (fs_entries (fst (ns_fmt (sem e) o d w k st))) =
  (List.length (fs_entries st) + List.length (visit_all e))%nat.
Proof. exact (proj2 (sem_good e o d w k st)). Qed.

(* %+v: the engine run used for the verbose rendering yields one entry per visible node *)
Lemma verbose_entries e red :
  List.length (fs_entries (fst (ns_fmt (sem e) true true false 0%nat (st_init red true)))) =
  List.length (visit_all e).
Proof. rewrite fmt_entries_length. reflexivity. Qed.
