(* C06 / C03 at the level of the redaction-library model, for ARBITRARY bytes:
   a string printed by the redact model has well-formed markers.

   Method: the tokenizer's three-byte look-ahead is replaced by a one-byte-at-
   a-time automaton whose state is
     o : inside a ‹...› region
     k : how many bytes of a possible marker are pending (E2 / E2 80)
     d : "dirty": the trailing run of markers (or the pending marker prefix)
         is glued to a dangling E2 / E2 80
   The automaton dies on a nested/unbalanced marker and on a newline inside a
   region.  Concatenation needs no side condition for it, so all buffer
   operations can be followed through it. *)
From Errv Require Import Base.Str Redact.Markers Redact.Buffer Proofs.StrFacts Proofs.RedactFacts.
From Coq Require Import Lia.

(* ------------------------------------------------------------------ *)
(* the automaton                                                       *)
(* ------------------------------------------------------------------ *)
Inductive pk := K0 | K1 | K2.
Definition ast := (bool * pk * bool)%type.

(* [ao] = opening markers allowed *)
Definition step (ao : bool) (s : option ast) (x : N) : option ast :=
  match s with
  | None => None
  | Some (o, k, d) =>
    if x =? 226 then Some (o, K1, match k with K0 => d | _ => true end)
    else match k with
    | K2 =>
      if x =? 185 then (if o || negb ao then None else Some (true, K0, d))
      else if x =? 186 then (if o then Some (false, K0, d) else None)
      else if (x =? nl) && o then None else Some (o, K0, false)
    | K1 =>
      if x =? 128 then Some (o, K2, d)
      else if (x =? nl) && o then None else Some (o, K0, false)
    | K0 => if (x =? nl) && o then None else Some (o, K0, false)
    end
  end.

Definition run (ao : bool) (s : str) (st : option ast) : option ast := fold_left (step ao) s st.
Definition st0 : ast := (false, K0, false).
Definition sst (ao : bool) (s : str) : option ast := run ao s (Some st0).

Lemma run_None ao s : run ao s None = None.
Proof. induction s as [|x s IH]; [reflexivity|]. exact IH. Qed.

Lemma run_app ao a b st : run ao (a ++ b) st = run ao b (run ao a st).
Proof. unfold run. apply fold_left_app. Qed.

Lemma run_cons ao x s st : run ao (x :: s) st = run ao s (step ao st x).
Proof. reflexivity. Qed.

Definition acc_st (r : option ast) : bool :=
  match r with Some (false, _, _) => true | _ => false end.

(* ---- tokenizer equations ---- *)
Lemma tok_226_other x s : (x =? 128) = false ->
  tokenize (226 :: x :: s) = TB 226 :: tokenize (x :: s).
Proof.
  intro H. destruct s as [|c r]; [reflexivity|].
  change (tokenize (226 :: x :: c :: r)) with
    (if (226 =? 226) && (x =? 128) && (c =? 185) then TOpen :: tokenize r
     else if (226 =? 226) && (x =? 128) && (c =? 186) then TClose :: tokenize r
     else TB 226 :: tokenize (x :: c :: r)).
  rewrite H. reflexivity.
Qed.

Lemma tok_226_128_other x s : (x =? 185) = false -> (x =? 186) = false ->
  tokenize (226 :: 128 :: x :: s) = TB 226 :: TB 128 :: tokenize (x :: s).
Proof.
  intros H1 H2.
  change (tokenize (226 :: 128 :: x :: s)) with
    (if (226 =? 226) && (128 =? 128) && (x =? 185) then TOpen :: tokenize s
     else if (226 =? 226) && (128 =? 128) && (x =? 186) then TClose :: tokenize s
     else TB 226 :: tokenize (128 :: x :: s)).
  rewrite H1, H2. cbn [N.eqb andb Pos.eqb]. f_equal.
  apply tokenize_cons_plain. reflexivity.
Qed.

Lemma eqb_nl_false x : (x =? 226) = true \/ (x =? 128) = true \/ (x =? 185) = true \/ (x =? 186) = true ->
  (x =? nl) = false.
Proof.
  intros [H|[H|[H|H]]]; apply N.eqb_eq in H; subst; reflexivity.
Qed.

(* the automaton decides wf_toks o tokenize *)
Lemma corr ao s : forall o d,
   (ao = true -> acc_st (run ao s (Some (o, K0, d))) = wf_toks (tokenize s) o)
/\ (ao = true -> acc_st (run ao s (Some (o, K1, d))) = wf_toks (tokenize (226 :: s)) o)
/\ (ao = true -> acc_st (run ao s (Some (o, K2, d))) = wf_toks (tokenize (226 :: 128 :: s)) o).
Proof.
  induction s as [|x s IH]; intros o d.
  - repeat split; intros _; destruct o; reflexivity.
  - destruct (IH o d) as [I0 [I1 I2]].
    destruct (IH o false) as [J0 _].
    destruct (IH o true) as [_ [T1 _]].
    repeat split; intros ->; rewrite run_cons; cbn [step].
    + destruct (x =? 226) eqn:E226.
      * apply N.eqb_eq in E226. subst x. now apply I1.
      * rewrite tokenize_cons_plain by assumption. cbn [wf_toks].
        destruct ((x =? nl) && o) eqn:En.
        { rewrite run_None. cbn [acc_st]. apply andb_true_iff in En as [En ->]. now rewrite En. }
        { rewrite J0 by reflexivity. destruct (x =? nl); [|reflexivity].
          cbn in En. subst o. reflexivity. }
    + destruct (x =? 226) eqn:E226.
      * apply N.eqb_eq in E226. subst x. rewrite tok_226_other by reflexivity.
        cbn [wf_toks]. change (226 =? nl) with false. cbn [andb]. now apply T1.
      * destruct (x =? 128) eqn:E128.
        { apply N.eqb_eq in E128. subst x. now apply I2. }
        { rewrite tok_226_other by assumption. rewrite tokenize_cons_plain by assumption.
          cbn [wf_toks]. change (226 =? nl) with false. cbn [andb].
          destruct ((x =? nl) && o) eqn:En.
          { rewrite run_None. cbn [acc_st]. apply andb_true_iff in En as [En ->]. now rewrite En. }
          { rewrite J0 by reflexivity. destruct (x =? nl); [|reflexivity].
            cbn in En. subst o. reflexivity. } }
    + destruct (x =? 226) eqn:E226.
      * apply N.eqb_eq in E226. subst x. rewrite tok_226_128_other by reflexivity.
        cbn [wf_toks]. change (226 =? nl) with false. change (128 =? nl) with false. cbn [andb]. now apply T1.
      * destruct (x =? 185) eqn:E185.
        { apply N.eqb_eq in E185. subst x. change (tokenize (226 :: 128 :: 185 :: s)) with (TOpen :: tokenize s).
          cbn [wf_toks negb orb]. rewrite orb_false_r. destruct o; cbn [negb andb].
          - now rewrite run_None.
          - destruct (IH true d) as [Q0 _]. now apply Q0. }
        destruct (x =? 186) eqn:E186.
        { apply N.eqb_eq in E186. subst x. change (tokenize (226 :: 128 :: 186 :: s)) with (TClose :: tokenize s).
          cbn [wf_toks]. destruct o; cbn [andb].
          - destruct (IH false d) as [Q0 _]. now apply Q0.
          - now rewrite run_None. }
        rewrite tok_226_128_other by assumption. rewrite tokenize_cons_plain by assumption.
        cbn [wf_toks]. change (226 =? nl) with false. change (128 =? nl) with false. cbn [andb].
        destruct ((x =? nl) && o) eqn:En.
        { rewrite run_None. cbn [acc_st]. apply andb_true_iff in En as [En ->]. now rewrite En. }
        { rewrite J0 by reflexivity. destruct (x =? nl); [|reflexivity].
          cbn in En. subst o. reflexivity. }
Qed.

Lemma sst_wf s k d : sst true s = Some (false, k, d) -> wf_red s = true.
Proof.
  intro H. unfold wf_red. destruct (corr true s false false) as [C _].
  rewrite <- C by reflexivity. change (acc_st (sst true s) = true). rewrite H. reflexivity.
Qed.

(* ------------------------------------------------------------------ *)
(* state of a reversed accumulator                                     *)
(* ------------------------------------------------------------------ *)
Definition rs (ao : bool) (acc : str) : option ast := sst ao (rev acc).

Lemma rs_cons ao x acc : rs ao (x :: acc) = step ao (rs ao acc) x.
Proof. unfold rs, sst. cbn [rev]. rewrite run_app. reflexivity. Qed.

Lemma rs_app ao l acc : rs ao (l ++ acc) = run ao (rev l) (rs ao acc).
Proof. unfold rs, sst. rewrite rev_app_distr, run_app. reflexivity. Qed.

Definition mkb (c : N) : bool := (c =? 185) || (c =? 186).

Definition look (k : pk) (s : str) : bool :=
  match k with
  | K0 => true
  | K1 => match s with b :: c :: _ => negb ((b =? 128) && mkb c) | _ => true end
  | K2 => match s with c :: _ => negb (mkb c) | [] => true end
  end.

Definition hist (k : pk) (done : str) : bool :=
  match k with
  | K0 => true
  | K1 => match done with a :: _ => a =? 226 | [] => false end
  | K2 => match done with a :: b :: _ => (a =? 128) && (b =? 226) | _ => false end
  end.

Lemma copy_step ao brk k d a t acc done :
  rs ao acc = Some (brk, k, d) -> (k = K0 -> d = false) ->
  look k (a :: t) = true -> hist k done = true ->
  brk && (a =? nl) = false ->
  ((a =? 226) = true -> look K1 t = true) ->
  exists k' d', rs ao (a :: acc) = Some (brk, k', d') /\ (k' = K0 -> d' = false)
                /\ look k' t = true /\ hist k' (a :: done) = true.
Proof.
  intros Hrs Hd Hl Hh Hb H226. rewrite rs_cons, Hrs. cbn [step].
  destruct (a =? 226) eqn:E226.
  - exists K1. eexists. split; [reflexivity|]. split; [discriminate|]. split; [now apply H226|].
    cbn [hist]. exact E226.
  - rewrite andb_comm in Hb. destruct k.
    + rewrite Hb. exists K0, false. repeat split.
    + destruct (a =? 128) eqn:E128.
      * exists K2, d. split; [reflexivity|]. split; [discriminate|]. split.
        { cbn [look] in Hl |- *. destruct t as [|c r]; [reflexivity|]. rewrite E128 in Hl. exact Hl. }
        { cbn [hist] in Hh |- *. destruct done as [|a0 r0]; [discriminate|]. now rewrite E128, Hh. }
      * rewrite Hb. exists K0, false. repeat split.
    + cbn [look] in Hl. unfold mkb in Hl. apply negb_true_iff, orb_false_iff in Hl as [E1 E2].
      rewrite E1, E2, Hb. exists K0, false. repeat split.
Qed.

(* ---- skip_nls ---- *)
Fixpoint cnt (s : str) : nat :=
  match s with c :: r => if c =? nl then S (cnt r) else O | [] => O end.

Lemma repeat_cons_app {A} (x : A) n l : repeat x n ++ x :: l = x :: repeat x n ++ l.
Proof. induction n as [|n IH]; [reflexivity|]. cbn. now rewrite IH. Qed.

Lemma rev_repeat' {A} (x : A) n : rev (repeat x n) = repeat x n.
Proof.
  induction n as [|n IH]; [reflexivity|]. cbn. rewrite IH.
  rewrite <- (app_nil_r (repeat x n)) at 2. rewrite <- repeat_cons_app. reflexivity.
Qed.

Lemma skip_nls_eq s : forall acc, skip_nls s acc = (skipn (cnt s) s, repeat nl (cnt s) ++ acc).
Proof.
  induction s as [|c r IH]; intro acc; [reflexivity|].
  cbn [skip_nls cnt]. destruct (c =? nl) eqn:E; [|reflexivity].
  rewrite IH. apply N.eqb_eq in E. subst c. cbn [skipn repeat].
  rewrite repeat_cons_app. reflexivity.
Qed.

Lemma cnt_split s : s = repeat nl (cnt s) ++ skipn (cnt s) s.
Proof.
  induction s as [|c r IH]; [reflexivity|]. cbn [cnt]. destruct (c =? nl) eqn:E; [|reflexivity].
  apply N.eqb_eq in E. subst c. cbn [repeat skipn app]. now rewrite <- IH.
Qed.

Lemma rs_nls ao acc k d n :
  rs ao acc = Some (false, k, d) -> rs ao (repeat nl (S n) ++ acc) = Some (false, K0, false).
Proof.
  intro H. induction n as [|n IH].
  - cbn [repeat app]. rewrite rs_cons, H. destruct k; reflexivity.
  - change (repeat nl (S (S n)) ++ acc) with (nl :: (repeat nl (S n) ++ acc)).
    rewrite rs_cons, IH. reflexivity.
Qed.

Lemma drop_prefix_Some p : forall l r, drop_prefix p l = Some r -> l = p ++ r.
Proof.
  induction p as [|x p IH]; intros l r H.
  - cbn in H. now injection H as ->.
  - destruct l as [|y l]; [discriminate|]. cbn in H. destruct (x =? y) eqn:E; [|discriminate].
    apply N.eqb_eq in E. subst y. cbn. f_equal. now apply IH.
Qed.

Lemma strip_open ao st k d :
  run ao m_start st = Some (true, k, d) -> exists k' d', st = Some (false, k', d').
Proof.
  destruct st as [[[o k'] d']|]; [|discriminate]. destruct o; [|eauto].
  destruct k'; discriminate.
Qed.

Lemma strip_close ao st k d :
  run ao m_end st = Some (false, k, d) -> exists k' d', st = Some (true, k', d').
Proof.
  destruct st as [[[o k'] d']|]; [|discriminate]. destruct o; [eauto|].
  destruct k'; discriminate.
Qed.

(* ------------------------------------------------------------------ *)
(* the escaping loop                                                   *)
(* ------------------------------------------------------------------ *)
Lemma loop_inv ao brk : (brk = true -> ao = true) -> forall fuel s acc done k d,
  (List.length s <= fuel)%nat -> rs ao acc = Some (brk, k, d) -> (k = K0 -> d = false) ->
  look k s = true -> hist k done = true ->
  exists k' d', rs ao (escape_loop fuel s acc brk) = Some (brk, k', d')
                /\ (k' = K0 -> d' = false) /\ hist k' (rev s ++ done) = true.
Proof.
  intro Hao. induction fuel as [|f IH]; intros s acc done k d Hlen Hrs Hd Hl Hh.
  - destruct s; [|cbn in Hlen; lia]. exists k, d. repeat split; assumption.
  - destruct s as [|a t]; [exists k, d; repeat split; assumption|].
    cbn [escape_loop]. cbn [List.length] in Hlen.
    destruct (brk && (a =? nl)) eqn:Eb.
    + (* newline: close / un-open, copy the newlines, reopen *)
      apply andb_true_iff in Eb as [-> Ea]. specialize (Hao eq_refl). subst ao.
      remember (match drop_prefix rstart acc with
                | Some acc' => acc' | None => rend ++ acc end) as acc1 eqn:Eacc1.
      assert (H1 : exists k1 d1, rs true acc1 = Some (false, k1, d1)).
      { subst acc1. destruct (drop_prefix rstart acc) as [acc'|] eqn:Edp.
        - apply drop_prefix_Some in Edp. subst acc. rewrite rs_app in Hrs.
          change (rev rstart) with m_start in Hrs. now apply strip_open in Hrs.
        - rewrite rs_app, Hrs. change (rev rend) with m_end. destruct k; eexists; eexists; reflexivity. }
      clear Eacc1. destruct H1 as [k1 [d1 H1]].
      cbv zeta. rewrite skip_nls_eq. cbv iota beta.
      assert (Hc : exists n, cnt (a :: t) = S n) by (cbn [cnt]; rewrite Ea; eauto).
      destruct Hc as [n Hc]. rewrite Hc.
      pose proof (rs_nls true acc1 k1 d1 n H1) as H2.
      assert (H3 : rs true (rstart ++ repeat nl (S n) ++ acc1) = Some (true, K0, false)).
      { rewrite rs_app, H2. reflexivity. }
      destruct (IH (skipn (S n) (a :: t)) (rstart ++ repeat nl (S n) ++ acc1) (repeat nl (S n) ++ done) K0 false) as [k' [d' [R1 [R2 R3]]]];
        try reflexivity.
      { rewrite skipn_length. cbn [List.length]. lia. }
      { exact H3. }
      exists k', d'. split; [exact R1|]. split; [exact R2|].
      rewrite (cnt_split (a :: t)) at 1. rewrite Hc, rev_app_distr, rev_repeat', <- app_assoc. exact R3.
    + assert (Hcopy : ((a =? 226) = true -> look K1 t = true) ->
         exists k' d', rs ao (escape_loop f t (a :: acc) brk) = Some (brk, k', d')
                /\ (k' = K0 -> d' = false) /\ hist k' (rev (a :: t) ++ done) = true).
      { intro H226. destruct (copy_step ao brk k d a t acc done Hrs Hd Hl Hh Eb H226) as [k1 [d1 [C1 [C2 [C3 C4]]]]].
        destruct (IH t (a :: acc) (a :: done) k1 d1) as [k' [d' [R1 [R2 R3]]]]; try assumption; [lia|].
        exists k', d'. split; [exact R1|]. split; [exact R2|].
        cbn [rev]. rewrite <- app_assoc. exact R3. }
      destruct t as [|b [|c r]]; try (apply Hcopy; intros _; reflexivity).
      destruct ((a =? 226) && (b =? 128) && ((c =? 185) || (c =? 186))) eqn:Em.
      * assert (Hq : rs ao (qmark :: acc) = Some (brk, K0, false)).
        { rewrite rs_cons, Hrs. destruct k; destruct brk; reflexivity. }
        destruct (IH r (qmark :: acc) (c :: b :: a :: done) K0 false) as [k' [d' [R1 [R2 R3]]]];
          try reflexivity; try assumption.
        { cbn [List.length] in Hlen. lia. }
        exists k', d'. split; [exact R1|]. split; [exact R2|].
        cbn [rev]. rewrite <- !app_assoc. exact R3.
      * apply Hcopy. intro H226. cbn [look]. unfold mkb. rewrite H226 in Em. cbn [andb] in Em.
        now rewrite Em.
Qed.

(* a buffer ending with E2 or E2 80 ends with an invalid rune *)
Lemma hist_invalid k done : hist k done = true -> k <> K0 -> last_rune_invalid_rev done = true.
Proof.
  intros H Hk. destruct k; [congruence| |].
  - destruct done as [|a r1]; [discriminate|]. cbn [hist] in H. apply N.eqb_eq in H. subst a.
    assert (V2 : forall l, valid2 l 226 = false) by (intro; unfold valid2; apply andb_false_r).
    assert (V3 : forall l c, valid3 l c 226 = false) by reflexivity.
    assert (V4 : forall l c1 c2, valid4 l c1 c2 226 = false)
      by (intros; unfold valid4; change (is_cont 226) with false; now rewrite andb_false_r).
    cbn [last_rune_invalid_rev]. change (226 <? 128) with false. cbv iota.
    destruct r1 as [|b1 r2]; [reflexivity|]. rewrite V2.
    destruct (rune_start b1); [reflexivity|].
    destruct r2 as [|b2 r3]; [reflexivity|]. rewrite V3.
    destruct (rune_start b2); [reflexivity|].
    destruct r3 as [|b3 r4]; [reflexivity|]. rewrite V4.
    destruct (rune_start b3); reflexivity.
  - destruct done as [|a [|b r]]; try discriminate. cbn [hist] in H.
    apply andb_true_iff in H as [Ha Hb]. apply N.eqb_eq in Ha, Hb. subst a b. reflexivity.
Qed.

Lemma escape_from_inv ao brk v p :
  (brk = true -> ao = true) ->
  sst ao v = Some (brk, K0, false) -> sst ao (escape_from v p brk) = Some (brk, K0, false).
Proof.
  intros Hao Hv. unfold escape_from. rewrite ?frev_eq.
  destruct (loop_inv ao brk Hao (List.length p) p (rev v) (rev v) K0 false) as [k' [d' [R1 [R2 R3]]]];
    try reflexivity.
  { unfold rs. now rewrite rev_involutive. }
  destruct (last_rune_invalid_rev (rev p ++ rev v)) eqn:E.
  - change (rs ao (qmark :: escape_loop (List.length p) p (rev v) brk) = Some (brk, K0, false)).
    rewrite rs_cons, R1. destruct k', brk; reflexivity.
  - change (rs ao (escape_loop (List.length p) p (rev v) brk) = Some (brk, K0, false)).
    rewrite R1. destruct k'.
    + now rewrite R2.
    + rewrite (hist_invalid K1 _ R3) in E by discriminate. discriminate.
    + rewrite (hist_invalid K2 _ R3) in E by discriminate. discriminate.
Qed.

(* ------------------------------------------------------------------ *)
(* buffer operations                                                   *)
(* ------------------------------------------------------------------ *)
Lemma drop_suffix_Some suf s w : drop_suffix suf s = Some w -> s = w ++ suf.
Proof.
  unfold drop_suffix. rewrite ?frev_eq. destruct (drop_prefix (rev suf) (rev s)) as [r|] eqn:E; [|discriminate].
  intro H. injection H as <-. rewrite frev_eq. apply drop_prefix_Some in E.
  apply (f_equal (@rev N)) in E. rewrite rev_involutive, rev_app_distr, rev_involutive in E. exact E.
Qed.

Lemma strip_close_strict ao st :
  run ao m_end st = Some st0 -> st = Some (true, K0, false).
Proof.
  destruct st as [[[o k] d]|]; [|discriminate]. destruct o, k, d; cbn; intro H; try discriminate; reflexivity.
Qed.

Lemma strip_open_strict ao st :
  run ao m_start st = Some (true, K0, false) -> st = Some st0.
Proof.
  destruct st as [[[o k] d]|]; [|discriminate]. destruct ao, o, k, d; cbn; intro H; try discriminate; reflexivity.
Qed.

Lemma ff_imp (ao : bool) : false = true -> ao = true.
Proof. discriminate. Qed.

Definition Inv (ao : bool) (b : rbuf) : Prop :=
  bmode b = SafeEscaped /\ bopen b = false /\ sst ao (bvalid b) = Some st0.

Definition piece_ok (ao : bool) (p : piece) : Prop :=
  match p with
  | PRaw r => sst ao r = Some st0
  | PUnsafe _ => ao = true
  | _ => True
  end.

Lemma set_mode_safe_to b m :
  bmode b = SafeEscaped -> bopen b = false -> m <> SafeEscaped ->
  set_mode b m = mkbuf (escape_from (bvalid b) (bpend b) false) [] m false.
Proof.
  destruct b as [v p md o]; cbn [bmode bopen bvalid bpend]; intros -> -> Hm.
  unfold set_mode. cbn [bmode].
  destruct m; [|congruence|]; cbn [omode_eqb]; unfold escape_to_end, validate_all, whole;
    cbn [bmode bopen bvalid bpend]; now rewrite app_nil_r.
Qed.

Lemma set_mode_same b : set_mode b (bmode b) = b.
Proof. unfold set_mode. destruct (bmode b); reflexivity. Qed.

Lemma write_unsafe v1 s :
  sst true v1 = Some st0 ->
  exists v2, buf_write (mkbuf v1 [] UnsafeEscaped false) s = mkbuf v2 s UnsafeEscaped true
             /\ sst true v2 = Some (true, K0, false).
Proof.
  intro H. unfold buf_write, start_write, start_redactable, whole. cbn [bmode bopen bvalid bpend].
  rewrite app_nil_r. destruct (drop_suffix m_end v1) as [w'|] eqn:E.
  - exists w'. split; [reflexivity|]. apply drop_suffix_Some in E. subst v1.
    unfold sst in H. rewrite run_app in H. now apply strip_close_strict in H.
  - exists (v1 ++ m_start). split; [reflexivity|]. unfold sst in *. rewrite run_app, H. reflexivity.
Qed.

Lemma leave_unsafe v2 s :
  sst true v2 = Some (true, K0, false) ->
  exists v3, set_mode (mkbuf v2 s UnsafeEscaped true) SafeEscaped = mkbuf v3 [] SafeEscaped false
             /\ sst true v3 = Some st0.
Proof.
  intro H. unfold set_mode. cbn [bmode omode_eqb]. unfold escape_to_end. cbn [bmode bopen bvalid bpend].
  pose proof (escape_from_inv true true v2 s (fun _ => eq_refl) H) as HR.
  set (R := escape_from v2 s true) in *. clearbody R.
  unfold end_redactable, whole. cbn [bmode bopen bvalid bpend]. rewrite app_nil_r.
  destruct R as [|x R']; [discriminate|]. set (R := x :: R') in *. clearbody R.
  destruct (drop_suffix m_start R) as [w'|] eqn:E.
  - exists w'. unfold validate_all, whole. cbn [bmode bopen bvalid bpend]. rewrite app_nil_r.
    split; [reflexivity|]. apply drop_suffix_Some in E. subst R.
    unfold sst in HR. rewrite run_app in HR. now apply strip_open_strict in HR.
  - exists (R ++ m_end). unfold validate_all, whole. cbn [bmode bopen bvalid bpend]. rewrite app_nil_r.
    split; [reflexivity|]. unfold sst in *. rewrite run_app, HR. reflexivity.
Qed.

Lemma print_piece_inv ao b p : Inv ao b -> piece_ok ao p -> Inv ao (print_piece b p).
Proof.
  intros [Hm [Ho Hv]] Hp. destruct p as [s|s|s|s]; cbn [print_piece piece_ok] in *.
  - (* literal *)
    unfold buf_write, start_write. rewrite Hm. cbn [bmode bopen bvalid]. repeat split; assumption.
  - (* unsafe *)
    subst ao. rewrite Hm. rewrite (set_mode_safe_to b) by (assumption || discriminate).
    pose proof (escape_from_inv true false (bvalid b) (bpend b) (ff_imp true) Hv) as H1.
    destruct (write_unsafe _ s H1) as [v2 [E2 H2]]. rewrite E2.
    destruct (leave_unsafe v2 s H2) as [v3 [E3 H3]]. rewrite E3.
    repeat split. exact H3.
  - (* safe *)
    assert (E : set_mode b SafeEscaped = b) by (rewrite <- Hm; apply set_mode_same).
    rewrite E. unfold buf_write, start_write. rewrite !Hm. cbv zeta iota.
    unfold set_mode. cbn [bmode omode_eqb]. rewrite Ho.
    repeat split. exact Hv.
  - (* raw *)
    rewrite Hm. rewrite (set_mode_safe_to b) by (assumption || discriminate).
    pose proof (escape_from_inv ao false (bvalid b) (bpend b) (ff_imp ao) Hv) as H1.
    unfold buf_write, start_write. cbn [bmode bopen bvalid bpend app].
    unfold set_mode. cbn [bmode omode_eqb bopen]. unfold validate_all, whole. cbn [bmode bopen bvalid bpend].
    repeat split. cbn [bvalid]. unfold sst in *. rewrite run_app, H1. exact Hp.
Qed.

Lemma print_pieces_inv ao ps : forall b, Inv ao b -> Forall (piece_ok ao) ps ->
  Inv ao (fold_left print_piece ps b).
Proof.
  induction ps as [|p ps IH]; intros b Hb Hf; [exact Hb|].
  inversion Hf; subst. cbn [fold_left]. apply IH; [|assumption]. now apply print_piece_inv.
Qed.

Lemma sprint_inv ao ps : Forall (piece_ok ao) ps -> sst ao (sprint_pieces ps) = Some st0.
Proof.
  intro Hf. unfold sprint_pieces, print_pieces.
  assert (H0 : Inv ao (set_mode buf_empty SafeEscaped)) by (repeat split).
  pose proof (print_pieces_inv ao ps _ H0 Hf) as [Hm [Ho Hv]].
  set (b := fold_left print_piece ps (set_mode buf_empty SafeEscaped)) in *. clearbody b.
  unfold buf_take, buf_finalize. rewrite Hm. unfold escape_to_end. cbn [bopen bmode].
  rewrite Ho. unfold whole. cbn [bvalid bpend]. rewrite app_nil_r.
  apply escape_from_inv; [discriminate|assumption].
Qed.

(* ---- with opening markers forbidden, a live run means: no marker at all ---- *)
Definition alive (r : option ast) : bool := match r with Some _ => true | None => false end.

Lemma corr_nm s : forall d,
   (alive (run false s (Some (false, K0, d))) = true -> has_markers s = false)
/\ (alive (run false s (Some (false, K1, d))) = true -> has_markers (226 :: s) = false)
/\ (alive (run false s (Some (false, K2, d))) = true -> has_markers (226 :: 128 :: s) = false).
Proof.
  unfold has_markers. induction s as [|x s IH]; intro d.
  - repeat split; reflexivity.
  - destruct (IH d) as [I0 [I1 I2]]. destruct (IH false) as [J0 _]. destruct (IH true) as [_ [T1 _]].
    repeat split; rewrite run_cons; cbn [step]; rewrite ?andb_false_r.
    + destruct (x =? 226) eqn:E226.
      * apply N.eqb_eq in E226. subst x. exact I1.
      * rewrite tokenize_cons_plain by assumption. exact J0.
    + destruct (x =? 226) eqn:E226.
      * apply N.eqb_eq in E226. subst x. rewrite tok_226_other by reflexivity. exact T1.
      * destruct (x =? 128) eqn:E128.
        { apply N.eqb_eq in E128. subst x. exact I2. }
        { rewrite tok_226_other by assumption. rewrite tokenize_cons_plain by assumption. exact J0. }
    + destruct (x =? 226) eqn:E226.
      * apply N.eqb_eq in E226. subst x. rewrite tok_226_128_other by reflexivity. exact T1.
      * destruct (x =? 185) eqn:E185; [cbn [orb negb]; rewrite run_None; discriminate|].
        destruct (x =? 186) eqn:E186; [rewrite run_None; discriminate|].
        rewrite tok_226_128_other by assumption. rewrite tokenize_cons_plain by assumption. exact J0.
Qed.

Lemma sst_no_markers s st : sst false s = Some st -> has_markers s = false.
Proof.
  intro H. destruct (corr_nm s false) as [C _]. apply C.
  change (alive (sst false s) = true). now rewrite H.
Qed.

(* ------------------------------------------------------------------ *)
(* N1, N2, N3                                                          *)
(* ------------------------------------------------------------------ *)

(* what a RedactableString argument must satisfy: well-formed markers, and no
   dangling E2 / E2 80 at its end or just before its trailing markers *)
Definition raw_ok (r : str) : Prop := sst true r = Some st0.

Lemma raw_ok_wf r : raw_ok r -> wf_red r = true.
Proof. intro H. exact (sst_wf r _ _ H). Qed.

Definition pieces_ok (ps : list piece) : Prop :=
  Forall (fun p => match p with PRaw r => raw_ok r | _ => True end) ps.

Lemma pieces_ok_piece_ok ps : pieces_ok ps -> Forall (piece_ok true) ps.
Proof.
  intro H. induction H as [|p ps Hp _ IH]; constructor; [|exact IH].
  destruct p; cbn; trivial.
Qed.

(* the output of the printer is itself a valid raw argument (closure) *)
Theorem sprint_raw_ok ps : pieces_ok ps -> raw_ok (sprint_pieces ps).
Proof. intro H. apply sprint_inv. now apply pieces_ok_piece_ok. Qed.

(* N1 *)
Theorem wf_unsafe s : wf_red (sprint_pieces [PUnsafe s]) = true.
Proof. apply raw_ok_wf, sprint_raw_ok. repeat constructor. Qed.

(* N2 *)
Theorem wf_safe s : wf_red (sprint_pieces [PSafe s]) = true.
Proof. apply raw_ok_wf, sprint_raw_ok. repeat constructor. Qed.

Theorem safe_no_markers s : has_markers (sprint_pieces [PSafe s]) = false.
Proof. apply (sst_no_markers _ st0), sprint_inv. repeat constructor. Qed.

(* more generally: literals and safe arguments never produce a marker *)
Theorem safe_pieces_no_markers ps :
  Forall (fun p => match p with PLit _ | PSafe _ => True | _ => False end) ps ->
  has_markers (sprint_pieces ps) = false.
Proof.
  intro H. apply (sst_no_markers _ st0), sprint_inv.
  induction H as [|p ps Hp _ IH]; constructor; [|exact IH]. destruct p; cbn; tauto.
Qed.

(* N3, corrected: see the counter-examples below for why [wf_red r] alone is
   not enough for raw pieces *)
Theorem wf_pieces ps : pieces_ok ps -> wf_red (sprint_pieces ps) = true.
Proof. intro H. now apply raw_ok_wf, sprint_raw_ok. Qed.

(* N3 as stated is FALSE: *)
Example wf_pieces_stated_false_1 :
  let ps := [PRaw [226]; PSafe [128; 185]] in
  Forall (fun p => match p with PRaw r => wf_red r = true | _ => True end) ps
  /\ wf_red (sprint_pieces ps) = false.
Proof. split; [repeat constructor|vm_compute; reflexivity]. Qed.

Example wf_pieces_stated_false_2 :
  let ps := [PRaw (m_start ++ [226; 128] ++ m_end); PUnsafe [186; 97]] in
  Forall (fun p => match p with PRaw r => wf_red r = true | _ => True end) ps
  /\ wf_red (sprint_pieces ps) = false
  /\ redact (sprint_pieces ps) = m_redacted ++ [97] ++ m_end.   (* the unsafe 'a' leaks *)
Proof. split; [repeat constructor|split; vm_compute; reflexivity]. Qed.

(* ------------------------------------------------------------------ *)
(* N4 / N5 : what Redact() keeps, followed through the automaton       *)
(* ------------------------------------------------------------------ *)
(* Redact() on a well-formed token list *)
Fixpoint rv (l : list tok) (o : bool) : str :=
  match l with
  | [] => []
  | TOpen :: r => rv r true
  | TClose :: r => m_redacted ++ rv r false
  | TB b :: r => if o then rv r o else b :: rv r o
  end.

Lemma redact_toks_rv l :
  (wf_toks l false = true -> untok (redact_toks l None) = rv l false)
  /\ (forall p, wf_toks l true = true -> untok (redact_toks l (Some p)) = rv l true).
Proof.
  induction l as [|t l [IH0 IH1]]; [split; [reflexivity|discriminate]|].
  split.
  - intro H. destruct t as [| |b]; cbn [wf_toks negb andb] in H.
    + cbn [redact_toks rv]. now apply IH1.
    + discriminate.
    + apply andb_true_iff in H as [_ H]. cbn [redact_toks rv].
      change (untok (TB b :: redact_toks l None)) with (b :: untok (redact_toks l None)).
      f_equal. now apply IH0.
  - intros p H. destruct t as [| |b]; cbn [wf_toks negb andb] in H.
    + discriminate.
    + cbn [redact_toks rv].
      change (untok (TOpen :: TB 195 :: TB 151 :: TClose :: redact_toks l None))
        with (m_redacted ++ untok (redact_toks l None)).
      f_equal. now apply IH0.
    + apply andb_true_iff in H as [_ H]. cbn [redact_toks rv]. now apply IH1.
Qed.

Lemma redact_rv s : wf_red s = true -> redact s = rv (tokenize s) false.
Proof. intro H. unfold redact. now apply (proj1 (redact_toks_rv (tokenize s))). Qed.

(* the view: bytes outside regions, in reverse, computed along the automaton *)
Definition rmred : str := rev m_redacted.

Definition vout (st st' : option ast) (x : N) (out : str) : str :=
  match st, st' with
  | Some (false, _, _), Some (false, _, _) => x :: out
  | Some (false, _, _), Some (true, _, _) => tl (tl out)
  | Some (true, _, _), Some (false, _, _) => rmred ++ out
  | _, _ => out
  end.

Definition vstep (p : option ast * str) (x : N) : option ast * str :=
  (step true (fst p) x, vout (fst p) (step true (fst p) x) x (snd p)).

Definition vrun (s : str) (p : option ast * str) : option ast * str := fold_left vstep s p.

Lemma vrun_cons x s p : vrun (x :: s) p = vrun s (vstep p x).
Proof. reflexivity. Qed.

Lemma vrun_app a b p : vrun (a ++ b) p = vrun b (vrun a p).
Proof. unfold vrun. apply fold_left_app. Qed.

Lemma vrun_fst s : forall p, fst (vrun s p) = run true s (fst p).
Proof. induction s as [|x s IH]; intro p; [reflexivity|]. rewrite vrun_cons, run_cons, IH. reflexivity. Qed.

Definition okout (o : bool) (pre out0 : str) : str := if o then out0 else pre ++ out0.

Lemma vcorr s : forall o d out0,
   (alive (run true s (Some (o, K0, d))) = true ->
      rev (snd (vrun s (Some (o, K0, d), out0))) = rev out0 ++ rv (tokenize s) o)
/\ (alive (run true s (Some (o, K1, d))) = true ->
      rev (snd (vrun s (Some (o, K1, d), okout o [226] out0))) = rev out0 ++ rv (tokenize (226 :: s)) o)
/\ (alive (run true s (Some (o, K2, d))) = true ->
      rev (snd (vrun s (Some (o, K2, d), okout o [128; 226] out0))) = rev out0 ++ rv (tokenize (226 :: 128 :: s)) o).
Proof.
  induction s as [|x s IH]; intros o d out0.
  - repeat split; intros _; destruct o; cbn; rewrite ?app_nil_r, <- ?app_assoc; reflexivity.
  - repeat split; intro Hal; rewrite run_cons in Hal; rewrite vrun_cons; unfold vstep; cbn [fst snd];
      cbn [step] in Hal |- *.
    + destruct (x =? 226) eqn:E226.
      * apply N.eqb_eq in E226. subst x. destruct (IH o d out0) as [_ [I1 _]].
        etransitivity; [|exact (I1 Hal)]. destruct o; reflexivity.
      * rewrite tokenize_cons_plain by assumption.
        destruct ((x =? nl) && o) eqn:En; [rewrite run_None in Hal; discriminate|].
        destruct (IH o false (okout o [x] out0)) as [J0 _].
        replace (vout (Some (o, K0, d)) (Some (o, K0, false)) x out0) with (okout o [x] out0)
          by (destruct o; reflexivity).
        etransitivity; [exact (J0 Hal)|]. destruct o; cbn [okout rv app rev]; rewrite <- ?app_assoc; reflexivity.
    + destruct (x =? 226) eqn:E226.
      * apply N.eqb_eq in E226. subst x. rewrite tok_226_other by reflexivity.
        destruct (IH o true (okout o [226] out0)) as [_ [T1 _]].
        replace (vout (Some (o, K1, d)) (Some (o, K1, true)) 226 (okout o [226] out0))
          with (okout o [226] (okout o [226] out0)) by (destruct o; reflexivity).
        etransitivity; [exact (T1 Hal)|]. destruct o; cbn [okout rv app rev]; rewrite <- ?app_assoc; reflexivity.
      * destruct (x =? 128) eqn:E128.
        { apply N.eqb_eq in E128. subst x. destruct (IH o d out0) as [_ [_ I2]].
          etransitivity; [|exact (I2 Hal)]. destruct o; reflexivity. }
        rewrite tok_226_other by assumption. rewrite tokenize_cons_plain by assumption.
        destruct ((x =? nl) && o) eqn:En; [rewrite run_None in Hal; discriminate|].
        destruct (IH o false (okout o [x; 226] out0)) as [J0 _].
        replace (vout (Some (o, K1, d)) (Some (o, K0, false)) x (okout o [226] out0))
          with (okout o [x; 226] out0) by (destruct o; reflexivity).
        etransitivity; [exact (J0 Hal)|]. destruct o; cbn [okout rv app rev]; rewrite <- ?app_assoc; reflexivity.
    + destruct (x =? 226) eqn:E226.
      * apply N.eqb_eq in E226. subst x. rewrite tok_226_128_other by reflexivity.
        destruct (IH o true (okout o [128; 226] out0)) as [_ [T1 _]].
        replace (vout (Some (o, K2, d)) (Some (o, K1, true)) 226 (okout o [128; 226] out0))
          with (okout o [226] (okout o [128; 226] out0)) by (destruct o; reflexivity).
        etransitivity; [exact (T1 Hal)|]. destruct o; cbn [okout rv app rev]; rewrite <- ?app_assoc; reflexivity.
      * destruct (x =? 185) eqn:E185.
        { apply N.eqb_eq in E185. subst x. destruct o; cbn [orb negb] in Hal |- *;
            [rewrite run_None in Hal; discriminate|].
          change (tokenize (226 :: 128 :: 185 :: s)) with (TOpen :: tokenize s). cbn [rv].
          destruct (IH true d out0) as [Q0 _]. cbn [vout okout app tl]. exact (Q0 Hal). }
        destruct (x =? 186) eqn:E186.
        { apply N.eqb_eq in E186. subst x. destruct o; [|rewrite run_None in Hal; discriminate].
          change (tokenize (226 :: 128 :: 186 :: s)) with (TClose :: tokenize s). cbn [rv].
          destruct (IH false d (rmred ++ out0)) as [Q0 _]. cbn [vout okout]. etransitivity; [exact (Q0 Hal)|].
          rewrite rev_app_distr. unfold rmred. rewrite rev_involutive, <- app_assoc. reflexivity. }
        rewrite tok_226_128_other by assumption. rewrite tokenize_cons_plain by assumption.
        destruct ((x =? nl) && o) eqn:En; [rewrite run_None in Hal; discriminate|].
        destruct (IH o false (okout o [x; 128; 226] out0)) as [J0 _].
        replace (vout (Some (o, K2, d)) (Some (o, K0, false)) x (okout o [128; 226] out0))
          with (okout o [x; 128; 226] out0) by (destruct o; reflexivity).
        etransitivity; [exact (J0 Hal)|]. destruct o; cbn [okout rv app rev]; rewrite <- ?app_assoc; reflexivity.
Qed.

(* reversed view of a whole string *)
Definition vo (s : str) : str := snd (vrun s (Some st0, [])).

Lemma redact_vo s : raw_ok s -> redact s = rev (vo s).
Proof.
  intro H. rewrite redact_rv by now apply raw_ok_wf.
  destruct (vcorr s false false []) as [C _]. symmetry. apply C.
  change (alive (sst true s) = true). now rewrite H.
Qed.

(* ---- the view of a reversed accumulator ---- *)
Definition V (acc : str) : option ast * str := vrun (rev acc) (Some st0, []).
Definition rvo (acc : str) : str := snd (V acc).

Lemma V_fst acc : fst (V acc) = rs true acc.
Proof. unfold V. rewrite vrun_fst. reflexivity. Qed.

Lemma V_cons x acc : V (x :: acc) = vstep (V acc) x.
Proof. unfold V. cbn [rev]. rewrite vrun_app. reflexivity. Qed.

Lemma rvo_cons x acc :
  rvo (x :: acc) = vout (rs true acc) (step true (rs true acc) x) x (rvo acc).
Proof. unfold rvo. rewrite V_cons. unfold vstep. cbn [snd]. rewrite V_fst. reflexivity. Qed.

Lemma rvo_vo s : vo s = rvo (rev s).
Proof. unfold vo, rvo, V. now rewrite rev_involutive. Qed.

Lemma rvo_open_push x acc k d k' d' :
  rs true acc = Some (true, k, d) -> step true (rs true acc) x = Some (true, k', d') ->
  rvo (x :: acc) = rvo acc.
Proof. intros H1 H2. rewrite rvo_cons, H2, H1. reflexivity. Qed.

Lemma rvo_closed_push x acc k d k' d' :
  rs true acc = Some (false, k, d) -> step true (rs true acc) x = Some (false, k', d') ->
  rvo (x :: acc) = x :: rvo acc.
Proof. intros H1 H2. rewrite rvo_cons, H2, H1. reflexivity. Qed.

Lemma rvo_rstart acc k d :
  rs true acc = Some (false, k, d) -> rvo (rstart ++ acc) = rvo acc.
Proof.
  intro H. change (rstart ++ acc) with (185 :: 128 :: 226 :: acc).
  rewrite rvo_cons, !rs_cons, rvo_cons, rs_cons, rvo_cons, H. destruct k; reflexivity.
Qed.

Lemma rvo_rend acc k d :
  rs true acc = Some (true, k, d) -> rvo (rend ++ acc) = rmred ++ rvo acc.
Proof.
  intro H. change (rend ++ acc) with (186 :: 128 :: 226 :: acc).
  rewrite rvo_cons, !rs_cons, rvo_cons, rs_cons, rvo_cons, H. destruct k; reflexivity.
Qed.

Lemma rvo_nls acc k d n :
  rs true acc = Some (false, k, d) -> rvo (repeat nl n ++ acc) = repeat nl n ++ rvo acc.
Proof.
  intro H. induction n as [|n IH]; [reflexivity|].
  cbn [repeat app]. rewrite rvo_cons, IH. destruct n as [|n].
  - cbn [repeat app]. rewrite H. destruct k; reflexivity.
  - rewrite (rs_nls true acc k d n H). reflexivity.
Qed.

(* "the buffer ends with the opening marker" *)
Definition jb (acc : str) : bool :=
  match drop_prefix rstart acc with Some _ => true | None => false end.

Lemma jb_rstart acc : jb (rstart ++ acc) = true.
Proof. reflexivity. Qed.

Lemma jb_push ao acc o k d a t :
  rs ao acc = Some (o, k, d) -> look k (a :: t) = true -> jb (a :: acc) = false.
Proof.
  intros H Hl. unfold jb. change rstart with [185; 128; 226]. cbn [drop_prefix].
  destruct (185 =? a) eqn:Ea; [|reflexivity].
  destruct acc as [|y [|z r]]; try reflexivity. { destruct (128 =? y); reflexivity. }
  destruct (128 =? y) eqn:Ey; [|reflexivity]. destruct (226 =? z) eqn:Ez; [|reflexivity].
  exfalso. apply N.eqb_eq in Ea, Ey, Ez. subst a y z.
  rewrite !rs_cons in H. destruct (rs ao r) as [[[o' k'] d']|]; [|discriminate].
  cbn in H. injection H as _ <- _. cbn in Hl. discriminate.
Qed.

(* ---- the trailing run of markers of a (reversed) buffer ---- *)
Fixpoint tmr (a : str) : list bool :=
  match a with
  | x :: (y :: (z :: r)) =>
    if (y =? 128) && (z =? 226) then
      (if x =? 185 then true :: tmr r else if x =? 186 then false :: tmr r else [])
    else []
  | _ => []
  end.

Lemma tmr_rstart r : tmr (rstart ++ r) = true :: tmr r.
Proof. reflexivity. Qed.
Lemma tmr_rend r : tmr (rend ++ r) = false :: tmr r.
Proof. reflexivity. Qed.

Lemma tmr_true a l : tmr a = true :: l -> exists r, a = rstart ++ r /\ l = tmr r.
Proof.
  destruct a as [|x [|y [|z r]]]; try discriminate. cbn [tmr].
  destruct (y =? 128) eqn:Ey; [|discriminate]. destruct (z =? 226) eqn:Ez; [|discriminate]. cbn [andb].
  destruct (x =? 185) eqn:Ex.
  - intro H. injection H as <-. apply N.eqb_eq in Ex, Ey, Ez. subst. exists r. split; reflexivity.
  - destruct (x =? 186); discriminate.
Qed.

Lemma tmr_false a l : tmr a = false :: l -> exists r, a = rend ++ r /\ l = tmr r.
Proof.
  destruct a as [|x [|y [|z r]]]; try discriminate. cbn [tmr].
  destruct (y =? 128) eqn:Ey; [|discriminate]. destruct (z =? 226) eqn:Ez; [|discriminate]. cbn [andb].
  destruct (x =? 185) eqn:Ex; [discriminate|].
  destruct (x =? 186) eqn:Ex2; [|discriminate].
  intro H. injection H as <-. apply N.eqb_eq in Ex2, Ey, Ez. subst. exists r. split; reflexivity.
Qed.

Lemma tmr_plain x acc : mkb x = false -> tmr (x :: acc) = [].
Proof.
  unfold mkb. intro H. apply orb_false_iff in H as [H1 H2].
  destruct acc as [|y [|z r]]; try reflexivity. cbn [tmr]. rewrite H1, H2.
  destruct ((y =? 128) && (z =? 226)); reflexivity.
Qed.

Lemma jb_tmr a : jb a = match tmr a with true :: _ => true | _ => false end.
Proof.
  unfold jb. change rstart with [185; 128; 226].
  destruct a as [|x [|y [|z r]]]; cbn [drop_prefix tmr].
  - reflexivity.
  - destruct (185 =? x); reflexivity.
  - destruct (185 =? x); [|reflexivity]. destruct (128 =? y); reflexivity.
  - rewrite (N.eqb_sym 185 x), (N.eqb_sym 128 y), (N.eqb_sym 226 z).
    destruct (x =? 185) eqn:Ex.
    + destruct (y =? 128); [|reflexivity]. destruct (z =? 226); reflexivity.
    + destruct ((y =? 128) && (z =? 226)); [|reflexivity]. destruct (x =? 186); reflexivity.
Qed.

(* the pending-marker count is determined by the top of the buffer *)
Lemma top_226 ao r o k d : rs ao (226 :: r) = Some (o, k, d) -> k = K1.
Proof.
  rewrite rs_cons. destruct (rs ao r) as [[[o' k'] d']|]; [|discriminate].
  cbn. intro H. now injection H as _ <- _.
Qed.

Lemma top_128_226 ao r o k d : rs ao (128 :: 226 :: r) = Some (o, k, d) -> k = K2.
Proof.
  rewrite !rs_cons. destruct (rs ao r) as [[[o' k'] d']|]; [|discriminate].
  cbn. intro H. now injection H as _ <- _.
Qed.

Lemma tmr_push ao acc o k d a t :
  rs ao acc = Some (o, k, d) -> look k (a :: t) = true -> tmr (a :: acc) = [].
Proof.
  intros H Hl. destruct acc as [|y [|z r]]; try reflexivity. cbn [tmr].
  destruct (y =? 128) eqn:Ey; [|reflexivity]. destruct (z =? 226) eqn:Ez; [|reflexivity]. cbn [andb].
  apply N.eqb_eq in Ey, Ez. subst y z. apply top_128_226 in H. subst k.
  cbn [look] in Hl. unfold mkb in Hl. apply negb_true_iff, orb_false_iff in Hl as [-> ->]. reflexivity.
Qed.

Lemma tmr_open a k d : rs true a = Some (true, k, d) -> tmr a = [] \/ jb a = true.
Proof.
  intro H. rewrite jb_tmr. destruct (tmr a) as [|[|] l] eqn:E; auto.
  exfalso. apply tmr_false in E as [r [-> _]]. rewrite rs_app in H. change (rev rend) with m_end in H.
  destruct (rs true r) as [[[o' k'] d']|]; [|discriminate]. destruct o', k'; discriminate.
Qed.

Lemma k0_tmr_app a1 a2 o1 d1 o2 d2 :
  rs true a1 = Some (o1, K0, d1) -> rs true a2 = Some (o2, K0, d2) -> tmr a1 = tmr a2 ->
  forall n l, List.length l = n -> tmr (l ++ a1) = tmr (l ++ a2).
Proof.
  intros H1 H2 Ht.
  assert (N1 : forall a o d, rs true a = Some (o, K0, d) ->
            (forall x, tmr (x :: a) = []) /\ (forall x y, tmr (x :: y :: a) = [])).
  { intros a o d H. split.
    - intro x. destruct a as [|y [|z r]]; try reflexivity. cbn [tmr].
      destruct (y =? 128) eqn:Ey; [|reflexivity]. destruct (z =? 226) eqn:Ez; [|reflexivity].
      apply N.eqb_eq in Ey, Ez. subst. apply top_128_226 in H. discriminate.
    - intros x y. destruct a as [|z r]; [reflexivity|]. cbn [tmr].
      destruct (y =? 128) eqn:Ey; [|reflexivity]. destruct (z =? 226) eqn:Ez; [|reflexivity].
      apply N.eqb_eq in Ez. subst. apply top_226 in H. discriminate. }
  destruct (N1 _ _ _ H1) as [A1 B1]. destruct (N1 _ _ _ H2) as [A2 B2].
  induction n as [n IH] using lt_wf_ind. intros l Hl.
  destruct l as [|x [|y [|z r]]].
  - exact Ht.
  - cbn [app]. now rewrite A1, A2.
  - cbn [app]. now rewrite B1, B2.
  - cbn [app tmr]. cbn [List.length] in Hl.
    rewrite (IH (List.length r)) by (reflexivity || lia). reflexivity.
Qed.

(* what the newline-breaking loop adds to the view: only the line shape matters *)
Fixpoint GA (j : bool) (s : str) (out : str) : str :=
  match s with
  | [] => out
  | x :: t => if x =? nl then GA true t (nl :: (if j then out else rmred ++ out))
              else GA false t out
  end.

Fixpoint JA (j : bool) (s : str) : bool :=
  match s with
  | [] => j
  | x :: t => if x =? nl then JA true t else JA false t
  end.

Fixpoint TA (t : list bool) (s : str) : list bool :=
  match s with
  | [] => t
  | x :: r => if x =? nl then TA [true] r else TA [] r
  end.

Lemma TA_nls n rest : TA [true] (repeat nl n ++ rest) = TA [true] rest.
Proof. induction n as [|n IH]; [reflexivity|]. exact IH. Qed.

Lemma GA_nls n rest out : GA true (repeat nl n ++ rest) out = GA true rest (repeat nl n ++ out).
Proof.
  revert out. induction n as [|n IH]; intro out; [reflexivity|].
  cbn [repeat app GA]. change (nl =? nl) with true. cbv iota. rewrite IH.
  now rewrite repeat_cons_app.
Qed.

Lemma JA_nls n rest : JA true (repeat nl n ++ rest) = JA true rest.
Proof. induction n as [|n IH]; [reflexivity|]. exact IH. Qed.

Lemma lri_nls n done : last_rune_invalid_rev (repeat nl (S n) ++ done) = false.
Proof. reflexivity. Qed.

Lemma loop_view : forall fuel s acc done k d,
  (List.length s <= fuel)%nat -> rs true acc = Some (true, k, d) -> (k = K0 -> d = false) ->
  look k s = true -> hist k done = true ->
  (jb acc = true -> last_rune_invalid_rev done = false) ->
  rvo (escape_loop fuel s acc true) = GA (jb acc) s (rvo acc)
  /\ jb (escape_loop fuel s acc true) = JA (jb acc) s
  /\ (jb (escape_loop fuel s acc true) = true -> last_rune_invalid_rev (rev s ++ done) = false)
  /\ tmr (escape_loop fuel s acc true) = TA (tmr acc) s.
Proof.
  induction fuel as [|f IH]; intros s acc done k d Hlen Hrs Hd Hl Hh Hj.
  - destruct s; [|cbn in Hlen; lia]. repeat split; assumption || reflexivity.
  - destruct s as [|a t]; [repeat split; assumption || reflexivity|].
    cbn [escape_loop]. cbn [List.length] in Hlen. cbn [andb].
    destruct (a =? nl) eqn:Ea.
    + remember (match drop_prefix rstart acc with
                | Some acc' => acc' | None => rend ++ acc end) as acc1 eqn:Eacc1.
      assert (H1 : exists k1 d1, rs true acc1 = Some (false, k1, d1)
                 /\ rvo acc1 = if jb acc then rvo acc else rmred ++ rvo acc).
      { subst acc1. unfold jb. destruct (drop_prefix rstart acc) as [acc'|] eqn:Edp.
        - apply drop_prefix_Some in Edp. subst acc. pose proof Hrs as Hrs'. rewrite rs_app in Hrs'.
          change (rev rstart) with m_start in Hrs'. apply strip_open in Hrs' as [k1 [d1 Hrs']].
          exists k1, d1. split; [exact Hrs'|]. symmetry. exact (rvo_rstart _ _ _ Hrs').
        - rewrite (rvo_rend _ _ _ Hrs). rewrite rs_app, Hrs. change (rev rend) with m_end.
          destruct k; eexists; eexists; (split; [reflexivity|reflexivity]). }
      clear Eacc1. destruct H1 as [k1 [d1 [H1 H1v]]].
      cbv zeta. rewrite skip_nls_eq. cbv iota beta.
      assert (Hc : exists n, cnt (a :: t) = S n) by (cbn [cnt]; rewrite Ea; eauto).
      destruct Hc as [n Hc]. rewrite Hc.
      pose proof (rs_nls true acc1 k1 d1 n H1) as H2.
      assert (H3 : rs true (rstart ++ repeat nl (S n) ++ acc1) = Some (true, K0, false)).
      { rewrite rs_app, H2. reflexivity. }
      destruct (IH (skipn (S n) (a :: t)) (rstart ++ repeat nl (S n) ++ acc1) (repeat nl (S n) ++ done) K0 false)
        as [R1 [R2 [R3 R4]]]; try reflexivity.
      { rewrite skipn_length. cbn [List.length]. lia. }
      { exact H3. }
      rewrite jb_rstart in R1, R2.
      rewrite (rvo_rstart _ _ _ H2), (rvo_nls _ _ _ _ H1), H1v in R1.
      assert (Es : a :: t = repeat nl (S n) ++ skipn (S n) (a :: t)).
      { rewrite <- Hc. apply cnt_split. }
      split; [|split; [|split]].
      * rewrite R1. rewrite Es at 2. cbn [repeat app GA]. change (nl =? nl) with true. cbv iota.
        rewrite GA_nls. now rewrite repeat_cons_app.
      * rewrite R2. rewrite Es at 2. cbn [repeat app JA]. change (nl =? nl) with true. cbv iota.
        now rewrite JA_nls.
      * intro Hjb. specialize (R3 Hjb). rewrite Es at 1. rewrite rev_app_distr, rev_repeat', <- app_assoc. exact R3.
      * rewrite R4, tmr_rstart. change (repeat nl (S n) ++ acc1) with (nl :: (repeat nl n ++ acc1)).
        rewrite (tmr_plain nl) by reflexivity. rewrite Es at 2. cbn [repeat app TA]. change (nl =? nl) with true.
        cbv iota. now rewrite TA_nls.
    + assert (Hb : true && (a =? nl) = false) by (now rewrite Ea).
      assert (Hcopy : ((a =? 226) = true -> look K1 t = true) ->
         rvo (escape_loop f t (a :: acc) true) = GA (jb acc) (a :: t) (rvo acc)
         /\ jb (escape_loop f t (a :: acc) true) = JA (jb acc) (a :: t)
         /\ (jb (escape_loop f t (a :: acc) true) = true ->
             last_rune_invalid_rev (rev (a :: t) ++ done) = false)
         /\ tmr (escape_loop f t (a :: acc) true) = TA (tmr acc) (a :: t)).
      { intro H226. destruct (copy_step true true k d a t acc done Hrs Hd Hl Hh Hb H226) as [k1 [d1 [C1 [C2 [C3 C4]]]]].
        pose proof (jb_push true acc true k d a t Hrs Hl) as Hjp.
        destruct (IH t (a :: acc) (a :: done) k1 d1) as [R1 [R2 [R3 R4]]]; try assumption; [lia| |].
        { rewrite Hjp. discriminate. }
        rewrite Hjp in R1, R2. rewrite rs_cons in C1. rewrite (rvo_open_push _ _ _ _ _ _ Hrs C1) in R1.
        rewrite (tmr_push true acc true k d a t Hrs Hl) in R4.
        cbn [GA JA TA]. rewrite Ea. split; [exact R1|]. split; [exact R2|]. split; [|exact R4].
        cbn [rev]. rewrite <- app_assoc. exact R3. }
      destruct t as [|b [|c r]]; try (apply Hcopy; intros _; reflexivity).
      destruct ((a =? 226) && (b =? 128) && ((c =? 185) || (c =? 186))) eqn:Em.
      * assert (Hq : step true (rs true acc) qmark = Some (true, K0, false)).
        { rewrite Hrs. destruct k; reflexivity. }
        assert (Hjq : jb (qmark :: acc) = false) by reflexivity.
        destruct (IH r (qmark :: acc) (c :: b :: a :: done) K0 false) as [R1 [R2 [R3 R4]]];
          try reflexivity; try assumption.
        { cbn [List.length] in Hlen. lia. }
        { now rewrite rs_cons. }
        { rewrite Hjq. discriminate. }
        rewrite Hjq in R1, R2. rewrite (rvo_open_push _ _ _ _ _ _ Hrs Hq) in R1.
        apply andb_true_iff in Em as [Em Ec]. apply andb_true_iff in Em as [Ea' Eb'].
        assert (Eb2 : (b =? nl) = false) by (apply eqb_nl_false; tauto).
        assert (Ec2 : (c =? nl) = false) by (apply eqb_nl_false; apply orb_true_iff in Ec; tauto).
        rewrite (tmr_plain qmark) in R4 by reflexivity.
        cbn [GA JA TA]. rewrite Ea, Eb2, Ec2. split; [exact R1|]. split; [exact R2|]. split; [|exact R4].
        cbn [rev]. rewrite <- !app_assoc. exact R3.
      * apply Hcopy. intro H226. cbn [look]. unfold mkb. rewrite H226 in Em. cbn [andb] in Em.
        now rewrite Em.
Qed.

(* ---- GA / JA depend only on the line shape ---- *)
Definition shape (s : str) : list bool := List.map is_empty (split_on nl s).

Fixpoint GS (j : bool) (sh : list bool) (out : str) : str :=
  match sh with
  | [] => out
  | e :: rest =>
    match rest with
    | [] => out
    | _ => GS true rest (nl :: (if j && e then out else rmred ++ out))
    end
  end.

Fixpoint JS (j : bool) (sh : list bool) : bool :=
  match sh with
  | [] => j
  | e :: rest => match rest with [] => j && e | _ => JS true rest end
  end.

Lemma split_on_cons c s : exists l ls, split_on c s = l :: ls.
Proof.
  induction s as [|x s [l [ls IH]]]; [eexists; eexists; reflexivity|].
  cbn [split_on]. destruct (x =? c); [eexists; eexists; reflexivity|].
  rewrite IH. eexists; eexists; reflexivity.
Qed.

Lemma GA_GS s : forall j out, GA j s out = GS j (shape s) out /\ JA j s = JS j (shape s).
Proof.
  unfold shape. induction s as [|x t IH]; intros j out.
  - cbn. now rewrite andb_true_r.
  - cbn [GA JA split_on]. destruct (split_on_cons nl t) as [l [ls E]].
    destruct (x =? nl) eqn:Ex.
    + destruct (IH true (nl :: (if j then out else rmred ++ out))) as [I1 I2].
      rewrite I1, I2, E. cbn [List.map GS JS]. now rewrite andb_true_r.
    + destruct (IH false out) as [I1 I2]. rewrite I1, I2, E. cbn [List.map is_empty GS JS].
      destruct (List.map is_empty ls); [now rewrite andb_false_r|].
      now rewrite andb_false_r.
Qed.

Lemma GA_shape j s1 s2 out : shape s1 = shape s2 -> GA j s1 out = GA j s2 out /\ JA j s1 = JA j s2.
Proof.
  intro H. destruct (GA_GS s1 j out) as [-> ->]. destruct (GA_GS s2 j out) as [-> ->].
  now rewrite H.
Qed.


Fixpoint TS (t : list bool) (sh : list bool) : list bool :=
  match sh with
  | [] => t
  | e :: rest => match rest with [] => if e then t else [] | _ => TS [true] rest end
  end.

Lemma TA_TS s : forall t, TA t s = TS t (shape s).
Proof.
  unfold shape. induction s as [|x s IH]; intro t; [reflexivity|].
  cbn [TA split_on]. destruct (split_on_cons nl s) as [l [ls E]].
  destruct (x =? nl) eqn:Ex.
  - rewrite IH, E. reflexivity.
  - rewrite IH, E. cbn [List.map is_empty TS]. destruct (List.map is_empty ls); [|reflexivity].
    destruct l; reflexivity.
Qed.

Lemma TA_shape t s1 s2 : shape s1 = shape s2 -> TA t s1 = TA t s2.
Proof. intro H. now rewrite !TA_TS, H. Qed.

(* ---- the loop without newline breaking (safe mode): it acts on the view ---- *)
Lemma loop_view_safe : forall fuel s acc done k d,
  (List.length s <= fuel)%nat -> rs true acc = Some (false, k, d) -> (k = K0 -> d = false) ->
  look k s = true -> hist k done = true ->
  rvo (escape_loop fuel s acc false) = escape_loop fuel s (rvo acc) false
  /\ tmr (escape_loop fuel s acc false) = match s with [] => tmr acc | _ => [] end.
Proof.
  induction fuel as [|f IH]; intros s acc done k d Hlen Hrs Hd Hl Hh.
  - destruct s; [|cbn in Hlen; lia]. split; reflexivity.
  - destruct s as [|a t]; [split; reflexivity|].
    cbn [escape_loop andb]. cbn [List.length] in Hlen.
    assert (Hcopy : ((a =? 226) = true -> look K1 t = true) ->
       rvo (escape_loop f t (a :: acc) false) = escape_loop f t (a :: rvo acc) false
       /\ tmr (escape_loop f t (a :: acc) false) = []).
    { intro H226. destruct (copy_step true false k d a t acc done Hrs Hd Hl Hh eq_refl H226) as [k1 [d1 [C1 [C2 [C3 C4]]]]].
      destruct (IH t (a :: acc) (a :: done) k1 d1) as [R1 R2]; try assumption; [lia|].
      rewrite rs_cons in C1. rewrite (rvo_closed_push _ _ _ _ _ _ Hrs C1) in R1.
      split; [exact R1|]. rewrite R2. rewrite (tmr_push true acc false k d a t Hrs Hl). now destruct t. }
    destruct t as [|b [|c r]]; try (apply Hcopy; intros _; reflexivity).
    destruct ((a =? 226) && (b =? 128) && ((c =? 185) || (c =? 186))) eqn:Em.
    + assert (Hq : step true (rs true acc) qmark = Some (false, K0, false)).
      { rewrite Hrs. destruct k; reflexivity. }
      destruct (IH r (qmark :: acc) (c :: b :: a :: done) K0 false) as [R1 R2];
        try reflexivity; try assumption.
      { cbn [List.length] in Hlen. lia. }
      { now rewrite rs_cons. }
      rewrite (rvo_closed_push _ _ _ _ _ _ Hrs Hq) in R1. split; [exact R1|].
      rewrite R2. rewrite (tmr_plain qmark) by reflexivity. now destruct r.
    + apply Hcopy. intro H226. cbn [look]. unfold mkb. rewrite H226 in Em. cbn [andb] in Em.
      now rewrite Em.
Qed.

(* ---- the invalid-last-rune test looks at most four bytes back and stops at
        a rune start: it cannot tell a buffer from its view ---- *)
Fixpoint cut (n : nat) (l : str) : str :=
  match n, l with
  | S n', x :: r => if rune_start x then [x] else x :: cut n' r
  | _, _ => []
  end.

Lemma lri_cut l : last_rune_invalid_rev l = last_rune_invalid_rev (cut 4 l).
Proof.
  destruct l as [|b0 r1]; [reflexivity|]. cbn [cut]. destruct (b0 <? 128) eqn:E0.
  { destruct (rune_start b0); cbn [last_rune_invalid_rev]; rewrite E0; reflexivity. }
  destruct (rune_start b0) eqn:R0.
  { assert (C0 : is_cont b0 = false) by (unfold rune_start in R0; now apply negb_true_iff in R0).
    cbn [last_rune_invalid_rev]. rewrite E0.
    destruct r1 as [|b1 r2]; [reflexivity|].
    destruct (rune_start b1). { unfold valid2. now rewrite C0, andb_false_r. }
    destruct r2 as [|b2 r3]; [reflexivity|].
    destruct (rune_start b2). { unfold valid3. now rewrite C0. }
    destruct r3 as [|b3 r4]; [reflexivity|].
    destruct (rune_start b3); [|reflexivity]. unfold valid4. now rewrite C0, andb_false_r. }
  destruct r1 as [|b1 r2]; [reflexivity|]. cbn [cut].
  destruct (rune_start b1) eqn:R1.
  { cbn [last_rune_invalid_rev]. now rewrite E0, R1. }
  destruct r2 as [|b2 r3]; [cbn [cut last_rune_invalid_rev]; now rewrite E0, R1|]. cbn [cut].
  destruct (rune_start b2) eqn:R2.
  { cbn [last_rune_invalid_rev]. now rewrite E0, R1, R2. }
  destruct r3 as [|b3 r4]; [cbn [cut last_rune_invalid_rev]; now rewrite E0, R1, R2|]. cbn [cut].
  destruct (rune_start b3) eqn:R3; cbn [last_rune_invalid_rev]; now rewrite E0, R1, R2, R3.
Qed.

Lemma cut_app_rel a1 a2 : (forall m, cut m a1 = cut m a2) ->
  forall rp n, cut n (rp ++ a1) = cut n (rp ++ a2).
Proof.
  intros H rp. induction rp as [|x rp IH]; intro n; [apply H|].
  destruct n; [reflexivity|]. cbn [app cut]. destruct (rune_start x); [reflexivity|]. now rewrite IH.
Qed.

Lemma top_K1 ao acc o d : rs ao acc = Some (o, K1, d) -> exists r, acc = 226 :: r.
Proof.
  destruct acc as [|y acc']; [discriminate|]. rewrite rs_cons.
  destruct (rs ao acc') as [[[o1 k1] d1]|]; [|discriminate]. cbn [step].
  destruct (y =? 226) eqn:E; [apply N.eqb_eq in E; subst; eauto|].
  destruct k1.
  - destruct ((y =? nl) && o1); discriminate.
  - destruct (y =? 128); [discriminate|]. destruct ((y =? nl) && o1); discriminate.
  - destruct (y =? 185); [destruct (o1 || negb ao); discriminate|].
    destruct (y =? 186); [destruct o1; discriminate|]. destruct ((y =? nl) && o1); discriminate.
Qed.

Lemma top_K2 ao acc o d : rs ao acc = Some (o, K2, d) -> exists r, acc = 128 :: 226 :: r.
Proof.
  destruct acc as [|y acc']; [discriminate|]. rewrite rs_cons.
  destruct (rs ao acc') as [[[o1 k1] d1]|] eqn:E1; [|discriminate]. cbn [step].
  destruct (y =? 226) eqn:E; [discriminate|].
  destruct k1.
  - destruct ((y =? nl) && o1); discriminate.
  - destruct (y =? 128) eqn:E128.
    + intros _. apply N.eqb_eq in E128. subst y. apply top_K1 in E1 as [r ->]. eauto.
    + destruct ((y =? nl) && o1); discriminate.
  - destruct (y =? 185); [destruct (o1 || negb ao); discriminate|].
    destruct (y =? 186); [destruct o1; discriminate|]. destruct ((y =? nl) && o1); discriminate.
Qed.

Lemma cut_rvo : forall acc k d, rs true acc = Some (false, k, d) -> forall m, cut m acc = cut m (rvo acc).
Proof.
  induction acc as [|x acc IH]; intros k d H m; [reflexivity|].
  pose proof H as H'. rewrite rs_cons in H'.
  destruct (rs true acc) as [[[o1 k1] d1]|] eqn:E1; [|discriminate].
  destruct o1.
  - (* the byte closes a region *)
    assert (Hx : x = 186 /\ k1 = K2).
    { cbn [step] in H'. destruct (x =? 226); [discriminate|]. destruct k1.
      - destruct ((x =? nl) && true); discriminate.
      - destruct (x =? 128); [discriminate|]. destruct ((x =? nl) && true); discriminate.
      - destruct (x =? 185); [discriminate|]. destruct (x =? 186) eqn:E6.
        + apply N.eqb_eq in E6. now split.
        + destruct ((x =? nl) && true); discriminate. }
    destruct Hx as [-> ->]. destruct (top_K2 _ _ _ _ E1) as [r ->].
    rewrite rvo_cons, E1. cbn [step N.eqb Pos.eqb vout].
    destruct m as [|[|[|m]]]; reflexivity.
  - rewrite rvo_cons, E1, H'. cbn [vout]. destruct m; [reflexivity|]. cbn [cut].
    now rewrite (IH _ _ eq_refl m).
Qed.

Lemma lri_rel a1 a2 k1 d1 k2 d2 rp :
  rs true a1 = Some (false, k1, d1) -> rs true a2 = Some (false, k2, d2) -> rvo a1 = rvo a2 ->
  last_rune_invalid_rev (rp ++ a1) = last_rune_invalid_rev (rp ++ a2).
Proof.
  intros H1 H2 Hv. rewrite (lri_cut (rp ++ a1)), (lri_cut (rp ++ a2)). f_equal.
  apply cut_app_rel. intro m. now rewrite (cut_rvo _ _ _ H1), (cut_rvo _ _ _ H2), Hv.
Qed.

(* ------------------------------------------------------------------ *)
(* two buffers with the same view                                      *)
(* ------------------------------------------------------------------ *)
Definition RelAt (st : ast) (v1 v2 : str) : Prop :=
  sst true v1 = Some st /\ sst true v2 = Some st /\ vo v1 = vo v2 /\ tmr (rev v1) = tmr (rev v2).
Definition RelC := RelAt st0.
Definition RelO := RelAt (true, K0, false).

Lemma rs_rev ao v : rs ao (rev v) = sst ao v.
Proof. unfold rs. now rewrite rev_involutive. Qed.

Lemma vo_rev acc : vo (rev acc) = rvo acc.
Proof. now rewrite rvo_vo, rev_involutive. Qed.

Lemma esc_closed_rel v1 v2 p :
  RelC v1 v2 -> RelC (escape_from v1 p false) (escape_from v2 p false).
Proof.
  intros [H1 [H2 [Hv Ht]]].
  split; [exact (escape_from_inv true false v1 p (ff_imp true) H1)|].
  split; [exact (escape_from_inv true false v2 p (ff_imp true) H2)|].
  unfold escape_from. rewrite ?frev_eq.
  pose proof (rs_rev true v1) as S1. rewrite H1 in S1.
  pose proof (rs_rev true v2) as S2. rewrite H2 in S2.
  destruct (loop_view_safe (List.length p) p (rev v1) (rev v1) K0 false (le_n _) S1 (fun _ => eq_refl) eq_refl eq_refl) as [A1 B1].
  destruct (loop_view_safe (List.length p) p (rev v2) (rev v2) K0 false (le_n _) S2 (fun _ => eq_refl) eq_refl eq_refl) as [A2 B2].
  destruct (loop_inv true false (ff_imp true) (List.length p) p (rev v1) (rev v1) K0 false (le_n _) S1 (fun _ => eq_refl) eq_refl eq_refl) as [k1 [d1 [C1 _]]].
  destruct (loop_inv true false (ff_imp true) (List.length p) p (rev v2) (rev v2) K0 false (le_n _) S2 (fun _ => eq_refl) eq_refl eq_refl) as [k2 [d2 [C2 _]]].
  rewrite <- !rvo_vo in A1, A2. rewrite Hv in A1. rewrite <- A2 in A1.
  assert (Bt : tmr (escape_loop (List.length p) p (rev v1) false) = tmr (escape_loop (List.length p) p (rev v2) false)).
  { rewrite B1, B2. now destruct p. }
  rewrite (lri_rel (rev v1) (rev v2) K0 false K0 false (rev p) S1 S2) by (now rewrite <- !rvo_vo).
  destruct (last_rune_invalid_rev (rev p ++ rev v2)).
  - rewrite !vo_rev, !rev_involutive. split.
    + assert (Q1 : step true (rs true (escape_loop (List.length p) p (rev v1) false)) qmark = Some (false, K0, false))
        by (rewrite C1; destruct k1; reflexivity).
      assert (Q2 : step true (rs true (escape_loop (List.length p) p (rev v2) false)) qmark = Some (false, K0, false))
        by (rewrite C2; destruct k2; reflexivity).
      rewrite (rvo_closed_push _ _ _ _ _ _ C1 Q1), (rvo_closed_push _ _ _ _ _ _ C2 Q2). now rewrite A1.
    + now rewrite !(tmr_plain qmark) by reflexivity.
  - rewrite !vo_rev, !rev_involutive. split; assumption.
Qed.

Lemma jb_lri a : jb a = true -> last_rune_invalid_rev a = false.
Proof.
  unfold jb. destruct (drop_prefix rstart a) as [r|] eqn:E; [|discriminate].
  intros _. apply drop_prefix_Some in E. subst a. reflexivity.
Qed.

Lemma esc_open_rel v1 v2 s1 s2 :
  RelO v1 v2 -> shape s1 = shape s2 -> RelO (escape_from v1 s1 true) (escape_from v2 s2 true).
Proof.
  intros [H1 [H2 [Hv Ht]]] Hs.
  split; [exact (escape_from_inv true true v1 s1 (fun _ => eq_refl) H1)|].
  split; [exact (escape_from_inv true true v2 s2 (fun _ => eq_refl) H2)|].
  unfold escape_from. rewrite ?frev_eq.
  pose proof (rs_rev true v1) as S1. rewrite H1 in S1.
  pose proof (rs_rev true v2) as S2. rewrite H2 in S2.
  destruct (loop_view (List.length s1) s1 (rev v1) (rev v1) K0 false (le_n _) S1 (fun _ => eq_refl) eq_refl eq_refl (jb_lri _)) as [A1 [J1 [L1 T1]]].
  destruct (loop_view (List.length s2) s2 (rev v2) (rev v2) K0 false (le_n _) S2 (fun _ => eq_refl) eq_refl eq_refl (jb_lri _)) as [A2 [J2 [L2 T2]]].
  destruct (loop_inv true true (fun _ => eq_refl) (List.length s1) s1 (rev v1) (rev v1) K0 false (le_n _) S1 (fun _ => eq_refl) eq_refl eq_refl) as [k1 [d1 [C1 _]]].
  destruct (loop_inv true true (fun _ => eq_refl) (List.length s2) s2 (rev v2) (rev v2) K0 false (le_n _) S2 (fun _ => eq_refl) eq_refl eq_refl) as [k2 [d2 [C2 _]]].
  assert (Ej : jb (rev v1) = jb (rev v2)) by (now rewrite !jb_tmr, Ht).
  rewrite <- !rvo_vo in A1, A2. rewrite Hv, Ej in A1. rewrite (proj1 (GA_shape _ _ _ _ Hs)) in A1. rewrite <- A2 in A1.
  rewrite Ht, (TA_shape _ _ _ Hs) in T1. rewrite <- T2 in T1.
  set (L1' := escape_loop (List.length s1) s1 (rev v1) true) in *.
  set (L2' := escape_loop (List.length s2) s2 (rev v2) true) in *.
  assert (F : forall L k d (b : bool), rs true L = Some (true, k, d) -> (jb L = true -> b = false) ->
            rvo (if b then qmark :: L else L) = rvo L /\ tmr (if b then qmark :: L else L) = tmr L).
  { intros L k d b HL Hb. destruct b; [|split; reflexivity]. split.
    - assert (Q : step true (rs true L) qmark = Some (true, K0, false)) by (rewrite HL; destruct k; reflexivity).
      exact (rvo_open_push _ _ _ _ _ _ HL Q).
    - rewrite (tmr_plain qmark) by reflexivity. destruct (tmr_open L k d HL) as [E|E]; [now rewrite E|].
      specialize (Hb E). discriminate. }
  destruct (F L1' k1 d1 _ C1 L1) as [F1 G1]. destruct (F L2' k2 d2 _ C2 L2) as [F2 G2].
  rewrite !vo_rev, !rev_involutive. split; [exact (eq_trans F1 (eq_trans A1 (eq_sym F2)))|exact (eq_trans G1 (eq_trans T1 (eq_sym G2)))].
Qed.

Definition sr (v : str) : str :=
  match drop_suffix m_end v with Some w => w | None => v ++ m_start end.
Definition er (R : str) : str :=
  match drop_suffix m_start R with Some w => w | None => R ++ m_end end.

Lemma drop_suffix_end_cases v :
  (exists w, drop_suffix m_end v = Some w /\ v = w ++ m_end)
  \/ (drop_suffix m_end v = None /\ forall l, tmr (rev v) <> false :: l).
Proof.
  destruct (drop_suffix m_end v) as [w|] eqn:E.
  - left. exists w. split; [reflexivity|]. now apply drop_suffix_Some.
  - right. split; [reflexivity|]. intros l Hl. apply tmr_false in Hl as [r [Hr _]].
    unfold drop_suffix in E. rewrite ?frev_eq in E. rewrite Hr in E. discriminate.
Qed.

Lemma drop_suffix_start_cases v :
  (exists w, drop_suffix m_start v = Some w /\ v = w ++ m_start)
  \/ (drop_suffix m_start v = None /\ forall l, tmr (rev v) <> true :: l).
Proof.
  destruct (drop_suffix m_start v) as [w|] eqn:E.
  - left. exists w. split; [reflexivity|]. now apply drop_suffix_Some.
  - right. split; [reflexivity|]. intros l Hl. apply tmr_true in Hl as [r [Hr _]].
    unfold drop_suffix in E. rewrite ?frev_eq in E. rewrite Hr in E. discriminate.
Qed.

Lemma sr_rel v1 v2 : RelC v1 v2 -> RelO (sr v1) (sr v2).
Proof.
  intros [H1 [H2 [Hv Ht]]]. unfold sr.
  destruct (drop_suffix_end_cases v1) as [[w1 [E1 X1]]|[E1 X1]];
  destruct (drop_suffix_end_cases v2) as [[w2 [E2 X2]]|[E2 X2]]; rewrite E1, E2.
  - subst v1 v2. unfold sst in H1, H2. rewrite run_app in H1, H2.
    apply strip_close_strict in H1, H2. rewrite !rev_app_distr in Ht.
    change (rev m_end) with rend in Ht. rewrite !tmr_rend in Ht. injection Ht as Ht.
    rewrite !rvo_vo, !rev_app_distr in Hv. change (rev m_end) with rend in Hv.
    rewrite (rvo_rend (rev w1) K0 false), (rvo_rend (rev w2) K0 false) in Hv by (now rewrite rs_rev).
    apply app_inv_head in Hv. rewrite <- !rvo_vo in Hv. repeat split; assumption.
  - exfalso. subst v1. rewrite rev_app_distr in Ht. change (rev m_end) with rend in Ht.
    rewrite tmr_rend in Ht. symmetry in Ht. exact (X2 _ Ht).
  - exfalso. subst v2. rewrite rev_app_distr in Ht. change (rev m_end) with rend in Ht.
    rewrite tmr_rend in Ht. exact (X1 _ Ht).
  - split; [unfold sst in *; rewrite run_app, H1; reflexivity|].
    split; [unfold sst in *; rewrite run_app, H2; reflexivity|].
    rewrite !rvo_vo, !rev_app_distr. change (rev m_start) with rstart.
    rewrite (rvo_rstart (rev v1) K0 false), (rvo_rstart (rev v2) K0 false) by (now rewrite rs_rev).
    rewrite <- !rvo_vo, !tmr_rstart. split; congruence.
Qed.

Lemma er_rel R1 R2 : RelO R1 R2 -> RelC (er R1) (er R2).
Proof.
  intros [H1 [H2 [Hv Ht]]]. unfold er.
  destruct (drop_suffix_start_cases R1) as [[w1 [E1 X1]]|[E1 X1]];
  destruct (drop_suffix_start_cases R2) as [[w2 [E2 X2]]|[E2 X2]]; rewrite E1, E2.
  - subst R1 R2. unfold sst in H1, H2. rewrite run_app in H1, H2.
    apply strip_open_strict in H1, H2. rewrite !rev_app_distr in Ht.
    change (rev m_start) with rstart in Ht. rewrite !tmr_rstart in Ht. injection Ht as Ht.
    rewrite !rvo_vo, !rev_app_distr in Hv. change (rev m_start) with rstart in Hv.
    rewrite (rvo_rstart (rev w1) K0 false), (rvo_rstart (rev w2) K0 false) in Hv by (now rewrite rs_rev).
    rewrite <- !rvo_vo in Hv. repeat split; assumption.
  - exfalso. subst R1. rewrite rev_app_distr in Ht. change (rev m_start) with rstart in Ht.
    rewrite tmr_rstart in Ht. symmetry in Ht. exact (X2 _ Ht).
  - exfalso. subst R2. rewrite rev_app_distr in Ht. change (rev m_start) with rstart in Ht.
    rewrite tmr_rstart in Ht. exact (X1 _ Ht).
  - split; [unfold sst in *; rewrite run_app, H1; reflexivity|].
    split; [unfold sst in *; rewrite run_app, H2; reflexivity|].
    rewrite !rvo_vo, !rev_app_distr. change (rev m_end) with rend.
    rewrite (rvo_rend (rev R1) K0 false), (rvo_rend (rev R2) K0 false) by (now rewrite rs_rev).
    rewrite <- !rvo_vo, !tmr_rend. split; congruence.
Qed.

Lemma raw_rel v1 v2 r : RelC v1 v2 -> raw_ok r -> RelC (v1 ++ r) (v2 ++ r).
Proof.
  intros [H1 [H2 [Hv Ht]]] Hr.
  split; [unfold sst in *; rewrite run_app, H1; exact Hr|].
  split; [unfold sst in *; rewrite run_app, H2; exact Hr|].
  split.
  - unfold vo. rewrite !vrun_app.
    assert (E : forall v, sst true v = Some st0 -> vrun v (Some st0, []) = (Some st0, vo v)).
    { intros v H. rewrite (surjective_pairing (vrun v (Some st0, []))). rewrite vrun_fst. cbn [fst].
      f_equal. exact H. }
    now rewrite (E v1 H1), (E v2 H2), Hv.
  - rewrite !rev_app_distr. eapply k0_tmr_app; try reflexivity; try exact Ht; rewrite rs_rev; eassumption.
Qed.

(* ------------------------------------------------------------------ *)
(* pieces, explicitly                                                  *)
(* ------------------------------------------------------------------ *)
Lemma RelC_refl v : sst true v = Some st0 -> RelC v v.
Proof. intro H. repeat split; assumption. Qed.

Definition unsafe_result (v p s : str) : str :=
  er (escape_from (sr (escape_from v p false)) s true).

Lemma print_unsafe_eq b s : Inv true b ->
  print_piece b (PUnsafe s) = mkbuf (unsafe_result (bvalid b) (bpend b) s) [] SafeEscaped false.
Proof.
  intros [Hm [Ho Hv]]. cbn [print_piece]. rewrite Hm.
  rewrite (set_mode_safe_to b) by (assumption || discriminate).
  pose proof (esc_closed_rel _ _ (bpend b) (RelC_refl _ Hv)) as R1.
  pose proof (sr_rel _ _ R1) as R2. pose proof (esc_open_rel _ _ s s R2 eq_refl) as [R3 _].
  unfold unsafe_result.
  set (v1 := escape_from (bvalid b) (bpend b) false) in *. clearbody v1.
  assert (E1 : buf_write (mkbuf v1 [] UnsafeEscaped false) s = mkbuf (sr v1) s UnsafeEscaped true).
  { unfold buf_write, start_write, start_redactable, whole, sr. cbn [bmode bopen bvalid bpend].
    rewrite app_nil_r. destruct (drop_suffix m_end v1); reflexivity. }
  rewrite E1. set (v2 := sr v1) in *. clearbody v2.
  unfold set_mode. cbn [bmode omode_eqb]. unfold escape_to_end. cbn [bmode bopen bvalid bpend].
  set (R := escape_from v2 s true) in *. clearbody R.
  unfold end_redactable, whole. cbn [bmode bopen bvalid bpend]. rewrite app_nil_r.
  destruct R as [|x R']; [discriminate|]. set (R := x :: R') in *. clearbody R.
  unfold er. destruct (drop_suffix m_start R);
    unfold validate_all, whole; cbn [bmode bopen bvalid bpend]; now rewrite app_nil_r.
Qed.

Lemma print_raw_eq ao b r : Inv ao b ->
  print_piece b (PRaw r) = mkbuf (escape_from (bvalid b) (bpend b) false ++ r) [] SafeEscaped false.
Proof.
  intros [Hm [Ho Hv]]. cbn [print_piece]. rewrite Hm.
  rewrite (set_mode_safe_to b) by (assumption || discriminate).
  unfold buf_write, start_write. cbn [bmode bopen bvalid bpend app].
  unfold set_mode. cbn [bmode omode_eqb bopen]. unfold validate_all, whole. cbn [bmode bopen bvalid bpend].
  reflexivity.
Qed.

Lemma print_safe_eq ao b s : Inv ao b ->
  print_piece b (PSafe s) = mkbuf (bvalid b) (bpend b ++ s) SafeEscaped false.
Proof.
  intros [Hm [Ho Hv]]. cbn [print_piece].
  assert (E : set_mode b SafeEscaped = b) by (rewrite <- Hm; apply set_mode_same).
  rewrite E. unfold buf_write, start_write. rewrite !Hm. cbv zeta iota.
  unfold set_mode. cbn [bmode omode_eqb]. now rewrite Ho.
Qed.

Lemma print_lit_eq ao b s : Inv ao b ->
  print_piece b (PLit s) = mkbuf (bvalid b) (bpend b ++ s) SafeEscaped false.
Proof.
  intros [Hm [Ho Hv]]. cbn [print_piece]. unfold buf_write, start_write. rewrite !Hm. cbv zeta iota.
  now rewrite Ho.
Qed.

Lemma take_eq ao b : Inv ao b -> buf_take b = escape_from (bvalid b) (bpend b) false.
Proof.
  intros [Hm [Ho Hv]]. unfold buf_take, buf_finalize. rewrite Hm. unfold escape_to_end. cbn [bopen bmode].
  rewrite Ho. unfold whole. cbn [bvalid bpend]. now rewrite app_nil_r.
Qed.

Definition BRel (b1 b2 : rbuf) : Prop :=
  Inv true b1 /\ Inv true b2 /\ bpend b1 = bpend b2 /\ RelC (bvalid b1) (bvalid b2).

Lemma BRel_refl b : Inv true b -> BRel b b.
Proof. intro H. repeat split; try apply H. Qed.

Lemma unsafe_rel b1 b2 s1 s2 :
  BRel b1 b2 -> shape s1 = shape s2 -> BRel (print_piece b1 (PUnsafe s1)) (print_piece b2 (PUnsafe s2)).
Proof.
  intros [I1 [I2 [Hp HR]]] Hs.
  pose proof (print_piece_inv true b1 (PUnsafe s1) I1 eq_refl) as J1.
  pose proof (print_piece_inv true b2 (PUnsafe s2) I2 eq_refl) as J2.
  split; [exact J1|]. split; [exact J2|].
  rewrite (print_unsafe_eq b1 s1 I1), (print_unsafe_eq b2 s2 I2). cbn [bpend bvalid].
  split; [reflexivity|]. unfold unsafe_result. rewrite Hp.
  apply er_rel, esc_open_rel; [|exact Hs]. apply sr_rel, esc_closed_rel. exact HR.
Qed.

Lemma piece_rel b1 b2 p :
  BRel b1 b2 -> piece_ok true p -> BRel (print_piece b1 p) (print_piece b2 p).
Proof.
  intros HB Hp. destruct p as [s|s|s|r].
  - destruct HB as [I1 [I2 [Hpd HR]]].
    split; [exact (print_piece_inv true b1 _ I1 Hp)|]. split; [exact (print_piece_inv true b2 _ I2 Hp)|].
    rewrite (print_lit_eq true b1 s I1), (print_lit_eq true b2 s I2). cbn [bpend bvalid].
    split; [now rewrite Hpd|exact HR].
  - now apply unsafe_rel.
  - destruct HB as [I1 [I2 [Hpd HR]]].
    split; [exact (print_piece_inv true b1 _ I1 Hp)|]. split; [exact (print_piece_inv true b2 _ I2 Hp)|].
    rewrite (print_safe_eq true b1 s I1), (print_safe_eq true b2 s I2). cbn [bpend bvalid].
    split; [now rewrite Hpd|exact HR].
  - destruct HB as [I1 [I2 [Hpd HR]]].
    split; [exact (print_piece_inv true b1 _ I1 Hp)|]. split; [exact (print_piece_inv true b2 _ I2 Hp)|].
    rewrite (print_raw_eq true b1 r I1), (print_raw_eq true b2 r I2). cbn [bpend bvalid].
    split; [reflexivity|]. rewrite Hpd. apply raw_rel; [|exact Hp]. now apply esc_closed_rel.
Qed.

Lemma pieces_rel ps : forall b1 b2, BRel b1 b2 -> Forall (piece_ok true) ps ->
  BRel (fold_left print_piece ps b1) (fold_left print_piece ps b2).
Proof.
  induction ps as [|p ps IH]; intros b1 b2 HB Hf; [exact HB|].
  inversion Hf; subst. cbn [fold_left]. apply IH; [|assumption]. now apply piece_rel.
Qed.

Lemma take_rel b1 b2 : BRel b1 b2 -> redact (buf_take b1) = redact (buf_take b2).
Proof.
  intros [I1 [I2 [Hp HR]]]. rewrite (take_eq true b1 I1), (take_eq true b2 I2), Hp.
  destruct (esc_closed_rel _ _ (bpend b2) HR) as [H1 [H2 [Hv _]]].
  rewrite (redact_vo _ H1), (redact_vo _ H2). now rewrite Hv.
Qed.

(* ------------------------------------------------------------------ *)
(* N4, N5                                                              *)
(* ------------------------------------------------------------------ *)
(* N5 (with the hypothesis on raw pieces of N3) *)
Theorem redact_pieces_ni pre post s1 s2 :
  pieces_ok pre -> pieces_ok post ->
  List.map is_empty (split_on nl s1) = List.map is_empty (split_on nl s2) ->
  redact (sprint_pieces (pre ++ PUnsafe s1 :: post)) = redact (sprint_pieces (pre ++ PUnsafe s2 :: post)).
Proof.
  intros Hpre Hpost Hs. unfold sprint_pieces, print_pieces. rewrite !fold_left_app. cbn [fold_left].
  apply take_rel, pieces_rel; [|now apply pieces_ok_piece_ok].
  apply unsafe_rel; [|exact Hs]. apply BRel_refl.
  apply print_pieces_inv; [repeat split|now apply pieces_ok_piece_ok].
Qed.

(* N4 *)
Theorem redact_unsafe_shape s1 s2 :
  List.map is_empty (split_on nl s1) = List.map is_empty (split_on nl s2) ->
  redact (sprint_pieces [PUnsafe s1]) = redact (sprint_pieces [PUnsafe s2]).
Proof. intro H. exact (redact_pieces_ni [] [] s1 s2 (Forall_nil _) (Forall_nil _) H). Qed.

(* N5 as stated (without the hypothesis on raw pieces) is FALSE: a raw piece
   that is not a well-formed redactable string lets the unsafe argument merge
   with it *)
Example redact_pieces_ni_stated_false :
  let pre := [PRaw m_end] in
  List.map is_empty (split_on nl [226]) = List.map is_empty (split_on nl [97])
  /\ redact (sprint_pieces (pre ++ PUnsafe [226] :: [])) <> redact (sprint_pieces (pre ++ PUnsafe [97] :: [])).
Proof. split; [reflexivity|]. vm_compute. discriminate. Qed.

(* ------------------------------------------------------------------ *)
(* [raw_ok] in plain terms: well-formed markers, and neither the end of *)
(* the string nor the text before any of its trailing markers is a      *)
(* dangling E2 / E2 80                                                   *)
(* ------------------------------------------------------------------ *)
Definition dangling (a : str) : bool :=   (* a is the string reversed *)
  match a with
  | x :: r => (x =? 226) || ((x =? 128) && match r with y :: _ => y =? 226 | [] => false end)
  | [] => false
  end.

Fixpoint tail_clean (a : str) : bool :=
  negb (dangling a) &&
  match a with
  | x :: (y :: (z :: r)) => if (y =? 128) && (z =? 226) && mkb x then tail_clean r else true
  | _ => true
  end.

Lemma tail_clean_226 r : tail_clean (226 :: r) = false.
Proof. destruct r as [|y [|z r]]; reflexivity. Qed.
Lemma tail_clean_128_226 r : tail_clean (128 :: 226 :: r) = false.
Proof. destruct r as [|z r]; reflexivity. Qed.

Lemma d_sem : forall acc o k d, rs true acc = Some (o, k, d) ->
  match k with
  | K0 => dangling acc = false /\ d = negb (tail_clean acc)
  | K1 => exists r, acc = 226 :: r /\ d = negb (tail_clean r)
  | K2 => exists r, acc = 128 :: 226 :: r /\ d = negb (tail_clean r)
  end.
Proof.
  induction acc as [|x acc IH]; intros o k d H.
  - injection H as <- <- <-. split; reflexivity.
  - rewrite rs_cons in H. destruct (rs true acc) as [[[o1 k1] d1]|] eqn:E1; [|discriminate].
    specialize (IH o1 k1 d1 eq_refl). cbn [step] in H.
    destruct (x =? 226) eqn:E226.
    { apply N.eqb_eq in E226. subst x. injection H as <- <- <-. exists acc. split; [reflexivity|].
      destruct k1.
      - apply IH.
      - destruct IH as [r [-> _]]. now rewrite tail_clean_226.
      - destruct IH as [r [-> _]]. now rewrite tail_clean_128_226. }
    destruct k1.
    + destruct IH as [Hd Hc]. destruct ((x =? nl) && o1); [discriminate|]. injection H as <- <- <-.
      assert (D : dangling (x :: acc) = false).
      { cbn [dangling]. rewrite E226. destruct acc as [|y r]; [now rewrite andb_false_r|].
        cbn [dangling] in Hd. apply orb_false_iff in Hd as [-> _]. now rewrite andb_false_r. }
      split; [exact D|]. cbn [tail_clean]. rewrite D.
      destruct acc as [|y [|z r]]; try reflexivity.
      cbn [dangling] in Hd. apply orb_false_iff in Hd as [_ Hd]. now rewrite Hd.
    + destruct IH as [r [-> Hc]]. destruct (x =? 128) eqn:E128.
      * apply N.eqb_eq in E128. subst x. injection H as <- <- <-. exists r. now split.
      * destruct ((x =? nl) && o1); [discriminate|]. injection H as <- <- <-.
        split; [cbn [dangling]; now rewrite E226, E128|].
        cbn [tail_clean dangling]. rewrite E226, E128. destruct r; reflexivity.
    + destruct IH as [r [-> Hc]].
      destruct (x =? 185) eqn:E185.
      { apply N.eqb_eq in E185. subst x. destruct o1; [discriminate|]. injection H as <- <- <-.
        split; [reflexivity|]. exact Hc. }
      destruct (x =? 186) eqn:E186.
      { apply N.eqb_eq in E186. subst x. destruct o1; [|discriminate]. injection H as <- <- <-.
        split; [reflexivity|]. exact Hc. }
      destruct ((x =? nl) && o1); [discriminate|]. injection H as <- <- <-.
      assert (E128 : (x =? 128) && (128 =? 226) = false) by now rewrite andb_false_r.
      split; [cbn [dangling]; now rewrite E226, E128|].
      cbn [tail_clean dangling]. unfold mkb. now rewrite E226, E128, E185, E186.
Qed.

Theorem raw_ok_iff r : raw_ok r <-> wf_red r = true /\ tail_clean (rev r) = true.
Proof.
  split.
  - intro H. split; [now apply raw_ok_wf|].
    pose proof (rs_rev true r) as S. rewrite H in S. apply d_sem in S as [_ S].
    destruct (tail_clean (rev r)); [reflexivity|discriminate].
  - intros [Hw Ht]. unfold wf_red in Hw. destruct (corr true r false false) as [C _].
    rewrite <- C in Hw by reflexivity. unfold raw_ok.
    change (acc_st (sst true r) = true) in Hw.
    destruct (sst true r) as [[[o k] d]|] eqn:E; [|discriminate]. destruct o; [discriminate|].
    pose proof (rs_rev true r) as S. rewrite E in S. apply d_sem in S. destruct k.
    + destruct S as [_ ->]. now rewrite Ht.
    + destruct S as [r' [Er _]]. rewrite Er, tail_clean_226 in Ht. discriminate.
    + destruct S as [r' [Er _]]. rewrite Er, tail_clean_128_226 in Ht. discriminate.
Qed.

(* every output of the printer is itself a valid raw piece: [sprint_raw_ok] *)
Lemma raw_ok_nil : raw_ok [].
Proof. reflexivity. Qed.

Example raw_ok_examples :
  raw_ok (m_start ++ [97] ++ m_end) /\ raw_ok [97; 10; 98] /\ raw_ok (m_start ++ [226; 63] ++ m_end)
  /\ ~ raw_ok [226] /\ ~ raw_ok (m_start ++ [226] ++ m_end) /\ ~ raw_ok m_end.
Proof. repeat split; try reflexivity; intro H; discriminate H. Qed.
