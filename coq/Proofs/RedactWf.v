(* C06 / C03 at the level of the redaction-library model, for ARBITRARY bytes:
   a string printed by the redact model has well-formed markers.

   Method: the tokenizer's three-byte look-ahead is replaced by a one-byte-at-
   a-time automaton whose state is
     o : inside a ‹...› region
     k : how many bytes of a possible marker are pending (E2 / E2 80)
     d : "dirty": the trailing run of markers (or the pending marker prefix)
         is glued to a dangling E2 / E2 80
   The automaton dies on a nested/unbalanced marker and on a newline inside a
   region.  Concatenation needs no side condition for it, so all buffer
   operations can be followed through it. *)
From Errv Require Import Base.Str Redact.Markers Redact.Buffer Proofs.StrFacts Proofs.RedactFacts.
From Coq Require Import Lia.

(* ------------------------------------------------------------------ *)
(* the automaton                                                       *)
(* ------------------------------------------------------------------ *)
Inductive pk := K0 | K1 | K2.
Definition ast := (bool * pk * bool)%type.

(* [ao] = opening markers allowed *)
Definition step (ao : bool) (s : option ast) (x : N) : option ast :=
  match s with
  | None => None
  | Some (o, k, d) =>
    if x =? 226 then Some (o, K1, match k with K0 => d | _ => true end)
    else match k with
    | K2 =>
      if x =? 185 then (if o || negb ao then None else Some (true, K0, d))
      else if x =? 186 then (if o then Some (false, K0, d) else None)
      else if (x =? nl) && o then None else Some (o, K0, false)
    | K1 =>
      if x =? 128 then Some (o, K2, d)
      else if (x =? nl) && o then None else Some (o, K0, false)
    | K0 => if (x =? nl) && o then None else Some (o, K0, false)
    end
  end.

Definition run (ao : bool) (s : str) (st : option ast) : option ast := fold_left (step ao) s st.
Definition st0 : ast := (false, K0, false).
Definition sst (ao : bool) (s : str) : option ast := run ao s (Some st0).

Lemma run_None ao s : run ao s None = None.
Proof. induction s as [|x s IH]; [reflexivity|]. exact IH. Qed.

Lemma run_app ao a b st : run ao (a ++ b) st = run ao b (run ao a st).
Proof. unfold run. apply fold_left_app. Qed.

Lemma run_cons ao x s st : run ao (x :: s) st = run ao s (step ao st x).
Proof. reflexivity. Qed.

Definition acc_st (r : option ast) : bool :=
  match r with Some (false, _, _) => true | _ => false end.

(* ---- tokenizer equations ---- *)
Lemma tok_226_other x s : (x =? 128) = false ->
  tokenize (226 :: x :: s) = TB 226 :: tokenize (x :: s).
Proof.
  intro H. destruct s as [|c r]; [reflexivity|].
  change (tokenize (226 :: x :: c :: r)) with
    (if (226 =? 226) && (x =? 128) && (c =? 185) then TOpen :: tokenize r
     else if (226 =? 226) && (x =? 128) && (c =? 186) then TClose :: tokenize r
     else TB 226 :: tokenize (x :: c :: r)).
  rewrite H. reflexivity.
Qed.

Lemma tok_226_128_other x s : (x =? 185) = false -> (x =? 186) = false ->
  tokenize (226 :: 128 :: x :: s) = TB 226 :: TB 128 :: tokenize (x :: s).
Proof.
  intros H1 H2.
  change (tokenize (226 :: 128 :: x :: s)) with
    (if (226 =? 226) && (128 =? 128) && (x =? 185) then TOpen :: tokenize s
     else if (226 =? 226) && (128 =? 128) && (x =? 186) then TClose :: tokenize s
     else TB 226 :: tokenize (128 :: x :: s)).
  rewrite H1, H2. cbn [N.eqb andb Pos.eqb]. f_equal.
  apply tokenize_cons_plain. reflexivity.
Qed.

Lemma eqb_nl_false x : (x =? 226) = true \/ (x =? 128) = true \/ (x =? 185) = true \/ (x =? 186) = true ->
  (x =? nl) = false.
Proof.
  intros [H|[H|[H|H]]]; apply N.eqb_eq in H; subst; reflexivity.
Qed.

(* the automaton decides wf_toks o tokenize *)
Lemma corr ao s : forall o d,
   (ao = true -> acc_st (run ao s (Some (o, K0, d))) = wf_toks (tokenize s) o)
/\ (ao = true -> acc_st (run ao s (Some (o, K1, d))) = wf_toks (tokenize (226 :: s)) o)
/\ (ao = true -> acc_st (run ao s (Some (o, K2, d))) = wf_toks (tokenize (226 :: 128 :: s)) o).
Proof.
  induction s as [|x s IH]; intros o d.
  - repeat split; intros _; destruct o; reflexivity.
  - destruct (IH o d) as [I0 [I1 I2]].
    destruct (IH o false) as [J0 _].
    destruct (IH o true) as [_ [T1 _]].
    repeat split; intros ->; rewrite run_cons; cbn [step].
    + destruct (x =? 226) eqn:E226.
      * apply N.eqb_eq in E226. subst x. now apply I1.
      * rewrite tokenize_cons_plain by assumption. cbn [wf_toks].
        destruct ((x =? nl) && o) eqn:En.
        { rewrite run_None. cbn [acc_st]. apply andb_true_iff in En as [En ->]. now rewrite En. }
        { rewrite J0 by reflexivity. destruct (x =? nl); [|reflexivity].
          cbn in En. subst o. reflexivity. }
    + destruct (x =? 226) eqn:E226.
      * apply N.eqb_eq in E226. subst x. rewrite tok_226_other by reflexivity.
        cbn [wf_toks]. change (226 =? nl) with false. cbn [andb]. now apply T1.
      * destruct (x =? 128) eqn:E128.
        { apply N.eqb_eq in E128. subst x. now apply I2. }
        { rewrite tok_226_other by assumption. rewrite tokenize_cons_plain by assumption.
          cbn [wf_toks]. change (226 =? nl) with false. cbn [andb].
          destruct ((x =? nl) && o) eqn:En.
          { rewrite run_None. cbn [acc_st]. apply andb_true_iff in En as [En ->]. now rewrite En. }
          { rewrite J0 by reflexivity. destruct (x =? nl); [|reflexivity].
            cbn in En. subst o. reflexivity. } }
    + destruct (x =? 226) eqn:E226.
      * apply N.eqb_eq in E226. subst x. rewrite tok_226_128_other by reflexivity.
        cbn [wf_toks]. change (226 =? nl) with false. change (128 =? nl) with false. cbn [andb]. now apply T1.
      * destruct (x =? 185) eqn:E185.
        { apply N.eqb_eq in E185. subst x. change (tokenize (226 :: 128 :: 185 :: s)) with (TOpen :: tokenize s).
          cbn [wf_toks negb orb]. rewrite orb_false_r. destruct o; cbn [negb andb].
          - now rewrite run_None.
          - destruct (IH true d) as [Q0 _]. now apply Q0. }
        destruct (x =? 186) eqn:E186.
        { apply N.eqb_eq in E186. subst x. change (tokenize (226 :: 128 :: 186 :: s)) with (TClose :: tokenize s).
          cbn [wf_toks]. destruct o; cbn [andb].
          - destruct (IH false d) as [Q0 _]. now apply Q0.
          - now rewrite run_None. }
        rewrite tok_226_128_other by assumption. rewrite tokenize_cons_plain by assumption.
        cbn [wf_toks]. change (226 =? nl) with false. change (128 =? nl) with false. cbn [andb].
        destruct ((x =? nl) && o) eqn:En.
        { rewrite run_None. cbn [acc_st]. apply andb_true_iff in En as [En ->]. now rewrite En. }
        { rewrite J0 by reflexivity. destruct (x =? nl); [|reflexivity].
          cbn in En. subst o. reflexivity. }
Qed.

Lemma sst_wf s k d : sst true s = Some (false, k, d) -> wf_red s = true.
Proof.
  intro H. unfold wf_red. destruct (corr true s false false) as [C _].
  rewrite <- C by reflexivity. change (acc_st (sst true s) = true). rewrite H. reflexivity.
Qed.

(* ------------------------------------------------------------------ *)
(* state of a reversed accumulator                                     *)
(* ------------------------------------------------------------------ *)
Definition rs (ao : bool) (acc : str) : option ast := sst ao (rev acc).

Lemma rs_cons ao x acc : rs ao (x :: acc) = step ao (rs ao acc) x.
Proof. unfold rs, sst. cbn [rev]. rewrite run_app. reflexivity. Qed.

Lemma rs_app ao l acc : rs ao (l ++ acc) = run ao (rev l) (rs ao acc).
Proof. unfold rs, sst. rewrite rev_app_distr, run_app. reflexivity. Qed.

Definition mkb (c : N) : bool := (c =? 185) || (c =? 186).

Definition look (k : pk) (s : str) : bool :=
  match k with
  | K0 => true
  | K1 => match s with b :: c :: _ => negb ((b =? 128) && mkb c) | _ => true end
  | K2 => match s with c :: _ => negb (mkb c) | [] => true end
  end.

Definition hist (k : pk) (done : str) : bool :=
  match k with
  | K0 => true
  | K1 => match done with a :: _ => a =? 226 | [] => false end
  | K2 => match done with a :: b :: _ => (a =? 128) && (b =? 226) | _ => false end
  end.

Lemma copy_step ao brk k d a t acc done :
  rs ao acc = Some (brk, k, d) -> (k = K0 -> d = false) ->
  look k (a :: t) = true -> hist k done = true ->
  brk && (a =? nl) = false ->
  ((a =? 226) = true -> look K1 t = true) ->
  exists k' d', rs ao (a :: acc) = Some (brk, k', d') /\ (k' = K0 -> d' = false)
                /\ look k' t = true /\ hist k' (a :: done) = true.
Proof.
  intros Hrs Hd Hl Hh Hb H226. rewrite rs_cons, Hrs. cbn [step].
  destruct (a =? 226) eqn:E226.
  - exists K1. eexists. split; [reflexivity|]. split; [discriminate|]. split; [now apply H226|].
    cbn [hist]. exact E226.
  - rewrite andb_comm in Hb. destruct k.
    + rewrite Hb. exists K0, false. repeat split.
    + destruct (a =? 128) eqn:E128.
      * exists K2, d. split; [reflexivity|]. split; [discriminate|]. split.
        { cbn [look] in Hl |- *. destruct t as [|c r]; [reflexivity|]. rewrite E128 in Hl. exact Hl. }
        { cbn [hist] in Hh |- *. destruct done as [|a0 r0]; [discriminate|]. now rewrite E128, Hh. }
      * rewrite Hb. exists K0, false. repeat split.
    + cbn [look] in Hl. unfold mkb in Hl. apply negb_true_iff, orb_false_iff in Hl as [E1 E2].
      rewrite E1, E2, Hb. exists K0, false. repeat split.
Qed.

(* ---- skip_nls ---- *)
Fixpoint cnt (s : str) : nat :=
  match s with c :: r => if c =? nl then S (cnt r) else O | [] => O end.

Lemma repeat_cons_app {A} (x : A) n l : repeat x n ++ x :: l = x :: repeat x n ++ l.
Proof. induction n as [|n IH]; [reflexivity|]. cbn. now rewrite IH. Qed.

Lemma rev_repeat' {A} (x : A) n : rev (repeat x n) = repeat x n.
Proof.
  induction n as [|n IH]; [reflexivity|]. cbn. rewrite IH.
  rewrite <- (app_nil_r (repeat x n)) at 2. rewrite <- repeat_cons_app. reflexivity.
Qed.

Lemma skip_nls_eq s : forall acc, skip_nls s acc = (skipn (cnt s) s, repeat nl (cnt s) ++ acc).
Proof.
  induction s as [|c r IH]; intro acc; [reflexivity|].
  cbn [skip_nls cnt]. destruct (c =? nl) eqn:E; [|reflexivity].
  rewrite IH. apply N.eqb_eq in E. subst c. cbn [skipn repeat].
  rewrite repeat_cons_app. reflexivity.
Qed.

Lemma cnt_split s : s = repeat nl (cnt s) ++ skipn (cnt s) s.
Proof.
  induction s as [|c r IH]; [reflexivity|]. cbn [cnt]. destruct (c =? nl) eqn:E; [|reflexivity].
  apply N.eqb_eq in E. subst c. cbn [repeat skipn app]. now rewrite <- IH.
Qed.

Lemma rs_nls ao acc k d n :
  rs ao acc = Some (false, k, d) -> rs ao (repeat nl (S n) ++ acc) = Some (false, K0, false).
Proof.
  intro H. induction n as [|n IH].
  - cbn [repeat app]. rewrite rs_cons, H. destruct k; reflexivity.
  - change (repeat nl (S (S n)) ++ acc) with (nl :: (repeat nl (S n) ++ acc)).
    rewrite rs_cons, IH. reflexivity.
Qed.

Lemma drop_prefix_Some p : forall l r, drop_prefix p l = Some r -> l = p ++ r.
Proof.
  induction p as [|x p IH]; intros l r H.
  - cbn in H. now injection H as ->.
  - destruct l as [|y l]; [discriminate|]. cbn in H. destruct (x =? y) eqn:E; [|discriminate].
    apply N.eqb_eq in E. subst y. cbn. f_equal. now apply IH.
Qed.

Lemma strip_open ao st k d :
  run ao m_start st = Some (true, k, d) -> exists k' d', st = Some (false, k', d').
Proof.
  destruct st as [[[o k'] d']|]; [|discriminate]. destruct o; [|eauto].
  destruct k'; discriminate.
Qed.

Lemma strip_close ao st k d :
  run ao m_end st = Some (false, k, d) -> exists k' d', st = Some (true, k', d').
Proof.
  destruct st as [[[o k'] d']|]; [|discriminate]. destruct o; [eauto|].
  destruct k'; discriminate.
Qed.

(* ------------------------------------------------------------------ *)
(* the escaping loop                                                   *)
(* ------------------------------------------------------------------ *)
Lemma loop_inv ao brk : (brk = true -> ao = true) -> forall fuel s acc done k d,
  (List.length s <= fuel)%nat -> rs ao acc = Some (brk, k, d) -> (k = K0 -> d = false) ->
  look k s = true -> hist k done = true ->
  exists k' d', rs ao (escape_loop fuel s acc brk) = Some (brk, k', d')
                /\ (k' = K0 -> d' = false) /\ hist k' (rev s ++ done) = true.
Proof.
  intro Hao. induction fuel as [|f IH]; intros s acc done k d Hlen Hrs Hd Hl Hh.
  - destruct s; [|cbn in Hlen; lia]. exists k, d. repeat split; assumption.
  - destruct s as [|a t]; [exists k, d; repeat split; assumption|].
    cbn [escape_loop]. cbn [List.length] in Hlen.
    destruct (brk && (a =? nl)) eqn:Eb.
    + (* newline: close / un-open, copy the newlines, reopen *)
      apply andb_true_iff in Eb as [-> Ea]. specialize (Hao eq_refl). subst ao.
      remember (match drop_prefix rstart acc with
                | Some acc' => acc' | None => rend ++ acc end) as acc1 eqn:Eacc1.
      assert (H1 : exists k1 d1, rs true acc1 = Some (false, k1, d1)).
      { subst acc1. destruct (drop_prefix rstart acc) as [acc'|] eqn:Edp.
        - apply drop_prefix_Some in Edp. subst acc. rewrite rs_app in Hrs.
          change (rev rstart) with m_start in Hrs. now apply strip_open in Hrs.
        - rewrite rs_app, Hrs. change (rev rend) with m_end. destruct k; eexists; eexists; reflexivity. }
      clear Eacc1. destruct H1 as [k1 [d1 H1]].
      cbv zeta. rewrite skip_nls_eq. cbv iota beta.
      assert (Hc : exists n, cnt (a :: t) = S n) by (cbn [cnt]; rewrite Ea; eauto).
      destruct Hc as [n Hc]. rewrite Hc.
      pose proof (rs_nls true acc1 k1 d1 n H1) as H2.
      assert (H3 : rs true (rstart ++ repeat nl (S n) ++ acc1) = Some (true, K0, false)).
      { rewrite rs_app, H2. reflexivity. }
      destruct (IH (skipn (S n) (a :: t)) (rstart ++ repeat nl (S n) ++ acc1) (repeat nl (S n) ++ done) K0 false) as [k' [d' [R1 [R2 R3]]]];
        try reflexivity.
      { rewrite skipn_length. cbn [List.length]. lia. }
      { exact H3. }
      exists k', d'. split; [exact R1|]. split; [exact R2|].
      rewrite (cnt_split (a :: t)) at 1. rewrite Hc, rev_app_distr, rev_repeat', <- app_assoc. exact R3.
    + assert (Hcopy : ((a =? 226) = true -> look K1 t = true) ->
         exists k' d', rs ao (escape_loop f t (a :: acc) brk) = Some (brk, k', d')
                /\ (k' = K0 -> d' = false) /\ hist k' (rev (a :: t) ++ done) = true).
      { intro H226. destruct (copy_step ao brk k d a t acc done Hrs Hd Hl Hh Eb H226) as [k1 [d1 [C1 [C2 [C3 C4]]]]].
        destruct (IH t (a :: acc) (a :: done) k1 d1) as [k' [d' [R1 [R2 R3]]]]; try assumption; [lia|].
        exists k', d'. split; [exact R1|]. split; [exact R2|].
        cbn [rev]. rewrite <- app_assoc. exact R3. }
      destruct t as [|b [|c r]]; try (apply Hcopy; intros _; reflexivity).
      destruct ((a =? 226) && (b =? 128) && ((c =? 185) || (c =? 186))) eqn:Em.
      * assert (Hq : rs ao (qmark :: acc) = Some (brk, K0, false)).
        { rewrite rs_cons, Hrs. destruct k; destruct brk; reflexivity. }
        destruct (IH r (qmark :: acc) (c :: b :: a :: done) K0 false) as [k' [d' [R1 [R2 R3]]]];
          try reflexivity; try assumption.
        { cbn [List.length] in Hlen. lia. }
        exists k', d'. split; [exact R1|]. split; [exact R2|].
        cbn [rev]. rewrite <- !app_assoc. exact R3.
      * apply Hcopy. intro H226. cbn [look]. unfold mkb. rewrite H226 in Em. cbn [andb] in Em.
        now rewrite Em.
Qed.

(* a buffer ending with E2 or E2 80 ends with an invalid rune *)
Lemma hist_invalid k done : hist k done = true -> k <> K0 -> last_rune_invalid_rev done = true.
Proof.
  intros H Hk. destruct k; [congruence| |].
  - destruct done as [|a r1]; [discriminate|]. cbn [hist] in H. apply N.eqb_eq in H. subst a.
    assert (V2 : forall l, valid2 l 226 = false) by (intro; unfold valid2; apply andb_false_r).
    assert (V3 : forall l c, valid3 l c 226 = false) by reflexivity.
    assert (V4 : forall l c1 c2, valid4 l c1 c2 226 = false)
      by (intros; unfold valid4; change (is_cont 226) with false; now rewrite andb_false_r).
    cbn [last_rune_invalid_rev]. change (226 <? 128) with false. cbv iota.
    destruct r1 as [|b1 r2]; [reflexivity|]. rewrite V2.
    destruct (rune_start b1); [reflexivity|].
    destruct r2 as [|b2 r3]; [reflexivity|]. rewrite V3.
    destruct (rune_start b2); [reflexivity|].
    destruct r3 as [|b3 r4]; [reflexivity|]. rewrite V4.
    destruct (rune_start b3); reflexivity.
  - destruct done as [|a [|b r]]; try discriminate. cbn [hist] in H.
    apply andb_true_iff in H as [Ha Hb]. apply N.eqb_eq in Ha, Hb. subst a b. reflexivity.
Qed.

Lemma escape_from_inv ao brk v p :
  (brk = true -> ao = true) ->
  sst ao v = Some (brk, K0, false) -> sst ao (escape_from v p brk) = Some (brk, K0, false).
Proof.
  intros Hao Hv. unfold escape_from.
  destruct (loop_inv ao brk Hao (List.length p) p (rev v) (rev v) K0 false) as [k' [d' [R1 [R2 R3]]]];
    try reflexivity.
  { unfold rs. now rewrite rev_involutive. }
  destruct (last_rune_invalid_rev (rev p ++ rev v)) eqn:E.
  - change (rs ao (qmark :: escape_loop (List.length p) p (rev v) brk) = Some (brk, K0, false)).
    rewrite rs_cons, R1. destruct k', brk; reflexivity.
  - change (rs ao (escape_loop (List.length p) p (rev v) brk) = Some (brk, K0, false)).
    rewrite R1. destruct k'.
    + now rewrite R2.
    + rewrite (hist_invalid K1 _ R3) in E by discriminate. discriminate.
    + rewrite (hist_invalid K2 _ R3) in E by discriminate. discriminate.
Qed.

(* ------------------------------------------------------------------ *)
(* buffer operations                                                   *)
(* ------------------------------------------------------------------ *)
Lemma drop_suffix_Some suf s w : drop_suffix suf s = Some w -> s = w ++ suf.
Proof.
  unfold drop_suffix. destruct (drop_prefix (rev suf) (rev s)) as [r|] eqn:E; [|discriminate].
  intro H. injection H as <-. apply drop_prefix_Some in E.
  apply (f_equal (@rev N)) in E. rewrite rev_involutive, rev_app_distr, rev_involutive in E. exact E.
Qed.

Lemma strip_close_strict ao st :
  run ao m_end st = Some st0 -> st = Some (true, K0, false).
Proof.
  destruct st as [[[o k] d]|]; [|discriminate]. destruct o, k, d; cbn; intro H; try discriminate; reflexivity.
Qed.

Lemma strip_open_strict ao st :
  run ao m_start st = Some (true, K0, false) -> st = Some st0.
Proof.
  destruct st as [[[o k] d]|]; [|discriminate]. destruct ao, o, k, d; cbn; intro H; try discriminate; reflexivity.
Qed.

Lemma ff_imp (ao : bool) : false = true -> ao = true.
Proof. discriminate. Qed.

Definition Inv (ao : bool) (b : rbuf) : Prop :=
  bmode b = SafeEscaped /\ bopen b = false /\ sst ao (bvalid b) = Some st0.

Definition piece_ok (ao : bool) (p : piece) : Prop :=
  match p with
  | PRaw r => sst ao r = Some st0
  | PUnsafe _ => ao = true
  | _ => True
  end.

Lemma set_mode_safe_to b m :
  bmode b = SafeEscaped -> bopen b = false -> m <> SafeEscaped ->
  set_mode b m = mkbuf (escape_from (bvalid b) (bpend b) false) [] m false.
Proof.
  destruct b as [v p md o]; cbn [bmode bopen bvalid bpend]; intros -> -> Hm.
  unfold set_mode. cbn [bmode].
  destruct m; [|congruence|]; cbn [omode_eqb]; unfold escape_to_end, validate_all, whole;
    cbn [bmode bopen bvalid bpend]; now rewrite app_nil_r.
Qed.

Lemma set_mode_same b : set_mode b (bmode b) = b.
Proof. unfold set_mode. destruct (bmode b); reflexivity. Qed.

Lemma write_unsafe v1 s :
  sst true v1 = Some st0 ->
  exists v2, buf_write (mkbuf v1 [] UnsafeEscaped false) s = mkbuf v2 s UnsafeEscaped true
             /\ sst true v2 = Some (true, K0, false).
Proof.
  intro H. unfold buf_write, start_write, start_redactable, whole. cbn [bmode bopen bvalid bpend].
  rewrite app_nil_r. destruct (drop_suffix m_end v1) as [w'|] eqn:E.
  - exists w'. split; [reflexivity|]. apply drop_suffix_Some in E. subst v1.
    unfold sst in H. rewrite run_app in H. now apply strip_close_strict in H.
  - exists (v1 ++ m_start). split; [reflexivity|]. unfold sst in *. rewrite run_app, H. reflexivity.
Qed.

Lemma leave_unsafe v2 s :
  sst true v2 = Some (true, K0, false) ->
  exists v3, set_mode (mkbuf v2 s UnsafeEscaped true) SafeEscaped = mkbuf v3 [] SafeEscaped false
             /\ sst true v3 = Some st0.
Proof.
  intro H. unfold set_mode. cbn [bmode omode_eqb]. unfold escape_to_end. cbn [bmode bopen bvalid bpend].
  pose proof (escape_from_inv true true v2 s (fun _ => eq_refl) H) as HR.
  set (R := escape_from v2 s true) in *. clearbody R.
  unfold end_redactable, whole. cbn [bmode bopen bvalid bpend]. rewrite app_nil_r.
  destruct R as [|x R']; [discriminate|]. set (R := x :: R') in *. clearbody R.
  destruct (drop_suffix m_start R) as [w'|] eqn:E.
  - exists w'. unfold validate_all, whole. cbn [bmode bopen bvalid bpend]. rewrite app_nil_r.
    split; [reflexivity|]. apply drop_suffix_Some in E. subst R.
    unfold sst in HR. rewrite run_app in HR. now apply strip_open_strict in HR.
  - exists (R ++ m_end). unfold validate_all, whole. cbn [bmode bopen bvalid bpend]. rewrite app_nil_r.
    split; [reflexivity|]. unfold sst in *. rewrite run_app, HR. reflexivity.
Qed.

Lemma print_piece_inv ao b p : Inv ao b -> piece_ok ao p -> Inv ao (print_piece b p).
Proof.
  intros [Hm [Ho Hv]] Hp. destruct p as [s|s|s|s]; cbn [print_piece piece_ok] in *.
  - (* literal *)
    unfold buf_write, start_write. rewrite Hm. cbn [bmode bopen bvalid]. repeat split; assumption.
  - (* unsafe *)
    subst ao. rewrite Hm. rewrite (set_mode_safe_to b) by (assumption || discriminate).
    pose proof (escape_from_inv true false (bvalid b) (bpend b) (ff_imp true) Hv) as H1.
    destruct (write_unsafe _ s H1) as [v2 [E2 H2]]. rewrite E2.
    destruct (leave_unsafe v2 s H2) as [v3 [E3 H3]]. rewrite E3.
    repeat split. exact H3.
  - (* safe *)
    assert (E : set_mode b SafeEscaped = b) by (rewrite <- Hm; apply set_mode_same).
    rewrite E. unfold buf_write, start_write. rewrite !Hm. cbv zeta iota.
    unfold set_mode. cbn [bmode omode_eqb]. rewrite Ho.
    repeat split. exact Hv.
  - (* raw *)
    rewrite Hm. rewrite (set_mode_safe_to b) by (assumption || discriminate).
    pose proof (escape_from_inv ao false (bvalid b) (bpend b) (ff_imp ao) Hv) as H1.
    unfold buf_write, start_write. cbn [bmode bopen bvalid bpend app].
    unfold set_mode. cbn [bmode omode_eqb bopen]. unfold validate_all, whole. cbn [bmode bopen bvalid bpend].
    repeat split. cbn [bvalid]. unfold sst in *. rewrite run_app, H1. exact Hp.
Qed.

Lemma print_pieces_inv ao ps : forall b, Inv ao b -> Forall (piece_ok ao) ps ->
  Inv ao (fold_left print_piece ps b).
Proof.
  induction ps as [|p ps IH]; intros b Hb Hf; [exact Hb|].
  inversion Hf; subst. cbn [fold_left]. apply IH; [|assumption]. now apply print_piece_inv.
Qed.

Lemma sprint_inv ao ps : Forall (piece_ok ao) ps -> sst ao (sprint_pieces ps) = Some st0.
Proof.
  intro Hf. unfold sprint_pieces, print_pieces.
  assert (H0 : Inv ao (set_mode buf_empty SafeEscaped)) by (repeat split).
  pose proof (print_pieces_inv ao ps _ H0 Hf) as [Hm [Ho Hv]].
  set (b := fold_left print_piece ps (set_mode buf_empty SafeEscaped)) in *. clearbody b.
  unfold buf_take, buf_finalize. rewrite Hm. unfold escape_to_end. cbn [bopen bmode].
  rewrite Ho. unfold whole. cbn [bvalid bpend]. rewrite app_nil_r.
  apply escape_from_inv; [discriminate|assumption].
Qed.

(* ---- with opening markers forbidden, a live run means: no marker at all ---- *)
Definition alive (r : option ast) : bool := match r with Some _ => true | None => false end.

Lemma corr_nm s : forall d,
   (alive (run false s (Some (false, K0, d))) = true -> has_markers s = false)
/\ (alive (run false s (Some (false, K1, d))) = true -> has_markers (226 :: s) = false)
/\ (alive (run false s (Some (false, K2, d))) = true -> has_markers (226 :: 128 :: s) = false).
Proof.
  unfold has_markers. induction s as [|x s IH]; intro d.
  - repeat split; reflexivity.
  - destruct (IH d) as [I0 [I1 I2]]. destruct (IH false) as [J0 _]. destruct (IH true) as [_ [T1 _]].
    repeat split; rewrite run_cons; cbn [step]; rewrite ?andb_false_r.
    + destruct (x =? 226) eqn:E226.
      * apply N.eqb_eq in E226. subst x. exact I1.
      * rewrite tokenize_cons_plain by assumption. exact J0.
    + destruct (x =? 226) eqn:E226.
      * apply N.eqb_eq in E226. subst x. rewrite tok_226_other by reflexivity. exact T1.
      * destruct (x =? 128) eqn:E128.
        { apply N.eqb_eq in E128. subst x. exact I2. }
        { rewrite tok_226_other by assumption. rewrite tokenize_cons_plain by assumption. exact J0. }
    + destruct (x =? 226) eqn:E226.
      * apply N.eqb_eq in E226. subst x. rewrite tok_226_128_other by reflexivity. exact T1.
      * destruct (x =? 185) eqn:E185; [cbn [orb negb]; rewrite run_None; discriminate|].
        destruct (x =? 186) eqn:E186; [rewrite run_None; discriminate|].
        rewrite tok_226_128_other by assumption. rewrite tokenize_cons_plain by assumption. exact J0.
Qed.

Lemma sst_no_markers s st : sst false s = Some st -> has_markers s = false.
Proof.
  intro H. destruct (corr_nm s false) as [C _]. apply C.
  change (alive (sst false s) = true). now rewrite H.
Qed.

(* ------------------------------------------------------------------ *)
(* N1, N2, N3                                                          *)
(* ------------------------------------------------------------------ *)

(* what a RedactableString argument must satisfy: well-formed markers, and no
   dangling E2 / E2 80 at its end or just before its trailing markers *)
Definition raw_ok (r : str) : Prop := sst true r = Some st0.

Lemma raw_ok_wf r : raw_ok r -> wf_red r = true.
Proof. intro H. exact (sst_wf r _ _ H). Qed.

Definition pieces_ok (ps : list piece) : Prop :=
  Forall (fun p => match p with PRaw r => raw_ok r | _ => True end) ps.

Lemma pieces_ok_piece_ok ps : pieces_ok ps -> Forall (piece_ok true) ps.
Proof.
  intro H. induction H as [|p ps Hp _ IH]; constructor; [|exact IH].
  destruct p; cbn; trivial.
Qed.

(* the output of the printer is itself a valid raw argument (closure) *)
Theorem sprint_raw_ok ps : pieces_ok ps -> raw_ok (sprint_pieces ps).
Proof. intro H. apply sprint_inv. now apply pieces_ok_piece_ok. Qed.

(* N1 *)
Theorem wf_unsafe s : wf_red (sprint_pieces [PUnsafe s]) = true.
Proof. apply raw_ok_wf, sprint_raw_ok. repeat constructor. Qed.

(* N2 *)
Theorem wf_safe s : wf_red (sprint_pieces [PSafe s]) = true.
Proof. apply raw_ok_wf, sprint_raw_ok. repeat constructor. Qed.

Theorem safe_no_markers s : has_markers (sprint_pieces [PSafe s]) = false.
Proof. apply (sst_no_markers _ st0), sprint_inv. repeat constructor. Qed.

(* more generally: literals and safe arguments never produce a marker *)
Theorem safe_pieces_no_markers ps :
  Forall (fun p => match p with PLit _ | PSafe _ => True | _ => False end) ps ->
  has_markers (sprint_pieces ps) = false.
Proof.
  intro H. apply (sst_no_markers _ st0), sprint_inv.
  induction H as [|p ps Hp _ IH]; constructor; [|exact IH]. destruct p; cbn; tauto.
Qed.

(* N3, corrected: see the counter-examples below for why [wf_red r] alone is
   not enough for raw pieces *)
Theorem wf_pieces ps : pieces_ok ps -> wf_red (sprint_pieces ps) = true.
Proof. intro H. now apply raw_ok_wf, sprint_raw_ok. Qed.

(* N3 as stated is FALSE: *)
Example wf_pieces_stated_false_1 :
  let ps := [PRaw [226]; PSafe [128; 185]] in
  Forall (fun p => match p with PRaw r => wf_red r = true | _ => True end) ps
  /\ wf_red (sprint_pieces ps) = false.
Proof. split; [repeat constructor|vm_compute; reflexivity]. Qed.

Example wf_pieces_stated_false_2 :
  let ps := [PRaw (m_start ++ [226; 128] ++ m_end); PUnsafe [186; 97]] in
  Forall (fun p => match p with PRaw r => wf_red r = true | _ => True end) ps
  /\ wf_red (sprint_pieces ps) = false
  /\ redact (sprint_pieces ps) = m_redacted ++ [97] ++ m_end.   (* the unsafe 'a' leaks *)
Proof. split; [repeat constructor|split; vm_compute; reflexivity]. Qed.
