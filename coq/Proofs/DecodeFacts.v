(* C05: DecodeError applied to any wire message returns a usable error: either
   the decoder registered for the type accepted the message, or the opaque
   stand-in that carries the message verbatim. *)
From Errv Require Import Base.Str Redact.Markers Redact.Buffer Model.Err Model.Sem Model.Details Model.Marks
     Model.Codec Proofs.StrFacts Proofs.FastIs Proofs.CodecFacts.
From Coq Require Import Lia List Bool.

Definition is_opaque (e : err) : bool :=
  match e with OLeaf _ _ _ _ | OWrap _ _ _ _ _ => true | _ => false end.

(* ---- decode_list keeps one decoded cause per wire cause ---- *)
Lemma decode_list_length p cs :
  forall n, List.length (fst (decode_list (decode p) cs n)) = List.length cs.
Proof.
  induction cs as [|x l IH]; intro n; cbn; [reflexivity|].
  destruct (decode p x n) as [e n1] eqn:E1.
  specialize (IH n1).
  destruct (decode_list (decode p) l n1) as [es n2] eqn:E2. cbn in *. now rewrite IH.
Qed.

(* the type keys of the nodes the decoders rebuild *)
Lemma tk_errorString i m : type_key (Leaf i (LErrString m)) = k_errorString.
Proof. reflexivity. Qed.
Lemma tk_deadline i : type_key (Leaf i LDeadline) = k_deadline.
Proof. reflexivity. Qed.
Lemma tk_leafError i m : type_key (Leaf i (LLeafError m)) = k_leafError.
Proof. reflexivity. Qed.
Lemma tk_barrier i s m : type_key (Barrier i s m) = k_barrier.
Proof. reflexivity. Qed.
Lemma tk_unimpl i m u d : type_key (Leaf i (LUnimpl m u d)) = k_unimpl.
Proof. reflexivity. Qed.
Lemma tk_errno i z : type_key (Leaf i (LErrno z)) = k_errno.
Proof. reflexivity. Qed.
Lemma tk_grpcStatus i c m : type_key (Leaf i (LGrpcStatus c m)) = k_grpcStatus.
Proof. reflexivity. Qed.
Lemma tk_gogoStatus i c m : type_key (Leaf i (LGogoStatus c m)) = k_gogoStatus.
Proof. reflexivity. Qed.
Lemma tk_join i cs : type_key (Multi i MJoin cs) = k_join.
Proof. reflexivity. Qed.
Lemma tk_second i c s : type_key (Second i c s) = k_withSecondary.
Proof. reflexivity. Qed.

Ltac red_fresh := cbv beta iota zeta delta [fresh fst snd].

(* the opaque leaf outcome *)
Lemma opaque_leaf_ok p msg d cs n :
  exists i es,
    fst (let '(es, n1) := decode_list (decode p) cs n in
         let '(i, n2) := fresh n1 in (OLeaf i msg d es, n2)) = OLeaf i msg d es /\
    List.length es = List.length cs.
Proof.
  pose proof (decode_list_length p cs n) as HL.
  destruct (decode_list (decode p) cs n) as [es n1]. cbn in HL.
  red_fresh. eauto.
Qed.

Ltac fin_leaf He HL :=
  cbn [fst] in He; subst;
  first
    [ left; do 2 eexists; split; [reflexivity | exact HL]
    | right; split; [reflexivity|];
      first
        [ left; reflexivity
        | right; left; split; reflexivity
        | right; right; left; split; [reflexivity|]; eexists; split; [reflexivity|]; split; [eassumption|reflexivity]
        | right; right; right; left; split; [reflexivity|]; eexists; split; [reflexivity|]; split; [eassumption|reflexivity]
        | right; right; right; right; split; reflexivity ] ].

Theorem decode_leaf_cases p msg d cs n :
  let e := fst (decode p (ELeaf msg d cs) n) in
  (exists i es, e = OLeaf i msg d es /\ List.length es = List.length cs) \/
  (is_opaque e = false /\
   (type_key e = dt_fam d \/
    (dt_fam d = k_barrierPrev /\ type_key e = k_barrier) \/
    (dt_fam d = k_errno /\
     exists pe, dt_full d = Some (PlErrno pe) /\ str_eqb (en_arch pe) this_arch = false /\
                e = Leaf (node_oid e) (LOpaqueErrno msg pe)) \/
    (dt_fam d = k_opaqueErrno /\
     exists pe, dt_full d = Some (PlErrno pe) /\ str_eqb (en_arch pe) this_arch = true /\
                e = Leaf (node_oid e) (LErrno (en_errno pe))) \/
    (dt_full d = Some PlTestError /\ e = Leaf (node_oid e) LTestError))).
Proof.
  intro e. assert (He : e = fst (decode p (ELeaf msg d cs) n)) by reflexivity. clearbody e.
  destruct d as [o fam ext rep pl]. cbn [decode dt_fam dt_full] in *.
  pose proof (decode_list_length p cs n) as HL.
  destruct (decode_list (decode p) cs n) as [es n1]. cbn [fst] in HL.
  cbv beta iota zeta delta [fresh] in He.
  destruct (mem_str fam leaf_decoder_keys && knows p fam) eqn:K1.
  - destruct (str_eqb fam k_errorString) eqn:T; [apply str_eqb_eq in T; subst fam; fin_leaf He HL|clear T].
    destruct (str_eqb fam k_deadline) eqn:T; [apply str_eqb_eq in T; subst fam; fin_leaf He HL|clear T].
    destruct (str_eqb fam k_leafError) eqn:T;
      [apply str_eqb_eq in T; subst fam; destruct pl as [[s|l|l|m tys|pe|m|c|c|c m| |u raw]|]; fin_leaf He HL|clear T].
    destruct (str_eqb fam k_barrier) eqn:T;
      [apply str_eqb_eq in T; subst fam; destruct pl as [[s|l|l|m tys|pe|m|c|c|c m| |u raw]|];
       try (destruct (decode p m n) as [em n2]); fin_leaf He HL|clear T].
    destruct (str_eqb fam k_barrierPrev) eqn:T;
      [apply str_eqb_eq in T; subst fam; destruct pl as [[s|l|l|m tys|pe|m|c|c|c m| |u raw]|];
       try (destruct (decode p m n) as [em n2]); fin_leaf He HL|clear T].
    destruct (str_eqb fam k_unimpl) eqn:T; [apply str_eqb_eq in T; subst fam; fin_leaf He HL|clear T].
    destruct (str_eqb fam k_errno) eqn:T;
      [apply str_eqb_eq in T; subst fam; destruct pl as [[s|l|l|m tys|pe|m|c|c|c m| |u raw]|];
       try (destruct (str_eqb (en_arch pe) this_arch) eqn:A); fin_leaf He HL|clear T].
    destruct (str_eqb fam k_opaqueErrno) eqn:T;
      [apply str_eqb_eq in T; subst fam; destruct pl as [[s|l|l|m tys|pe|m|c|c|c m| |u raw]|];
       try (destruct (str_eqb (en_arch pe) this_arch) eqn:A); fin_leaf He HL|clear T].
    destruct (str_eqb fam k_grpcStatus) eqn:T;
      [apply str_eqb_eq in T; subst fam; destruct pl as [[s|l|l|m tys|pe|m|c|c|c m| |u raw]|];
       try (destruct (c =? 0)); fin_leaf He HL|clear T].
    destruct (str_eqb fam k_gogoStatus) eqn:T;
      [apply str_eqb_eq in T; subst fam; destruct pl as [[s|l|l|m tys|pe|m|c|c|c m| |u raw]|];
       try (destruct (c =? 0)); fin_leaf He HL|clear T].
    fin_leaf He HL.
  - destruct (mem_str fam multi_decoder_keys && knows p fam) eqn:K2.
    + apply andb_true_iff in K2 as [K2 _]. apply mem_str_In in K2.
      destruct K2 as [K2|[]]. subst fam.
      destruct es as [|e1 es]; fin_leaf He HL.
    + destruct pl as [[s|l|l|m tys|pe|m|c|c|c m| |u raw]|]; fin_leaf He HL.
Qed.

Ltac fin_wrap He :=
  cbn [fst] in He; subst;
  first
    [ left; eexists; reflexivity
    | right; split; [reflexivity|]; split; reflexivity ].

Theorem decode_wrap_cases p c msg d mt n :
  let ec := fst (decode p c n) in
  let e := fst (decode p (EWrap c msg d mt) n) in
  (exists i, e = OWrap i msg d mt ec) \/
  (is_opaque e = false /\ type_key e = dt_fam d /\ unwrap_once e = Some ec).
Proof.
  intros ec e.
  assert (He : e = fst (decode p (EWrap c msg d mt) n)) by reflexivity. clearbody e.
  destruct d as [o fam ext rep pl]. cbn [decode dt_fam] in *.
  destruct (decode p c n) as [ec' n0]. cbn [fst] in ec. subst ec.
  cbv beta iota zeta delta [fresh] in He.
  destruct (mem_str fam wrap_decoder_keys && knows p fam) eqn:K1; [|fin_wrap He].
  destruct (str_eqb fam k_withPrefix) eqn:T; [apply str_eqb_eq in T; subst fam; destruct pl as [[s|l|tags|m tys|pe|m|cd|cd|cd m| |u raw]|]; fin_wrap He|clear T].
  destruct (str_eqb fam k_withNewMessage) eqn:T; [apply str_eqb_eq in T; subst fam; destruct pl as [[s|l|tags|m tys|pe|m|cd|cd|cd m| |u raw]|]; fin_wrap He|clear T].
  destruct (str_eqb fam k_withHint) eqn:T; [apply str_eqb_eq in T; subst fam; destruct pl as [[s|l|tags|m tys|pe|m|cd|cd|cd m| |u raw]|]; fin_wrap He|clear T].
  destruct (str_eqb fam k_withDetail) eqn:T; [apply str_eqb_eq in T; subst fam; destruct pl as [[s|l|tags|m tys|pe|m|cd|cd|cd m| |u raw]|]; fin_wrap He|clear T].
  destruct (str_eqb fam k_withIssueLink) eqn:T; [apply str_eqb_eq in T; subst fam; fin_wrap He|clear T].
  destruct (str_eqb fam k_withTelemetry) eqn:T; [apply str_eqb_eq in T; subst fam; fin_wrap He|clear T].
  destruct (str_eqb fam k_withDomain) eqn:T; [apply str_eqb_eq in T; subst fam; destruct rep as [|d0 rep]; fin_wrap He|clear T].
  destruct (str_eqb fam k_withContext) eqn:T; [apply str_eqb_eq in T; subst fam; destruct pl as [[s|l|tags|m tys|pe|m|cd|cd|cd m| |u raw]|]; try (destruct tags as [|tg tags]; destruct rep as [|r0 rep]); fin_wrap He|clear T].
  destruct (str_eqb fam k_withAssert) eqn:T; [apply str_eqb_eq in T; subst fam; fin_wrap He|clear T].
  destruct (str_eqb fam k_withMark) eqn:T; [apply str_eqb_eq in T; subst fam; destruct pl as [[s|l|tags|m tys|pe|m|cd|cd|cd m| |u raw]|]; try (destruct tys as [|t tys]); fin_wrap He|clear T].
  destruct (str_eqb fam k_withSafeDetails) eqn:T; [apply str_eqb_eq in T; subst fam; fin_wrap He|clear T].
  destruct (str_eqb fam k_withSecondary) eqn:T; [apply str_eqb_eq in T; subst fam; destruct pl as [[s|l|tags|m tys|pe|m|cd|cd|cd m| |u raw]|]; try (destruct (decode p m (Pos.succ n0)) as [es n2]); fin_wrap He|clear T].
  destruct (str_eqb fam k_withHTTP) eqn:T; [apply str_eqb_eq in T; subst fam; destruct pl as [[s|l|tags|m tys|pe|m|cd|cd|cd m| |u raw]|]; fin_wrap He|clear T].
  destruct (str_eqb fam k_withGrpc) eqn:T; [apply str_eqb_eq in T; subst fam; destruct pl as [[s|l|tags|m tys|pe|m|cd|cd|cd m| |u raw]|]; fin_wrap He|clear T].
  destruct (str_eqb fam k_pkgMsg) eqn:T; [apply str_eqb_eq in T; subst fam; fin_wrap He|clear T].
  destruct (str_eqb fam k_pathError) eqn:T; [apply str_eqb_eq in T; subst fam; destruct pl as [[s|l|tags|m tys|pe|m|cd|cd|cd m| |u raw]|]; try (destruct l as [|a [|b l]]); fin_wrap He|clear T].
  destruct (str_eqb fam k_linkError) eqn:T; [apply str_eqb_eq in T; subst fam; destruct pl as [[s|l|tags|m tys|pe|m|cd|cd|cd m| |u raw]|]; try (destruct l as [|a [|b [|c3 l]]]); fin_wrap He|clear T].
  destruct (str_eqb fam k_syscallError) eqn:T; [apply str_eqb_eq in T; subst fam; fin_wrap He|clear T].
  fin_wrap He.
Qed.

(* ---- payload faults ---- *)
Definition faulty_payload (pl : option payload) : Prop :=
  pl = None \/ exists u raw, pl = Some (PlOther u raw).

Ltac in_cases H :=
  repeat (destruct H as [H|H]; [symmetry in H|]); [..|destruct H].

Lemma decode_wrap_faulty_payload p c msg o fam ext rep pl mt n :
  faulty_payload pl ->
  In fam [k_withPrefix; k_withNewMessage; k_withHint; k_withDetail; k_withContext; k_withMark;
          k_withSecondary; k_withHTTP; k_withGrpc; k_pathError; k_linkError] ->
  exists i, fst (decode p (EWrap c msg (mkdet o fam ext rep pl) mt) n)
            = OWrap i msg (mkdet o fam ext rep pl) mt (fst (decode p c n)).
Proof.
  intros Hpl Hin. cbn [decode].
  destruct (decode p c n) as [ec n0]. exists n0.
  destruct Hpl as [->|(u & raw & ->)];
    in_cases Hin; subst fam;
    match goal with |- context [knows p ?k] => destruct (knows p k) end;
    reflexivity.
Qed.

Theorem decode_wrap_no_payload p c msg o fam ext rep mt n :
  In fam [k_withPrefix; k_withNewMessage; k_withHint; k_withDetail; k_withContext; k_withMark;
          k_withSecondary; k_withHTTP; k_withGrpc; k_pathError; k_linkError] ->
  exists i, fst (decode p (EWrap c msg (mkdet o fam ext rep None) mt) n)
            = OWrap i msg (mkdet o fam ext rep None) mt (fst (decode p c n)).
Proof. apply decode_wrap_faulty_payload. now left. Qed.

Theorem decode_wrap_foreign_payload p c msg o fam ext rep mt u raw n :
  In fam [k_withPrefix; k_withNewMessage; k_withHint; k_withDetail; k_withContext; k_withMark;
          k_withSecondary; k_withHTTP; k_withGrpc; k_pathError; k_linkError] ->
  exists i, fst (decode p (EWrap c msg (mkdet o fam ext rep (Some (PlOther u raw))) mt) n)
            = OWrap i msg (mkdet o fam ext rep (Some (PlOther u raw))) mt (fst (decode p c n)).
Proof. apply decode_wrap_faulty_payload. right. eauto. Qed.

Lemma decode_leaf_faulty_payload p msg o fam ext rep pl n :
  faulty_payload pl ->
  In fam [k_leafError; k_barrier; k_barrierPrev; k_errno; k_grpcStatus; k_gogoStatus] ->
  exists i, fst (decode p (ELeaf msg (mkdet o fam ext rep pl) []) n) = OLeaf i msg (mkdet o fam ext rep pl) [].
Proof.
  intros Hpl Hin. cbn [decode]. exists n.
  destruct Hpl as [->|(u & raw & ->)];
    in_cases Hin; subst fam;
    match goal with |- context [knows p ?k] => destruct (knows p k) end;
    reflexivity.
Qed.

Theorem decode_leaf_no_payload p msg o fam ext rep n :
  In fam [k_leafError; k_barrier; k_barrierPrev; k_errno; k_grpcStatus; k_gogoStatus] ->
  exists i, fst (decode p (ELeaf msg (mkdet o fam ext rep None) []) n) = OLeaf i msg (mkdet o fam ext rep None) [].
Proof. apply decode_leaf_faulty_payload. now left. Qed.

Theorem decode_leaf_foreign_payload p msg o fam ext rep u raw n :
  In fam [k_leafError; k_barrier; k_barrierPrev; k_errno; k_grpcStatus; k_gogoStatus] ->
  exists i, fst (decode p (ELeaf msg (mkdet o fam ext rep (Some (PlOther u raw))) []) n)
            = OLeaf i msg (mkdet o fam ext rep (Some (PlOther u raw))) [].
Proof. apply decode_leaf_faulty_payload. right. eauto. Qed.

(* Why [decode_leaf_cases] has a disjunct for OpaqueErrno: an errno that comes
   from another platform is rebuilt as *errbase.OpaqueErrno, which is neither
   the opaque leaf nor of the type the wire names (syscall.Errno). *)
Lemma decode_foreign_errno_witness :
  let d := mkdet [] k_errno [] [] (Some (PlErrno (mkerrno 1 (lit "plan9:arm") false false false false false))) in
  let e := fst (decode all_knowing (ELeaf (lit "m") d []) 1%positive) in
  e = Leaf 1%positive (LOpaqueErrno (lit "m") (mkerrno 1 (lit "plan9:arm") false false false false false)) /\
  is_opaque e = false /\ type_key e <> dt_fam d /\ dt_fam d <> k_barrierPrev /\
  dt_full d <> Some PlTestError.
Proof. vm_compute. repeat split; discriminate. Qed.

(* The decoder registered for errbase.OpaqueErrno (key [k_opaqueErrno]) behaves
   like the one of syscall.Errno; the payload faults send it to the opaque leaf too. *)
Lemma decode_leaf_faulty_payload_opaqueErrno p msg o ext rep pl n :
  faulty_payload pl ->
  exists i, fst (decode p (ELeaf msg (mkdet o k_opaqueErrno ext rep pl) []) n)
            = OLeaf i msg (mkdet o k_opaqueErrno ext rep pl) [].
Proof.
  intros Hpl. cbn [decode]. exists n.
  destruct Hpl as [->|(u & raw & ->)];
    match goal with |- context [knows p ?k] => destruct (knows p k) end;
    reflexivity.
Qed.

(* Why [decode_leaf_cases] has a disjunct for [k_opaqueErrno]: an OpaqueErrno that
   comes back to its own platform is rebuilt as syscall.Errno, which is neither the
   opaque leaf nor of the type the wire names, errbase.OpaqueErrno.  This is a
   counter-example to the former statement of [decode_leaf_cases] (the one without
   that disjunct): none of its four alternatives holds here. *)
Lemma decode_native_opaque_errno_witness :
  let pe := mkerrno 1 this_arch false false false false false in
  let d := mkdet [] k_opaqueErrno [] [] (Some (PlErrno pe)) in
  let e := fst (decode all_knowing (ELeaf (lit "m") d []) 1%positive) in
  e = Leaf 1%positive (LErrno 1) /\
  is_opaque e = false /\ type_key e <> dt_fam d /\ dt_fam d <> k_barrierPrev /\
  dt_fam d <> k_errno /\ dt_full d <> Some PlTestError.
Proof. vm_compute. repeat split; discriminate. Qed.
