(* Basic facts about the string functions of Base/Str.v *)
From Errv Require Import Base.Str.
From Coq Require Import Lia.

Lemma str_eqb_refl s : str_eqb s s = true.
Proof. induction s as [|x s IH]; cbn; [reflexivity|]. now rewrite N.eqb_refl, IH. Qed.

Lemma str_eqb_eq a b : str_eqb a b = true <-> a = b.
Proof.
  revert b; induction a as [|x a IH]; intros [|y b]; cbn; split; intro H; try reflexivity; try discriminate.
  - apply andb_true_iff in H as [H1 H2]. apply N.eqb_eq in H1. apply IH in H2. now subst.
  - injection H as -> ->. now rewrite N.eqb_refl, str_eqb_refl.
Qed.

Lemma str_eqb_neq a b : str_eqb a b = false <-> a <> b.
Proof.
  split; intro H.
  - intro E. apply str_eqb_eq in E. congruence.
  - destruct (str_eqb a b) eqn:E; [|reflexivity]. apply str_eqb_eq in E. contradiction.
Qed.

Lemma str_eqb_sym a b : str_eqb a b = str_eqb b a.
Proof.
  destruct (str_eqb a b) eqn:E.
  - apply str_eqb_eq in E; subst. now rewrite str_eqb_refl.
  - symmetry. apply str_eqb_neq. apply str_eqb_neq in E. congruence.
Qed.

Lemma mem_str_In s l : mem_str s l = true <-> In s l.
Proof.
  induction l as [|x l IH]; cbn; [split; [discriminate|tauto]|].
  rewrite orb_true_iff, IH, str_eqb_eq. split; intros [H|H]; auto.
Qed.

Lemma mem_str_not_In s l : mem_str s l = false <-> ~ In s l.
Proof.
  split; intro H.
  - intro I. apply mem_str_In in I. congruence.
  - destruct (mem_str s l) eqn:E; [|reflexivity]. apply mem_str_In in E. contradiction.
Qed.

Lemma str_eq_dec (a b : str) : {a = b} + {a <> b}.
Proof. decide equality. apply N.eq_dec. Qed.
