(* Facts about the type-migration registry model (Model/Migrate.v), C17. *)
From Errv Require Import Base.Str Model.Migrate Proofs.StrFacts.
From Coq Require Import Lia List Bool Permutation.
Import ListNotations.

(* ------------------------------------------------------------------ *)
(* helpers                                                            *)

Lemma reg_find_map (g : key -> key) r k :
  reg_find (List.map (fun np => (fst np, g (snd np))) r) k =
  match reg_find r k with Some b => Some (g b) | None => None end.
Proof.
  induction r as [|[a b] r IH]; [reflexivity|].
  cbn [List.map reg_find fst snd]. destruct (str_eqb a k); [reflexivity|apply IH].
Qed.

Lemma reg_find_repoint r n p' k :
  reg_find (List.map (fun np => (fst np, if str_eqb (snd np) n then p' else snd np)) r) k =
  match reg_find r k with Some b => Some (if str_eqb b n then p' else b) | None => None end.
Proof. exact (reg_find_map (fun b => if str_eqb b n then p' else b) r k). Qed.

Lemma register_some prev new r r' :
  register prev new r = Some r' ->
  reg_find r new = None /\
  r' = (new, resolve r prev) ::
       List.map (fun np => (fst np, if str_eqb (snd np) new then resolve r prev else snd np)) r.
Proof.
  unfold register, resolve. destruct (reg_find r new); [discriminate|].
  intro H; inversion H; auto.
Qed.

Lemma register_ok prev new r :
  reg_find r new = None ->
  register prev new r =
  Some ((new, resolve r prev) ::
       List.map (fun np => (fst np, if str_eqb (snd np) new then resolve r prev else snd np)) r).
Proof. unfold register, resolve. intros ->. reflexivity. Qed.

(* ------------------------------------------------------------------ *)
(* 1. registering the same target twice is rejected                   *)

Lemma register_dup (prev : key) new r f : reg_find r new = Some f -> forall p, register p new r = None.
Proof. intros H p. unfold register. now rewrite H. Qed.

Lemma register_twice p1 p2 new r r' : register p1 new r = Some r' -> register p2 new r' = None.
Proof.
  intro H. apply register_some in H. destruct H as [_ ->].
  apply (register_dup p1) with (f := resolve r p1).
  cbn [reg_find]. now rewrite str_eqb_refl.
Qed.

(* ------------------------------------------------------------------ *)
(* 2. flatness                                                        *)

Definition flat (r : registry) : Prop := forall n p, reg_find r n = Some p -> reg_find r p = None.

Lemma register_flat prev new r r' :
  flat r -> prev <> new -> reg_find r prev <> Some new -> register prev new r = Some r' -> flat r'.
Proof.
  intros Hflat Hne Hnn Hreg. apply register_some in Hreg. destruct Hreg as [Hnew ->].
  set (p' := resolve r prev).
  assert (Hp'new : str_eqb new p' = false).
  { apply str_eqb_neq. unfold p', resolve. destruct (reg_find r prev) eqn:E.
    - intro; subst. now apply Hnn.
    - intro; subst. now apply Hne. }
  assert (Hp'none : reg_find r p' = None).
  { unfold p', resolve. destruct (reg_find r prev) eqn:E; [eapply Hflat; eauto|exact E]. }
  assert (Hp' : reg_find ((new, p') ::
       List.map (fun np => (fst np, if str_eqb (snd np) new then p' else snd np)) r) p' = None).
  { cbn [reg_find]. rewrite Hp'new, reg_find_repoint, Hp'none. reflexivity. }
  intros k v Hk. cbn [reg_find] in Hk. destruct (str_eqb new k) eqn:Ek.
  - inversion Hk; subst v. exact Hp'.
  - rewrite reg_find_repoint in Hk. destruct (reg_find r k) as [b|] eqn:Eb; [|discriminate].
    inversion Hk; subst v; clear Hk. destruct (str_eqb b new) eqn:Ebn.
    + exact Hp'.
    + cbn [reg_find]. rewrite str_eqb_sym, Ebn, reg_find_repoint.
      now rewrite (Hflat _ _ Eb).
Qed.

Lemma resolve_idem r k : flat r -> resolve r (resolve r k) = resolve r k.
Proof.
  intro Hflat. unfold resolve at 2 3. destruct (reg_find r k) eqn:E.
  - unfold resolve. now rewrite (Hflat _ _ E).
  - unfold resolve. now rewrite E.
Qed.

(* ------------------------------------------------------------------ *)
(* 3. order independence                                              *)

(* General result: if the registered edges (prev,new) form a forest -- every
   target is registered once, and some rank strictly increases along every
   edge -- then, whatever the order of registration, every key resolves to
   the root of its tree. *)

Inductive reach (E : list (key * key)) : key -> key -> Prop :=
| reach_refl a : reach E a a
| reach_step a b c : reach E a b -> In (b, c) E -> reach E a c.

Lemma reach_trans E a b c : reach E a b -> reach E b c -> reach E a c.
Proof. intros Hab Hbc. revert Hab. induction Hbc; intro Hab; [assumption|]. eapply reach_step; [apply IHHbc; exact Hab|eassumption]. Qed.

Lemma reach_mono E E' a b : (forall x, In x E -> In x E') -> reach E a b -> reach E' a b.
Proof. intros Hi H. induction H; [constructor|]. eapply reach_step; eauto. Qed.

Section Forest.
  Variable rank : key -> nat.

  Definition ranked (E : list (key * key)) : Prop := forall a b, In (a, b) E -> (rank a < rank b)%nat.

  Lemma reach_rank E a b : ranked E -> reach E a b -> (rank a <= rank b)%nat.
  Proof. intros HR H. induction H; [lia|]. apply HR in H0. lia. Qed.

  Definition Inv (E : list (key * key)) (r : registry) : Prop :=
    ranked E /\
    (forall k, reg_find r k = None <-> ~ In k (List.map snd E)) /\
    (forall k, reach E (resolve r k) k /\ ~ In (resolve r k) (List.map snd E)).

  Lemma Inv_nil : Inv [] [].
  Proof.
    split; [intros a b []|]. split.
    - intro k; cbn; tauto.
    - intro k; cbn. split; [constructor|tauto].
  Qed.

  Lemma Inv_equiv E E' r : (forall x, In x E <-> In x E') -> Inv E r -> Inv E' r.
  Proof.
    intros Heq (HR & HK & HB).
    assert (Hsnd : forall k, In k (List.map snd E) <-> In k (List.map snd E')).
    { intro k. rewrite !in_map_iff. split; intros (x & Hx & Hin); exists x; split; auto; now apply Heq. }
    split; [|split].
    - intros a b Hin. apply HR. now apply Heq.
    - intro k. rewrite HK, Hsnd. tauto.
    - intro k. destruct (HB k) as [H1 H2]. split.
      + eapply reach_mono; [|exact H1]. intros x; apply Heq.
      + now rewrite <- Hsnd.
  Qed.

  Lemma Inv_step E r p n :
    Inv E r -> ~ In n (List.map snd E) -> (rank p < rank n)%nat ->
    exists r', register p n r = Some r' /\ Inv ((p, n) :: E) r'.
  Proof.
    intros (HR & HK & HB) Hn Hrk.
    assert (Hnone : reg_find r n = None) by now apply HK.
    rewrite (register_ok p n r Hnone). eexists; split; [reflexivity|].
    set (p' := resolve r p).
    destruct (HB p) as [Hp'reach Hp'root]. fold p' in Hp'reach, Hp'root.
    assert (Hp'n : p' <> n).
    { intro; subst n. pose proof (reach_rank _ _ _ HR Hp'reach). lia. }
    assert (Hmono : forall a b, reach E a b -> reach ((p, n) :: E) a b).
    { intros a b. apply reach_mono. intros x Hx; now right. }
    assert (Hp'n_reach : reach ((p, n) :: E) p' n).
    { eapply reach_step; [apply Hmono; exact Hp'reach|now left]. }
    assert (Hp'root' : ~ In p' (List.map snd ((p, n) :: E))).
    { cbn [List.map snd In]. intros [H|H]; [now apply Hp'n|now apply Hp'root]. }
    split; [|split].
    - intros a b [H|H]; [inversion H; subst; exact Hrk|now apply HR].
    - intro k. cbn [reg_find List.map snd In]. destruct (str_eqb n k) eqn:Ek.
      + apply str_eqb_eq in Ek. subst k. split; [discriminate|]. intro H; exfalso; apply H; now left.
      + apply str_eqb_neq in Ek. rewrite reg_find_repoint. specialize (HK k).
        destruct (reg_find r k) eqn:Er.
        * split; [discriminate|]. intro H. exfalso.
          assert (Hin : In k (List.map snd E)).
          { destruct (in_dec (list_eq_dec N.eq_dec) k (List.map snd E)) as [Hi|Hi]; [exact Hi|].
            apply HK in Hi. discriminate. }
          apply H; now right.
        * split; [|reflexivity]. intros _ [H|H]; [now apply Ek|]. now apply (proj1 HK).
    - intro k. unfold resolve at 1 2. cbn [reg_find]. destruct (str_eqb n k) eqn:Ek.
      + apply str_eqb_eq in Ek. subst k. split; assumption.
      + apply str_eqb_neq in Ek. rewrite reg_find_repoint.
        destruct (HB k) as [Hkreach Hkroot]. unfold resolve in Hkreach, Hkroot.
        destruct (reg_find r k) as [b|] eqn:Er.
        * destruct (str_eqb b n) eqn:Ebn.
          -- apply str_eqb_eq in Ebn. subst b. split; [|exact Hp'root'].
             eapply reach_trans; [exact Hp'n_reach|now apply Hmono].
          -- apply str_eqb_neq in Ebn. split; [now apply Hmono|].
             cbn [List.map snd In]. intros [H|H]; [now apply Ebn|now apply Hkroot].
        * split; [constructor|]. cbn [List.map snd In].
          intros [H|H]; [now apply Ek|now apply Hkroot].
  Qed.

  Lemma Inv_all regs : forall E r,
    Inv E r -> NoDup (List.map snd regs) ->
    (forall k, In k (List.map snd regs) -> ~ In k (List.map snd E)) ->
    ranked regs ->
    exists r' E', register_all regs r = Some r' /\ Inv E' r' /\
                  (forall x, In x E' <-> In x regs \/ In x E).
  Proof.
    induction regs as [|[p n] regs IH]; intros E r HI HND Hdisj HR.
    - exists r, E. split; [reflexivity|]. split; [assumption|]. intro x; cbn; tauto.
    - cbn [List.map snd] in HND. inversion HND as [|? ? Hnin HND']; subst.
      destruct (Inv_step E r p n HI) as (r1 & Hreg & HI1).
      { apply Hdisj. now left. }
      { apply HR. now left. }
      destruct (IH ((p, n) :: E) r1 HI1 HND') as (r' & E' & Hall & HI' & Heq).
      { intros k Hk. cbn [List.map snd In]. intros [H|H].
        - subst k. now apply Hnin.
        - apply (Hdisj k); [now right|exact H]. }
      { intros a b Hin. apply HR. now right. }
      exists r', E'. split; [cbn [register_all]; now rewrite Hreg|]. split; [assumption|].
      intro x. rewrite Heq. cbn [In]. tauto.
  Qed.
End Forest.

(* the forest theorem, for use outside chains: any order of registration of a
   ranked set of edges with distinct targets succeeds, and every key resolves
   to an ancestor that is not itself a target (its root) *)
Theorem forest_any_order (rank : key -> nat) regs :
  NoDup (List.map snd regs) -> ranked rank regs ->
  exists r, register_all regs [] = Some r /\
    forall k, reach regs (resolve r k) k /\ ~ In (resolve r k) (List.map snd regs).
Proof.
  intros HND HR.
  destruct (Inv_all rank regs [] [] (Inv_nil rank) HND) as (r & E' & Hall & HI & Heq); auto.
  exists r. split; [assumption|].
  assert (HI' : Inv rank regs r).
  { eapply Inv_equiv; [|exact HI]. intro x. rewrite Heq. cbn; tauto. }
  apply HI'.
Qed.

(* chains *)
Fixpoint chain_edges (ks : list key) : list (key * key) :=
  match ks with
  | a :: ((b :: _) as rest) => (a, b) :: chain_edges rest
  | _ => []
  end.

Lemma chain_edges_cons a b rest : chain_edges (a :: b :: rest) = (a, b) :: chain_edges (b :: rest).
Proof. reflexivity. Qed.

Lemma chain_edges_snd ks : List.map snd (chain_edges ks) = tl ks.
Proof.
  induction ks as [|a ks IH]; [reflexivity|]. destruct ks as [|b rest]; [reflexivity|].
  rewrite chain_edges_cons. cbn [List.map snd tl]. rewrite IH. reflexivity.
Qed.

Lemma chain_edges_in ks a b : In (a, b) (chain_edges ks) -> In a ks /\ In b (tl ks).
Proof.
  induction ks as [|x ks IH]; [intros []|]. destruct ks as [|y rest]; [intros []|].
  rewrite chain_edges_cons. intros [H|H].
  - inversion H; subst. split; [now left|now left].
  - apply IH in H. destruct H as [H1 H2]. split; [now right|].
    cbn [tl]. destruct rest; [destruct H2|]. now right.
Qed.

Fixpoint idx (ks : list key) (k : key) : nat :=
  match ks with
  | [] => 0
  | a :: t => if str_eqb a k then 0 else S (idx t k)
  end.

Lemma chain_edges_ranked ks : NoDup ks -> ranked (idx ks) (chain_edges ks).
Proof.
  induction ks as [|x ks IH]; [intros _ a b []|]. destruct ks as [|y rest]; [intros _ a b []|].
  intros HND a b. inversion HND as [|? ? Hx HND']; subst.
  rewrite chain_edges_cons. intros [H|H].
  - inversion H; subst. cbn [idx]. rewrite str_eqb_refl.
    assert (str_eqb a b = false) as ->. { apply str_eqb_neq. intro; subst. apply Hx. now left. }
    lia.
  - pose proof (chain_edges_in _ _ _ H) as [Ha Hb].
    assert (Hb' : In b (y :: rest)). { cbn [tl] in Hb. now right. }
    change (idx (x :: y :: rest)) with (fun k => if str_eqb x k then 0%nat else S (idx (y :: rest) k)).
    cbv beta.
    assert (str_eqb x a = false) as ->. { apply str_eqb_neq. intro; subst. now apply Hx. }
    assert (str_eqb x b = false) as ->. { apply str_eqb_neq. intro; subst. now apply Hx. }
    specialize (IH HND' a b H). lia.
Qed.

Lemma perm_in_iff {A} (l l' : list A) : Permutation l l' -> forall x, In x l <-> In x l'.
Proof. intros HP x. split; apply Permutation_in; [assumption|now apply Permutation_sym]. Qed.

Lemma chain_forest ks regs :
  NoDup ks -> Permutation regs (chain_edges ks) ->
  NoDup (List.map snd regs) /\ ranked (idx ks) regs.
Proof.
  intros HND HP. split.
  - eapply Permutation_NoDup; [apply Permutation_sym, Permutation_map; exact HP|].
    rewrite chain_edges_snd. destruct ks; [constructor|]. now inversion HND.
  - intros a b Hin. apply (chain_edges_ranked ks HND). now apply (perm_in_iff _ _ HP).
Qed.

Theorem chain_any_order_succeeds ks regs :
  NoDup ks -> Permutation regs (chain_edges ks) -> exists r, register_all regs [] = Some r.
Proof.
  intros HND HP. destruct (chain_forest ks regs HND HP) as [H1 H2].
  destruct (forest_any_order (idx ks) regs H1 H2) as (r & Hr & _). now exists r.
Qed.

Theorem chain_any_order ks regs r :
  NoDup ks -> Permutation regs (chain_edges ks) -> register_all regs [] = Some r ->
  forall k, In k ks -> resolve r k = hd [] ks.
Proof.
  intros HND HP Hall k Hk. destruct (chain_forest ks regs HND HP) as [H1 H2].
  destruct (forest_any_order (idx ks) regs H1 H2) as (r0 & Hr0 & Hroot).
  rewrite Hall in Hr0. inversion Hr0; subst r0; clear Hr0.
  destruct (Hroot k) as [Hreach Hnot].
  assert (Hin : In (resolve r k) ks).
  { clear Hnot. induction Hreach; [assumption|]. apply IHHreach.
    apply (perm_in_iff _ _ HP) in H. now apply chain_edges_in in H. }
  assert (Hnt : ~ In (resolve r k) (tl ks)).
  { rewrite <- chain_edges_snd. intro H. apply Hnot.
    eapply Permutation_in; [apply Permutation_sym, Permutation_map; exact HP|exact H]. }
  destruct ks as [|h t]; [destruct Hk|]. cbn [hd tl] in *.
  destruct Hin as [H|H]; [now symmetry|contradiction].
Qed.

(* and k0 itself stays unregistered *)
Theorem chain_root_unregistered ks regs r :
  NoDup ks -> Permutation regs (chain_edges ks) -> register_all regs [] = Some r ->
  reg_find r (hd [] ks) = None.
Proof.
  intros HND HP Hall.
  destruct (chain_forest ks regs HND HP) as [H1 H2].
  destruct (Inv_all (idx ks) regs [] [] (Inv_nil _) H1) as (r0 & E' & Hr0 & HI & Heq); auto.
  rewrite Hall in Hr0. inversion Hr0; subst r0; clear Hr0.
  destruct HI as (_ & HK & _). apply HK. intro Hin.
  apply in_map_iff in Hin. destruct Hin as ([a b] & Hb & Hx). cbn [snd] in Hb. subst b.
  apply Heq in Hx. destruct Hx as [Hx|[]].
  apply (perm_in_iff _ _ HP) in Hx. apply chain_edges_in in Hx. destruct Hx as [_ Hx].
  destruct ks as [|h t]; [destruct Hx|]. cbn [hd tl] in Hx. inversion HND; contradiction.
Qed.

(* ------------------------------------------------------------------ *)
(* 4. cross-version identity                                          *)

Definition knows_as (v : version) (k0 : key) : Prop :=
  match v_local v with Some n => resolve (v_reg v) n = k0 | None => True end.

Theorem encode_under_original v k0 h : knows_as v k0 -> create v = Some h -> send v h = k0.
Proof.
  unfold knows_as, create, send. destruct (v_local v) as [n|]; [|discriminate].
  intros Hk Hc. inversion Hc; subst h. exact Hk.
Qed.

Theorem decode_to_local v k0 n : v_local v = Some n -> knows_as v k0 -> receive v k0 = Local n.
Proof.
  unfold knows_as, receive. intros ->. intros ->. now rewrite str_eqb_refl.
Qed.

Lemma family_receive v k0 : knows_as v k0 -> family_of v (receive v k0) = k0.
Proof.
  intro Hk. destruct (v_local v) as [n|] eqn:E.
  - rewrite (decode_to_local v k0 n E Hk). unfold knows_as in Hk. rewrite E in Hk. exact Hk.
  - unfold receive. rewrite E. reflexivity.
Qed.

Theorem versions_agree s i r k0 hs :
  knows_as s k0 -> knows_as i k0 -> knows_as r k0 -> create s = Some hs ->
  family_of r (hop_v i r (hop_v s i hs)) = k0 /\
  family_of r (hop_v s r hs) = k0 /\
  (forall hr, create r = Some hr -> same_type r (hop_v i r (hop_v s i hs)) hr = true).
Proof.
  intros Hs Hi Hr Hc. unfold hop_v.
  rewrite (encode_under_original s k0 hs Hs Hc).
  assert (Hsi : send i (receive i k0) = k0) by (unfold send; now apply family_receive).
  rewrite Hsi.
  pose proof (family_receive r k0 Hr) as Hfr.
  split; [exact Hfr|]. split; [exact Hfr|].
  intros hr Hhr. unfold same_type. rewrite Hfr.
  pose proof (encode_under_original r k0 hr Hr Hhr) as H. unfold send in H. rewrite H.
  apply str_eqb_refl.
Qed.
