(* C03 for the PII-free outputs other than the renderings: safe details
   (errbase.GetSafeDetails / GetAllSafeDetails), the reportable part of the wire
   encoding (errbase.EncodeError) and the Sentry report (report.BuildSentryReport)
   do not depend on the CONTENT of the strings that the formatting engine prints
   as unsafe.

   Proofs/EngineNI.v gives the relation [ueq] and non-interference of the two
   redactable renderings ([ni_short], [ni_verbose]).  Here:

   1. [ni_safe_details]       get_safe_details e1 = get_safe_details e2
   2. [ni_all_safe_details]   get_all_safe_details e1 = get_all_safe_details e2
   3. [ni_encode]             enc_safe (encode e1) = enc_safe (encode e2)
                              ([enc_safe]: type names, type marks, reportable payloads and payload
                              type URLs of EVERY node of the encoding, payloads that are encoded
                              errors included; messages and full payloads dropped)
   4. [ni_report]             build_report e1 = build_report e2   (the whole report)

   1, 2 and 4 hold for [ueq' = ueq /\ sdx]: [sdx] says that the strings that are DECLARED safe but
   that no rendering prints are equal (SafeDetails() of the user types *ut.SafeDet / *ut.WSafeDet,
   the redacted tags a withContext layer received from the network).  These are safe strings, so
   this is a gap of [ueq], not a leak ([sdx_needed_*]).

   3 is FALSE for [ueq'] (findings, section 7):
     - [ni_encode_refuted_http]         the code of exthttp.withHTTPCode is printed as an UNSAFE
                                        argument by the formatter of the model, and written into the
                                        reportable payload ("HTTP 404") by its encoder;
     - [ni_encode_refuted_opaque_errno] the message of an *errbase.OpaqueErrno that is not one of the
                                        os sentinels is printed as unsafe, and written verbatim into
                                        the reportable payload by its encoder.
   3 holds for [ueq'' = ueq' /\ encx] where [encx] makes these two positions equal. *)
From Coq Require Import Lia List Bool.
From Errv Require Import Base.Str Redact.Markers Redact.Buffer Model.Err Model.Sem Model.Details Model.Marks
     Model.Codec Model.Access Model.Report
     Proofs.StrFacts Proofs.FastIs Proofs.RedactFacts Proofs.RedactWf Proofs.EngineFacts Proofs.EngineWf
     Proofs.EngineNI Proofs.HiddenVisible.
Import ListNotations.

(* ------------------------------------------------------------------ *)
(* 0. list helpers                                                     *)
(* ------------------------------------------------------------------ *)
Lemma Forall2_rev' {A} (P : A -> A -> Prop) l1 l2 : Forall2 P l1 l2 -> Forall2 P (rev l1) (rev l2).
Proof.
  induction 1 as [|x y l1 l2 Hxy _ IH]; [constructor|]. cbn [rev].
  apply Forall2_app; [exact IH|]. constructor; [exact Hxy|constructor].
Qed.

Lemma Forall2_flat_map' {A B} (P : A -> A -> Prop) (Q : B -> B -> Prop) (f : A -> list B) l1 l2 :
  Forall2 (fun x y => Forall2 Q (f x) (f y)) l1 l2 -> Forall2 Q (flat_map f l1) (flat_map f l2).
Proof.
  induction 1 as [|x y l1 l2 Hxy _ IH]; [constructor|]. cbn [flat_map]. now apply Forall2_app.
Qed.

Lemma Forall2_map_eq {A B} (f : A -> B) l1 l2 :
  Forall2 (fun x y => f x = f y) l1 l2 -> List.map f l1 = List.map f l2.
Proof. induction 1 as [|x y l1 l2 Hxy _ IH]; [reflexivity|]. cbn [List.map]. now rewrite Hxy, IH. Qed.

(* ------------------------------------------------------------------ *)
(* 1. strengthening [ueq]: positions that no rendering prints          *)
(* ------------------------------------------------------------------ *)
Section Nodes2.
Variables (L : leafk -> leafk -> Prop) (W : wlayer -> wlayer -> Prop).

(* [L] on every pair of corresponding leaves, [W] on every pair of corresponding wrapper layers,
   hidden errors included *)
Fixpoint nodes2 (e1 e2 : err) {struct e1} : Prop :=
  match e1, e2 with
  | Leaf _ k1, Leaf _ k2 => L k1 k2
  | Wrap _ w1 c1, Wrap _ w2 c2 => W w1 w2 /\ nodes2 c1 c2
  | Second _ c1 s1, Second _ c2 s2 => nodes2 c1 c2 /\ nodes2 s1 s2
  | Barrier _ _ h1, Barrier _ _ h2 => nodes2 h1 h2
  | Multi _ _ cs1, Multi _ _ cs2 => all2 nodes2 cs1 cs2
  | OLeaf _ _ _ cs1, OLeaf _ _ _ cs2 => all2 nodes2 cs1 cs2
  | OWrap _ _ _ _ c1, OWrap _ _ _ _ c2 => nodes2 c1 c2
  | _, _ => True
  end.
End Nodes2.

(* safe strings that SafeDetails() returns and that Format does not print *)
Definition lx (k1 k2 : leafk) : Prop :=
  match k1, k2 with
  | LUser ULSafeDet _ _ x1, LUser ULSafeDet _ _ x2 => x1 = x2
  | _, _ => True
  end.
Definition wx (w1 w2 : wlayer) : Prop :=
  match w1, w2 with
  | WContext _ r1, WContext _ r2 => r1 = r2
  | WUser UWSafeDet _ x1, WUser UWSafeDet _ x2 => x1 = x2
  | _, _ => True
  end.
Definition sdx : err -> err -> Prop := nodes2 lx wx.

Definition ueq' (e1 e2 : err) : Prop := ueq e1 e2 /\ sdx e1 e2.

(* the two positions where the encoders of the model write into the reportable payload something
   that the formatter prints as unsafe (section 7) *)
Definition lx3 (k1 k2 : leafk) : Prop :=
  match k1, k2 with
  | LOpaqueErrno m1 _, LOpaqueErrno m2 _ => m1 = m2
  | _, _ => True
  end.
Definition wx3 (w1 w2 : wlayer) : Prop :=
  match w1, w2 with
  | WHTTP c1, WHTTP c2 => c1 = c2
  | _, _ => True
  end.
Definition encx : err -> err -> Prop := nodes2 lx3 wx3.

Definition ueq'' (e1 e2 : err) : Prop := ueq' e1 e2 /\ encx e1 e2.

(* the hypotheses of the theorems, bundled *)
Definition RB (e1 e2 : err) : Prop := ueq e1 e2 /\ sdx e1 e2 /\ vb_ok e1 /\ vb_ok e2.

Lemma all2_F2 {A} (P : A -> A -> Prop) l1 l2 : all2 P l1 l2 -> Forall2 P l1 l2.
Proof. apply all2_Forall2. Qed.

Lemma all2_RB cs1 : forall cs2, all2 ueq cs1 cs2 -> all2 sdx cs1 cs2 -> allP vb_ok cs1 -> allP vb_ok cs2 ->
  Forall2 RB cs1 cs2.
Proof.
  induction cs1 as [|x r IH]; intros [|y s]; simpl; intros HU HX V1 V2; try contradiction; constructor.
  - unfold RB. tauto.
  - apply IH; tauto.
Qed.

Lemma RB_kind e1 e2 : RB e1 e2 ->
  match e1, e2 with
  | Leaf _ _, Leaf _ _ | Wrap _ _ _, Wrap _ _ _ | Second _ _ _, Second _ _ _ | Barrier _ _ _, Barrier _ _ _
  | Multi _ _ _, Multi _ _ _ | OLeaf _ _ _ _, OLeaf _ _ _ _ | OWrap _ _ _ _ _, OWrap _ _ _ _ _ => True
  | _, _ => False
  end.
Proof. intros [HU _]. destruct e1, e2; cbn [ueq] in HU; try contradiction; exact I. Qed.

Lemma RB_leaf i1 i2 k1 k2 : RB (Leaf i1 k1) (Leaf i2 k2) -> lrel k1 k2 /\ lx k1 k2.
Proof. intros (HU & HX & _). split; [exact HU|exact HX]. Qed.

Lemma RB_wrap i1 i2 w1 w2 c1 c2 : RB (Wrap i1 w1 c1) (Wrap i2 w2 c2) ->
  wrel w1 w2 /\ wx w1 w2 /\ RB c1 c2.
Proof.
  intros (HU & HX & V1 & V2). cbn [ueq] in HU. unfold sdx in HX. cbn [nodes2] in HX. cbn [vb_ok] in V1, V2.
  unfold RB, sdx. tauto.
Qed.

Lemma RB_second i1 i2 c1 c2 s1 s2 : RB (Second i1 c1 s1) (Second i2 c2 s2) ->
  RB c1 c2 /\ RB s1 s2 /\ glue_top s1 /\ glue_top s2.
Proof.
  intros (HU & HX & V1 & V2). cbn [ueq] in HU. unfold sdx in HX. cbn [nodes2] in HX. cbn [vb_ok] in V1, V2.
  unfold RB, sdx. tauto.
Qed.

Lemma RB_barrier i1 i2 m1 m2 h1 h2 : RB (Barrier i1 m1 h1) (Barrier i2 m2 h2) ->
  redact m1 = redact m2 /\ RB h1 h2 /\ glue_top h1 /\ glue_top h2.
Proof.
  intros (HU & HX & V1 & V2). cbn [ueq] in HU. unfold sdx in HX. cbn [nodes2] in HX. cbn [vb_ok] in V1, V2.
  unfold RB, sdx. tauto.
Qed.

Lemma RB_multi i1 i2 k1 k2 cs1 cs2 : RB (Multi i1 k1 cs1) (Multi i2 k2 cs2) ->
  mkrel k1 k2 /\ Forall2 RB cs1 cs2.
Proof.
  intros (HU & HX & V1 & V2). cbn [ueq] in HU. unfold sdx in HX. cbn [nodes2] in HX. cbn [vb_ok] in V1, V2.
  split; [tauto|]. apply all2_RB; tauto.
Qed.

Lemma RB_oleaf i1 i2 m1 m2 d1 d2 cs1 cs2 : RB (OLeaf i1 m1 d1 cs1) (OLeaf i2 m2 d2 cs2) ->
  d1 = d2 /\ Forall2 RB cs1 cs2.
Proof.
  intros (HU & HX & V1 & V2). cbn [ueq] in HU. unfold sdx in HX. cbn [nodes2] in HX. cbn [vb_ok] in V1, V2.
  split; [tauto|]. apply all2_RB; tauto.
Qed.

Lemma RB_owrap i1 i2 p1 p2 d1 d2 t1 t2 c1 c2 : RB (OWrap i1 p1 d1 t1 c1) (OWrap i2 p2 d2 t2 c2) ->
  d1 = d2 /\ RB c1 c2.
Proof.
  intros (HU & HX & V1 & V2). cbn [ueq] in HU. unfold sdx in HX. cbn [nodes2] in HX. cbn [vb_ok] in V1, V2.
  unfold RB, sdx. tauto.
Qed.

(* ------------------------------------------------------------------ *)
(* 2. one node                                                         *)
(* ------------------------------------------------------------------ *)
(* errbase.getDetails: the fallback for the StackTraceProviders of pkg/errors *)
Definition pkgd (e : err) : list str :=
  match e with
  | Leaf _ (LPkgFund _ st) => [print_stack st]
  | Wrap _ (WPkgStack st) _ => [print_stack st]
  | _ => []
  end.

Lemma get_details_eq e :
  get_details e = match safe_details_of e with Some ds => ds | None => pkgd e end.
Proof. reflexivity. Qed.

(* everything the PII-free outputs read from ONE node *)
Definition NE (e1 e2 : err) : Prop :=
  type_details e1 = type_details e2 /\ safe_details_of e1 = safe_details_of e2 /\
  own_stack_of e1 = own_stack_of e2 /\ pkgd e1 = pkgd e2.

Lemma NE_gsd e1 e2 : NE e1 e2 -> get_safe_details e1 = get_safe_details e2.
Proof.
  intros (T & S & _ & P). unfold get_safe_details. rewrite !get_details_eq, T, S, P. reflexivity.
Qed.

Lemma NE_key e1 e2 : NE e1 e2 -> type_key e1 = type_key e2.
Proof. intros (T & _). unfold type_key. now rewrite T. Qed.

Lemma NE_stack e1 e2 : NE e1 e2 -> get_reportable_stack e1 = get_reportable_stack e2.
Proof.
  intros H. pose proof (NE_key _ _ H) as K. destruct H as (T & S & O & P).
  unfold get_reportable_stack. now rewrite O, S, K.
Qed.

Lemma lrel_leaf_ty k1 k2 : lrel k1 k2 -> leaf_ty k1 = leaf_ty k2.
Proof.
  destruct k1, k2; cbn [lrel]; try contradiction; try reflexivity. intros [-> _]. reflexivity.
Qed.

Lemma NE_leaf i1 i2 k1 k2 : lrel k1 k2 -> lx k1 k2 -> NE (Leaf i1 k1) (Leaf i2 k2).
Proof.
  intros HL HX. pose proof (lrel_leaf_ty _ _ HL) as T. unfold NE. split; [|split; [|split]].
  - unfold type_details, own_tmark, tmark_of, own_ext, go_full_name, go_ty. now rewrite T.
  - destruct k1, k2; cbn [lrel] in HL; try contradiction; try reflexivity.
    + (* LLeafError *) cbn [safe_details_of]. unfold redact_strip. now rewrite HL.
    + (* LUnimpl *) destruct HL as (_ & -> & ->). reflexivity.
    + (* LUser *) destruct HL as [<- HL]. destruct u; try reflexivity. cbn [lx] in HX. now subst.
  - destruct k1, k2; cbn [lrel] in HL; try contradiction; try reflexivity.
    destruct HL as [_ ->]. reflexivity.
  - destruct k1, k2; cbn [lrel] in HL; try contradiction; try reflexivity.
    destruct HL as [_ ->]. reflexivity.
Qed.

Lemma redact_tags_rel t1 t2 : Forall2 tag_rel t1 t2 -> redact_tags t1 = redact_tags t2.
Proof.
  induction 1 as [|kv1 kv2 r1 r2 Hkv _ IH]; [reflexivity|]. unfold redact_tags in *. cbn [List.map].
  rewrite IH. destruct (tag_redactable_rel _ _ Hkv) as (_ & _ & E). unfold redact_strip. now rewrite E.
Qed.

Lemma NE_wrap i1 i2 w1 w2 c1 c2 : wrel w1 w2 -> wx w1 w2 -> NE (Wrap i1 w1 c1) (Wrap i2 w2 c2).
Proof.
  intros HW HX. unfold NE.
  destruct w1, w2; cbn [wrel] in HW; try contradiction.
  all: try (repeat split; reflexivity).
  - (* WStack *) subst. repeat split; reflexivity.
  - (* WPrefix *) repeat split; try reflexivity. cbn [safe_details_of]. unfold redact_strip. now rewrite HW.
  - (* WNewMsg *) repeat split; try reflexivity. cbn [safe_details_of]. unfold redact_strip. now rewrite HW.
  - (* WIssueLink *) destruct HW as [-> ->]. repeat split; reflexivity.
  - (* WTelemetry *) subst. repeat split; reflexivity.
  - (* WDomain *) subst. repeat split; reflexivity.
  - (* WContext *) cbn [wx] in HX. subst. repeat split; try reflexivity. cbn [safe_details_of].
    destruct redacted0; [reflexivity|]. now rewrite (redact_tags_rel _ _ HW).
  - (* WSafeDetails *) subst. repeat split; reflexivity.
  - (* WPkgStack *) subst. repeat split; reflexivity.
  - (* WUser *) subst. repeat split; try reflexivity. destruct u0; try reflexivity. cbn [wx] in HX. now subst.
Qed.

Lemma filled_gasd h1 h2 : get_all_safe_details h1 = get_all_safe_details h2 -> filled_details h1 = filled_details h2.
Proof. unfold filled_details. now intros ->. Qed.

Lemma NE_second i1 i2 c1 c2 s1 s2 : filled_details s1 = filled_details s2 ->
  NE (Second i1 c1 s1) (Second i2 c2 s2).
Proof.
  intro H. unfold NE. rewrite !secondary_safe_details, H. repeat split; reflexivity.
Qed.

Lemma NE_barrier i1 i2 m1 m2 h1 h2 : filled_details h1 = filled_details h2 ->
  redact (fmt_red_verbose h1) = redact (fmt_red_verbose h2) ->
  NE (Barrier i1 m1 h1) (Barrier i2 m2 h2).
Proof.
  intros H E. unfold NE. rewrite !barrier_safe_details, H. unfold redact_strip. rewrite E.
  repeat split; reflexivity.
Qed.

Lemma mkrel_ty k1 k2 : mkrel k1 k2 -> multi_ty k1 = multi_ty k2.
Proof. destruct k1, k2; cbn [mkrel]; try contradiction; reflexivity. Qed.

Lemma NE_multi i1 i2 k1 k2 cs1 cs2 : mkrel k1 k2 -> NE (Multi i1 k1 cs1) (Multi i2 k2 cs2).
Proof.
  intro H. apply mkrel_ty in H. unfold NE. repeat split; try reflexivity.
  unfold type_details, own_tmark, tmark_of, own_ext, go_full_name, go_ty. now rewrite H.
Qed.

Lemma NE_oleaf i1 i2 m1 m2 d cs1 cs2 : NE (OLeaf i1 m1 d cs1) (OLeaf i2 m2 d cs2).
Proof. unfold NE. repeat split; reflexivity. Qed.

Lemma NE_owrap i1 i2 p1 p2 d t1 t2 c1 c2 : NE (OWrap i1 p1 d t1 c1) (OWrap i2 p2 d t2 c2).
Proof. unfold NE. repeat split; reflexivity. Qed.

(* the errors a node hides and whose safe details it folds into its own *)
Definition hid (e : err) : option err :=
  match e with Second _ _ s => Some s | Barrier _ _ m => Some m | _ => None end.

Lemma NE_of e1 e2 : RB e1 e2 ->
  (forall h1 h2, hid e1 = Some h1 -> hid e2 = Some h2 -> RB h1 h2 ->
                 get_all_safe_details h1 = get_all_safe_details h2) ->
  NE e1 e2.
Proof.
  intros HR HH. pose proof (RB_kind _ _ HR) as K. destruct e1, e2; try contradiction.
  - destruct (RB_leaf _ _ _ _ HR) as [A B]. now apply NE_leaf.
  - destruct (RB_wrap _ _ _ _ _ _ HR) as (A & B & _). now apply NE_wrap.
  - destruct (RB_second _ _ _ _ _ _ HR) as (_ & Hs & _). apply NE_second, filled_gasd.
    now apply HH.
  - destruct (RB_barrier _ _ _ _ _ _ HR) as (_ & Hh & G1 & G2). apply NE_barrier.
    + apply filled_gasd. now apply HH.
    + destruct Hh as (HU & _ & V1 & V2). now apply ni_verbose.
  - destruct (RB_multi _ _ _ _ _ _ HR) as (A & _). now apply NE_multi.
  - destruct (RB_oleaf _ _ _ _ _ _ _ _ HR) as (<- & _). apply NE_oleaf.
  - destruct (RB_owrap _ _ _ _ _ _ _ _ _ _ HR) as (<- & _). apply NE_owrap.
Qed.

(* ------------------------------------------------------------------ *)
(* 3. GetSafeDetails / GetAllSafeDetails                               *)
(* ------------------------------------------------------------------ *)
Lemma gasd_step e :
  get_all_safe_details e =
  get_safe_details e :: match unwrap_once e with Some c => get_all_safe_details c | None => [] end.
Proof. destruct e; reflexivity. Qed.

Lemma gasd_RB e1 : forall e2, RB e1 e2 -> get_all_safe_details e1 = get_all_safe_details e2.
Proof.
  induction e1 using err_ind'; intros e2 HR; pose proof (RB_kind _ _ HR) as K; destruct e2; try contradiction.
  all: match goal with |- get_all_safe_details ?a = get_all_safe_details ?b =>
         rewrite (gasd_step a), (gasd_step b); cbn [unwrap_once] end.
  - f_equal. apply NE_gsd, NE_of; [exact HR|]. intros h1 h2 E; discriminate E.
  - f_equal.
    + apply NE_gsd, NE_of; [exact HR|]. intros h1 h2 E; discriminate E.
    + apply IHe1. exact (proj2 (proj2 (RB_wrap _ _ _ _ _ _ HR))).
  - destruct (RB_second _ _ _ _ _ _ HR) as (Hc & Hs & _). f_equal.
    + apply NE_gsd, NE_of; [exact HR|]. cbn [hid]. intros h1 h2 E1 E2. injection E1 as <-. injection E2 as <-.
      apply IHe1_2.
    + now apply IHe1_1.
  - f_equal. apply NE_gsd, NE_of; [exact HR|]. cbn [hid]. intros h1 h2 E1 E2. injection E1 as <-. injection E2 as <-.
    apply IHe1.
  - f_equal. apply NE_gsd, NE_of; [exact HR|]. intros h1 h2 E; discriminate E.
  - f_equal. apply NE_gsd, NE_of; [exact HR|]. intros h1 h2 E; discriminate E.
  - f_equal.
    + apply NE_gsd, NE_of; [exact HR|]. intros h1 h2 E; discriminate E.
    + apply IHe1. exact (proj2 (RB_owrap _ _ _ _ _ _ _ _ _ _ HR)).
Qed.

Lemma NE_RB e1 e2 : RB e1 e2 -> NE e1 e2.
Proof. intro HR. apply NE_of; [exact HR|]. intros h1 h2 _ _. apply gasd_RB. Qed.

(* 1. errbase.GetSafeDetails(err): type names and safe details of the outermost layer *)
Theorem ni_safe_details e1 e2 : ueq' e1 e2 -> vb_ok e1 -> vb_ok e2 ->
  get_safe_details e1 = get_safe_details e2.
Proof. intros [HU HX] V1 V2. apply NE_gsd, NE_RB. unfold RB. tauto. Qed.

(* the SafeDetails() method itself (None: the type is not a SafeDetailer) *)
Theorem ni_safe_details_of e1 e2 : ueq' e1 e2 -> vb_ok e1 -> vb_ok e2 ->
  safe_details_of e1 = safe_details_of e2.
Proof. intros [HU HX] V1 V2. apply (NE_RB e1 e2). unfold RB. tauto. Qed.

(* 2. errbase.GetAllSafeDetails(err): every layer of the causal chain *)
Theorem ni_all_safe_details e1 e2 : ueq' e1 e2 -> vb_ok e1 -> vb_ok e2 ->
  get_all_safe_details e1 = get_all_safe_details e2.
Proof. intros [HU HX] V1 V2. apply gasd_RB. unfold RB. tauto. Qed.

(* ------------------------------------------------------------------ *)
(* 4. the Sentry report                                                *)
(* ------------------------------------------------------------------ *)
Lemma Forall_Forall2 {A} (P Q : A -> A -> Prop) l1 :
  Forall (fun x => forall y, P x y -> Q x y) l1 -> forall l2, Forall2 P l1 l2 -> Forall2 Q l1 l2.
Proof.
  induction 1 as [|x r Hx _ IH]; intros l2 H2; inversion H2; subst; constructor; auto.
Qed.

(* the layers report.visitAllMulti enumerates correspond pairwise *)
Lemma visit_RB e1 : forall e2, RB e1 e2 -> Forall2 RB (visit_all e1) (visit_all e2).
Proof.
  induction e1 using err_ind'; intros e2 HR; pose proof (RB_kind _ _ HR) as K; destruct e2; try contradiction;
    cbn [visit_all]; (constructor; [exact HR|]).
  - constructor.
  - apply IHe1. exact (proj2 (proj2 (RB_wrap _ _ _ _ _ _ HR))).
  - apply IHe1_1. exact (proj1 (RB_second _ _ _ _ _ _ HR)).
  - constructor.
  - apply (Forall2_flat_map' RB RB). apply (Forall_Forall2 RB _ cs H). exact (proj2 (RB_multi _ _ _ _ _ _ HR)).
  - apply (Forall2_flat_map' RB RB). apply (Forall_Forall2 RB _ cs H). exact (proj2 (RB_oleaf _ _ _ _ _ _ _ _ HR)).
  - apply IHe1. exact (proj2 (RB_owrap _ _ _ _ _ _ _ _ _ _ HR)).
Qed.

Lemma report_layer_NE m b st l1 l2 : NE l1 l2 -> report_layer m b st l1 = report_layer m b st l2.
Proof.
  intro H. unfold report_layer. rewrite (NE_gsd _ _ H), (NE_stack _ _ H). reflexivity.
Qed.

Lemma report_layers_NE m ls1 ls2 : Forall2 NE ls1 ls2 -> forall b st,
  report_layers m b st ls1 = report_layers m b st ls2.
Proof.
  induction 1 as [|x y l1 l2 Hxy _ IH]; intros b st; [reflexivity|]. cbn [report_layers].
  rewrite (report_layer_NE m b st x y Hxy). apply IH.
Qed.

Definition dom_of (w : wlayer) : option str := match w with WDomain d => Some d | _ => None end.

Lemma wrel_dom w1 w2 : wrel w1 w2 -> dom_of w1 = dom_of w2.
Proof. destruct w1, w2; cbn [wrel]; try contradiction; try reflexivity. now intros ->. Qed.

Lemma get_domain_ueq e1 : forall e2, ueq e1 e2 -> get_domain e1 = get_domain e2.
Proof.
  unfold get_domain.
  set (p := fun c : err => match c with Wrap _ (WDomain d) _ => Some d | _ => None end).
  assert (Hp : forall i w c, p (Wrap i w c) = dom_of w) by (intros i w c; destruct w; reflexivity).
  assert (H : forall e2, ueq e1 e2 -> if_ p e1 = if_ p e2); [|intros e2 HU; now rewrite (H e2 HU)].
  induction e1 using err_ind'; intros e2 HU; destruct e2; cbn [ueq] in HU; try contradiction; try reflexivity.
  - destruct HU as (HW & HC & _). cbn [if_]. rewrite !Hp, (wrel_dom _ _ HW).
    destruct (dom_of w0); [reflexivity|]. now apply IHe1.
  - destruct HU as (HC & _). cbn [if_]. change (p (Second i e1_1 e1_2)) with (@None str).
    change (p (Second i0 e2_1 e2_2)) with (@None str). cbv iota. now apply IHe1_1.
  - destruct HU as (_ & _ & _ & HC). cbn [if_]. change (p (OWrap i p0 d mt e1)) with (@None str).
    change (p (OWrap i0 pfx d0 mt0 e2)) with (@None str). cbv iota. now apply IHe1.
Qed.

(* the source position of one layer *)
Definition own_src (e : err) : option (str * Z * str) :=
  match own_stack_of e with
  | Some [] => None
  | Some (f :: _) => Some (source_of_printed (print_stack [f]))
  | None =>
    match safe_details_of e with
    | Some (d0 :: _) => if is_stack_key (type_key e) then Some (source_of_printed d0) else None
    | _ => None
    end
  end.

Lemma gols_step e :
  get_one_line_source e =
  match unwrap_once e with
  | Some c => match get_one_line_source c with Some r => Some r | None => own_src e end
  | None => own_src e
  end.
Proof. destruct e; reflexivity. Qed.

Lemma own_src_NE e1 e2 : NE e1 e2 -> own_src e1 = own_src e2.
Proof.
  intro H. pose proof (NE_key _ _ H) as K. destruct H as (T & S & O & P).
  unfold own_src. now rewrite O, S, K.
Qed.

Lemma gols_RB e1 : forall e2, RB e1 e2 -> get_one_line_source e1 = get_one_line_source e2.
Proof.
  induction e1 using err_ind'; intros e2 HR; pose proof (RB_kind _ _ HR) as K; destruct e2; try contradiction.
  all: match goal with |- get_one_line_source ?a = get_one_line_source ?b =>
         rewrite (gols_step a), (gols_step b); cbn [unwrap_once]; rewrite (own_src_NE a b (NE_RB a b HR)) end.
  all: try reflexivity.
  - rewrite (IHe1 e2); [reflexivity|]. exact (proj2 (proj2 (RB_wrap _ _ _ _ _ _ HR))).
  - rewrite (IHe1_1 e2_1); [reflexivity|]. exact (proj1 (RB_second _ _ _ _ _ _ HR)).
  - rewrite (IHe1 e2); [reflexivity|]. exact (proj2 (RB_owrap _ _ _ _ _ _ _ _ _ _ HR)).
Qed.

(* 4. report.BuildSentryReport(err): the message, the exceptions (types, values, modules, frames) and
   the "error types" extra *)
Theorem ni_report e1 e2 : ueq' e1 e2 -> vb_ok e1 -> vb_ok e2 -> glue_top e1 -> glue_top e2 ->
  build_report e1 = build_report e2.
Proof.
  intros [HU HX] V1 V2 G1 G2.
  assert (HR : RB e1 e2) by (unfold RB; tauto).
  assert (E1 : get_domain e1 = get_domain e2) by (now apply get_domain_ueq).
  assert (E2 : get_one_line_source e1 = get_one_line_source e2) by (now apply gols_RB).
  assert (E3 : redact (fmt_red_verbose e1) = redact (fmt_red_verbose e2)) by (now apply ni_verbose).
  assert (E4 : forall m b st, report_layers m b st (rev (visit_all e1)) = report_layers m b st (rev (visit_all e2))).
  { intros m b st. apply report_layers_NE, Forall2_rev'.
    apply (Forall2_imp RB NE); [exact NE_RB|]. now apply visit_RB. }
  unfold build_report. cbv zeta. rewrite E1, E2, E3. rewrite !E4. reflexivity.
Qed.

Corollary ni_report_message e1 e2 : ueq' e1 e2 -> vb_ok e1 -> vb_ok e2 -> glue_top e1 -> glue_top e2 ->
  rp_message (build_report e1) = rp_message (build_report e2) /\
  rp_exceptions (build_report e1) = rp_exceptions (build_report e2) /\
  rp_types (build_report e1) = rp_types (build_report e2).
Proof. intros H V1 V2 G1 G2. now rewrite (ni_report e1 e2 H V1 V2 G1 G2). Qed.

(* ------------------------------------------------------------------ *)
(* 5. the reportable part of the wire encoding                         *)
(* ------------------------------------------------------------------ *)
(* what is PII-free in an errorspb.EncodedError: per node the type names (original type name, family,
   extension), the reportable payload, the type URL of the full payload; recursively for the causes
   and for the payloads that are encoded errors (barrier, secondary).  Messages, prefixes and the
   content of the full payloads are dropped. *)
Inductive senc :=
| SLeaf (d : sdet) (cs : list senc)
| SWrap (c : senc) (d : sdet)
with sdet :=
| mksdet (orig fam ext : str) (rep : list str) (url : option str) (sub : option senc).

Fixpoint enc_safe (x : enc) : senc :=
  match x with
  | ELeaf _ d cs => SLeaf (det_safe d) (List.map enc_safe cs)
  | EWrap c _ d _ => SWrap (enc_safe c) (det_safe d)
  end
with det_safe (d : details) : sdet :=
  match d with
  | mkdet o f x rep full =>
    mksdet o f x rep
      (match full with Some p => Some (any_url p) | None => None end)
      (match full with Some (PlEnc e) => Some (enc_safe e) | _ => None end)
  end.

Definition pl_url (full : option payload) : option str :=
  match full with Some p => Some (any_url p) | None => None end.
Definition pl_sub (full : option payload) : option senc :=
  match full with Some (PlEnc e) => Some (enc_safe e) | _ => None end.
Definition mk_sdet (td : str * str * str) (rep : list str) (url : option str) (sub : option senc) : sdet :=
  let '(o, f, x) := td in mksdet o f x rep url sub.

Lemma det_safe_mk e rep full :
  det_safe (mk_details e rep full) = mk_sdet (type_details e) rep (pl_url full) (pl_sub full).
Proof. unfold mk_details, mk_sdet. destruct (type_details e) as [[o f] x]. reflexivity. Qed.

(* the reportable payload and the full payload the encoder of each type produces *)
Definition sdn (o : option (list str)) : list str := match o with Some ds => ds | None => [] end.

Definition leaf_rep (e : err) (k : leafk) : list str :=
  match k with
  | LPkgFund _ st => [print_stack st]
  | LErrno n => [errno_text n]
  | LOpaqueErrno m _ => [m]
  | LGrpcStatus _ _ | LGogoStatus _ _ | LTestError => []
  | _ => sdn (safe_details_of e)
  end.
Definition leaf_pl (k : leafk) : option payload :=
  match k with
  | LLeafError rm => Some (PlString rm)
  | LErrno n => Some (PlErrno (mkerrno n this_arch (errno_is_perm n) (errno_is_exist n)
                                       (errno_is_notexist n) (errno_timeout n) (errno_temporary n)))
  | LOpaqueErrno _ p => Some (PlErrno p)
  | LGrpcStatus c m | LGogoStatus c m => Some (PlStatus c m)
  | LTestError => Some PlTestError
  | _ => None
  end.

Lemma enc_leaf i k :
  enc_safe (encode (Leaf i k)) =
  SLeaf (mk_sdet (type_details (Leaf i k)) (leaf_rep (Leaf i k) k) (pl_url (leaf_pl k)) None) [].
Proof. destruct k; reflexivity. Qed.

Definition wrap_rep (e : err) (w : wlayer) : list str :=
  match w with
  | WHint _ | WDetail _ | WMark _ | WSyscallError _ => []
  | WHTTP code => [lit "HTTP " ++ dec_of_Z code]
  | WGrpc code => [lit "gRPC " ++ dec_of_N code]
  | WPkgStack st => [print_stack st]
  | WPathError op _ => [op]
  | WLinkError op _ _ => [op]
  | _ => sdn (safe_details_of e)
  end.
Definition wrap_pl (w : wlayer) : option payload :=
  match w with
  | WPrefix rp => Some (PlString rp)
  | WNewMsg rm => Some (PlString rm)
  | WHint h => Some (PlString h)
  | WDetail d => Some (PlString d)
  | WContext tags _ => Some (PlTags (List.map (fun kv => (fst kv, tag_value_str (snd kv))) tags))
  | WMark m => Some (PlMark (em_msg m) (em_types m))
  | WHTTP code => Some (PlHTTP (Z.to_N code))
  | WGrpc code => Some (PlGrpc code)
  | WPathError op path => Some (PlStrings [op; path])
  | WLinkError op old new => Some (PlStrings [op; old; new])
  | _ => None
  end.

Lemma enc_wrap i w c :
  enc_safe (encode (Wrap i w c)) =
  SWrap (enc_safe (encode c))
        (mk_sdet (type_details (Wrap i w c)) (wrap_rep (Wrap i w c) w) (pl_url (wrap_pl w)) None).
Proof.
  destruct w; cbn [encode]; try (destruct (extract_prefix _ _) as [p mt]); reflexivity.
Qed.

Lemma enc_second i c s :
  enc_safe (encode (Second i c s)) =
  SWrap (enc_safe (encode c))
        (mk_sdet (type_details (Second i c s)) [] (pl_url (Some (PlEnc (ELeaf [] (mkdet [] [] [] [] None) []))))
                 (Some (enc_safe (encode s)))).
Proof. reflexivity. Qed.

Lemma enc_barrier i m h :
  enc_safe (encode (Barrier i m h)) =
  SLeaf (mk_sdet (type_details (Barrier i m h)) (sdn (safe_details_of (Barrier i m h)))
                 (pl_url (Some (PlEnc (ELeaf [] (mkdet [] [] [] [] None) []))))
                 (Some (enc_safe (encode h)))) [].
Proof. reflexivity. Qed.

Lemma enc_multi i k cs :
  enc_safe (encode (Multi i k cs)) =
  SLeaf (mk_sdet (type_details (Multi i k cs)) [] None None) (List.map enc_safe (List.map encode cs)).
Proof. reflexivity. Qed.

Lemma enc_oleaf i m d cs :
  enc_safe (encode (OLeaf i m d cs)) = SLeaf (det_safe d) (List.map enc_safe (List.map encode cs)).
Proof. reflexivity. Qed.

Lemma enc_owrap i p d mt c :
  enc_safe (encode (OWrap i p d mt c)) = SWrap (enc_safe (encode c)) (det_safe d).
Proof. reflexivity. Qed.

Lemma enc_leaf_rel i1 i2 k1 k2 : lrel k1 k2 -> lx3 k1 k2 -> NE (Leaf i1 k1) (Leaf i2 k2) ->
  enc_safe (encode (Leaf i1 k1)) = enc_safe (encode (Leaf i2 k2)).
Proof.
  intros HL H3 (T & S & _). rewrite !enc_leaf, T.
  assert (R : leaf_rep (Leaf i1 k1) k1 = leaf_rep (Leaf i2 k2) k2).
  { destruct k1, k2; cbn [lrel] in HL; try contradiction; cbn [leaf_rep]; rewrite ?S; try reflexivity.
    - destruct HL as [_ ->]. reflexivity.
    - now subst.
    - cbn [lx3] in H3. now subst. }
  assert (U : pl_url (leaf_pl k1) = pl_url (leaf_pl k2)).
  { destruct k1, k2; cbn [lrel] in HL; try contradiction; reflexivity. }
  now rewrite R, U.
Qed.

Lemma enc_wrap_rel i1 i2 w1 w2 c1 c2 : wrel w1 w2 -> wx3 w1 w2 -> NE (Wrap i1 w1 c1) (Wrap i2 w2 c2) ->
  enc_safe (encode c1) = enc_safe (encode c2) ->
  enc_safe (encode (Wrap i1 w1 c1)) = enc_safe (encode (Wrap i2 w2 c2)).
Proof.
  intros HW H3 (T & S & _) EC. rewrite !enc_wrap, T, EC.
  assert (R : wrap_rep (Wrap i1 w1 c1) w1 = wrap_rep (Wrap i2 w2 c2) w2).
  { destruct w1, w2; cbn [wrel] in HW; try contradiction; cbn [wrap_rep]; rewrite ?S; try reflexivity.
    - cbn [wx3] in H3. now subst.
    - now subst.
    - now subst.
    - destruct HW as [-> _]. reflexivity.
    - destruct HW as [-> _]. reflexivity. }
  assert (U : pl_url (wrap_pl w1) = pl_url (wrap_pl w2)).
  { destruct w1, w2; cbn [wrel] in HW; try contradiction; reflexivity. }
  now rewrite R, U.
Qed.

Lemma enc_list_rel cs1 :
  Forall (fun c => forall c2, RB c c2 -> encx c c2 -> enc_safe (encode c) = enc_safe (encode c2)) cs1 ->
  forall cs2, Forall2 RB cs1 cs2 -> all2 encx cs1 cs2 ->
  List.map enc_safe (List.map encode cs1) = List.map enc_safe (List.map encode cs2).
Proof.
  induction 1 as [|x r Hx _ IH]; intros cs2 H2 HE; inversion H2 as [|x' y r' s Hxy Hrs]; subst; [reflexivity|].
  simpl in HE. destruct HE as [HE1 HE2]. cbn [List.map]. rewrite (Hx _ Hxy HE1), (IH _ Hrs HE2). reflexivity.
Qed.

Lemma enc_RB e1 : forall e2, RB e1 e2 -> encx e1 e2 -> enc_safe (encode e1) = enc_safe (encode e2).
Proof.
  induction e1 using err_ind'; intros e2 HR HE; pose proof (RB_kind _ _ HR) as K; destruct e2; try contradiction;
    pose proof (NE_RB _ _ HR) as HN; unfold encx in HE; cbn [nodes2] in HE.
  - apply enc_leaf_rel; [exact (proj1 (RB_leaf _ _ _ _ HR))|exact HE|exact HN].
  - destruct (RB_wrap _ _ _ _ _ _ HR) as (HW & _ & HC). destruct HE as [HE3 HEc].
    apply enc_wrap_rel; try assumption. now apply IHe1.
  - destruct (RB_second _ _ _ _ _ _ HR) as (Hc & Hs & _). destruct HE as [HEc HEs].
    destruct HN as (T & _). rewrite !enc_second, T, (IHe1_1 _ Hc HEc), (IHe1_2 _ Hs HEs). reflexivity.
  - destruct (RB_barrier _ _ _ _ _ _ HR) as (_ & Hh & _). destruct HN as (T & S & _).
    rewrite !enc_barrier, T, S, (IHe1 _ Hh HE). reflexivity.
  - destruct (RB_multi _ _ _ _ _ _ HR) as (_ & Hcs). destruct HN as (T & _).
    rewrite !enc_multi, T, (enc_list_rel cs H cs0 Hcs HE). reflexivity.
  - destruct (RB_oleaf _ _ _ _ _ _ _ _ HR) as (<- & Hcs).
    rewrite !enc_oleaf, (enc_list_rel cs H cs0 Hcs HE). reflexivity.
  - destruct (RB_owrap _ _ _ _ _ _ _ _ _ _ HR) as (<- & Hc).
    rewrite !enc_owrap, (IHe1 _ Hc HE). reflexivity.
Qed.

(* 3. errbase.EncodeError(err): the reportable part of every node of the encoding *)
Theorem ni_encode e1 e2 : ueq'' e1 e2 -> vb_ok e1 -> vb_ok e2 ->
  enc_safe (encode e1) = enc_safe (encode e2).
Proof. intros [[HU HX] HE] V1 V2. apply enc_RB; [unfold RB; tauto|exact HE]. Qed.

(* at the root: the `details` message of the encoding *)
Definition enc_details (x : enc) : details :=
  match x with ELeaf _ d _ | EWrap _ _ d _ => d end.

Corollary ni_encode_root e1 e2 : ueq'' e1 e2 -> vb_ok e1 -> vb_ok e2 ->
  det_safe (enc_details (encode e1)) = det_safe (enc_details (encode e2)).
Proof.
  intros H V1 V2. pose proof (ni_encode e1 e2 H V1 V2) as E.
  destruct (encode e1), (encode e2); cbn [enc_safe] in E; try discriminate E; cbn [enc_details]; congruence.
Qed.

(* in particular the type names and the reportable payload *)
Corollary ni_encode_root_rep e1 e2 : ueq'' e1 e2 -> vb_ok e1 -> vb_ok e2 ->
  dt_orig (enc_details (encode e1)) = dt_orig (enc_details (encode e2)) /\
  dt_fam (enc_details (encode e1)) = dt_fam (enc_details (encode e2)) /\
  dt_ext (enc_details (encode e1)) = dt_ext (enc_details (encode e2)) /\
  dt_rep (enc_details (encode e1)) = dt_rep (enc_details (encode e2)).
Proof.
  intros H V1 V2. pose proof (ni_encode_root e1 e2 H V1 V2) as E.
  destruct (enc_details (encode e1)), (enc_details (encode e2)). cbn [det_safe] in E.
  injection E as -> -> -> -> _ _. repeat split.
Qed.

(* ------------------------------------------------------------------ *)
(* 6. why [sdx]: safe strings that the renderings do not print          *)
(* ------------------------------------------------------------------ *)
(* NOT leaks: the strings below are declared safe by their owner (SafeDetails() of a user type; the
   redacted tags received from the network); [ueq] leaves them unconstrained only because neither
   %v nor %+v prints them. *)
Example sdx_needed_context :
  let c := Leaf 1%positive (LErrString (lit "m")) in
  let e1 := Wrap 2%positive (WContext [(lit "k", TVStr (lit "v"))] (Some [lit "a"])) c in
  let e2 := Wrap 2%positive (WContext [(lit "k", TVStr (lit "v"))] (Some [lit "b"])) c in
  ueq e1 e2 /\ vb_ok e1 /\ vb_ok e2 /\
  sd_details (get_safe_details e1) = [lit "a"] /\ sd_details (get_safe_details e2) = [lit "b"].
Proof.
  cbv zeta. split; [|split; [cbn; tauto|split; [cbn; tauto|split; reflexivity]]].
  cbn [ueq wrel fsw]. split; [repeat constructor|]. split; [|discriminate].
  cbn [lrel]. unfold frel. split; vm_compute; reflexivity.
Qed.

Example sdx_needed_user :
  let e1 := Leaf 1%positive (LUser ULSafeDet (lit "m") 0 [lit "a"]) in
  let e2 := Leaf 1%positive (LUser ULSafeDet (lit "m") 0 [lit "b"]) in
  ueq e1 e2 /\ vb_ok e1 /\ vb_ok e2 /\
  sd_details (get_safe_details e1) = [lit "a"] /\ sd_details (get_safe_details e2) = [lit "b"].
Proof.
  cbv zeta. split; [|split; [exact I|split; [exact I|split; reflexivity]]].
  cbn [ueq lrel]. split; [reflexivity|]. unfold frel. split; vm_compute; reflexivity.
Qed.

(* ------------------------------------------------------------------ *)
(* 7. FINDINGS: statement 3 is false for [ueq']                        *)
(* ------------------------------------------------------------------ *)
(* (a) exthttp.withHTTPCode.  The formatter of the model prints the code as an UNSAFE argument
   ("http code: ‹404›": [wrap_body], hence [wrel] leaves the code free and Redact() of both renderings
   hides it), but the encoder writes it into the reportable payload ("HTTP 404").  The two errors below
   have the same redacted renderings, the same GetSafeDetails, the same Sentry report -- and
   different reportable payloads on the wire. *)
Definition http_e (code : Z) : err := Wrap 2%positive (WHTTP code) (Leaf 1%positive (LErrString (lit "m"))).

Lemma http_ueq' a b : ueq' (http_e a) (http_e b).
Proof.
  unfold http_e. split.
  - cbn [ueq fsw]. split; [apply wrel_http|]. split; [|discriminate].
    cbn [lrel]. unfold frel. split; vm_compute; reflexivity.
  - unfold sdx. cbn [nodes2 wx lx]. split; exact I.
Qed.

Lemma http_vb a : vb_ok (http_e a).
Proof. cbn. tauto. Qed.

Theorem ni_encode_refuted_http :
  let e1 := http_e 404 in let e2 := http_e 500 in
  ueq' e1 e2 /\ vb_ok e1 /\ vb_ok e2 /\ glue_top e1 /\ glue_top e2 /\
  redact (fmt_red_verbose e1) = redact (fmt_red_verbose e2) /\
  get_all_safe_details e1 = get_all_safe_details e2 /\
  build_report e1 = build_report e2 /\
  dt_rep (enc_details (encode e1)) = [lit "HTTP 404"] /\
  dt_rep (enc_details (encode e2)) = [lit "HTTP 500"] /\
  enc_safe (encode e1) <> enc_safe (encode e2).
Proof.
  cbv zeta. pose proof (http_ueq' 404 500) as U.
  pose proof (http_vb 404) as V1. pose proof (http_vb 500) as V2.
  assert (G1 : glue_top (http_e 404)) by (vm_compute; reflexivity).
  assert (G2 : glue_top (http_e 500)) by (vm_compute; reflexivity).
  repeat (split; [assumption|]).
  split; [apply ni_verbose; [exact (proj1 U)|assumption..]|].
  split; [now apply ni_all_safe_details|].
  split; [now apply ni_report|].
  split; [vm_compute; reflexivity|]. split; [vm_compute; reflexivity|].
  vm_compute. discriminate.
Qed.

(* the consequence one network hop later: at a process that has no decoder for withHTTPCode the layer
   becomes an opaque wrapper whose SafeDetails() are the reportable payload, so the code is in
   GetSafeDetails and in the message of the Sentry report *)
Theorem http_code_reaches_report_after_hop :
  let p := mkproc [k_withHTTP] in
  let r1 := fst (hop p (http_e 404) 100%positive) in
  let r2 := fst (hop p (http_e 500) 100%positive) in
  sd_details (get_safe_details r1) = [lit "HTTP 404"] /\
  sd_details (get_safe_details r2) = [lit "HTTP 500"] /\
  rp_message (build_report r1) <> rp_message (build_report r2).
Proof. cbv zeta. split; [vm_compute; reflexivity|]. split; [vm_compute; reflexivity|]. vm_compute. discriminate. Qed.

(* (b) *errbase.OpaqueErrno (a syscall.Errno received from another platform).  Unless it is one of the os
   sentinels its message goes through formatSimple, i.e. is printed as unsafe ([lrel] / [frel] only
   relate the line structure), but its encoder returns the message as the reportable payload. *)
Definition foreign_errno : errno_pl := mkerrno 5 (lit "plan9:mips") false false false false false.
Definition oerrno_e (m : str) : err := Leaf 1%positive (LOpaqueErrno m foreign_errno).

Theorem ni_encode_refuted_opaque_errno :
  let e1 := oerrno_e (lit "alice") in let e2 := oerrno_e (lit "bobby") in
  ueq' e1 e2 /\ vb_ok e1 /\ vb_ok e2 /\ glue_top e1 /\ glue_top e2 /\
  redact (fmt_red_verbose e1) = redact (fmt_red_verbose e2) /\
  get_all_safe_details e1 = get_all_safe_details e2 /\
  build_report e1 = build_report e2 /\
  dt_rep (enc_details (encode e1)) = [lit "alice"] /\
  dt_rep (enc_details (encode e2)) = [lit "bobby"] /\
  enc_safe (encode e1) <> enc_safe (encode e2).
Proof.
  cbv zeta.
  assert (U : ueq' (oerrno_e (lit "alice")) (oerrno_e (lit "bobby"))).
  { split; [|exact I]. cbn [oerrno_e ueq lrel]. unfold frel. split; vm_compute; reflexivity. }
  assert (G1 : glue_top (oerrno_e (lit "alice"))) by (vm_compute; reflexivity).
  assert (G2 : glue_top (oerrno_e (lit "bobby"))) by (vm_compute; reflexivity).
  split; [exact U|]. split; [exact I|]. split; [exact I|]. split; [exact G1|]. split; [exact G2|].
  split; [apply ni_verbose; [exact (proj1 U)|exact I|exact I|assumption..]|].
  split; [now apply ni_all_safe_details|].
  split; [now apply ni_report|].
  split; [vm_compute; reflexivity|]. split; [vm_compute; reflexivity|].
  vm_compute. discriminate.
Qed.

Theorem opaque_errno_reaches_report_after_hop :
  let p := mkproc [k_opaqueErrno] in
  let r1 := fst (hop p (oerrno_e (lit "alice")) 100%positive) in
  let r2 := fst (hop p (oerrno_e (lit "bobby")) 100%positive) in
  sd_details (get_safe_details r1) = [lit "alice"] /\
  sd_details (get_safe_details r2) = [lit "bobby"] /\
  rp_message (build_report r1) <> rp_message (build_report r2).
Proof. cbv zeta. split; [vm_compute; reflexivity|]. split; [vm_compute; reflexivity|]. vm_compute. discriminate. Qed.

(* these are the only two: with them equal, statement 3 holds ([ni_encode]) *)

(* ------------------------------------------------------------------ *)
(* 8. instances                                                        *)
(* ------------------------------------------------------------------ *)
Example ex_ueq'' : ueq'' ex_e1 ex_e2.
Proof.
  split; [split; [exact ex_ueq|]|]; unfold sdx, encx, ex_e1, ex_e2; cbn [nodes2 all2 lx wx lx3 wx3]; tauto.
Qed.

Example ni_details_example :
  get_all_safe_details ex_e1 = get_all_safe_details ex_e2 /\
  enc_safe (encode ex_e1) = enc_safe (encode ex_e2) /\
  build_report ex_e1 = build_report ex_e2.
Proof.
  destruct ex_vb as (V1 & V2 & G1 & G2). pose proof ex_ueq'' as U.
  split; [apply ni_all_safe_details; [exact (proj1 U)|assumption..]|].
  split; [now apply ni_encode|]. apply ni_report; [exact (proj1 U)|assumption..].
Qed.

(* the second instance of EngineNI.v (join, barrier, context tags, foreign wrappers, HTTP codes 404 / 5) *)
Example ex2_ueq' : ueq' ex_a1 ex_a2.
Proof.
  split; [exact ex2_ueq|]. unfold sdx, ex_a1, ex_a2, ex_mk. cbn [nodes2 lx wx]. simpl all2. tauto.
Qed.

Example ni_details_example2 :
  get_all_safe_details ex_a1 = get_all_safe_details ex_a2 /\ build_report ex_a1 = build_report ex_a2.
Proof.
  destruct ex2_vb as (V1 & V2 & G1 & G2). pose proof ex2_ueq' as U.
  split; [now apply ni_all_safe_details|now apply ni_report].
Qed.
