(* C04, partially knowing intermediaries: decoding at a process p that knows only
   some of the types and re-encoding there loses nothing that a later process q
   (knowing at least what p knows; in particular the all-knowing one) would have
   seen, had it received the message directly. *)
From Errv Require Import Base.Str Redact.Markers Redact.Buffer Model.Err Model.Sem Model.Details Model.Marks
     Model.Codec Proofs.StrFacts Proofs.FastIs Proofs.CodecFacts Proofs.RoundTrip Proofs.EraseDef
     Proofs.EraseFacts Proofs.HopIdem.
From Coq Require Import Lia.

(* ================================================================== *)
(* 1. What a decoder builds does not depend on the identity counter,  *)
(*    and depends on the causes only through what it decodes of them  *)
(* ================================================================== *)

Ltac rw_hyps :=
  repeat match goal with
         | H : _ = true |- _ => rewrite H
         | H : _ = false |- _ => rewrite H
         end.

Ltac is_key E fam := apply str_eqb_eq in E; subst fam.

(* case analysis on every boolean test in the goal, outermost first *)
Ltac split_ifs :=
  repeat match goal with
         | |- context [if ?b then _ else _] =>
           lazymatch b with
           | true => fail
           | false => fail
           | _ => destruct b; cbv iota
           end
         end.

Section Cong.
Variable q : proc.

(* the result of q on x is the same for every counter *)
Definition CI (x : enc) : Prop :=
  forall n n', erase (fst (decode q x n)) = erase (fst (decode q x n')).

(* two cause lists that q decodes alike *)
Definition same_causes (cs' cs : list enc) : Prop :=
  forall m k, List.map erase (fst (decode_list (decode q) cs' m))
              = List.map erase (fst (decode_list (decode q) cs k)).

Lemma map_erase_nil_l (es : list err) : [] = List.map erase es -> es = [].
Proof. destruct es; [reflexivity|discriminate]. Qed.

Lemma leaf_cong msg o fam ext rep pl cs cs' :
  pl_P CI pl -> same_causes cs' cs ->
  forall m k, erase (fst (decode q (ELeaf msg (mkdet o fam ext rep pl) cs') m))
              = erase (fst (decode q (ELeaf msg (mkdet o fam ext rep pl) cs) k)).
Proof.
  intros Hpl Hcs m k. specialize (Hcs m k). cbn [decode].
  destruct (decode_list (decode q) cs' m) as [es' m1].
  destruct (decode_list (decode q) cs k) as [es k1]. cbn [fst] in Hcs.
  cbn [fresh].
  assert (HO : forall j j', erase (OLeaf j msg (mkdet o fam ext rep pl) es')
                            = erase (OLeaf j' msg (mkdet o fam ext rep pl) es)).
  { intros. cbn [erase]. now rewrite Hcs. }
  destruct pl as [pl0|]; [destruct pl0|]; cbn [pl_P] in Hpl;
    try (specialize (Hpl m k); destruct (decode q e m) as [em m2]; destruct (decode q e k) as [ek k2];
         cbn [fst] in Hpl);
    split_ifs; cbn [fst];
    try reflexivity; try (apply HO);
    try (cbn [erase]; now rewrite Hpl);
    try (cbn [List.map] in Hcs; discriminate Hcs);
    try (cbn [erase]; now rewrite Hcs).
Qed.

Lemma wrap_cong c c' msg o fam ext rep pl mt :
  pl_P CI pl ->
  (forall m k, erase (fst (decode q c' m)) = erase (fst (decode q c k))) ->
  forall m k, erase (fst (decode q (EWrap c' msg (mkdet o fam ext rep pl) mt) m))
              = erase (fst (decode q (EWrap c msg (mkdet o fam ext rep pl) mt) k)).
Proof.
  intros Hpl Hc m k. specialize (Hc m k). cbn [decode].
  destruct (decode q c' m) as [e' m1]. destruct (decode q c k) as [e0 k1]. cbn [fst] in Hc.
  cbn [fresh].
  destruct pl as [pl0|]; [destruct pl0|]; cbn [pl_P] in Hpl;
    try (specialize (Hpl (Pos.succ m1) (Pos.succ k1));
         destruct (decode q e (Pos.succ m1)) as [em m2]; destruct (decode q e (Pos.succ k1)) as [ek k2];
         cbn [fst] in Hpl);
    split_ifs; cbn [fst];
    try (cbn [erase]; rewrite Hc; reflexivity);
    try (cbn [erase]; rewrite Hc, Hpl; reflexivity).
  all: repeat match goal with
              | |- context [match ?l with [] => _ | _ :: _ => _ end] => is_var l; destruct l
              end; cbn [fst erase]; rewrite Hc; reflexivity.
Qed.

Lemma same_causes_refl cs : Forall CI cs -> same_causes cs cs.
Proof.
  induction 1 as [|c l Hc Hl IH]; intros m k; cbn [decode_list]; [reflexivity|].
  specialize (Hc m k).
  destruct (decode q c m) as [e1 m1]. destruct (decode q c k) as [e2 k1].
  specialize (IH m1 k1).
  destruct (decode_list (decode q) l m1) as [es1 m2]. destruct (decode_list (decode q) l k1) as [es2 k2].
  cbn [fst List.map] in *. now rewrite Hc, IH.
Qed.

Theorem decode_counter_irrelevant x : CI x.
Proof.
  induction x using enc_ind2.
  - intros n n'. apply leaf_cong; [assumption|now apply same_causes_refl].
  - intros n n'. apply wrap_cong; [assumption|exact IHx].
Qed.

Lemma pl_P_CI pl : pl_P CI pl.
Proof. destruct pl as [[]|]; cbn; try exact I. apply decode_counter_irrelevant. Qed.
End Cong.

(* ================================================================== *)
(* 2. Confluence: p decodes and re-encodes, then q decodes             *)
(* ================================================================== *)

(* The later process q knows what the intermediary p knows, including the type
   names under which p re-emits what it decoded:
   - the previous barrier type decodes to the current one;
   - syscall.Errno and *errbase.OpaqueErrno decode to each other, depending on the
     platform recorded in the payload.
   [covers p all_knowing] holds for every p, and [covers p p] is [proc_closed p]. *)
Record covers (p q : proc) : Prop := mkcovers {
  cv_sub : forall k, has_decoder k = true -> knows p k = true -> knows q k = true;
  cv_barrier : knows p k_barrierPrev = true -> knows q k_barrier = true;
  cv_errno1 : knows p k_errno = true -> knows q k_opaqueErrno = true;
  cv_errno2 : knows p k_opaqueErrno = true -> knows q k_errno = true }.

Lemma covers_all_knowing p : covers p all_knowing.
Proof. split; intros; reflexivity. Qed.

Lemma covers_self p : proc_closed p -> covers p p.
Proof.
  intros [Hb He]. split; auto.
  - intro H. now rewrite <- He.
  - intro H. now rewrite He.
Qed.

(* The one side condition on the message.  errorspb.TestError is a proto message that
   is itself an error: a process without a decoder for the type named on the wire
   returns the payload as the error (and re-emits it under its own type name), while a
   process that has a leaf / multi-cause decoder for that name runs the decoder.
   [tp_ok p q x]: no node of x that p decodes (nodes inside barrier / secondary payloads
   count only when p decodes that payload) carries such a payload under a type name
   for which q has a leaf or multi-cause decoder and p has not. *)
Definition dec_lm (fam : str) : bool :=
  mem_str fam leaf_decoder_keys || mem_str fam multi_decoder_keys.

Fixpoint tp_ok (p q : proc) (x : enc) : bool :=
  match x with
  | ELeaf _ (mkdet _ fam _ _ pl) cs =>
    match pl with
    | Some PlTestError => negb (dec_lm fam && knows q fam) || knows p fam
    | Some (PlEnc m) =>
      negb ((str_eqb fam k_barrier || str_eqb fam k_barrierPrev) && knows p fam) || tp_ok p q m
    | _ => true
    end && forallb (tp_ok p q) cs
  | EWrap c _ (mkdet _ fam _ _ pl) _ =>
    tp_ok p q c &&
    match pl with
    | Some (PlEnc m) => negb (str_eqb fam k_withSecondary && knows p fam) || tp_ok p q m
    | _ => true
    end
  end.

(* q decodes the re-encoding of e as it decodes x *)
Definition conf (q : proc) (e : err) (x : enc) : Prop :=
  forall m k, erase (fst (decode q (encode e) m)) = erase (fst (decode q x k)).

Section ConfNodes.
Variable q : proc.

(* ---- leaves ---- *)
Ltac c_leaf e1 k K :=
  let m := fresh "m" in let k0 := fresh "k0" in
  intros K m k0; enc_step; fam_is e1 k; rewrite K; reflexivity.

Lemma cf_errorString i msg o ext rep pl cs :
  knows q k_errorString = true ->
  conf q (Leaf i (LErrString msg)) (ELeaf msg (mkdet o k_errorString ext rep pl) cs).
Proof. c_leaf (Leaf i (LErrString msg)) k_errorString K. Qed.

Lemma cf_deadline i msg o ext rep pl cs :
  knows q k_deadline = true ->
  conf q (Leaf i LDeadline) (ELeaf msg (mkdet o k_deadline ext rep pl) cs).
Proof. c_leaf (Leaf i LDeadline) k_deadline K. Qed.

Lemma cf_leafError i s msg o ext rep cs :
  knows q k_leafError = true ->
  conf q (Leaf i (LLeafError s)) (ELeaf msg (mkdet o k_leafError ext rep (Some (PlString s))) cs).
Proof. c_leaf (Leaf i (LLeafError s)) k_leafError K. Qed.

Lemma cf_unimpl i msg o ext rep pl cs :
  knows q k_unimpl = true ->
  conf q (Leaf i (LUnimpl msg (nth_str 0 rep) (nth_str 1 rep))) (ELeaf msg (mkdet o k_unimpl ext rep pl) cs).
Proof. c_leaf (Leaf i (LUnimpl msg (nth_str 0 rep) (nth_str 1 rep))) k_unimpl K. Qed.

(* the four errno cases: wire name x platform of the payload *)
Lemma cf_errno_native i fam pe msg o ext rep cs :
  knows q k_errno = true -> knows q fam = true ->
  fam = k_errno \/ fam = k_opaqueErrno ->
  str_eqb (en_arch pe) this_arch = true ->
  conf q (Leaf i (LErrno (en_errno pe))) (ELeaf msg (mkdet o fam ext rep (Some (PlErrno pe))) cs).
Proof.
  intros K1 K2 Hf Ha m k. enc_step. fam_is (Leaf i (LErrno (en_errno pe))) k_errno. rewrite K1.
  destruct Hf; subst fam; rewrite K2, Ha; reflexivity.
Qed.

Lemma cf_errno_foreign i fam pe msg o ext rep cs :
  knows q k_opaqueErrno = true -> knows q fam = true ->
  fam = k_errno \/ fam = k_opaqueErrno ->
  str_eqb (en_arch pe) this_arch = false ->
  conf q (Leaf i (LOpaqueErrno msg pe)) (ELeaf msg (mkdet o fam ext rep (Some (PlErrno pe))) cs).
Proof.
  intros K1 K2 Hf Ha m k. enc_step. fam_is (Leaf i (LOpaqueErrno msg pe)) k_opaqueErrno. rewrite K1.
  destruct Hf; subst fam; rewrite K2, Ha; reflexivity.
Qed.

Lemma cf_grpcStatus i c s msg o ext rep cs :
  (c =? 0) = false -> knows q k_grpcStatus = true ->
  conf q (Leaf i (LGrpcStatus c s)) (ELeaf msg (mkdet o k_grpcStatus ext rep (Some (PlStatus c s))) cs).
Proof.
  intros Hc K m k. enc_step. fam_is (Leaf i (LGrpcStatus c s)) k_grpcStatus. rewrite K, Hc. reflexivity.
Qed.

Lemma cf_gogoStatus i c s msg o ext rep cs :
  (c =? 0) = false -> knows q k_gogoStatus = true ->
  conf q (Leaf i (LGogoStatus c s)) (ELeaf msg (mkdet o k_gogoStatus ext rep (Some (PlStatus c s))) cs).
Proof.
  intros Hc K m k. enc_step. fam_is (Leaf i (LGogoStatus c s)) k_gogoStatus. rewrite K, Hc. reflexivity.
Qed.

(* the payload that is itself an error, when q has no leaf / multi decoder for the wire name *)
Lemma cf_testError i msg o fam ext rep cs :
  mem_str fam leaf_decoder_keys && knows q fam = false ->
  mem_str fam multi_decoder_keys && knows q fam = false ->
  conf q (Leaf i LTestError) (ELeaf msg (mkdet o fam ext rep (Some PlTestError)) cs).
Proof. intros H1 H2 m k. cbn [decode]. rewrite H1, H2. reflexivity. Qed.

Lemma cf_barrier i msg em x o ext rep cs :
  knows q k_barrier = true -> conf q em x ->
  conf q (Barrier i msg em) (ELeaf msg (mkdet o k_barrier ext rep (Some (PlEnc x))) cs).
Proof.
  intros K Hm m k. enc_step. specialize (Hm m k).
  destruct (decode q (encode em) m) as [e1 m1]. destruct (decode q x k) as [e2 k1]. cbn [fst] in Hm.
  fam_is (Barrier i msg em) k_barrier. rewrite K.
  change (erase (Barrier m1 msg e1) = erase (Barrier k1 msg e2)).
  cbn [erase]. now rewrite Hm.
Qed.

(* the previous barrier type: re-emitted under the current name, with the message the
   previous decoder builds *)
Lemma cf_barrierPrev i msg em x o ext rep cs :
  knows q k_barrier = true -> knows q k_barrierPrev = true -> conf q em x ->
  conf q (Barrier i (sprint_pieces [PUnsafe msg]) em)
         (ELeaf msg (mkdet o k_barrierPrev ext rep (Some (PlEnc x))) cs).
Proof.
  intros K K' Hm m k. enc_step. specialize (Hm m k).
  destruct (decode q (encode em) m) as [e1 m1]. destruct (decode q x k) as [e2 k1]. cbn [fst] in Hm.
  fam_is (Barrier i (sprint_pieces [PUnsafe msg]) em) k_barrier. rewrite K, K'.
  change (erase (Barrier m1 (sprint_pieces [PUnsafe msg]) e1) = erase (Barrier k1 (sprint_pieces [PUnsafe msg]) e2)).
  cbn [erase]. now rewrite Hm.
Qed.

Lemma cf_join i es msg o ext rep pl cs :
  knows q k_join = true -> es <> [] -> same_causes q (List.map encode es) cs ->
  conf q (Multi i MJoin es) (ELeaf msg (mkdet o k_join ext rep pl) cs).
Proof.
  intros K Hne Hcs m k. enc_step. fam_is (Multi i MJoin es) k_join. rewrite K.
  change (mem_str k_join leaf_decoder_keys) with false.
  change (mem_str k_join multi_decoder_keys) with true. cbn [andb].
  specialize (Hcs m k).
  assert (Hne' : List.map encode es <> []) by (destruct es; [congruence|discriminate]).
  pose proof (decode_list_nonempty q (List.map encode es) m Hne') as Hn.
  destruct (decode_list (decode q) (List.map encode es) m) as [es1 m1].
  destruct (decode_list (decode q) cs k) as [es2 k1]. cbn [fst] in Hcs, Hn.
  destruct es1 as [|a es1]; [congruence|].
  destruct es2 as [|b es2]; [discriminate Hcs|].
  cbn [fresh fst erase]. now rewrite Hcs.
Qed.

(* opaque leaf: the re-encoding repeats the message and the details verbatim *)
Lemma cf_oleaf i msg d cs es :
  same_causes q (List.map encode es) cs -> conf q (OLeaf i msg d es) (ELeaf msg d cs).
Proof.
  intros Hcs m k. rewrite encode_opaque_leaf. destruct d as [o fam ext rep pl].
  apply leaf_cong; [apply pl_P_CI | exact Hcs].
Qed.

(* ---- wrappers ---- *)
Lemma cf_owrap i msg d mt ec c : conf q ec c -> conf q (OWrap i msg d mt ec) (EWrap c msg d mt).
Proof.
  intros Hc m k. rewrite encode_opaque_wrapper. destruct d as [o fam ext rep pl].
  apply wrap_cong; [apply pl_P_CI | exact Hc].
Qed.

Ltac c_wrap ec c e1 k w K :=
  let Hc := fresh "Hc" in let a := fresh "a" in let b := fresh "b" in
  let e1' := fresh "e1'" in let a1 := fresh "a1" in let e2' := fresh "e2'" in let b1 := fresh "b1" in
  let pfx := fresh "pfx" in let mt0 := fresh "mt0" in
  intros K Hc a b; cbn [encode]; try (destruct (extract_prefix _ _) as [pfx mt0]);
  unfold mk_details; cbn [type_details]; cbn [decode];
  specialize (Hc a b);
  destruct (decode q (encode ec) a) as [e1' a1]; destruct (decode q c b) as [e2' b1];
  cbn [fst] in Hc;
  fam_is e1 k; rewrite K;
  change (erase (Wrap a1 w e1') = erase (Wrap b1 w e2'));
  cbn [erase]; f_equal; exact Hc.

Lemma cf_withPrefix i s ec c msg o ext rep mt :
  knows q k_withPrefix = true -> conf q ec c ->
  conf q (Wrap i (WPrefix s) ec) (EWrap c msg (mkdet o k_withPrefix ext rep (Some (PlString s))) mt).
Proof. c_wrap ec c (Wrap i (WPrefix s) ec) k_withPrefix (WPrefix s) K. Qed.
Lemma cf_withNewMessage i s ec c msg o ext rep mt :
  knows q k_withNewMessage = true -> conf q ec c ->
  conf q (Wrap i (WNewMsg s) ec) (EWrap c msg (mkdet o k_withNewMessage ext rep (Some (PlString s))) mt).
Proof. c_wrap ec c (Wrap i (WNewMsg s) ec) k_withNewMessage (WNewMsg s) K. Qed.
Lemma cf_withHint i s ec c msg o ext rep mt :
  knows q k_withHint = true -> conf q ec c ->
  conf q (Wrap i (WHint s) ec) (EWrap c msg (mkdet o k_withHint ext rep (Some (PlString s))) mt).
Proof. c_wrap ec c (Wrap i (WHint s) ec) k_withHint (WHint s) K. Qed.
Lemma cf_withDetail i s ec c msg o ext rep mt :
  knows q k_withDetail = true -> conf q ec c ->
  conf q (Wrap i (WDetail s) ec) (EWrap c msg (mkdet o k_withDetail ext rep (Some (PlString s))) mt).
Proof. c_wrap ec c (Wrap i (WDetail s) ec) k_withDetail (WDetail s) K. Qed.
Lemma cf_withIssueLink i ec c msg o ext rep pl mt :
  knows q k_withIssueLink = true -> conf q ec c ->
  conf q (Wrap i (WIssueLink (nth_str 0 rep) (nth_str 1 rep)) ec)
         (EWrap c msg (mkdet o k_withIssueLink ext rep pl) mt).
Proof.
  c_wrap ec c (Wrap i (WIssueLink (nth_str 0 rep) (nth_str 1 rep)) ec) k_withIssueLink
         (WIssueLink (nth_str 0 rep) (nth_str 1 rep)) K.
Qed.
Lemma cf_withTelemetry i ec c msg o ext rep pl mt :
  knows q k_withTelemetry = true -> conf q ec c ->
  conf q (Wrap i (WTelemetry rep) ec) (EWrap c msg (mkdet o k_withTelemetry ext rep pl) mt).
Proof. c_wrap ec c (Wrap i (WTelemetry rep) ec) k_withTelemetry (WTelemetry rep) K. Qed.
Lemma cf_withDomain i d0 rr ec c msg o ext pl mt :
  knows q k_withDomain = true -> conf q ec c ->
  conf q (Wrap i (WDomain d0) ec) (EWrap c msg (mkdet o k_withDomain ext (d0 :: rr) pl) mt).
Proof. c_wrap ec c (Wrap i (WDomain d0) ec) k_withDomain (WDomain d0) K. Qed.
Lemma cf_withAssert i ec c msg o ext rep pl mt :
  knows q k_withAssert = true -> conf q ec c ->
  conf q (Wrap i WAssert ec) (EWrap c msg (mkdet o k_withAssert ext rep pl) mt).
Proof. c_wrap ec c (Wrap i WAssert ec) k_withAssert WAssert K. Qed.
Lemma cf_withMark i s t tys ec c msg o ext rep mt :
  knows q k_withMark = true -> conf q ec c ->
  conf q (Wrap i (WMark (mkem s (t :: tys))) ec)
         (EWrap c msg (mkdet o k_withMark ext rep (Some (PlMark s (t :: tys)))) mt).
Proof. c_wrap ec c (Wrap i (WMark (mkem s (t :: tys))) ec) k_withMark (WMark (mkem s (t :: tys))) K. Qed.
Lemma cf_withSafeDetails i ec c msg o ext rep pl mt :
  knows q k_withSafeDetails = true -> conf q ec c ->
  conf q (Wrap i (WSafeDetails rep) ec) (EWrap c msg (mkdet o k_withSafeDetails ext rep pl) mt).
Proof. c_wrap ec c (Wrap i (WSafeDetails rep) ec) k_withSafeDetails (WSafeDetails rep) K. Qed.
Lemma cf_withGrpc i code ec c msg o ext rep mt :
  knows q k_withGrpc = true -> conf q ec c ->
  conf q (Wrap i (WGrpc code) ec) (EWrap c msg (mkdet o k_withGrpc ext rep (Some (PlGrpc code))) mt).
Proof. c_wrap ec c (Wrap i (WGrpc code) ec) k_withGrpc (WGrpc code) K. Qed.
Lemma cf_pathError i op path l ec c msg o ext rep mt :
  knows q k_pathError = true -> conf q ec c ->
  conf q (Wrap i (WPathError op path) ec)
         (EWrap c msg (mkdet o k_pathError ext rep (Some (PlStrings (op :: path :: l)))) mt).
Proof. c_wrap ec c (Wrap i (WPathError op path) ec) k_pathError (WPathError op path) K. Qed.
Lemma cf_linkError i op old new l ec c msg o ext rep mt :
  knows q k_linkError = true -> conf q ec c ->
  conf q (Wrap i (WLinkError op old new) ec)
         (EWrap c msg (mkdet o k_linkError ext rep (Some (PlStrings (op :: old :: new :: l)))) mt).
Proof. c_wrap ec c (Wrap i (WLinkError op old new) ec) k_linkError (WLinkError op old new) K. Qed.
Lemma cf_syscallError i ec c msg o ext rep pl mt :
  knows q k_syscallError = true -> conf q ec c ->
  conf q (Wrap i (WSyscallError msg) ec) (EWrap c msg (mkdet o k_syscallError ext rep pl) mt).
Proof. c_wrap ec c (Wrap i (WSyscallError msg) ec) k_syscallError (WSyscallError msg) K. Qed.

Lemma cf_withHTTP i code ec c msg o ext rep mt :
  knows q k_withHTTP = true -> conf q ec c ->
  conf q (Wrap i (WHTTP (Z.of_N code)) ec) (EWrap c msg (mkdet o k_withHTTP ext rep (Some (PlHTTP code))) mt).
Proof.
  intros K Hc a b. enc_step. rewrite N2Z.id. specialize (Hc a b).
  destruct (decode q (encode ec) a) as [e1 a1]. destruct (decode q c b) as [e2 b1]. cbn [fst] in Hc.
  fam_is (Wrap i (WHTTP (Z.of_N code)) ec) k_withHTTP. rewrite K.
  change (erase (Wrap a1 (WHTTP (Z.of_N code)) e1) = erase (Wrap b1 (WHTTP (Z.of_N code)) e2)).
  cbn [erase]. now rewrite Hc.
Qed.

Lemma cf_pkgMsg i ec c msg o ext rep pl mt :
  knows q k_pkgMsg = true -> conf q ec c ->
  conf q (Wrap i (WPkgMsg msg) ec) (EWrap c msg (mkdet o k_pkgMsg ext rep pl) mt).
Proof.
  intros K Hc a b. cbn [encode].
  change (error_text (Wrap i (WPkgMsg msg) ec)) with (msg ++ colon_sp ++ error_text ec).
  rewrite extract_prefix_colon. unfold mk_details; cbn [type_details]; cbn [decode].
  specialize (Hc a b).
  destruct (decode q (encode ec) a) as [e1 a1]. destruct (decode q c b) as [e2 b1]. cbn [fst] in Hc.
  fam_is (Wrap i (WPkgMsg msg) ec) k_pkgMsg. rewrite K.
  change (erase (Wrap a1 (WPkgMsg msg) e1) = erase (Wrap b1 (WPkgMsg msg) e2)).
  cbn [erase]. now rewrite Hc.
Qed.

Lemma cf_secondary i ec c es s msg o ext rep mt :
  knows q k_withSecondary = true -> conf q ec c -> conf q es s ->
  conf q (Second i ec es) (EWrap c msg (mkdet o k_withSecondary ext rep (Some (PlEnc s))) mt).
Proof.
  intros K Hc Hs a b. enc_step. specialize (Hc a b).
  destruct (decode q (encode ec) a) as [e1 a1]. destruct (decode q c b) as [e2 b1]. cbn [fst] in Hc.
  fam_is (Second i ec es) k_withSecondary. rewrite K.
  change (erase (fst (let '(s1, n2) := decode q (encode es) (Pos.succ a1) in (Second a1 e1 s1, n2)))
          = erase (fst (let '(s2, n2) := decode q s (Pos.succ b1) in (Second b1 e2 s2, n2)))).
  specialize (Hs (Pos.succ a1) (Pos.succ b1)).
  destruct (decode q (encode es) (Pos.succ a1)) as [s1 a2]. destruct (decode q s (Pos.succ b1)) as [s2 b2].
  cbn [fst] in Hs. cbn [fst erase]. now rewrite Hc, Hs.
Qed.

(* context tags: the decoder's tag buffer is a fixed point of encode-then-decode; the
   redacted strings are recomputed when the message has none *)
Ltac ctx_chain :=
  change (mem_str k_withContext wrap_decoder_keys && true) with true; cbv iota;
  change (str_eqb k_withContext k_withPrefix) with false;
  change (str_eqb k_withContext k_withNewMessage) with false;
  change (str_eqb k_withContext k_withHint) with false;
  change (str_eqb k_withContext k_withDetail) with false;
  change (str_eqb k_withContext k_withIssueLink) with false;
  change (str_eqb k_withContext k_withTelemetry) with false;
  change (str_eqb k_withContext k_withDomain) with false;
  change (str_eqb k_withContext k_withContext) with true; cbv iota.

Lemma cf_withContext_some i tags r0 rr ec c msg o ext mt :
  let T := tags_of (List.map (fun kv : str * str => (fst kv, TVStr (snd kv))) tags) in
  knows q k_withContext = true -> conf q ec c ->
  conf q (Wrap i (WContext T (Some (r0 :: rr))) ec)
         (EWrap c msg (mkdet o k_withContext ext (r0 :: rr) (Some (PlTags tags))) mt).
Proof.
  intros T K Hc a b. enc_step. specialize (Hc a b).
  destruct (decode q (encode ec) a) as [e1 a1]. destruct (decode q c b) as [e2 b1]. cbn [fst] in Hc.
  fam_is (Wrap i (WContext T (Some (r0 :: rr))) ec) k_withContext. rewrite K.
  change (sd_or_nil (Wrap i (WContext T (Some (r0 :: rr))) ec)) with (r0 :: rr).
  ctx_chain. cbn [fresh]. rewrite !list_match_same.
  unfold T. rewrite context_tags_stable.
  cbn [fst erase]. now rewrite Hc.
Qed.

Lemma cf_withContext_none i tags ec c msg o ext mt :
  let T := tags_of (List.map (fun kv : str * str => (fst kv, TVStr (snd kv))) tags) in
  tags <> [] ->
  knows q k_withContext = true -> conf q ec c ->
  conf q (Wrap i (WContext T None) ec)
         (EWrap c msg (mkdet o k_withContext ext [] (Some (PlTags tags))) mt).
Proof.
  intros T Hne K Hc a b. enc_step. specialize (Hc a b).
  destruct (decode q (encode ec) a) as [e1 a1]. destruct (decode q c b) as [e2 b1]. cbn [fst] in Hc.
  fam_is (Wrap i (WContext T None) ec) k_withContext. rewrite K.
  change (sd_or_nil (Wrap i (WContext T None) ec)) with (redact_tags T).
  ctx_chain.
  assert (HT : T <> []).
  { apply tags_of_nonempty. destruct tags; [congruence|discriminate]. }
  assert (HR : redact_tags T <> []).
  { unfold redact_tags. destruct T; [congruence|discriminate]. }
  cbn [fresh]. rewrite ctx_match by (right; exact HR).
  rewrite some_nonempty by exact HR.
  unfold T. rewrite context_tags_stable. clear HT HR. clear T.
  destruct tags as [|t0 tt]; [congruence|].
  cbn [fst erase]. now rewrite Hc.
Qed.
End ConfNodes.

(* ---- the induction ---- *)
Section ConfMain.
Variables p q : proc.
Hypothesis Hcv : covers p q.

Definition CF (x : enc) : Prop :=
  tp_ok p q x = true -> forall n, conf q (fst (decode p x n)) x.

Lemma decode_list_conf cs :
  Forall CF cs -> forallb (tp_ok p q) cs = true ->
  forall n, same_causes q (List.map encode (fst (decode_list (decode p) cs n))) cs.
Proof.
  induction 1 as [|c l Hc Hl IH]; intros Hok n m k; cbn [decode_list]; [reflexivity|].
  cbn [forallb] in Hok. apply andb_true_iff in Hok as [Hok1 Hok2].
  specialize (Hc Hok1 n). destruct (decode p c n) as [e n1]. specialize (IH Hok2 n1).
  destruct (decode_list (decode p) l n1) as [es n2]. cbn [fst List.map decode_list] in *.
  specialize (Hc m k). destruct (decode q (encode e) m) as [e1 m1]. destruct (decode q c k) as [e2 k1].
  specialize (IH m1 k1).
  destruct (decode_list (decode q) (List.map encode es) m1) as [es1 m2].
  destruct (decode_list (decode q) l k1) as [es2 k2].
  cbn [fst List.map] in *. now rewrite Hc, IH.
Qed.

Lemma knows_q k : has_decoder k = true -> knows p k = true -> knows q k = true.
Proof. apply (cv_sub p q Hcv). Qed.

Ltac kq := first [ assumption | apply knows_q; [reflexivity | assumption] ].

Ltac fin_oleaf Hes cs n :=
  let Hn := fresh "Hn" in let es := fresh "es" in let n1 := fresh "n1" in
  pose proof (Hes n) as Hn; destruct (decode_list (decode p) cs n) as [es n1];
  cbn [fresh fst] in Hn |- *; apply cf_oleaf; exact Hn.

Ltac pl_leaf pl Hes cs n := destruct pl as [pl0|]; [destruct pl0|]; try (fin_oleaf Hes cs n).

Lemma conf_leaf msg o fam ext rep pl cs :
  Forall CF cs -> pl_P CF pl -> CF (ELeaf msg (mkdet o fam ext rep pl) cs).
Proof.
  intros IHcs IHpl Hok n. cbn [tp_ok] in Hok. apply andb_true_iff in Hok as [Hpl Hcs].
  pose proof (decode_list_conf cs IHcs Hcs) as Hes. clear IHcs Hcs.
  cbn [decode].
  destruct (mem_str fam leaf_decoder_keys && knows p fam) eqn:HL.
  - apply andb_true_iff in HL as [HLm HK].
    destruct (str_eqb fam k_errorString) eqn:E1.
    { is_key E1 fam. cbn [fresh fst]. apply cf_errorString. kq. }
    destruct (str_eqb fam k_deadline) eqn:E2.
    { is_key E2 fam. cbn [fst]. apply cf_deadline. kq. }
    destruct (str_eqb fam k_leafError) eqn:E3.
    { is_key E3 fam. pl_leaf pl Hes cs n. cbn [fresh fst]. apply cf_leafError. kq. }
    destruct (str_eqb fam k_barrier) eqn:E4.
    { is_key E4 fam. pl_leaf pl Hes cs n.
      assert (Hm : tp_ok p q e = true) by (rewrite HK in Hpl; exact Hpl).
      cbn [pl_P] in IHpl. specialize (IHpl Hm n). destruct (decode p e n) as [em n1].
      cbn [fresh fst] in IHpl |- *. apply cf_barrier; [kq | exact IHpl]. }
    destruct (str_eqb fam k_barrierPrev) eqn:E5.
    { is_key E5 fam. pl_leaf pl Hes cs n.
      assert (Hm : tp_ok p q e = true) by (rewrite HK in Hpl; exact Hpl).
      cbn [pl_P] in IHpl. specialize (IHpl Hm n). destruct (decode p e n) as [em n1].
      cbn [fresh fst] in IHpl |- *.
      apply cf_barrierPrev; [apply (cv_barrier p q Hcv HK) | kq | exact IHpl]. }
    destruct (str_eqb fam k_unimpl) eqn:E6.
    { is_key E6 fam. cbn [fresh fst]. apply cf_unimpl. kq. }
    destruct (str_eqb fam k_errno) eqn:E7.
    { is_key E7 fam. cbn [orb]. pl_leaf pl Hes cs n.
      destruct (str_eqb (en_arch p0) this_arch) eqn:Ea; cbn [fresh fst].
      - apply cf_errno_native; [kq | kq | now left | exact Ea].
      - apply cf_errno_foreign; [apply (cv_errno1 p q Hcv HK) | kq | now left | exact Ea]. }
    destruct (str_eqb fam k_opaqueErrno) eqn:E7'.
    { is_key E7' fam. cbn [orb]. pl_leaf pl Hes cs n.
      destruct (str_eqb (en_arch p0) this_arch) eqn:Ea; cbn [fresh fst].
      - apply cf_errno_native; [apply (cv_errno2 p q Hcv HK) | kq | now right | exact Ea].
      - apply cf_errno_foreign; [kq | kq | now right | exact Ea]. }
    cbn [orb].
    destruct (str_eqb fam k_grpcStatus) eqn:E8.
    { is_key E8 fam. pl_leaf pl Hes cs n.
      destruct (c =? 0) eqn:Ec; [fin_oleaf Hes cs n|].
      cbn [fresh fst]. apply cf_grpcStatus; [exact Ec | kq]. }
    destruct (str_eqb fam k_gogoStatus) eqn:E9.
    { is_key E9 fam. pl_leaf pl Hes cs n.
      destruct (c =? 0) eqn:Ec; [fin_oleaf Hes cs n|].
      cbn [fresh fst]. apply cf_gogoStatus; [exact Ec | kq]. }
    fin_oleaf Hes cs n.
  - destruct (mem_str fam multi_decoder_keys && knows p fam) eqn:HM.
    + apply andb_true_iff in HM as [HMm HK].
      assert (fam = k_join).
      { cbn [mem_str multi_decoder_keys] in HMm. rewrite orb_false_r in HMm. now apply str_eqb_eq. }
      subst fam. clear HL HMm.
      pose proof (Hes n) as Hn. destruct (decode_list (decode p) cs n) as [es n1]. cbn [fst] in Hn.
      destruct es as [|e0 es]; cbn [fresh fst].
      * apply cf_oleaf. exact Hn.
      * apply cf_join; [kq | discriminate | exact Hn].
    + pl_leaf pl Hes cs n.
      cbn [fresh fst]. unfold dec_lm in Hpl.
      apply cf_testError;
        destruct (mem_str fam leaf_decoder_keys), (mem_str fam multi_decoder_keys),
                 (knows p fam), (knows q fam); cbn in *; congruence.
Qed.

Ltac fin_owrap IHc := cbn [fst]; apply cf_owrap; exact IHc.
Ltac pl_cases pl IHc := destruct pl as [pl0|]; [destruct pl0|]; try (fin_owrap IHc).

Lemma conf_wrap c msg o fam ext rep pl mt :
  CF c -> pl_P CF pl -> CF (EWrap c msg (mkdet o fam ext rep pl) mt).
Proof.
  intros IHc IHpl Hok n. cbn [tp_ok] in Hok. apply andb_true_iff in Hok as [Hokc Hpl].
  specialize (IHc Hokc n). cbn [decode].
  destruct (decode p c n) as [ec n0]. cbn [fst] in IHc. cbn [fresh].
  destruct (mem_str fam wrap_decoder_keys && knows p fam) eqn:HL.
  - apply andb_true_iff in HL as [HLm HK].
    destruct (str_eqb fam k_withPrefix) eqn:E1.
    { is_key E1 fam. pl_cases pl IHc. cbn [fst]. apply cf_withPrefix; [kq|exact IHc]. }
    destruct (str_eqb fam k_withNewMessage) eqn:E2.
    { is_key E2 fam. pl_cases pl IHc. cbn [fst]. apply cf_withNewMessage; [kq|exact IHc]. }
    destruct (str_eqb fam k_withHint) eqn:E3.
    { is_key E3 fam. pl_cases pl IHc. cbn [fst]. apply cf_withHint; [kq|exact IHc]. }
    destruct (str_eqb fam k_withDetail) eqn:E4.
    { is_key E4 fam. pl_cases pl IHc. cbn [fst]. apply cf_withDetail; [kq|exact IHc]. }
    destruct (str_eqb fam k_withIssueLink) eqn:E5.
    { is_key E5 fam. cbn [fst]. apply cf_withIssueLink; [kq|exact IHc]. }
    destruct (str_eqb fam k_withTelemetry) eqn:E6.
    { is_key E6 fam. cbn [fst]. apply cf_withTelemetry; [kq|exact IHc]. }
    destruct (str_eqb fam k_withDomain) eqn:E7.
    { is_key E7 fam. destruct rep as [|d0 rr]; [fin_owrap IHc|]. cbn [fst].
      apply cf_withDomain; [kq|exact IHc]. }
    destruct (str_eqb fam k_withContext) eqn:E8.
    { is_key E8 fam. pl_cases pl IHc.
      destruct l as [|t tt], rep as [|r0 rr]; try (fin_owrap IHc); cbn [fst].
      - apply (cf_withContext_some q n0 [] r0 rr ec c); [kq|exact IHc].
      - apply (cf_withContext_none q n0 (t :: tt) ec c); [discriminate|kq|exact IHc].
      - apply (cf_withContext_some q n0 (t :: tt) r0 rr ec c); [kq|exact IHc]. }
    destruct (str_eqb fam k_withAssert) eqn:E9.
    { is_key E9 fam. cbn [fst]. apply cf_withAssert; [kq|exact IHc]. }
    destruct (str_eqb fam k_withMark) eqn:E10.
    { is_key E10 fam. pl_cases pl IHc. destruct tys as [|t tys]; [fin_owrap IHc|].
      cbn [fst]. apply cf_withMark; [kq|exact IHc]. }
    destruct (str_eqb fam k_withSafeDetails) eqn:E11.
    { is_key E11 fam. cbn [fst]. apply cf_withSafeDetails; [kq|exact IHc]. }
    destruct (str_eqb fam k_withSecondary) eqn:E12.
    { is_key E12 fam. pl_cases pl IHc.
      assert (Hm : tp_ok p q e = true) by (rewrite HK in Hpl; exact Hpl).
      cbn [pl_P] in IHpl.
      specialize (IHpl Hm (Pos.succ n0)). destruct (decode p e (Pos.succ n0)) as [es n2].
      cbn [fst] in IHpl |- *. apply cf_secondary; [kq|exact IHc|exact IHpl]. }
    destruct (str_eqb fam k_withHTTP) eqn:E13.
    { is_key E13 fam. pl_cases pl IHc. cbn [fst]. apply cf_withHTTP; [kq|exact IHc]. }
    destruct (str_eqb fam k_withGrpc) eqn:E14.
    { is_key E14 fam. pl_cases pl IHc. cbn [fst]. apply cf_withGrpc; [kq|exact IHc]. }
    destruct (str_eqb fam k_pkgMsg) eqn:E15.
    { is_key E15 fam. cbn [fst]. apply cf_pkgMsg; [kq|exact IHc]. }
    destruct (str_eqb fam k_pathError) eqn:E16.
    { is_key E16 fam. pl_cases pl IHc.
      destruct l as [|op [|path l']]; try (fin_owrap IHc). cbn [fst].
      apply cf_pathError; [kq|exact IHc]. }
    destruct (str_eqb fam k_linkError) eqn:E17.
    { is_key E17 fam. pl_cases pl IHc.
      destruct l as [|op [|old [|new l']]]; try (fin_owrap IHc). cbn [fst].
      apply cf_linkError; [kq|exact IHc]. }
    destruct (str_eqb fam k_syscallError) eqn:E18.
    { is_key E18 fam. cbn [fst]. apply cf_syscallError; [kq|exact IHc]. }
    fin_owrap IHc.
  - fin_owrap IHc.
Qed.

Theorem conf_node x : CF x.
Proof. induction x using enc_ind2; [now apply conf_leaf | now apply conf_wrap]. Qed.
End ConfMain.

(* the general statement: any later process q that covers the intermediary p *)
Theorem confluence_gen p q (Hcv : covers p q) x (Hx : tp_ok p q x = true) n m k :
  erase (fst (decode q (encode (fst (decode p x n))) m)) = erase (fst (decode q x k)).
Proof. exact (conf_node p q Hcv x Hx n m k). Qed.

(* ================================================================== *)
(* 3. A side condition that does not mention the processes, and that    *)
(*    every process preserves when it decodes and re-encodes            *)
(* ================================================================== *)

(* no node, at any depth (causes, barrier and secondary payloads), carries the
   error-typed test payload under a type name that has a leaf / multi-cause decoder *)
Fixpoint tp_wf (x : enc) : bool :=
  match x with
  | ELeaf _ (mkdet _ fam _ _ pl) cs =>
    match pl with
    | Some PlTestError => negb (dec_lm fam)
    | Some (PlEnc m) => tp_wf m
    | _ => true
    end && forallb tp_wf cs
  | EWrap c _ (mkdet _ _ _ _ pl) _ =>
    tp_wf c && match pl with Some (PlEnc m) => tp_wf m | _ => true end
  end.

Lemma forallb_impl_Forall {A} (f g : A -> bool) l :
  Forall (fun x => f x = true -> g x = true) l -> forallb f l = true -> forallb g l = true.
Proof.
  induction 1 as [|x l Hx Hl IH]; cbn; [reflexivity|]. intro H.
  apply andb_true_iff in H as [H1 H2]. now rewrite (Hx H1), (IH H2).
Qed.

Lemma tp_wf_ok p q x : tp_wf x = true -> tp_ok p q x = true.
Proof.
  induction x using enc_ind2; cbn [tp_wf tp_ok]; intro Hx; apply andb_true_iff in Hx as [H1 H2].
  - rewrite (forallb_impl_Forall _ _ _ H H2), andb_true_r.
    destruct pl as [[]|]; try reflexivity; cbn [pl_P] in *.
    + rewrite (H0 H1). apply orb_true_r.
    + apply negb_true_iff in H1. now rewrite H1.
  - rewrite (IHx H1). cbn [andb].
    destruct pl as [[]|]; try reflexivity; cbn [pl_P] in *. rewrite (H H2). apply orb_true_r.
Qed.

Section Preserve.
Variable p : proc.

Lemma wf_leaf i k : tp_wf (encode (Leaf i k)) = true.
Proof. destruct k; cbn [encode]; unfold mk_details; cbn [type_details tp_wf]; reflexivity. Qed.

Lemma wf_barrier i s m : tp_wf (encode m) = true -> tp_wf (encode (Barrier i s m)) = true.
Proof. intro H. cbn [encode]. unfold mk_details. cbn [type_details tp_wf]. now rewrite H. Qed.

Lemma wf_multi i k cs :
  forallb tp_wf (List.map encode cs) = true -> tp_wf (encode (Multi i k cs)) = true.
Proof. intro H. cbn [encode]. unfold mk_details. cbn [type_details tp_wf]. now rewrite H. Qed.

Lemma wf_second i c s :
  tp_wf (encode c) = true -> tp_wf (encode s) = true -> tp_wf (encode (Second i c s)) = true.
Proof. intros H1 H2. cbn [encode]. unfold mk_details. cbn [type_details tp_wf]. now rewrite H1, H2. Qed.

Lemma wf_wrap i w c : tp_wf (encode c) = true -> tp_wf (encode (Wrap i w c)) = true.
Proof.
  intro H. destruct w; cbn [encode]; try (destruct (extract_prefix _ _));
    unfold mk_details; cbn [type_details tp_wf]; now rewrite H.
Qed.

Lemma wf_oleaf i msg o fam ext rep pl cs :
  tp_wf (encode (OLeaf i msg (mkdet o fam ext rep pl) cs))
  = match pl with
    | Some PlTestError => negb (dec_lm fam)
    | Some (PlEnc m) => tp_wf m
    | _ => true
    end && forallb tp_wf (List.map encode cs).
Proof. reflexivity. Qed.

Lemma wf_owrap i msg o fam ext rep pl mt c :
  tp_wf (encode (OWrap i msg (mkdet o fam ext rep pl) mt c))
  = tp_wf (encode c) && match pl with Some (PlEnc m) => tp_wf m | _ => true end.
Proof. reflexivity. Qed.

Definition WFP (x : enc) : Prop := tp_wf x = true -> forall n, tp_wf (encode (fst (decode p x n))) = true.

Lemma decode_list_wf cs :
  Forall WFP cs -> forallb tp_wf cs = true ->
  forall n, forallb tp_wf (List.map encode (fst (decode_list (decode p) cs n))) = true.
Proof.
  induction 1 as [|c l Hc Hl IH]; intros Hok n; cbn [decode_list]; [reflexivity|].
  cbn [forallb] in Hok. apply andb_true_iff in Hok as [Hok1 Hok2].
  specialize (Hc Hok1 n). destruct (decode p c n) as [e n1]. specialize (IH Hok2 n1).
  destruct (decode_list (decode p) l n1) as [es n2]. cbn [fst List.map forallb] in *. now rewrite Hc, IH.
Qed.

Lemma wf_leaf_node msg o fam ext rep pl cs :
  Forall WFP cs -> pl_P WFP pl -> WFP (ELeaf msg (mkdet o fam ext rep pl) cs).
Proof.
  intros IHcs IHpl Hok n. cbn [tp_wf] in Hok. apply andb_true_iff in Hok as [Hpl Hcs].
  pose proof (decode_list_wf cs IHcs Hcs n) as Hn. clear IHcs Hcs.
  cbn [decode]. destruct (decode_list (decode p) cs n) as [es n1]. cbn [fst] in Hn. cbn [fresh].
  destruct pl as [pl0|]; [destruct pl0|]; cbn [pl_P] in IHpl;
    try (specialize (IHpl Hpl n); destruct (decode p e n) as [em n2]; cbn [fst] in IHpl);
    split_ifs; cbn [fst];
    lazymatch goal with
    | |- tp_wf (encode (Leaf _ _)) = true => apply wf_leaf
    | |- tp_wf (encode (Barrier _ _ _)) = true => apply wf_barrier; exact IHpl
    | |- tp_wf (encode (Multi _ _ _)) = true => apply wf_multi; exact Hn
    | |- tp_wf (encode (OLeaf _ _ _ _)) = true =>
      rewrite wf_oleaf, Hn, andb_true_r; first [exact Hpl | reflexivity]
    end.
Qed.

Lemma wf_wrap_node c msg o fam ext rep pl mt :
  WFP c -> pl_P WFP pl -> WFP (EWrap c msg (mkdet o fam ext rep pl) mt).
Proof.
  intros IHc IHpl Hok n. cbn [tp_wf] in Hok. apply andb_true_iff in Hok as [Hokc Hpl].
  specialize (IHc Hokc n). cbn [decode].
  destruct (decode p c n) as [ec n0]. cbn [fst] in IHc. cbn [fresh].
  destruct pl as [pl0|]; [destruct pl0|]; cbn [pl_P] in IHpl;
    try (specialize (IHpl Hpl (Pos.succ n0)); destruct (decode p e (Pos.succ n0)) as [es n2];
         cbn [fst] in IHpl);
    split_ifs;
    repeat match goal with
           | |- context [match ?l with [] => _ | _ :: _ => _ end] => is_var l; destruct l
           end;
    cbn [fst];
    lazymatch goal with
    | |- tp_wf (encode (Wrap _ _ _)) = true => apply wf_wrap; exact IHc
    | |- tp_wf (encode (Second _ _ _)) = true => apply wf_second; [exact IHc | exact IHpl]
    | |- tp_wf (encode (OWrap _ _ _ _ _)) = true =>
      rewrite wf_owrap, IHc; first [exact Hpl | reflexivity]
    end.
Qed.

Theorem tp_wf_preserved x n : tp_wf x = true -> tp_wf (encode (fst (decode p x n))) = true.
Proof.
  intro H. revert n. revert H. change (WFP x).
  induction x using enc_ind2; [now apply wf_leaf_node | now apply wf_wrap_node].
Qed.
End Preserve.

(* ================================================================== *)
(* 4. The theorems                                                     *)
(* ================================================================== *)

(* C04 for a partially knowing intermediary p -- ANY p: no closure condition on what p
   knows is needed when the final receiver knows every type.  x is any wire message. *)
Theorem confluence p x (Hx : tp_ok p all_knowing x = true) n m k :
  erase (fst (decode all_knowing (encode (fst (decode p x n))) m)) = erase (fst (decode all_knowing x k)).
Proof. apply confluence_gen; [apply covers_all_knowing | exact Hx]. Qed.

Corollary confluence_wf p x (Hx : tp_wf x = true) n m k :
  erase (fst (decode all_knowing (encode (fst (decode p x n))) m)) = erase (fst (decode all_knowing x k)).
Proof. apply confluence. now apply tp_wf_ok. Qed.

(* q = p: [hop_idem'] is the diagonal of [confluence_gen] (here with independent counters) *)
Lemma tp_ok_self p x : tp_ok p p x = true.
Proof.
  induction x using enc_ind2; cbn [tp_ok].
  - assert (Hcs : forallb (tp_ok p p) cs = true).
    { induction H as [|c l Hc Hl IH]; cbn; [reflexivity|]. now rewrite Hc, IH. }
    rewrite Hcs, andb_true_r.
    destruct pl as [[]|]; try reflexivity; cbn [pl_P] in *.
    + rewrite H0. apply orb_true_r.
    + destruct (knows p f); [apply orb_true_r | now rewrite andb_false_r].
  - rewrite IHx. cbn [andb].
    destruct pl as [[]|]; try reflexivity; cbn [pl_P] in *. rewrite H. apply orb_true_r.
Qed.

Corollary confluence_self p (Hp : proc_closed p) x n m k :
  erase (fst (decode p (encode (fst (decode p x n))) m)) = erase (fst (decode p x k)).
Proof. apply confluence_gen; [now apply covers_self | apply tp_ok_self]. Qed.

(* ---- errors instead of messages ---- *)
Corollary confluence_hop_gen p q (Hcv : covers p q) e (He : tp_ok p q (encode e) = true) n m k :
  erase (fst (hop q (fst (hop p e n)) m)) = erase (fst (hop q e k)).
Proof. unfold hop. now apply confluence_gen. Qed.

Corollary confluence_hop p e (He : tp_ok p all_knowing (encode e) = true) n m k :
  erase (fst (hop all_knowing (fst (hop p e n)) m)) = erase (fst (hop all_knowing e k)).
Proof. apply confluence_hop_gen; [apply covers_all_knowing | exact He]. Qed.

(* ---- a chain of intermediaries ---- *)
Lemma transfer_wf ps : forall e n,
  tp_wf (encode e) = true -> tp_wf (encode (fst (transfer ps e n))) = true.
Proof.
  induction ps as [|p r IH]; intros e n He; cbn [transfer]; [exact He|].
  destruct (hop p e n) as [e1 n1] eqn:E. apply IH.
  assert (E1 : e1 = fst (decode p (encode e) n)) by (unfold hop in E; now rewrite E).
  rewrite E1. now apply tp_wf_preserved.
Qed.

Theorem confluence_transfer_gen q ps (Hcv : Forall (fun p => covers p q) ps) :
  forall e n m k, tp_wf (encode e) = true ->
  erase (fst (hop q (fst (transfer ps e n)) m)) = erase (fst (hop q e k)).
Proof.
  induction Hcv as [|p r Hp Hr IH]; intros e n m k He; cbn [transfer].
  - cbn [fst]. unfold hop. apply decode_counter_irrelevant.
  - destruct (hop p e n) as [e1 n1] eqn:E.
    assert (E1 : e1 = fst (hop p e n)) by now rewrite E.
    rewrite (IH e1 n1 m m).
    + rewrite E1. apply confluence_hop_gen; [exact Hp | now apply tp_wf_ok].
    + rewrite E1. unfold hop. now apply tp_wf_preserved.
Qed.

Corollary confluence_transfer ps e n m k :
  tp_wf (encode e) = true ->
  erase (fst (hop all_knowing (fst (transfer ps e n)) m)) = erase (fst (hop all_knowing e k)).
Proof.
  apply confluence_transfer_gen. induction ps; constructor; [apply covers_all_knowing | assumption].
Qed.

(* ---- errors built in a process (no opaque stand-in anywhere) satisfy the condition ---- *)
Fixpoint native (e : err) : bool :=
  match e with
  | Leaf _ _ => true
  | Wrap _ _ c => native c
  | Second _ c s => native c && native s
  | Barrier _ _ m => native m
  | Multi _ _ cs => forallb native cs
  | OLeaf _ _ _ _ | OWrap _ _ _ _ _ => false
  end.

Lemma native_wf e : native e = true -> tp_wf (encode e) = true.
Proof.
  induction e using err_ind'; cbn [native]; intro Hn; try discriminate Hn.
  - apply wf_leaf.
  - apply wf_wrap. now apply IHe.
  - apply andb_true_iff in Hn as [H1 H2]. apply wf_second; [now apply IHe1 | now apply IHe2].
  - apply wf_barrier. now apply IHe.
  - apply wf_multi. revert Hn. induction H as [|c l Hc Hl IH]; cbn; [reflexivity|]. intro Hn.
    apply andb_true_iff in Hn as [H1 H2]. now rewrite (Hc H1), (IH H2).
Qed.

Corollary confluence_native p e n m k :
  native e = true ->
  erase (fst (hop all_knowing (fst (hop p e n)) m)) = erase (fst (hop all_knowing e k)).
Proof. intro H. apply confluence_hop. apply tp_wf_ok. now apply native_wf. Qed.

Corollary confluence_native_transfer ps e n m k :
  native e = true ->
  erase (fst (hop all_knowing (fst (transfer ps e n)) m)) = erase (fst (hop all_knowing e k)).
Proof. intro H. apply confluence_transfer. now apply native_wf. Qed.

(* ================================================================== *)
(* 5. What "the same error" means: everything the library observes    *)
(* ================================================================== *)
From Errv Require Import Model.Access Model.Report Proofs.MarksFacts Proofs.ExactHop Proofs.IsErase.

Lemma confluence_obs {A} (f : err -> A) (Hf : forall e, f (erase e) = f e) p x
      (Hx : tp_ok p all_knowing x = true) n m k :
  f (fst (decode all_knowing (encode (fst (decode p x n))) m)) = f (fst (decode all_knowing x k)).
Proof.
  rewrite <- (Hf (fst (decode all_knowing (encode (fst (decode p x n))) m))).
  rewrite (confluence p x Hx n m k). apply Hf.
Qed.

(* text and verbose rendering ([sem]: Error() text, every %v / %+v rendering, type marks),
   identity ([get_mark], [is_] against references that share no object with either copy),
   annotations (the accessors), safe details and the wire form *)
Theorem confluence_observables p x (Hx : tp_ok p all_knowing x = true) n m k :
  let a := fst (decode all_knowing (encode (fst (decode p x n))) m) in
  let b := fst (decode all_knowing x k) in
  sem a = sem b /\
  error_text a = error_text b /\
  get_mark a = get_mark b /\
  (forall r, disjoint_ref a r -> disjoint_ref b r -> is_ a r = is_ b r) /\
  encode a = encode b /\
  get_safe_details a = get_safe_details b /\
  get_all_hints a = get_all_hints b /\
  get_all_details a = get_all_details b /\
  get_all_issue_links a = get_all_issue_links b /\
  get_telemetry_keys a = get_telemetry_keys b /\
  get_domain a = get_domain b /\
  get_context_tags a = get_context_tags b /\
  has_assertion_failure a = has_assertion_failure b /\
  has_unimplemented a = has_unimplemented b /\
  (forall dflt, get_http_code a dflt = get_http_code b dflt) /\
  get_grpc_code a = get_grpc_code b /\
  is_timeout a = is_timeout b.
Proof.
  intros a b. pose proof (confluence p x Hx n m k) as He. fold a b in He.
  repeat split; intros.
  - now apply same_erase_sem.
  - unfold error_text. now rewrite (same_erase_sem a b He).
  - now rewrite <- (get_mark_erase a), He, get_mark_erase.
  - now apply is_same_erase.
  - now apply same_erase_encode.
  - now apply same_erase_safe_details.
  - now rewrite <- (get_all_hints_erase a), He, get_all_hints_erase.
  - now rewrite <- (get_all_details_erase a), He, get_all_details_erase.
  - now rewrite <- (get_all_issue_links_erase a), He, get_all_issue_links_erase.
  - now rewrite <- (get_telemetry_keys_erase a), He, get_telemetry_keys_erase.
  - now rewrite <- (get_domain_erase a), He, get_domain_erase.
  - now rewrite <- (get_context_tags_erase a), He, get_context_tags_erase.
  - now rewrite <- (has_assertion_failure_erase a), He, has_assertion_failure_erase.
  - now rewrite <- (has_unimplemented_erase a), He, has_unimplemented_erase.
  - now rewrite <- (get_http_code_erase a), He, get_http_code_erase.
  - now rewrite <- (get_grpc_code_erase a), He, get_grpc_code_erase.
  - now rewrite <- (is_timeout_erase a), He, is_timeout_erase.
Qed.

(* ================================================================== *)
(* 6. Witnesses                                                        *)
(* ================================================================== *)

(* ---- the side condition [tp_ok] is needed, and the statement without it is false ---- *)
Definition tp_bad_msg : enc := ELeaf (lit "m") (mkdet [] k_errorString [] [] (Some PlTestError)) [].
Definition no_errorString : proc := mkproc [k_errorString].

Example confluence_needs_tp_ok :
  proc_closed no_errorString /\
  tp_ok no_errorString all_knowing tp_bad_msg = false /\
  erase (fst (decode all_knowing (encode (fst (decode no_errorString tp_bad_msg 100%positive))) 200%positive))
    = Leaf 1%positive LTestError /\
  erase (fst (decode all_knowing tp_bad_msg 300%positive)) = Leaf 1%positive (LErrString (lit "m")).
Proof. split; [split; [intro; reflexivity|reflexivity]|]. vm_compute. repeat split. Qed.

(* the statement as first proposed (only [proc_closed p] assumed) is false, also when x
   is restricted to the encoding of an error value *)
Theorem confluence_unconditional_refuted :
  ~ (forall p, proc_closed p -> forall x n m k,
       erase (fst (decode all_knowing (encode (fst (decode p x n))) m)) = erase (fst (decode all_knowing x k))).
Proof.
  intro H.
  destruct confluence_needs_tp_ok as (Hp & _ & Ha & Hb).
  specialize (H no_errorString Hp tp_bad_msg 100%positive 200%positive 300%positive).
  rewrite Ha, Hb in H. discriminate H.
Qed.

Theorem confluence_unconditional_refuted_hop :
  ~ (forall p, proc_closed p -> forall e n m k,
       erase (fst (hop all_knowing (fst (hop p e n)) m)) = erase (fst (hop all_knowing e k))).
Proof.
  intro H.
  destruct confluence_needs_tp_ok as (Hp & _ & Ha & Hb).
  specialize (H no_errorString Hp
                (OLeaf 99%positive (lit "m") (mkdet [] k_errorString [] [] (Some PlTestError)) [])
                100%positive 200%positive 300%positive).
  unfold hop in H. change (encode (OLeaf _ _ _ _)) with tp_bad_msg in H.
  rewrite Ha, Hb in H. discriminate H.
Qed.

(* same with a multi-cause decoder: the type name of join *)
Example confluence_needs_tp_ok_multi :
  let x := ELeaf (lit "m") (mkdet [] k_join [] [] (Some PlTestError)) [] in
  let p := mkproc [k_join] in
  proc_closed p /\ tp_ok p all_knowing x = false /\
  erase (fst (decode all_knowing (encode (fst (decode p x 100%positive))) 200%positive))
  <> erase (fst (decode all_knowing x 300%positive)).
Proof. split; [split; [intro; reflexivity|reflexivity]|]. vm_compute. split; [reflexivity|discriminate]. Qed.

(* the condition looks inside a barrier payload exactly when p decodes the barrier:
   needed when it does, not needed (and not required by [tp_ok]) when it does not *)
Definition tp_bad_in_barrier : enc :=
  ELeaf (lit "b") (mkdet [] k_barrier [] [] (Some (PlEnc tp_bad_msg))) [].

Example confluence_needs_tp_ok_payload :
  tp_ok no_errorString all_knowing tp_bad_in_barrier = false /\
  erase (fst (decode all_knowing (encode (fst (decode no_errorString tp_bad_in_barrier 100%positive))) 200%positive))
  <> erase (fst (decode all_knowing tp_bad_in_barrier 300%positive)).
Proof. vm_compute. split; [reflexivity|discriminate]. Qed.

Example tp_ok_finer_than_tp_wf :
  let p := mkproc [k_errorString; k_barrier] in
  tp_wf tp_bad_in_barrier = false /\ tp_ok p all_knowing tp_bad_in_barrier = true /\
  erase (fst (decode all_knowing (encode (fst (decode p tp_bad_in_barrier 100%positive))) 200%positive))
  = erase (fst (decode all_knowing tp_bad_in_barrier 300%positive)).
Proof.
  intro p. split; [reflexivity|]. split; [reflexivity|]. now apply confluence.
Qed.

(* ---- nothing else is needed: the candidates that turned out harmless ---- *)
(* One message with: a secondary payload and a barrier payload that the intermediary
   decodes and re-encodes; the previous barrier type name (re-emitted under the current
   one); an errno of another platform under syscall.Errno and a native one under
   *errbase.OpaqueErrno (each re-emitted under the other name); a mark without types, a
   context layer without tags, gRPC status code 0, a join without causes, an HTTP layer
   whose payload is missing (all fall back to the opaque stand-in). *)
Definition plain_msg (s : string) : enc := ELeaf (lit s) (mkdet [] k_errorString [] [] None) [].
Definition quirks : enc :=
  EWrap
    (EWrap
       (EWrap
          (EWrap
             (ELeaf (lit "j") (mkdet [] k_join [] [] None)
                [ ELeaf (lit "old") (mkdet [] k_barrierPrev [] [] (Some (PlEnc (plain_msg "hidden1")))) [];
                  ELeaf (lit "new") (mkdet [] k_barrier [] []
                     (Some (PlEnc (ELeaf (lit "e1") (mkdet [] k_errno [] []
                        (Some (PlErrno (mkerrno 1%Z (lit "plan9:arm") false false false false false)))) [])))) [];
                  foreign_errno_msg;
                  native_opaque_errno_msg;
                  ELeaf (lit "ok") (mkdet [] k_grpcStatus [] [] (Some (PlStatus 0 (lit "ok")))) [];
                  ELeaf (lit "empty") (mkdet [] k_join [] [] None) [] ])
             [] (mkdet [] k_withMark [] [] (Some (PlMark (lit "mk") []))) 0)
          [] (mkdet [] k_withContext [] [] (Some (PlTags []))) 0)
       [] (mkdet [] k_withHTTP [] [] None) 0)
    [] (mkdet [] k_withSecondary [] [] (Some (PlEnc (plain_msg "second")))) 0.

(* it satisfies the process-independent condition, hence the theorem applies to every
   intermediary, closed or not (here: one that knows syscall.Errno but not OpaqueErrno,
   and the previous barrier type but not the current one) *)
Example quirks_confluent :
  let p := mkproc [k_opaqueErrno; k_barrier; k_withMark] in
  ~ proc_closed p /\ tp_wf quirks = true /\
  forall n m k,
    erase (fst (decode all_knowing (encode (fst (decode p quirks n))) m))
    = erase (fst (decode all_knowing quirks k)).
Proof.
  intro p. split; [|split; [vm_compute; reflexivity|]].
  - intros [Hb _]. specialize (Hb eq_refl). discriminate Hb.
  - intros. now apply confluence_wf.
Qed.

(* and the intermediary does change the message (so the statement is not vacuous) *)
Example quirks_reencoded_differs :
  let p := mkproc [k_opaqueErrno; k_barrier; k_withMark] in
  encode (fst (decode p quirks 100%positive)) <> quirks /\
  erase (fst (decode p quirks 100%positive)) <> erase (fst (decode all_knowing quirks 100%positive)).
Proof. vm_compute. split; discriminate. Qed.

(* ---- each field of [covers] is needed when the final receiver is not all-knowing ---- *)
(* cv_sub: q must know what p knows; else q shows p's canonical re-encoding *)
Example covers_sub_needed :
  let p := all_knowing in let q := no_errorString in
  let x := ELeaf (lit "m") (mkdet (lit "orig") k_errorString (lit "ext") [lit "r"] None) [] in
  (knows p k_barrierPrev = true -> knows q k_barrier = true) /\
  (knows p k_errno = true -> knows q k_opaqueErrno = true) /\
  (knows p k_opaqueErrno = true -> knows q k_errno = true) /\
  tp_ok p q x = true /\
  erase (fst (decode q (encode (fst (decode p x 100%positive))) 200%positive))
  <> erase (fst (decode q x 300%positive)).
Proof. vm_compute. repeat split; discriminate. Qed.

(* cv_barrier: the previous barrier type is re-emitted under the current name *)
Example covers_barrier_needed :
  let p := mkproc [k_barrier] in
  let x := ELeaf (lit "old") (mkdet [] k_barrierPrev [] [] (Some (PlEnc (plain_msg "hidden")))) [] in
  (forall k, knows p k = true -> knows p k = true) /\
  knows p k_errno = knows p k_opaqueErrno /\
  tp_ok p p x = true /\
  erase (fst (decode p (encode (fst (decode p x 100%positive))) 200%positive))
  <> erase (fst (decode p x 300%positive)).
Proof. split; [auto|]. vm_compute. repeat split; discriminate. Qed.

(* cv_errno1 / cv_errno2: the two errno types are re-emitted under each other's name *)
Example covers_errno1_needed :
  (knows only_errno k_barrierPrev = true -> knows only_errno k_barrier = true) /\
  (knows only_errno k_opaqueErrno = true -> knows only_errno k_errno = true) /\
  tp_ok only_errno only_errno foreign_errno_msg = true /\
  erase (fst (decode only_errno (encode (fst (decode only_errno foreign_errno_msg 100%positive))) 200%positive))
  <> erase (fst (decode only_errno foreign_errno_msg 300%positive)).
Proof. split; [intro; reflexivity|]. vm_compute. repeat split; discriminate. Qed.

Example covers_errno2_needed :
  (knows only_opaqueErrno k_barrierPrev = true -> knows only_opaqueErrno k_barrier = true) /\
  (knows only_opaqueErrno k_errno = true -> knows only_opaqueErrno k_opaqueErrno = true) /\
  tp_ok only_opaqueErrno only_opaqueErrno native_opaque_errno_msg = true /\
  erase (fst (decode only_opaqueErrno
                (encode (fst (decode only_opaqueErrno native_opaque_errno_msg 100%positive))) 200%positive))
  <> erase (fst (decode only_opaqueErrno native_opaque_errno_msg 300%positive)).
Proof. split; [intro; reflexivity|]. vm_compute. repeat split; discriminate. Qed.

(* ---- a realistic tree through a process that knows only withPrefix and errorString ---- *)
Definition knows_only (ks : list str) : proc :=
  mkproc (filter (fun k => negb (mem_str k ks)) (leaf_decoder_keys ++ multi_decoder_keys ++ wrap_decoder_keys)).
Definition p_ex : proc := knows_only [k_withPrefix; k_errorString].
Definition e_ex : err :=
  Wrap 106%positive (WHint (lit "retry"))
    (Second 105%positive
       (Wrap 104%positive (WDomain (lit "db"))
          (Wrap 103%positive (WPrefix (lit "connect"))
             (Wrap 102%positive (WStack [])
                (Leaf 101%positive (LUser ULPlain (lit "boom") 0%Z [])))))
       (Leaf 100%positive (LErrString (lit "cleanup failed")))).

Example realistic_confluence :
  knows p_ex k_withPrefix = true /\ knows p_ex k_errorString = true /\
  knows p_ex k_withHint = false /\ knows p_ex k_withSecondary = false /\ knows p_ex k_withDomain = false /\
  native e_ex = true /\ tp_wf (encode e_ex) = true /\
  (* the intermediary itself sees opaque stand-ins where the final receiver sees the types *)
  erase (fst (hop p_ex e_ex 1000%positive)) <> erase (fst (hop all_knowing e_ex 1000%positive)) /\
  (* but what it forwards decodes to the same error *)
  (forall n m k,
     erase (fst (hop all_knowing (fst (hop p_ex e_ex n)) m)) = erase (fst (hop all_knowing e_ex k))) /\
  error_text (fst (hop all_knowing (fst (hop p_ex e_ex 1000%positive)) 2000%positive)) = lit "connect: boom" /\
  get_all_hints (fst (hop all_knowing (fst (hop p_ex e_ex 1000%positive)) 2000%positive)) = [lit "retry"].
Proof.
  do 7 (split; [vm_compute; reflexivity|]).
  split; [vm_compute; discriminate|].
  split; [intros; now apply confluence_native|].
  split; vm_compute; reflexivity.
Qed.

(* and through a chain of three different partially knowing processes *)
Example realistic_chain n m k :
  erase (fst (hop all_knowing
                (fst (transfer [p_ex; unknowing; mkproc [k_withHint; k_opaqueErrno]] e_ex n)) m))
  = erase (fst (hop all_knowing e_ex k)).
Proof. now apply confluence_native_transfer. Qed.
