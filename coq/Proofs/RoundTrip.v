(* One network hop between knowing processes rebuilds each annotation layer. *)
From Errv Require Import Base.Str Redact.Markers Redact.Buffer Model.Err Model.Sem Model.Details Model.Marks
     Model.Codec Proofs.StrFacts Proofs.CodecFacts.
From Coq Require Import Lia.

Lemma drop_prefix_self a : drop_prefix a a = Some [].
Proof. induction a as [|x a IH]; cbn; [reflexivity|]. now rewrite N.eqb_refl. Qed.

Lemma drop_suffix_self a : drop_suffix a a = Some [].
Proof. unfold drop_suffix. now rewrite drop_prefix_self. Qed.

Lemma extract_prefix_same t : extract_prefix t t = ([], 0).
Proof. unfold extract_prefix. now rewrite drop_suffix_self. Qed.

Lemma knows_all k : knows all_knowing k = true.
Proof. reflexivity. Qed.

Ltac hop_layer :=
  unfold hop; cbn [encode]; rewrite ?extract_prefix_same; unfold mk_details; cbn [type_details];
  cbn [decode];
  match goal with |- context [decode all_knowing (encode ?c) ?n] => destruct (decode all_knowing (encode c) n) as [ec n0] end;
  vm_compute; reflexivity.

Lemma layers_roundtrip i c n : exists j,
  (forall h, fst (hop all_knowing (Wrap i (WHint h) c) n) = Wrap j (WHint h) (fst (hop all_knowing c n))) /\
  (forall d, fst (hop all_knowing (Wrap i (WDetail d) c) n) = Wrap j (WDetail d) (fst (hop all_knowing c n))) /\
  (forall u d, fst (hop all_knowing (Wrap i (WIssueLink u d) c) n) = Wrap j (WIssueLink u d) (fst (hop all_knowing c n))) /\
  (forall ks, fst (hop all_knowing (Wrap i (WTelemetry ks) c) n) = Wrap j (WTelemetry ks) (fst (hop all_knowing c n))) /\
  (forall d, fst (hop all_knowing (Wrap i (WDomain d) c) n) = Wrap j (WDomain d) (fst (hop all_knowing c n))) /\
  (fst (hop all_knowing (Wrap i WAssert c) n) = Wrap j WAssert (fst (hop all_knowing c n))) /\
  (forall m, em_types m <> [] ->
     fst (hop all_knowing (Wrap i (WMark m) c) n) = Wrap j (WMark m) (fst (hop all_knowing c n))) /\
  (forall code, fst (hop all_knowing (Wrap i (WGrpc code) c) n) = Wrap j (WGrpc code) (fst (hop all_knowing c n))) /\
  (forall code, (0 <= code)%Z ->
     fst (hop all_knowing (Wrap i (WHTTP code) c) n) = Wrap j (WHTTP code) (fst (hop all_knowing c n))).
Proof.
  exists (snd (hop all_knowing c n)).
  unfold hop. destruct (decode all_knowing (encode c) n) as [ec n0] eqn:E.
  repeat split; intros.
  all: cbn [encode]; rewrite ?extract_prefix_same; unfold mk_details; cbn [type_details decode]; rewrite E.
  - reflexivity.
  - reflexivity.
  - reflexivity.
  - reflexivity.
  - reflexivity.
  - reflexivity.
  - destruct m as [msg [|t tys]]; [cbn in *; contradiction|reflexivity].
  - reflexivity.
  - cbn. rewrite Z2N.id by assumption. reflexivity.
Qed.
