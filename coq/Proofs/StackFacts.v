From Coq Require Import Lia List Bool.
From Errv Require Import Base.Str Redact.Markers Redact.Buffer Model.Err Model.Sem Model.Details Model.Marks
     Model.Codec Model.Access Model.Report Proofs.StrFacts Proofs.FastIs Proofs.CodecFacts.

Lemma decode_wrap_nokey p c msg o fam x rep pl mt n :
  mem_str fam wrap_decoder_keys = false ->
  fst (decode p (EWrap c msg (mkdet o fam x rep pl) mt) n) =
  OWrap (snd (decode p c n)) msg (mkdet o fam x rep pl) mt (fst (decode p c n)).
Proof.
  intros H. cbn [decode]. destruct (decode p c n) as [ec n0].
  unfold fresh. cbv iota beta. rewrite H. reflexivity.
Qed.

Lemma decode_leaf_nokey p msg o fam x rep n :
  mem_str fam leaf_decoder_keys = false ->
  mem_str fam multi_decoder_keys = false ->
  fst (decode p (ELeaf msg (mkdet o fam x rep None) []) n) =
  OLeaf n msg (mkdet o fam x rep None) [].
Proof.
  intros H1 H2. cbn [decode]. rewrite H1, H2. reflexivity.
Qed.

Theorem stack_opaque i pfx d mt c :
  get_reportable_stack (OWrap i pfx d mt c) =
  match dt_rep d with d0 :: _ => if is_stack_key (dt_fam d) then Some (parse_printed_stack d0) else None | [] => None end.
Proof. reflexivity. Qed.

Theorem stack_opaque_leaf i msg d cs :
  get_reportable_stack (OLeaf i msg d cs) =
  match dt_rep d with d0 :: _ => if is_stack_key (dt_fam d) then Some (parse_printed_stack d0) else None | [] => None end.
Proof. reflexivity. Qed.

(* the three stack-bearing types have no decoder: whatever the receiving process
   knows, they come back as the opaque stand-in carrying the printed stack *)
Lemma hop_withstack p i st c n :
  exists pfx mt o x,
    fst (hop p (Wrap i (WStack st) c) n) =
    OWrap (snd (hop p c n)) pfx (mkdet o k_our_withstack x [print_stack st] None) mt (fst (hop p c n)).
Proof.
  unfold hop. cbn [encode].
  destruct (extract_prefix _ _) as [pfx mt].
  unfold mk_details.
  set (td := type_details (Wrap i (WStack st) c)).
  vm_compute in td. subst td. cbv iota beta.
  rewrite decode_wrap_nokey by (vm_compute; reflexivity).
  do 4 eexists. reflexivity.
Qed.

Lemma hop_pkgstack p i st c n :
  exists o x,
    fst (hop p (Wrap i (WPkgStack st) c) n) =
    OWrap (snd (hop p c n)) [] (mkdet o k_pkg_withstack x [print_stack st] None) 0 (fst (hop p c n)).
Proof.
  unfold hop. cbn [encode].
  unfold mk_details.
  set (td := type_details (Wrap i (WPkgStack st) c)).
  vm_compute in td. subst td. cbv iota beta.
  rewrite decode_wrap_nokey by (vm_compute; reflexivity).
  do 2 eexists. reflexivity.
Qed.

Lemma hop_pkgfund p i m st n :
  exists o x,
    fst (hop p (Leaf i (LPkgFund m st)) n) =
    OLeaf n m (mkdet o k_pkg_fundamental x [print_stack st] None) [].
Proof.
  unfold hop. cbn [encode].
  unfold mk_details.
  set (td := type_details (Leaf i (LPkgFund m st))).
  vm_compute in td. subst td. cbv iota beta.
  rewrite decode_leaf_nokey by (vm_compute; reflexivity).
  do 2 eexists. reflexivity.
Qed.

(* any receiving process *)
Theorem stack_hop_withstack_any p i st c n :
  st <> [] ->
  get_reportable_stack (fst (hop p (Wrap i (WStack st) c) n)) = get_reportable_stack (Wrap i (WStack st) c).
Proof.
  intros Hst. destruct (hop_withstack p i st c n) as (pfx & mt & o & x & ->).
  destruct st as [|f st]; [congruence|]. reflexivity.
Qed.

Theorem stack_hop_pkgfund_any p i m st n :
  st <> [] ->
  get_reportable_stack (fst (hop p (Leaf i (LPkgFund m st)) n)) = get_reportable_stack (Leaf i (LPkgFund m st)).
Proof.
  intros Hst. destruct (hop_pkgfund p i m st n) as (o & x & ->).
  destruct st as [|f st]; [congruence|]. reflexivity.
Qed.

Theorem stack_hop_pkgstack_any p i st c n :
  st <> [] ->
  get_reportable_stack (fst (hop p (Wrap i (WPkgStack st) c) n)) = get_reportable_stack (Wrap i (WPkgStack st) c).
Proof.
  intros Hst. destruct (hop_pkgstack p i st c n) as (o & x & ->).
  destruct st as [|f st]; [congruence|]. reflexivity.
Qed.

Theorem stack_hop_withstack i st c n :
  st <> [] ->
  get_reportable_stack (fst (hop all_knowing (Wrap i (WStack st) c) n)) = get_reportable_stack (Wrap i (WStack st) c).
Proof. apply stack_hop_withstack_any. Qed.

Theorem stack_hop_pkgfund i m st n :
  st <> [] ->
  get_reportable_stack (fst (hop all_knowing (Leaf i (LPkgFund m st)) n)) = get_reportable_stack (Leaf i (LPkgFund m st)).
Proof. apply stack_hop_pkgfund_any. Qed.

Theorem stack_hop_pkgstack i st c n :
  st <> [] ->
  get_reportable_stack (fst (hop all_knowing (Wrap i (WPkgStack st) c) n)) = get_reportable_stack (Wrap i (WPkgStack st) c).
Proof. apply stack_hop_pkgstack_any. Qed.

(* an empty stack is not reportable, before and after (the printed form is empty) *)
Example stack_hop_empty :
  get_reportable_stack (Wrap 1%positive (WStack []) (Leaf 2%positive (LErrString [120]))) = None /\
  get_reportable_stack (fst (hop all_knowing (Wrap 1%positive (WStack []) (Leaf 2%positive (LErrString [120]))) 5%positive))
    = Some [mkrf [] [] [] 0%Z].
Proof. split; vm_compute; reflexivity. Qed.

(* ------------------------------------------------------------------ *)
(* 2. decimal printing / parsing round trip *)

Definition is_digit (c : N) : bool := (48 <=? c) && (c <=? 57).

Lemma is_digit_cases c : is_digit c = true ->
  c = 48 \/ c = 49 \/ c = 50 \/ c = 51 \/ c = 52 \/ c = 53 \/ c = 54 \/ c = 55 \/ c = 56 \/ c = 57.
Proof.
  unfold is_digit. rewrite andb_true_iff, !N.leb_le. lia.
Qed.

Lemma is_digit_not_space c : is_digit c = true -> is_space c = false.
Proof.
  intros H. apply is_digit_cases in H.
  repeat (destruct H as [H|H]; [subst c; reflexivity|]). subst c; reflexivity.
Qed.

Lemma dec_digits_acc f : forall n acc, dec_digits f n acc = dec_digits f n [] ++ acc.
Proof.
  induction f as [|f IH]; intros n acc; [reflexivity|].
  cbn [dec_digits]. destruct (N.eqb (n / 10) 0); [reflexivity|].
  rewrite (IH _ (_ :: acc)), (IH _ [_]). now rewrite <- app_assoc.
Qed.

Lemma dec_digits_S f n :
  dec_digits (S f) n [] = (if N.eqb (n / 10) 0 then [] else dec_digits f (n / 10) []) ++ [48 + n mod 10].
Proof.
  cbn [dec_digits]. destruct (N.eqb (n / 10) 0); [reflexivity|]. apply dec_digits_acc.
Qed.

Lemma dec_of_N_last n : exists pre, dec_of_N n = pre ++ [48 + n mod 10].
Proof. unfold dec_of_N. rewrite dec_digits_S. eexists; reflexivity. Qed.

Lemma mod10_digit n : is_digit (48 + n mod 10) = true.
Proof.
  unfold is_digit. assert (n mod 10 < 10) by (apply N.mod_lt; discriminate).
  rewrite andb_true_iff, !N.leb_le. remember (n mod 10) as r. clear Heqr. lia.
Qed.

Lemma dec_digits_all_digits f : forall n, forallb is_digit (dec_digits f n []) = true.
Proof.
  induction f as [|f IH]; intros n; [reflexivity|].
  rewrite dec_digits_S, forallb_app. cbn [forallb]. rewrite mod10_digit.
  destruct (N.eqb (n / 10) 0); [reflexivity|]. now rewrite IH.
Qed.

Lemma dec_of_N_digits n : forallb is_digit (dec_of_N n) = true.
Proof. apply dec_digits_all_digits. Qed.

Lemma parse_dec_aux_app s : forall t acc,
  parse_dec_aux (s ++ t) acc =
  match parse_dec_aux s acc with Some a => parse_dec_aux t a | None => None end.
Proof.
  induction s as [|c s IH]; intros t acc; [reflexivity|].
  cbn [app parse_dec_aux]. destruct ((48 <=? c) && (c <=? 57)); [apply IH|reflexivity].
Qed.

Lemma parse_dec_digits f : forall n, n < 2 ^ N.of_nat f ->
  parse_dec_aux (dec_digits f n []) 0 = Some n.
Proof.
  induction f as [|f IH]; intros n Hn.
  - cbn in Hn. assert (n = 0) by lia. subst n. reflexivity.
  - rewrite dec_digits_S, parse_dec_aux_app.
    assert (Hd := mod10_digit n). unfold is_digit in Hd.
    assert (Hdiv : n = 10 * (n / 10) + n mod 10) by (apply N.div_mod; discriminate).
    assert (Hlt : n / 10 < 2 ^ N.of_nat f \/ n / 10 = 0).
    { rewrite Nat2N.inj_succ, N.pow_succ_r' in Hn.
      assert (Hm : n mod 10 < 10) by (apply N.mod_lt; discriminate).
      remember (n / 10) as q. remember (n mod 10) as r. remember (2 ^ N.of_nat f) as k.
      clear - Hn Hdiv Hm. lia. }
    remember (n / 10) as q. remember (n mod 10) as r. clear Heqq Heqr.
    destruct (N.eqb_spec q 0) as [Hq|Hq].
    + cbn [parse_dec_aux]. rewrite Hd. f_equal. lia.
    + rewrite IH by (destruct Hlt; [assumption|contradiction]).
      cbn [parse_dec_aux]. rewrite Hd. f_equal. lia.
Qed.

Lemma dec_of_N_nonempty n : dec_of_N n <> [].
Proof. destruct (dec_of_N_last n) as [pre ->]. now destruct pre. Qed.

Theorem parse_N_dec_of_N n : parse_N (dec_of_N n) = Some n.
Proof.
  assert (H : parse_dec_aux (dec_of_N n) 0 = Some n).
  { apply parse_dec_digits. rewrite Nat2N.inj_succ, N2Nat.id.
    destruct n as [|p]; [reflexivity|]. apply N.log2_spec. reflexivity. }
  unfold parse_N. destruct (dec_of_N n) eqn:E; [|exact H].
  now apply dec_of_N_nonempty in E.
Qed.

Lemma atoi_digit c r : is_digit c = true ->
  atoi (c :: r) = match parse_N (c :: r) with Some n => Z.of_N n | None => 0%Z end.
Proof.
  intros H. apply is_digit_cases in H.
  assert (G : forall d, d <> 43 -> d <> 45 -> d = c ->
              atoi (d :: r) = match parse_N (d :: r) with Some n => Z.of_N n | None => 0%Z end).
  { intros d H1 H2 _. unfold atoi, parse_Z.
    destruct d as [|p]; [destruct (parse_N _); reflexivity|].
    do 6 (try destruct p as [p|p|]); try (destruct (parse_N _); reflexivity); congruence. }
  apply G; [| |reflexivity]; intros ->;
    repeat (destruct H as [H|H]; [discriminate H|]); discriminate H.
Qed.

Theorem atoi_dec_of_N n : atoi (dec_of_N n) = Z.of_N n.
Proof.
  assert (Hp := parse_N_dec_of_N n). assert (Hd := dec_of_N_digits n).
  destruct (dec_of_N n) as [|c r] eqn:E; [now apply dec_of_N_nonempty in E|].
  cbn [forallb] in Hd. apply andb_true_iff in Hd as [Hc _].
  rewrite atoi_digit by exact Hc. now rewrite Hp.
Qed.

(* ------------------------------------------------------------------ *)
(* 2b. string helpers: trimming, splitting *)

Definition starts_nonspace (s : str) : bool :=
  match s with c :: _ => negb (is_space c) | [] => false end.

Lemma trim_left_nonspace s : starts_nonspace s = true -> trim_left s = s.
Proof.
  destruct s as [|c s]; [discriminate|]. cbn [starts_nonspace trim_left].
  now destruct (is_space c).
Qed.

Lemma starts_nonspace_app s t : starts_nonspace s = true -> starts_nonspace (s ++ t) = true.
Proof. destruct s; [discriminate|]. exact (fun H => H). Qed.

(* a text whose first and last byte are not white space is not trimmed *)
Lemma trim_space_id s d :
  starts_nonspace (s ++ [d]) = true -> is_space d = false -> trim_space (s ++ [d]) = s ++ [d].
Proof.
  intros H1 H2. unfold trim_space. rewrite (trim_left_nonspace _ H1).
  rewrite rev_app_distr. cbn [rev app trim_left]. rewrite H2.
  change (d :: rev s) with ([d] ++ rev s). now rewrite rev_app_distr, rev_involutive.
Qed.

Lemma trim_space_skip c s : is_space c = true -> trim_space (c :: s) = trim_space s.
Proof. intros H. unfold trim_space. cbn [trim_left]. now rewrite H. Qed.

Lemma split_on_no c s : contains_byte c s = false -> split_on c s = [s].
Proof.
  induction s as [|x s IH]; [reflexivity|]. cbn [contains_byte split_on].
  intros H. apply orb_false_iff in H as [Hx Hs]. rewrite Hx, (IH Hs). reflexivity.
Qed.

Lemma split_on_app c a b :
  contains_byte c a = false -> split_on c (a ++ c :: b) = a :: split_on c b.
Proof.
  induction a as [|x a IH]; intros H.
  - cbn [app split_on]. now rewrite N.eqb_refl.
  - cbn [contains_byte] in H. apply orb_false_iff in H as [Hx Ha].
    cbn [app split_on]. rewrite Hx, (IH Ha). reflexivity.
Qed.

Lemma contains_byte_app c a b : contains_byte c (a ++ b) = contains_byte c a || contains_byte c b.
Proof.
  induction a as [|x a IH]; [reflexivity|]. cbn [app contains_byte]. now rewrite IH, orb_assoc.
Qed.

Lemma digits_no_byte c s : is_digit c = false -> forallb is_digit s = true -> contains_byte c s = false.
Proof.
  intros Hc. induction s as [|x s IH]; [reflexivity|]. cbn [forallb contains_byte].
  intros H. apply andb_true_iff in H as [Hx Hs]. rewrite (IH Hs), orb_false_r.
  destruct (N.eqb_spec x c) as [->|]; [congruence|reflexivity].
Qed.

Lemma split_last_aux_no c s : forall cur best,
  contains_byte c s = false -> split_last_aux c s cur best = best.
Proof.
  induction s as [|x s IH]; intros cur best H; [reflexivity|].
  cbn [contains_byte] in H. apply orb_false_iff in H as [Hx Hs].
  cbn [split_last_aux]. rewrite Hx. now apply IH.
Qed.

Lemma split_last_aux_app c b (Hb : contains_byte c b = false) a : forall cur best,
  split_last_aux c (a ++ c :: b) cur best = Some (cur ++ a, b).
Proof.
  induction a as [|x a IH]; intros cur best.
  - cbn [app split_last_aux]. rewrite N.eqb_refl, app_nil_r. now apply split_last_aux_no.
  - cbn [app split_last_aux]. destruct (x =? c); rewrite IH, <- app_assoc; reflexivity.
Qed.

(* the last occurrence: everything after it is free of the byte *)
Lemma split_last_app c a b : contains_byte c b = false -> split_last c (a ++ c :: b) = Some (a, b).
Proof. intros Hb. unfold split_last. now rewrite split_last_aux_app. Qed.

(* ------------------------------------------------------------------ *)
(* 2c. the printed-stack codec *)

Definition frame_of (f : frame) : rframe := mk_rframe (fr_fn f) (fr_file f) (Z.of_N (fr_line f)).

(* conditions every frame needs: no newline in the function and file names, and
   the file name does not start with white space (it may be empty) *)
Definition frame_ok_tail (f : frame) : bool :=
  negb (contains_byte nl (fr_fn f)) && negb (contains_byte nl (fr_file f)) &&
  match fr_file f with c :: _ => negb (is_space c) | [] => true end.

(* and the function name is non-empty and does not start with white space
   (needed for the first frame only: the whole text is trimmed) *)
Definition frame_ok (f : frame) : bool :=
  frame_ok_tail f && starts_nonspace (fr_fn f).

(* the second line of a frame, without the tab *)
Definition loc_line (f : frame) : str := fr_file f ++ [colon] ++ dec_of_N (fr_line f).

Definition lines_of (st : stack) : list str :=
  flat_map (fun f => [fr_fn f; 9 :: loc_line f]) st.

Lemma print_frame_eq f : print_frame f = fr_fn f ++ nl :: 9 :: loc_line f.
Proof. reflexivity. Qed.

Lemma loc_line_last f : exists pre d, loc_line f = pre ++ [d] /\ is_space d = false.
Proof.
  unfold loc_line. destruct (dec_of_N_last (fr_line f)) as [pre ->].
  exists (fr_file f ++ [colon] ++ pre), (48 + fr_line f mod 10). split.
  - now rewrite <- !app_assoc.
  - apply is_digit_not_space, mod10_digit.
Qed.

Lemma loc_line_no_nl f : frame_ok_tail f = true -> contains_byte nl (loc_line f) = false.
Proof.
  unfold frame_ok_tail. rewrite !andb_true_iff, !negb_true_iff. intros [[_ Hf] _].
  unfold loc_line. rewrite !contains_byte_app, Hf.
  rewrite (digits_no_byte nl _ eq_refl (dec_of_N_digits _)). reflexivity.
Qed.

Lemma loc_line_starts f : frame_ok_tail f = true -> starts_nonspace (loc_line f) = true.
Proof.
  unfold frame_ok_tail. rewrite !andb_true_iff. intros [_ Hf].
  unfold loc_line. destruct (fr_file f) as [|c r]; [reflexivity|exact Hf].
Qed.

Lemma print_stack_cons f r : print_stack (f :: r) = nl :: print_frame f ++ print_stack r.
Proof. reflexivity. Qed.

(* the printed form ends with a digit *)
Lemma body_last r : forall f, exists pre d,
  print_frame f ++ print_stack r = pre ++ [d] /\ is_space d = false.
Proof.
  induction r as [|g r IH]; intros f.
  - destruct (loc_line_last f) as (pre & d & E & Hd).
    exists (fr_fn f ++ nl :: 9 :: pre), d. split; [|exact Hd].
    rewrite print_frame_eq, E. cbn [print_stack flat_map]. rewrite app_nil_r, <- app_assoc. reflexivity.
  - destruct (IH g) as (pre & d & E & Hd).
    exists (print_frame f ++ nl :: pre), d. split; [|exact Hd].
    rewrite print_stack_cons, E, <- app_assoc. reflexivity.
Qed.

Lemma split_body r : forall f,
  forallb frame_ok_tail (f :: r) = true ->
  split_on nl (print_frame f ++ print_stack r) = lines_of (f :: r).
Proof.
  induction r as [|g r IH]; intros f H; cbn [forallb] in H; apply andb_true_iff in H as [Hf Hr].
  - cbn [print_stack flat_map lines_of]. rewrite !app_nil_r, print_frame_eq.
    assert (Hfn : contains_byte nl (fr_fn f) = false).
    { unfold frame_ok_tail in Hf. rewrite !andb_true_iff, !negb_true_iff in Hf. tauto. }
    rewrite split_on_app by exact Hfn.
    rewrite split_on_no; [reflexivity|].
    cbn [contains_byte]. now rewrite loc_line_no_nl.
  - rewrite print_stack_cons, print_frame_eq.
    assert (Hfn : contains_byte nl (fr_fn f) = false).
    { unfold frame_ok_tail in Hf. rewrite !andb_true_iff, !negb_true_iff in Hf. tauto. }
    rewrite <- app_assoc. cbn [app]. rewrite split_on_app by exact Hfn.
    change (9 :: loc_line f ++ nl :: print_frame g ++ print_stack r)
      with ((9 :: loc_line f) ++ nl :: print_frame g ++ print_stack r).
    rewrite split_on_app by (cbn [contains_byte]; now rewrite loc_line_no_nl).
    rewrite (IH g Hr). reflexivity.
Qed.

Lemma parse_entry_loc l0 f :
  frame_ok_tail f = true ->
  parse_entry l0 (Some (9 :: loc_line f)) = (true, fr_file f, Z.of_N (fr_line f)).
Proof.
  intros Hf. unfold parse_entry.
  assert (Ht : trim_space (9 :: loc_line f) = loc_line f).
  { destruct (loc_line_last f) as (pre & d & E & Hd).
    rewrite trim_space_skip by reflexivity. rewrite E. apply trim_space_id; [|exact Hd].
    rewrite <- E. now apply loc_line_starts. }
  rewrite Ht. unfold loc_line. cbn [app].
  rewrite split_last_app by (apply (digits_no_byte colon _ eq_refl (dec_of_N_digits _))).
  now rewrite atoi_dec_of_N.
Qed.

Lemma parse_lines_step f l0 l1 rest :
  parse_lines (S f) (l0 :: l1 :: rest) =
  let '(two, file, line) := parse_entry l0 (Some l1) in
  mk_rframe l0 file line :: parse_lines f (if two then rest else l1 :: rest).
Proof. reflexivity. Qed.

Lemma parse_lines_of st : forall fuel,
  forallb frame_ok_tail st = true -> (List.length st <= fuel)%nat ->
  parse_lines fuel (lines_of st) = List.map frame_of st.
Proof.
  induction st as [|f st IH]; intros fuel H Hl.
  - destruct fuel; reflexivity.
  - cbn [forallb] in H. apply andb_true_iff in H as [Hf Hr].
    destruct fuel as [|fuel]; [cbn in Hl; lia|].
    change (lines_of (f :: st)) with (fr_fn f :: (9 :: loc_line f) :: lines_of st).
    rewrite parse_lines_step, (parse_entry_loc _ _ Hf).
    cbn [List.map]. rewrite IH by (assumption || (cbn in Hl; lia)). reflexivity.
Qed.

Lemma lines_of_length st : List.length (lines_of st) = (2 * List.length st)%nat.
Proof.
  induction st as [|f st IH]; [reflexivity|].
  change (lines_of (f :: st)) with (fr_fn f :: (9 :: loc_line f) :: lines_of st).
  cbn [List.length]. rewrite IH. lia.
Qed.

Lemma frame_ok_tail_of st : forallb frame_ok st = true -> forallb frame_ok_tail st = true.
Proof.
  induction st as [|f st IH]; [reflexivity|]. cbn [forallb]. rewrite !andb_true_iff.
  unfold frame_ok at 1. rewrite andb_true_iff. intros [[H _] Hr]. auto.
Qed.

(* sharp form: only the first frame needs a function name that survives trimming *)
Theorem parse_print_stack_cons f r :
  frame_ok f = true -> forallb frame_ok_tail r = true ->
  parse_printed_stack (print_stack (f :: r)) = List.map frame_of (rev (f :: r)).
Proof.
  intros Hf Hr. unfold frame_ok in Hf. apply andb_true_iff in Hf as [Hf Hs].
  unfold parse_printed_stack.
  assert (Ht : trim_space (print_stack (f :: r)) = print_frame f ++ print_stack r).
  { rewrite print_stack_cons, trim_space_skip by reflexivity.
    assert (Hst : starts_nonspace (print_frame f ++ print_stack r) = true).
    { rewrite print_frame_eq, <- app_assoc. now apply starts_nonspace_app. }
    destruct (body_last r f) as (pre & d & E & Hd). rewrite E.
    apply trim_space_id; [|exact Hd]. now rewrite <- E. }
  rewrite Ht, split_body by (cbn [forallb]; now rewrite Hf, Hr).
  rewrite parse_lines_of.
  - now rewrite map_rev.
  - cbn [forallb]; now rewrite Hf, Hr.
  - rewrite lines_of_length. lia.
Qed.

Theorem parse_print_stack st :
  forallb frame_ok st = true -> st <> [] ->
  parse_printed_stack (print_stack st) = List.map frame_of (rev st).
Proof.
  intros H Hne. destruct st as [|f r]; [congruence|].
  cbn [forallb] in H. apply andb_true_iff in H as [Hf Hr].
  apply parse_print_stack_cons; [exact Hf|now apply frame_ok_tail_of].
Qed.

(* frames in Sentry order after one hop, at any process, for well-formed frames *)
Corollary stack_hop_frames p i st c n :
  forallb frame_ok st = true -> st <> [] ->
  get_reportable_stack (fst (hop p (Wrap i (WStack st) c) n)) = Some (List.map frame_of (rev st)).
Proof.
  intros H Hne. rewrite stack_hop_withstack_any by exact Hne.
  destruct st as [|f r]; [congruence|].
  change (get_reportable_stack (Wrap i (WStack (f :: r)) c))
    with (Some (parse_printed_stack (print_stack (f :: r)))).
  now rewrite parse_print_stack.
Qed.

(* ------------------------------------------------------------------ *)
(* the side conditions of [frame_ok] are all needed (and nothing else is: the
   function name may be "unknown", the file name may be empty) *)

Definition fr (fn file : str) (line : N) : frame := mkframe 0 fn file line.
Definition codec_ok (st : stack) : Prop :=
  parse_printed_stack (print_stack st) = List.map frame_of (rev st).

(* newline in a function name *)
Example cex_fn_newline : ~ codec_ok [fr [97; 10; 98] [102] 1].
Proof. unfold codec_ok. vm_compute. intros H; discriminate H. Qed.
(* newline in a file name *)
Example cex_file_newline : ~ codec_ok [fr [97] [102; 10; 103] 1].
Proof. unfold codec_ok. vm_compute. intros H; discriminate H. Qed.
(* file name starting with white space: trimmed together with the tab *)
Example cex_file_space : ~ codec_ok [fr [97] [32; 102] 1].
Proof. unfold codec_ok. vm_compute. intros H; discriminate H. Qed.
(* first function name empty: the location line becomes the first line *)
Example cex_first_fn_empty : ~ codec_ok [fr [] [102] 1].
Proof. unfold codec_ok. vm_compute. intros H; discriminate H. Qed.
(* first function name starting with white space: eaten by TrimSpace *)
Example cex_first_fn_space : ~ codec_ok [fr [32; 97] [102] 1].
Proof. unfold codec_ok. vm_compute. intros H; discriminate H. Qed.
(* not needed: "unknown", empty file name, colons in the file name, empty /
   indented function names after the first frame *)
Example ok_unknown_emptyfile :
  codec_ok [fr unknown_s [] 0; fr [] [99; 58; 92; 120] 12; fr [9; 97] [102] 3].
Proof. unfold codec_ok. vm_compute. reflexivity. Qed.

(* ------------------------------------------------------------------ *)
(* 3. the one-line source (C15) *)

Lemma trim_print_stack f r :
  starts_nonspace (fr_fn f) = true ->
  trim_space (print_stack (f :: r)) = print_frame f ++ print_stack r.
Proof.
  intros Hs. rewrite print_stack_cons, trim_space_skip by reflexivity.
  assert (Hst : starts_nonspace (print_frame f ++ print_stack r) = true).
  { rewrite print_frame_eq, <- app_assoc. now apply starts_nonspace_app. }
  destruct (body_last r f) as (pre & d & E & Hd). rewrite E.
  apply trim_space_id; [|exact Hd]. now rewrite <- E.
Qed.

(* the first two lines only depend on the first frame, whatever follows *)
Lemma split_head f r :
  frame_ok_tail f = true ->
  exists rest, split_on nl (print_frame f ++ print_stack r) = fr_fn f :: (9 :: loc_line f) :: rest.
Proof.
  intros Hf.
  assert (Hfn : contains_byte nl (fr_fn f) = false).
  { unfold frame_ok_tail in Hf. rewrite !andb_true_iff, !negb_true_iff in Hf. tauto. }
  assert (Hl : contains_byte nl (9 :: loc_line f) = false)
    by (cbn [contains_byte]; now rewrite loc_line_no_nl).
  rewrite print_frame_eq, <- app_assoc. cbn [app]. rewrite split_on_app by exact Hfn.
  destruct r as [|g r].
  - cbn [print_stack flat_map]. rewrite app_nil_r.
    change (9 :: loc_line f) with ((9 :: loc_line f)). rewrite split_on_no by exact Hl.
    exists []. reflexivity.
  - rewrite print_stack_cons.
    change (9 :: loc_line f ++ nl :: print_frame g ++ print_stack r)
      with ((9 :: loc_line f) ++ nl :: print_frame g ++ print_stack r).
    rewrite split_on_app by exact Hl. eexists; reflexivity.
Qed.

Definition source_of_frame (f : frame) : str * Z * str :=
  (path_base (fr_file f), Z.of_N (fr_line f),
   if str_eqb (fr_fn f) unknown_s then [] else snd (function_name (fr_fn f))).

(* only the innermost (first) frame matters, and only it has to be well formed *)
Theorem source_of_printed_stack f r :
  frame_ok f = true -> source_of_printed (print_stack (f :: r)) = source_of_frame f.
Proof.
  intros Hf. unfold frame_ok in Hf. apply andb_true_iff in Hf as [Hf Hs].
  unfold source_of_printed. rewrite trim_print_stack by exact Hs.
  destruct (split_head f r Hf) as [rest ->].
  rewrite (parse_entry_loc _ _ Hf). reflexivity.
Qed.

Lemma source_opaque_wrap i pfx d mt c :
  get_one_line_source (OWrap i pfx d mt c) =
  match get_one_line_source c with
  | Some r => Some r
  | None => match dt_rep d with
            | d0 :: _ => if is_stack_key (dt_fam d) then Some (source_of_printed d0) else None
            | [] => None
            end
  end.
Proof. reflexivity. Qed.

Lemma source_opaque_leaf i msg d cs :
  get_one_line_source (OLeaf i msg d cs) =
  match dt_rep d with
  | d0 :: _ => if is_stack_key (dt_fam d) then Some (source_of_printed d0) else None
  | [] => None
  end.
Proof. reflexivity. Qed.

(* one hop, any process: the stack layer contributes the same source location
   before and after, provided the cause does *)
Theorem source_hop_withstack p i f r c n :
  frame_ok f = true ->
  get_one_line_source (fst (hop p c n)) = get_one_line_source c ->
  get_one_line_source (fst (hop p (Wrap i (WStack (f :: r)) c) n)) =
  get_one_line_source (Wrap i (WStack (f :: r)) c).
Proof.
  intros Hf Hc. destruct (hop_withstack p i (f :: r) c n) as (pfx & mt & o & x & ->).
  rewrite source_opaque_wrap, Hc. cbn [dt_rep dt_fam].
  change (get_one_line_source (Wrap i (WStack (f :: r)) c))
    with (match get_one_line_source c with
          | Some r0 => Some r0
          | None => Some (source_of_printed (print_stack [f]))
          end).
  destruct (get_one_line_source c); [reflexivity|].
  change (is_stack_key k_our_withstack) with true. cbv iota.
  now rewrite !source_of_printed_stack.
Qed.

Theorem source_hop_pkgstack p i f r c n :
  frame_ok f = true ->
  get_one_line_source (fst (hop p c n)) = get_one_line_source c ->
  get_one_line_source (fst (hop p (Wrap i (WPkgStack (f :: r)) c) n)) =
  get_one_line_source (Wrap i (WPkgStack (f :: r)) c).
Proof.
  intros Hf Hc. destruct (hop_pkgstack p i (f :: r) c n) as (o & x & ->).
  rewrite source_opaque_wrap, Hc. cbn [dt_rep dt_fam].
  change (get_one_line_source (Wrap i (WPkgStack (f :: r)) c))
    with (match get_one_line_source c with
          | Some r0 => Some r0
          | None => Some (source_of_printed (print_stack [f]))
          end).
  destruct (get_one_line_source c); [reflexivity|].
  change (is_stack_key k_pkg_withstack) with true. cbv iota.
  now rewrite !source_of_printed_stack.
Qed.

Theorem source_hop_pkgfund p i m f r n :
  frame_ok f = true ->
  get_one_line_source (fst (hop p (Leaf i (LPkgFund m (f :: r))) n)) =
  get_one_line_source (Leaf i (LPkgFund m (f :: r))).
Proof.
  intros Hf. destruct (hop_pkgfund p i m (f :: r) n) as (o & x & ->).
  rewrite source_opaque_leaf. cbn [dt_rep dt_fam].
  change (get_one_line_source (Leaf i (LPkgFund m (f :: r))))
    with (Some (source_of_printed (print_stack [f]))).
  change (is_stack_key k_pkg_fundamental) with true. cbv iota.
  now rewrite !source_of_printed_stack.
Qed.

(* without the condition on the first frame the two sides can differ: the
   sender looks at the first frame alone, the receiver at the whole printed
   stack *)
Example cex_source_first_frame :
  let st := [fr [] [] 5; fr [9; 120] [102] 7] in
  let e := Wrap 1%positive (WStack st) (Leaf 2%positive (LErrString [120])) in
  get_one_line_source (fst (hop all_knowing e 5%positive)) <> get_one_line_source e.
Proof. vm_compute. intros H; discriminate H. Qed.
