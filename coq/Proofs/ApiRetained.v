(* C12 on CONSTRUCTOR EXPRESSIONS: every string that enters an error through a SAFE
   channel of a public constructor is still there, verbatim, in the PII-free outputs
   (GetAllSafeDetails, or the message of the Sentry report).
   Built on Proofs/SafeRetained.v (per layer / whole tree) and on the induction over
   recipes of Proofs/SpecText.v / Proofs/ApiWf.v. *)
From Coq Require Import Lia List Bool.
From Errv Require Import Base.Str Redact.Markers Redact.Buffer Model.Err Model.Sem Model.Details Model.Marks
     Model.Codec Model.Access Model.Report Model.Build Proofs.StrFacts Proofs.FastIs Proofs.RedactFacts
     Proofs.RedactWf Proofs.HiddenVisible Proofs.SpecText Proofs.ApiWf Proofs.SafeRetained.
Import ListNotations.

(* ================================================================== *)
(* 1. the safe inputs of a constructor expression                      *)
(* ================================================================== *)
(* does the expression evaluate to a non-nil error?  (static: it depends neither on
   the environment nor on the state) *)
Fixpoint live (r : recipe) : bool :=
  match r with
  | RNil => false
  | RSentinel n => match sentinel n with Some _ => true | None => false end
  | RGrpcStatus c _ | RGogoStatus c _ => negb (c =? 0)
  | RStdNew _ | RNew _ | RNewf _ | RPkgNew _ | RErrno _ | RUnimpl _ _ _ | RAssertf _ | RTestError
  | RULeaf _ _ _ _ | RFmtErrorf _ | RForeignErrno _ => true
  | RWrap r _ | RWrapf r _ | RWithMessage r _ | RWithMessagef r _ | RWithStack r | RHint r _ | RHintf r _
  | RDetailf r _ | RDetail r _ | RIssueLink r _ _ | RTelemetry r _ | RDomain r _ | RTags r _ | RAssert r
  | RMark r _ | RSafeDetails r _ | RHTTP r _ | RGrpc r _ | RSecondary r _ | RHandled r | RHandledMsg r _
  | RHandledMsgf r _ | RHandledInDomain r _ | RHandledInDomainMsg r _ _ | RHandleAssert r
  | RNewAssertWrapped r _ | RPkgMsg r _ | RPkgStack r | RPathError r _ _ | RLinkError r _ _ _
  | RSyscallError r _ | ROpError r _ _ _ _ | RUWrap _ r _ _ | RTransfer r _ => live r
  | RCombine r x => live r || live x
  | RJoin rs | RStdJoin rs => existsb live rs
  end.

(* WithTags: every key, and the Safe() values of the EFFECTIVE tag list: logtags.Buffer.Add replaces
   the value of a key that is already there, so a Safe() value that a later pair of the same call
   overwrites is excluded (see [overwritten_tag_value_not_retained]) *)
Definition tag_safe_values (tgs : list (str * tagval)) : list str :=
  flat_map (fun kv => match snd kv with TVSafe s => [s] | _ => [] end) tgs.
Definition tag_inputs (tags : list (str * tagval)) : list str :=
  List.map fst tags ++ tag_safe_values (tags_of tags).

(* the run of arguments without a verb: the Safe() ones *)
Definition extras_inputs (l : list fpiece) : list str :=
  flat_map (fun q => match q with FXSafeStr x => [x] | _ => [] end) l.

(* the strings a format call passes through the safe channel itself: the constant text of
   the format, Safe(string) and Safe(int) arguments *)
Fixpoint fmt_own (f : list fpiece) : list str :=
  match f with
  | [] => []
  | p :: rest =>
    match p with
    | FLit l => l :: fmt_own rest
    | FSafeStr _ x => x :: fmt_own rest
    | FSafeInt _ z => dec_of_Z z :: fmt_own rest
    | FXStr _ | FXSafeStr _ | FXInt _ => extras_inputs (p :: rest)
    | _ => fmt_own rest
    end
  end.

(* the safe inputs of the (non-nil) error arguments of a format call *)
Definition fmt_args_with (si : recipe -> list str) : list fpiece -> list str :=
  fix go (f : list fpiece) : list str :=
    match f with
    | [] => []
    | p :: rest =>
      match p with
      | FErr _ x => (if live x then si x else []) ++ go rest
      | FXStr _ | FXSafeStr _ | FXInt _ => []
      | _ => go rest
      end
    end.

(* [si r]: the safe inputs of [r], ASSUMING [r] is not nil.  A sub-expression that may be nil
   while the whole is not (second argument of WithSecondaryError, both arguments of
   CombineErrors, error arguments of formats, elements of Join) is guarded by [live];
   the reference of Mark contributes nothing.
   Channels:  - message of New / Wrap / WithMessage (printed with redact.Safe: PSafe)
              - format calls of Newf, AssertionFailedf, Wrapf, WithMessagef, WithSafeDetails,
                NewAssertionErrorWithWrappedErrf: literal text, Safe() arguments
              - issue links (url, detail), also of UnimplementedError; telemetry keys; domains;
                tag keys and Safe() tag values
              - SafeDetails() of application types (ut.SafeDet / ut.WSafeDet)
   NOT safe channels (nothing listed): hints, details, WithHintf / WithDetailf formats, messages of
   stdlib / pkg errors, HandledWithMessage (message printed unsafe), codes.
   EXCLUDED, with a witness below:
     - the error ARGUMENTS of the formats of WithMessagef / WithSafeDetails / HandledWithMessagef /
       WithHintf / WithDetailf: these constructors do not attach their error arguments as secondary
       errors (Newf, Wrapf, AssertionFailedf, NewAssertionErrorWithWrappedErrf do)
       [withmessagef_arg_not_retained]
     - the literal text / Safe() arguments of HandledWithMessagef: absent from GetAllSafeDetails; they
       are in the report (rendering of the barrier message) [handledmsgf_literal_report_only],
       not covered by the theorem
     - fmt.Errorf is not a constructor of the library: no safe channel; an error argument that is
       not wrapped with %w is flattened to a string [fmt_errorf_arg_not_retained] *)
Fixpoint si (r : recipe) : list str :=
  match r with
  | RNil | RSentinel _ | RStdNew _ | RPkgNew _ | RErrno _ | RGrpcStatus _ _ | RGogoStatus _ _
  | RTestError | RForeignErrno _ | RFmtErrorf _ => []
  | RNew m => [m]
  | RNewf f | RAssertf f => fmt_own f ++ fmt_args_with si f
  | RUnimpl url det _ => [url; det]
  | RULeaf u _ _ xs => match u with ULSafeDet => xs | _ => [] end
  | RWrap r m | RWithMessage r m => si r ++ [m]
  | RWrapf r f | RNewAssertWrapped r f => si r ++ fmt_own f ++ fmt_args_with si f
  | RWithMessagef r f | RSafeDetails r f => si r ++ fmt_own f
  | RIssueLink r url det => si r ++ [url; det]
  | RTelemetry r keys => si r ++ keys
  | RDomain r d | RHandledInDomain r d | RHandledInDomainMsg r d _ => si r ++ [d]
  | RTags r tags => si r ++ tag_inputs tags
  | RUWrap u r _ xs => si r ++ match u with UWSafeDet => xs | _ => [] end
  | RSecondary r x => si r ++ (if live x then si x else [])
  | RCombine r x => (if live r then si r else []) ++ (if live x then si x else [])
  | RWithStack r | RHint r _ | RHintf r _ | RDetailf r _ | RDetail r _ | RAssert r | RMark r _
  | RHTTP r _ | RGrpc r _ | RHandled r | RHandledMsg r _ | RHandledMsgf r _ | RHandleAssert r
  | RPkgMsg r _ | RPkgStack r | RPathError r _ _ | RLinkError r _ _ _ | RSyscallError r _
  | ROpError r _ _ _ _ | RTransfer r _ => si r
  | RJoin rs | RStdJoin rs => flat_map (fun x => if live x then si x else []) rs
  end.

Definition fmt_args : list fpiece -> list str := fmt_args_with si.

Definition safe_inputs (r : recipe) : list str := if live r then si r else [].

(* the condition SafeRetained needs on a piece of a MESSAGE (markers are 3-byte non-ASCII runes) *)
Definition ok_piece (t : str) : bool := ascii t.

(* ================================================================== *)
(* 2. retained                                                          *)
(* ================================================================== *)
Definition retained (t : str) (e : err) : Prop :=
  (exists p d, In p (get_all_safe_details e) /\ In d (sd_details p) /\ infix_of t d) \/
  infix_of t (rp_message (build_report e)).

(* [t] is in a safe detail declared by a node that GetAllSafeDetails reaches *)
Definition held (t : str) (e : err) : Prop :=
  exists lv n d, In (lv, n) (deep_nodes e) /\ In d (own_details n) /\ infix_of t d.

Lemma infix_indent k t d : infix_of t d -> infix_of t (indent_k k d).
Proof. intro H. rewrite indent_k_app. now apply infix_app_l. Qed.

Theorem held_retained t e : held t e -> retained t e.
Proof.
  intros (lv & n & d & Hn & Hd & Hi). left.
  destruct (deep_details_retained' e lv n d Hn Hd) as (p & Hp & Hd').
  exists p, (indent_k lv d). split; [exact Hp|]. split; [exact Hd'|]. now apply infix_indent.
Qed.

Lemma deep_self e : In (0%nat, e) (deep_nodes e).
Proof. destruct e; cbn [deep_nodes]; now left. Qed.

Lemma held_here t e d : In d (own_details e) -> infix_of t d -> held t e.
Proof. intros Hd Hi. exists 0%nat, e, d. split; [apply deep_self|]. now split. Qed.

Lemma held_wrap t i w e : held t e -> held t (Wrap i w e).
Proof. intros (lv & n & d & Hn & H). exists lv, n, d. split; [|exact H]. cbn [deep_nodes]. now right. Qed.

Lemma held_second_l t i e x : held t e -> held t (Second i e x).
Proof.
  intros (lv & n & d & Hn & H). exists lv, n, d. split; [|exact H]. cbn [deep_nodes]. right.
  apply in_or_app. now right.
Qed.

Lemma held_second_r t i e x : held t x -> held t (Second i e x).
Proof.
  intros (lv & n & d & Hn & H). exists (S lv), n, d. split; [|exact H]. cbn [deep_nodes]. right.
  apply in_or_app. left. now apply bump_in.
Qed.

Lemma held_barrier t i m e : held t e -> held t (Barrier i m e).
Proof.
  intros (lv & n & d & Hn & H). exists (S lv), n, d. split; [|exact H]. cbn [deep_nodes]. right.
  now apply bump_in.
Qed.

(* ---- the hypothesis carried along the induction ---- *)
Definition Hyp (L : list str) (e : err) : Prop :=
  forall t, In t L -> t <> [] -> ascii t = true -> held t e.

Lemma Hyp_nil e : Hyp [] e.
Proof. intros t []. Qed.

Lemma Hyp_app L1 L2 e : Hyp L1 e -> Hyp L2 e -> Hyp (L1 ++ L2) e.
Proof. intros H1 H2 t Ht. apply in_app_or in Ht as [Ht | Ht]; [now apply H1|now apply H2]. Qed.

Lemma Hyp_mono L e e' : (forall t, held t e -> held t e') -> Hyp L e -> Hyp L e'.
Proof. intros M H t Ht Hne Ha. apply M. now apply H. Qed.

(* every string of [L] is one of the node's own safe details *)
Lemma Hyp_incl L e : incl L (own_details e) -> Hyp L e.
Proof. intros H t Ht _ _. apply (held_here t e t); [now apply H|apply infix_refl]. Qed.

Lemma Hyp_guard (b : bool) L e : (b = true -> Hyp L e) -> Hyp (if b then L else []) e.
Proof. destruct b; intro H; [now apply H|apply Hyp_nil]. Qed.

(* ================================================================== *)
(* 3. messages: a safe piece anywhere in a redact call                  *)
(* ================================================================== *)
Lemma pieces_ok_app a b : pieces_ok (a ++ b) -> pieces_ok a /\ pieces_ok b.
Proof. unfold pieces_ok. intro H. now apply Forall_app in H. Qed.

Lemma msg_piece_retained ps q t :
  pieces_ok ps -> In q ps -> is_safe_piece_of q t -> ascii t = true ->
  infix_of t (redact_strip (sprint_pieces ps)).
Proof.
  intros Hok Hin Hq Ha. apply in_split in Hin as (pre & post & ->).
  apply pieces_ok_app in Hok as [H1 H2].
  apply safe_piece_retained; try assumption. now inversion H2.
Qed.

Lemma single_safe_retained m : ascii m = true -> infix_of m (redact_strip (sprint_pieces [PSafe m])).
Proof.
  intro Ha. apply (msg_piece_retained [PSafe m] (PSafe m) m); [repeat constructor|now left|now left|exact Ha].
Qed.

(* formats without error arguments print no redactable string *)
Lemma bfmt_plain_pieces_ok env f : forallb plain_piece f = true -> forall acc s,
  pieces_ok (bf_pieces acc) -> pieces_ok (bf_pieces (fst (bfmt env f acc s))).
Proof.
  induction f as [|p f IH]; intros Hf acc s Hacc; [exact Hacc|].
  cbn [forallb] in Hf. apply andb_true_iff in Hf as [Hp Hf].
  assert (Add : forall q pl, match q with PRaw _ => False | _ => True end ->
                  pieces_ok (bf_pieces (bf_add acc q pl))).
  { intros q pl Hq. cbn [bf_add bf_pieces]. apply Forall_app. split; [exact Hacc|].
    constructor; [destruct q; try exact I; contradiction|constructor]. }
  destruct p as [l|v x|v x|v z|v z|v x|x|x|z]; try discriminate Hp; cbn [bfmt];
    try (apply IH; [exact Hf|apply Add; exact I]);
    cbv zeta; cbn [fst bf_pieces]; (apply Forall_app; split; [exact Hacc|]);
    (constructor; [exact I|apply extras_pieces]).
Qed.

Section Main.
Variable env : benv.

(* formats with error arguments, under the conditions of Proofs/ApiWf.v *)
Lemma bfmt_okr_pieces_ok f : Forall okr (fkids f) -> fmt_noplus f = true -> fmt_strs f = true ->
  forall s, pieces_ok (bf_pieces (fst (bfmt env f bf_empty s))).
Proof.
  intros Hk Hn Hs s.
  assert (HSP : forall n, (fun _ : stack => True) (nth n (be_stacks env) [])) by (intro; exact I).
  apply (bf_1 (fun _ => True)).
  apply (bfmt_BF env (fun _ => True)); try assumption; [|apply BF_empty].
  rewrite Forall_forall in *. intros x Hx s'. apply (build_gd_all env (fun _ => True) HSP x). now apply Hk.
Qed.

(* ---- what the built format contains ---- *)
Definition RES (o : option err) (L : list str) (lv : bool) : Prop :=
  match o with Some e => Hyp L e | None => lv = false end.

Definition Qr (r : recipe) : Prop := forall s, RES (fst (build env r s)) (si r) (live r).

Lemma extras_in l : forall first t, In t (extras_inputs l) -> In (PSafe t) (fst (extras_go l first)).
Proof.
  induction l as [|q l IH]; intros first t Ht; [destruct Ht|].
  unfold extras_inputs in Ht. cbn [flat_map] in Ht. fold (extras_inputs l) in Ht.
  cbn [extras_go]. pose proof (IH false t) as IH'.
  destruct (extras_go l false) as [rs rl]. cbn [fst] in IH'.
  apply in_app_or in Ht as [Ht | Ht].
  - destruct q; try (destruct Ht; fail). destruct Ht as [<- | []].
    cbn [extras_one fst]. apply in_or_app. right. apply in_or_app. left. right. now left.
  - destruct (extras_one q) as [ps pl]. cbn [fst]. apply in_or_app. right. apply in_or_app. right. now apply IH'.
Qed.

(* every string of [L] is held by one of the errors [es] *)
Definition Hyp_ex (L : list str) (es : list err) : Prop :=
  forall t, In t L -> t <> [] -> ascii t = true -> exists x, In x es /\ held t x.

Record BOK (f : list fpiece) (b : built_fmt) : Prop := mkBOK {
  bok_own : forall t, In t (fmt_own f) -> exists q, is_safe_piece_of q t /\ In q (bf_pieces b);
  bok_args : Hyp_ex (fmt_args f) (bf_errs b) }.

Lemma bfmt_BOK_gen f : Forall Qr (fkids f) -> forall acc s,
  let b := fst (bfmt env f acc s) in
  (forall q, In q (bf_pieces acc) -> In q (bf_pieces b)) /\
  (forall x, In x (bf_errs acc) -> In x (bf_errs b)) /\
  BOK f b.
Proof.
  induction f as [|p f IH]; intros Hk acc s; cbv zeta.
  - cbn [bfmt fst]. split; [auto|]. split; [auto|]. split; [intros t []|intros t []].
  - assert (Add : forall q pl,
               let b := fst (bfmt env f (bf_add acc q pl) s) in
               Forall Qr (fkids f) ->
               (forall q0, In q0 (bf_pieces acc) -> In q0 (bf_pieces b)) /\
               (forall x, In x (bf_errs acc) -> In x (bf_errs b)) /\
               In q (bf_pieces b) /\ BOK f b).
    { intros q pl b Hk'. destruct (IH Hk' (bf_add acc q pl) s) as (A & B & C). fold b in A, B, C.
      split; [|split; [|split]].
      - intros q0 H0. apply A. cbn [bf_add bf_pieces]. apply in_or_app. now left.
      - intros x Hx. apply B. exact Hx.
      - apply A. cbn [bf_add bf_pieces]. apply in_or_app. right. now left.
      - exact C. }
    destruct p as [l|v x|v x|v z|v z|v x|x|x|z]; cbn [fkids] in Hk.
    + cbn [bfmt]. destruct (Add (PLit l) l Hk) as (A & B & Hq & [C1 C2]).
      split; [exact A|]. split; [exact B|]. split.
      * cbn [fmt_own]. intros t [<- | Ht]; [exists (PLit l); split; [now right|exact Hq]|now apply C1].
      * exact C2.
    + cbn [bfmt]. destruct (Add (PUnsafe x) x Hk) as (A & B & Hq & [C1 C2]).
      split; [exact A|]. split; [exact B|]. split; [exact C1|exact C2].
    + cbn [bfmt]. destruct (Add (PSafe x) x Hk) as (A & B & Hq & [C1 C2]).
      split; [exact A|]. split; [exact B|]. split.
      * cbn [fmt_own]. intros t [<- | Ht]; [exists (PSafe x); split; [now left|exact Hq]|now apply C1].
      * exact C2.
    + cbn [bfmt]. destruct (Add (PUnsafe (dec_of_Z z)) (dec_of_Z z) Hk) as (A & B & Hq & [C1 C2]).
      split; [exact A|]. split; [exact B|]. split; [exact C1|exact C2].
    + cbn [bfmt]. destruct (Add (PSafe (dec_of_Z z)) (dec_of_Z z) Hk) as (A & B & Hq & [C1 C2]).
      split; [exact A|]. split; [exact B|]. split.
      * cbn [fmt_own]. intros t [<- | Ht]; [exists (PSafe (dec_of_Z z)); split; [now left|exact Hq]|now apply C1].
      * exact C2.
    + inversion Hk as [|? ? Qx Hk']; subst. specialize (Qx s). cbn [bfmt].
      destruct (build env x s) as [[e|] s1]; cbn [fst RES] in Qx.
      * match goal with |- context [bfmt env f ?a s1] => set (acc1 := a) end.
        destruct (IH Hk' acc1 s1) as (A & B & [C1 C2]).
        split; [|split; [|split]].
        -- intros q0 H0. apply A. unfold acc1. cbn [bf_pieces]. apply in_or_app. now left.
        -- intros y Hy. apply B. unfold acc1. cbn [bf_errs]. apply in_or_app. now left.
        -- exact C1.
        -- intros t Ht Hne Ha. unfold fmt_args in Ht. cbn [fmt_args_with] in Ht. fold (fmt_args f) in Ht.
           apply in_app_or in Ht as [Ht | Ht].
           ++ exists e. split; [apply B; unfold acc1; cbn [bf_errs]; apply in_or_app; right; now left|].
              destruct (live x); [now apply Qx|destruct Ht].
           ++ now apply C2.
      * match goal with |- context [bfmt env f ?a s1] => set (acc1 := a) end.
        destruct (IH Hk' acc1 s1) as (A & B & [C1 C2]).
        split; [|split; [|split]].
        -- intros q0 H0. apply A. unfold acc1. cbn [bf_pieces bf_add]. apply in_or_app. now left.
        -- intros y Hy. apply B. exact Hy.
        -- exact C1.
        -- intros t Ht Hne Ha. unfold fmt_args in Ht. cbn [fmt_args_with] in Ht. fold (fmt_args f) in Ht.
           rewrite Qx in Ht. now apply C2.
    + cbn [bfmt]. cbv zeta. cbn [fst bf_pieces bf_errs].
      split; [intros q0 H0; apply in_or_app; now left|]. split; [auto|]. split; [|intros t []].
      cbn [fmt_own]. intros t Ht. exists (PSafe t). split; [now left|].
      apply in_or_app. right. right. now apply extras_in.
    + cbn [bfmt]. cbv zeta. cbn [fst bf_pieces bf_errs].
      split; [intros q0 H0; apply in_or_app; now left|]. split; [auto|]. split; [|intros t []].
      cbn [fmt_own]. intros t Ht. exists (PSafe t). split; [now left|].
      apply in_or_app. right. right. now apply extras_in.
    + cbn [bfmt]. cbv zeta. cbn [fst bf_pieces bf_errs].
      split; [intros q0 H0; apply in_or_app; now left|]. split; [auto|]. split; [|intros t []].
      cbn [fmt_own]. intros t Ht. exists (PSafe t). split; [now left|].
      apply in_or_app. right. right. now apply extras_in.
Qed.

Lemma bfmt_BOK f s : Forall Qr (fkids f) -> BOK f (fst (bfmt env f bf_empty s)).
Proof. intro H. apply (bfmt_BOK_gen f H bf_empty s). Qed.

(* ---- construction steps ---- *)
Lemma held_add_sec t es : forall e s, held t e -> held t (fst (add_sec es e s)).
Proof.
  induction es as [|y es IH]; intros e s H; cbn [add_sec]; [exact H|].
  unfold fresh_oid. apply IH. now apply held_second_l.
Qed.

Lemma held_add_sec_in t es : forall e s x, In x es -> held t x -> held t (fst (add_sec es e s)).
Proof.
  induction es as [|y es IH]; intros e s x Hin Hx; [destruct Hin|]. cbn [add_sec]. unfold fresh_oid.
  destruct Hin as [-> | Hin].
  - apply held_add_sec. now apply held_second_r.
  - now apply (IH _ _ x).
Qed.

Lemma held_with_stack t e s : held t e -> held t (fst (with_stack env e s)).
Proof. intro H. unfold with_stack, fresh_stack, mk_wrap, fresh_oid. cbn [fst]. now apply held_wrap. Qed.

Ltac mono He :=
  eapply Hyp_mono; [|exact He];
  let t := fresh "t" in let H := fresh "H" in
  intros t H; repeat first [exact H | apply held_wrap | apply held_barrier | apply held_second_l | apply held_with_stack].

Lemma own_fmt_Hyp f b e :
  pieces_ok (bf_pieces b) -> BOK f b ->
  In (redact_strip (sprint_pieces (bf_pieces b))) (own_details e) -> Hyp (fmt_own f) e.
Proof.
  intros Hok [B1 _] Hin t Ht _ Ha. destruct (B1 t Ht) as (q & Hq & Hq').
  apply (held_here t e _ Hin). now apply (msg_piece_retained _ q).
Qed.

Lemma fmt_empty_own f t : is_fmt_empty f = true -> In t (fmt_own f) -> t = [].
Proof.
  induction f as [|p f IH]; intros He Ht; [destruct Ht|]. unfold is_fmt_empty in He. cbn [forallb] in He.
  apply andb_true_iff in He as [Hp Hf]. destruct p as [l|v x|v x|v z|v z|v x|x|x|z]; try discriminate Hp.
  destruct l; [|discriminate Hp]. cbn [fmt_own] in Ht. destruct Ht as [<- | Ht]; [reflexivity|now apply IH].
Qed.

Lemma sec_Hyp L X es e s :
  Hyp L e -> Hyp_ex X es -> Hyp (L ++ X) (fst (add_sec es e s)).
Proof.
  intros HL HX. apply Hyp_app.
  - eapply Hyp_mono; [|exact HL]. intros t. apply held_add_sec.
  - intros t Ht Hne Ha. destruct (HX t Ht Hne Ha) as (x & Hx & Hh). now apply (held_add_sec_in t _ _ _ x).
Qed.

Definition fmt_wf (f : list fpiece) : Prop := forall s, pieces_ok (bf_pieces (fst (bfmt env f bf_empty s))).

Lemma newf_Hyp f s : fmt_wf f -> Forall Qr (fkids f) ->
  Hyp (fmt_own f ++ fmt_args f) (fst (newf_ env f s)).
Proof.
  intros Hok Hk. unfold newf_. specialize (Hok s). pose proof (bfmt_BOK f s Hk) as HB.
  destruct (bfmt env f bf_empty s) as [b s1]. cbn [fst] in *.
  set (msg := sprint_pieces (bf_pieces b)).
  assert (H0 : exists e0 s2,
             (match bf_wrapped b with
              | w :: _ => mk_wrap (WNewMsg msg) w s1
              | [] => mk_leaf (LLeafError msg) s1
              end) = (e0, s2) /\ own_details e0 = [redact_strip msg]).
  { unfold mk_wrap, mk_leaf, fresh_oid. destruct (bf_wrapped b); eexists _, _; split; reflexivity. }
  destruct H0 as (e0 & s2 & -> & Hown).
  assert (H1 : Hyp (fmt_own f ++ fmt_args f) (fst (add_sec (bf_errs b) e0 s2))).
  { apply sec_Hyp; [|exact (bok_args _ _ HB)].
    apply (own_fmt_Hyp f b e0 Hok HB). rewrite Hown. now left. }
  destruct (add_sec (bf_errs b) e0 s2) as [e1 s3]. cbn [fst] in H1. mono H1.
Qed.

Lemma wrapf_Hyp L e f b s1 : pieces_ok (bf_pieces b) -> BOK f b -> Hyp L e ->
  Hyp (L ++ fmt_own f ++ fmt_args f) (fst (wrapf_ env e f b s1)).
Proof.
  intros Hok HB HL. unfold wrapf_.
  assert (H0 : exists e0 s2,
             (if is_fmt_empty f then (e, s1) else mk_wrap (WPrefix (sprint_pieces (bf_pieces b))) e s1) = (e0, s2) /\
             Hyp (L ++ fmt_own f) e0).
  { destruct (is_fmt_empty f) eqn:Ee.
    - eexists _, _. split; [reflexivity|]. apply Hyp_app; [exact HL|].
      intros t Ht Hne _. exfalso. apply Hne. now apply (fmt_empty_own f).
    - unfold mk_wrap, fresh_oid. eexists _, _. split; [reflexivity|]. apply Hyp_app; [mono HL|].
      apply (own_fmt_Hyp f b _ Hok HB). now left. }
  destruct H0 as (e0 & s2 & -> & H0).
  assert (H1 : Hyp ((L ++ fmt_own f) ++ fmt_args f) (fst (add_sec (bf_errs b) e0 s2))).
  { apply sec_Hyp; [exact H0|exact (bok_args _ _ HB)]. }
  rewrite <- app_assoc in H1.
  destruct (add_sec (bf_errs b) e0 s2) as [e1 s3]. cbn [fst] in H1. mono H1.
Qed.

Lemma on_RES r s k L L' lv : RES (fst (build env r s)) L lv ->
  (forall e s1, Hyp L e -> Hyp L' (fst (k e s1))) -> RES (fst (on_ env r s k)) L' lv.
Proof.
  intros H Hk. unfold on_. destruct (build env r s) as [[e|] s1]; cbn [fst RES some_] in *; [now apply Hk|exact H].
Qed.

Lemma on_f_RES r f s k L L' lv : RES (fst (build env r s)) L lv ->
  (forall e s1 s2, Hyp L e -> Hyp L' (fst (k e (fst (bfmt env f bf_empty s1)) s2))) ->
  RES (fst (on_f_ env r f s k)) L' lv.
Proof.
  intros H Hk. unfold on_f_. destruct (build env r s) as [o s1].
  destruct (bfmt env f bf_empty s1) as [b s2] eqn:Eb.
  destruct o as [e|]; cbn [fst RES some_] in *; [|exact H].
  specialize (Hk e s1 s2 H). rewrite Eb in Hk. exact Hk.
Qed.

Lemma tags_Hyp tgs i c :
  Hyp (flat_map (fun kv => fst kv :: match snd kv with TVSafe s => [s] | _ => [] end) tgs)
      (Wrap i (WContext tgs None) c).
Proof.
  intros t Ht Hne Ha. apply in_flat_map in Ht as ((k, v) & Hin & Ht). cbn [fst snd] in Ht.
  apply (held_here t _ (redact_strip (tag_redactable (k, v)))).
  - rewrite context_details_local. apply (in_map (fun kv => redact_strip (tag_redactable kv))). exact Hin.
  - destruct Ht as [<- | Ht]; [now apply tag_key_retained|].
    destruct v as [|x|z|x]; try (destruct Ht; fail). destruct Ht as [-> | []].
    unfold tag_redactable. apply (msg_piece_retained _ (PSafe t)); [repeat constructor| |now left|exact Ha].
    cbn [tag_piece_list]. right. right. now left.
Qed.

Lemma tag_add_old {V} k (v : V) l k' : In k' (List.map fst l) -> In k' (List.map fst (tag_add k v l)).
Proof.
  induction l as [|[k0 v0] l IH]; intro H; [destruct H|]. cbn [tag_add].
  destruct (str_eqb k k0) eqn:E.
  - apply str_eqb_eq in E. subst k0. exact H.
  - cbn [List.map fst In] in *. destruct H as [H | H]; [now left|right; now apply IH].
Qed.

Lemma tag_add_new {V} k (v : V) l : In k (List.map fst (tag_add k v l)).
Proof.
  induction l as [|[k0 v0] l IH]; [now left|]. cbn [tag_add].
  destruct (str_eqb k k0); [now left|right; exact IH].
Qed.

Lemma tags_of_keys {V} (l : list (str * V)) k : In k (List.map fst l) -> In k (List.map fst (tags_of l)).
Proof.
  unfold tags_of.
  assert (G : forall acc, In k (List.map fst acc) \/ In k (List.map fst l) ->
                In k (List.map fst (fold_left (fun acc kv => tag_add (fst kv) (snd kv) acc) l acc))).
  { induction l as [|[k0 v0] l IH]; intros acc H; cbn [fold_left].
    - destruct H as [H | []]. exact H.
    - apply IH. cbn [List.map fst snd In] in *. destruct H as [H | [H | H]].
      + left. now apply tag_add_old.
      + left. subst k0. apply tag_add_new.
      + now right. }
  intro H. apply G. now right.
Qed.

Lemma tags_Hyp2 tags i c : Hyp (tag_inputs tags) (Wrap i (WContext (tags_of tags) None) c).
Proof.
  unfold tag_inputs. apply Hyp_app.
  - intros t Ht _ Ha. apply tags_of_keys in Ht. apply in_map_iff in Ht as ([k v] & <- & Hin). cbn [fst].
    apply (held_here k _ (redact_strip (tag_redactable (k, v)))); [|now apply tag_key_retained].
    rewrite context_details_local. apply (in_map (fun kv => redact_strip (tag_redactable kv))). exact Hin.
  - intros t Ht. apply tags_Hyp. unfold tag_safe_values in Ht.
    apply in_flat_map in Ht as (kv & Hin & Ht). apply in_flat_map. exists kv. split; [exact Hin|now right].
Qed.

(* ================================================================== *)
(* 4. the fragment                                                      *)
(* ================================================================== *)
(* the format of the constructors that print a MESSAGE with error arguments allowed *)
Definition msgfmt (r : recipe) : list fpiece :=
  match r with
  | RNewf f | RAssertf f | RWrapf _ f | RWithMessagef _ f | RNewAssertWrapped _ f => f
  | _ => []
  end.
Definition chk_noerr (r : recipe) : bool := forallb plain_piece (msgfmt r).

(* outside: Join (GetAllSafeDetails does not descend into the causes of a multi-cause error:
   SafeRetained.multi_cause_children_not_in_details), RTransfer; WithSafeDetails with an error
   argument in its format *)
Definition chk_shape (r : recipe) : bool :=
  match r with
  | RJoin _ | RStdJoin _ | RTransfer _ _ => false
  | RSafeDetails _ f => forallb plain_piece f
  | _ => true
  end.

(* either no error argument in the message formats (then ARBITRARY strings everywhere), or the
   conditions of ApiWf (no %+v of an error in a message format, tidy message strings) *)
Definition frag (r : recipe) : bool :=
  all_nodes chk_shape r && (all_nodes chk_noerr r || (no_plusv r && strs_ok r)).

Definition fragP (r : recipe) : Prop :=
  all_nodes chk_shape r = true /\ (all_nodes chk_noerr r = true \/ okr r).

Lemma frag_fragP r : frag r = true -> fragP r.
Proof.
  unfold frag, fragP. intro H. apply andb_true_iff in H as [H1 H2]. split; [exact H1|].
  apply orb_true_iff in H2 as [H2 | H2]; [now left|right]. apply andb_true_iff in H2. exact H2.
Qed.

Definition wfc (r : recipe) : Prop :=
  chk_noerr r = true \/ (chk_np r = true /\ chk_str r = true /\ Forall okr (kids r)).

Lemma fragP_inv r : fragP r -> chk_shape r = true /\ wfc r /\ Forall fragP (kids r).
Proof.
  intros [H1 H2]. destruct (all_nodes_kids _ r H1) as [S1 S2]. split; [exact S1|].
  destruct H2 as [H2 | H2].
  - destruct (all_nodes_kids _ r H2) as [N1 N2]. split; [now left|].
    rewrite Forall_forall in *. intros x Hx. split; [now apply S2|left; now apply N2].
  - destruct (okr_inv r H2) as (C2 & C3 & HK). split; [right; auto|].
    rewrite Forall_forall in *. intros x Hx. split; [now apply S2|right; now apply HK].
Qed.

Lemma wf_fmt f :
  forallb plain_piece f = true \/ (fmt_noplus f = true /\ fmt_strs f = true /\ Forall okr (fkids f)) ->
  fmt_wf f.
Proof.
  intros [H | (A & B & C)] s.
  - apply bfmt_plain_pieces_ok; [exact H|constructor].
  - now apply bfmt_okr_pieces_ok.
Qed.

(* ================================================================== *)
(* 5. the induction                                                     *)
(* ================================================================== *)
Ltac onw Pr k :=
  match goal with
  | |- RES (fst (build env ?r0 ?s)) _ _ =>
    match r0 with context [?r] =>
      match type of r with recipe =>
        change (build env r0 s) with (on_ env r s k);
        apply (on_RES r s _ _ _ _ Pr);
        let e := fresh "e" in let s1 := fresh "s1" in let He := fresh "He" in
        intros e s1 He; unfold handled_, with_stack, fresh_stack, mk_wrap, fresh_oid; cbn [fst]
      end
    end
  end.

Ltac onf Pr f k :=
  match goal with
  | |- RES (fst (build env ?r0 ?s)) _ _ =>
    match r0 with context [?r] =>
      match type of r with recipe =>
        change (build env r0 s) with (on_f_ env r f s k);
        apply (on_f_RES r f s _ _ _ _ Pr);
        let e := fresh "e" in let s1 := fresh "s1" in let s2 := fresh "s2" in let He := fresh "He" in
        intros e s1 s2 He
      end
    end
  end.

Ltac leaf0 := unfold RES; cbn [build fst]; unfold mk_leaf, fresh_oid, fresh_stack; cbn [fst]; apply Hyp_nil.

Lemma build_Q : forall r, fragP r -> Qr r.
Proof.
  induction r as [r IH] using recipe_kids_ind. intros Hf.
  destruct (fragP_inv r Hf) as (Hshape & Hwf & Hkids).
  assert (IHk : Forall Qr (kids r)).
  { rewrite Forall_forall in *. intros x Hx. apply IH; auto. }
  clear IH Hkids Hf.
  destruct r; cbn [kids] in IHk; cbn [chk_shape] in Hshape; try discriminate Hshape; intro s;
    try pose proof (Forall_inv IHk s) as Pr; cbn [si live].
  - (* RNil *) reflexivity.
  - (* RSentinel *) cbn [build fst]. destruct (sentinel n); [apply Hyp_nil|reflexivity].
  - (* RStdNew *) leaf0.
  - (* RNew *)
    change (build env (RNew msg) s) with
      (let '(e, s1) := mk_leaf (LLeafError (sprint_pieces [PSafe msg])) s in some_ (with_stack env e s1)).
    unfold mk_leaf, fresh_oid. cbn [some_ fst RES].
    intros t [<- | []] _ Ha. apply held_with_stack. eapply held_here; [now left|].
    now apply single_safe_retained.
  - (* RNewf *)
    rewrite build_newf. cbn [some_ fst RES]. apply newf_Hyp; [|exact IHk].
    apply wf_fmt. exact Hwf.
  - (* RPkgNew *) leaf0.
  - (* RErrno *) leaf0.
  - (* RUnimpl *)
    unfold RES; cbn [build fst]; unfold mk_leaf, fresh_oid; cbn [fst]. apply Hyp_incl. apply incl_refl.
  - (* RAssertf *)
    rewrite build_assertf. pose proof (newf_Hyp f s (wf_fmt f Hwf) IHk) as H.
    destruct (newf_ env f s) as [e s1]. unfold mk_wrap, fresh_oid. cbn [some_ fst RES] in *. mono H.
  - (* RGrpcStatus *)
    cbn [build]. destruct (code =? 0); [reflexivity|leaf0].
  - (* RGogoStatus *)
    cbn [build]. destruct (code =? 0); [reflexivity|leaf0].
  - (* RTestError *) leaf0.
  - (* RULeaf *)
    unfold RES; cbn [build fst]; unfold mk_leaf, fresh_oid; cbn [fst].
    destruct u; try apply Hyp_nil. apply Hyp_incl. apply incl_refl.
  - (* RWrap *)
    rewrite build_wrap. apply (on_RES r s _ _ _ _ Pr). intros e s1 He.
    destruct msg as [|a m]; unfold with_stack, fresh_stack, mk_wrap, fresh_oid; cbn [fst].
    + apply Hyp_app; [mono He|]. intros t [<- | []] Hne. now contradiction Hne.
    + apply Hyp_app; [mono He|]. intros t [<- | []] _ Ha. apply held_wrap.
      eapply held_here; [now left|]. now apply single_safe_retained.
  - (* RWrapf *)
    rewrite build_wrapf. apply (on_f_RES r f s _ _ _ _ Pr). intros e s1 s2 He.
    apply wrapf_Hyp; [|apply bfmt_BOK; now inversion IHk|exact He].
    apply wf_fmt. destruct Hwf as [A | (A & B & C)]; [now left|right]. repeat split; try assumption. now inversion C.
  - (* RWithMessage *)
    onw Pr (mk_wrap (WPrefix (sprint_pieces [PSafe msg]))).
    apply Hyp_app; [mono He|]. intros t [<- | []] _ Ha.
    eapply held_here; [now left|]. now apply single_safe_retained.
  - (* RWithMessagef *)
    rewrite build_withmessagef. apply (on_f_RES r f s _ _ _ _ Pr). intros e s1 s2 He.
    unfold mk_wrap, fresh_oid. cbn [fst]. apply Hyp_app; [mono He|].
    apply (own_fmt_Hyp f (fst (bfmt env f bf_empty s1))); [|apply bfmt_BOK; now inversion IHk|now left].
    apply wf_fmt. destruct Hwf as [A | (A & B & C)]; [now left|right]. repeat split; try assumption. now inversion C.
  - (* RWithStack *) onw Pr (with_stack env). mono He.
  - (* RHint *) onw Pr (mk_wrap (WHint h)). mono He.
  - (* RHintf *)
    rewrite build_hintf. apply (on_f_RES r f s _ _ _ _ Pr). intros e s1 s2 He.
    unfold mk_wrap, fresh_oid. cbn [fst]. mono He.
  - (* RDetailf *)
    rewrite build_detailf. apply (on_f_RES r f s _ _ _ _ Pr). intros e s1 s2 He.
    unfold mk_wrap, fresh_oid. cbn [fst]. mono He.
  - (* RDetail *) onw Pr (mk_wrap (WDetail d)). mono He.
  - (* RIssueLink *)
    onw Pr (mk_wrap (WIssueLink url det)). apply Hyp_app; [mono He|]. apply Hyp_incl. apply incl_refl.
  - (* RTelemetry *)
    onw Pr (mk_wrap (WTelemetry keys)). apply Hyp_app; [mono He|]. apply Hyp_incl. apply incl_refl.
  - (* RDomain *)
    onw Pr (mk_wrap (WDomain d)). apply Hyp_app; [mono He|]. apply Hyp_incl. apply incl_refl.
  - (* RTags *)
    onw Pr (fun e s1 => match tags with [] => (e, s1) | _ => mk_wrap (WContext (tags_of tags) None) e s1 end).
    apply Hyp_app.
    + destruct tags; unfold mk_wrap, fresh_oid; cbn [fst]; mono He.
    + destruct tags as [|kv tags']; [apply Hyp_nil|]. unfold mk_wrap, fresh_oid. cbn [fst]. apply tags_Hyp2.
  - (* RAssert *) onw Pr (mk_wrap WAssert). mono He.
  - (* RMark *)
    rewrite build_mark. destruct (build env r1 s) as [[e|] s1]; cbn [fst RES] in Pr.
    + destruct (build env r2 s1) as [[x|] s2]; unfold mk_wrap, fresh_oid; cbn [some_ fst RES]; mono Pr.
    + destruct (build env r2 s1) as [ox s2]. exact Pr.
  - (* RSafeDetails *)
    rewrite build_safedetails. apply (on_f_RES r f s _ _ _ _ Pr). intros e s1 s2 He.
    destruct (is_fmt_empty f) eqn:Ee; unfold mk_wrap, fresh_oid; cbn [fst].
    + apply Hyp_app; [exact He|]. intros t Ht Hne _. exfalso. apply Hne. now apply (fmt_empty_own f).
    + apply Hyp_app; [mono He|].
      apply (own_fmt_Hyp f (fst (bfmt env f bf_empty s1))); [|apply bfmt_BOK; now inversion IHk|now left].
      apply wf_fmt. now left.
  - (* RHTTP *) onw Pr (mk_wrap (WHTTP code)). mono He.
  - (* RGrpc *) onw Pr (mk_wrap (WGrpc code)). mono He.
  - (* RSecondary *)
    rewrite build_secondary. pose proof (Forall_inv (Forall_inv_tail IHk)) as Px.
    destruct (build env r1 s) as [[e|] s1]; cbn [fst RES] in Pr; specialize (Px s1).
    + destruct (build env r2 s1) as [[a|] s2]; cbn [fst RES] in Px.
      * unfold fresh_oid. cbn [fst RES]. apply Hyp_app; [mono Pr|]. apply Hyp_guard. intros _.
        eapply Hyp_mono; [|exact Px]. intro t. apply held_second_r.
      * cbn [fst RES]. rewrite Px, app_nil_r. exact Pr.
    + destruct (build env r2 s1) as [[a|] s2]; exact Pr.
  - (* RCombine *)
    rewrite build_combine. pose proof (Forall_inv (Forall_inv_tail IHk)) as Px.
    destruct (build env r1 s) as [[e|] s1]; cbn [fst RES] in Pr; specialize (Px s1).
    + destruct (build env r2 s1) as [[a|] s2]; cbn [fst RES] in Px.
      * unfold fresh_oid. cbn [fst RES]. apply Hyp_app; apply Hyp_guard; intros _; [mono Pr|].
        eapply Hyp_mono; [|exact Px]. intro t. apply held_second_r.
      * cbn [fst RES]. rewrite Px, app_nil_r. apply Hyp_guard. intros _. exact Pr.
    + rewrite Pr. cbn [app orb]. destruct (build env r2 s1) as [[a|] s2]; cbn [fst RES] in *.
      * apply Hyp_guard. intros _. exact Px.
      * exact Px.
  - (* RHandled *) onw Pr handled_. mono He.
  - (* RHandledMsg *)
    onw Pr (fun e s1 => let '(i, s2) := fresh_oid s1 in (Barrier i (sprint_pieces [PUnsafe msg]) e, s2)).
    mono He.
  - (* RHandledMsgf *)
    rewrite build_handledmsgf. apply (on_f_RES r f s _ _ _ _ Pr). intros e s1 s2 He.
    unfold fresh_oid. cbn [fst]. mono He.
  - (* RHandledInDomain *)
    onw Pr (fun e s1 => let '(b, s2) := handled_ e s1 in mk_wrap (WDomain d) b s2).
    apply Hyp_app; [mono He|]. apply Hyp_incl. apply incl_refl.
  - (* RHandledInDomainMsg *)
    onw Pr (fun e s1 => let '(i, s2) := fresh_oid s1 in
                        mk_wrap (WDomain d) (Barrier i (sprint_pieces [PUnsafe msg]) e) s2).
    apply Hyp_app; [mono He|]. apply Hyp_incl. apply incl_refl.
  - (* RHandleAssert *)
    onw Pr (fun e s1 => let '(b, s2) := handled_ e s1 in
                        let '(w, s3) := with_stack env b s2 in mk_wrap WAssert w s3).
    mono He.
  - (* RNewAssertWrapped *)
    rewrite build_newassertwrapped. apply (on_f_RES r f s _ _ _ _ Pr). intros e s1 s2 He.
    unfold handled_, fresh_oid.
    assert (Hb : Hyp (si r) (Barrier (bs_oid s2) (sprint_pieces [nested_v (sem e)]) e)) by (mono He).
    pose proof (fun wf bk => wrapf_Hyp (si r) _ f (fst (bfmt env f bf_empty s1))
                  (mkbs (Pos.succ (bs_oid s2)) (bs_stk s2)) wf bk Hb) as H.
    destruct (wrapf_ env _ f (fst (bfmt env f bf_empty s1)) (mkbs (Pos.succ (bs_oid s2)) (bs_stk s2))) as [w s3].
    unfold mk_wrap, fresh_oid. cbn [fst] in *.
    assert (H' : Hyp (si r ++ fmt_own f ++ fmt_args f) w).
    { apply H; [|apply bfmt_BOK; now inversion IHk].
      apply wf_fmt. destruct Hwf as [A | (A & B & C)]; [now left|right]. repeat split; try assumption. now inversion C. }
    mono H'.
  - (* RFmtErrorf *)
    rewrite build_fmterrorf. destruct (bfmt env f bf_empty s) as [b s1]. unfold fresh_oid.
    destruct (bf_nw b) as [|[|n]]; [|destruct (bf_wrapped b)|]; cbn [fst RES]; apply Hyp_nil.
  - (* RPkgMsg *) onw Pr (mk_wrap (WPkgMsg msg)). mono He.
  - (* RPkgStack *)
    onw Pr (fun e s1 => let '(st, s2) := fresh_stack env s1 in mk_wrap (WPkgStack st) e s2). mono He.
  - (* RPathError *) onw Pr (mk_wrap (WPathError op path)). mono He.
  - (* RLinkError *) onw Pr (mk_wrap (WLinkError op old new)). mono He.
  - (* RSyscallError *) onw Pr (mk_wrap (WSyscallError sc)). mono He.
  - (* ROpError *) onw Pr (mk_wrap (WOpError op net src addr)). mono He.
  - (* RForeignErrno *) leaf0.
  - (* RUWrap *)
    onw Pr (mk_wrap (WUser u msg xs)). apply Hyp_app; [mono He|].
    destruct u; try apply Hyp_nil. apply Hyp_incl. apply incl_refl.
Qed.

(* ================================================================== *)
(* 6. the theorem                                                       *)
(* ================================================================== *)
(* nil-ness is static *)
Corollary live_build r s : frag r = true ->
  live r = match fst (build env r s) with Some _ => true | None => false end.
Proof.
  intro Hf. pose proof (build_Q r (frag_fragP r Hf) s) as H.
  destruct (fst (build env r s)) as [e|] eqn:E; cbn [RES] in H; [|exact H].
  (* a non-nil result: [live] is true, by the same induction read on the None side *)
  destruct (live r) eqn:L; [reflexivity|]. exfalso. clear H.
  revert s e E Hf L. induction r as [r IH] using recipe_kids_ind. intros s e E Hf L.
  apply frag_fragP in Hf. destruct (fragP_inv r Hf) as (Hshape & _ & Hkids).
  assert (IHk : Forall (fun x => forall s e, fst (build env x s) = Some e -> live x = false -> False) (kids r)).
  { rewrite Forall_forall in *. intros x Hx s0 e0 E0 L0. apply (IH x Hx s0 e0 E0); [|exact L0].
    destruct (Hkids x Hx) as [A B]. unfold frag. rewrite A. cbn [andb].
    destruct B as [B | [B1 B2]]; [rewrite B; reflexivity|rewrite B1, B2; apply orb_true_r]. }
  clear IH Hkids Hf.
  assert (ON : forall r0 k, (forall s e, fst (build env r0 s) = Some e -> live r0 = false -> False) ->
                 live r0 = false -> fst (on_ env r0 s k) = Some e -> False).
  { intros r0 k H0 L0 E0. unfold on_ in E0. specialize (H0 s).
    destruct (build env r0 s) as [[e0|] s1]; cbn [fst] in *; [now apply (H0 e0)|discriminate]. }
  assert (ONF : forall r0 f k, (forall s e, fst (build env r0 s) = Some e -> live r0 = false -> False) ->
                 live r0 = false -> fst (on_f_ env r0 f s k) = Some e -> False).
  { intros r0 f k H0 L0 E0. unfold on_f_ in E0. specialize (H0 s).
    destruct (build env r0 s) as [[e0|] s1]; destruct (bfmt env f bf_empty s1) as [b s2]; cbn [fst] in *;
      [now apply (H0 e0)|discriminate]. }
  destruct r; cbn [kids] in IHk; cbn [chk_shape] in Hshape; try discriminate Hshape; cbn [live] in L;
    try discriminate L; try pose proof (Forall_inv IHk) as Pr;
    try (apply (ON _ _ Pr L E); fail); try (apply (ONF _ _ _ Pr L E); fail).
  - discriminate E.
  - cbn [build fst] in E. rewrite E in L. discriminate L.
  - cbn [build] in E. destruct (code =? 0); [discriminate E|discriminate L].
  - cbn [build] in E. destruct (code =? 0); [discriminate E|discriminate L].
  - rewrite build_mark in E. specialize (Pr s). destruct (build env r1 s) as [[e1|] s1]; cbn [fst] in Pr.
    + now apply (Pr e1).
    + destruct (build env r2 s1) as [ox s2]. discriminate E.
  - rewrite build_secondary in E. specialize (Pr s). destruct (build env r1 s) as [[e1|] s1]; cbn [fst] in Pr.
    + now apply (Pr e1).
    + destruct (build env r2 s1) as [[a|] s2]; discriminate E.
  - rewrite build_combine in E. apply orb_false_iff in L as [L1 L2].
    pose proof (Forall_inv (Forall_inv_tail IHk)) as Px. specialize (Pr s).
    destruct (build env r1 s) as [[e1|] s1]; cbn [fst] in Pr; [now apply (Pr e1)|].
    specialize (Px s1). destruct (build env r2 s1) as [[a|] s2]; cbn [fst] in *; [now apply (Px a)|discriminate E].
Qed.

(* the strong form: a non-empty safe input is in GetAllSafeDetails, in a safe detail declared
   by a node at some hiding level *)
Theorem api_retained_held r s e s' t :
  frag r = true -> build env r s = (Some e, s') -> In t (safe_inputs r) -> ok_piece t = true -> t <> [] ->
  held t e.
Proof.
  intros Hf Hb Ht Ha Hne. pose proof (build_Q r (frag_fragP r Hf) s) as H. rewrite Hb in H. cbn [fst RES] in H.
  apply H; [|exact Hne|exact Ha]. unfold safe_inputs in Ht. destruct (live r); [exact Ht|destruct Ht].
Qed.

Theorem api_retained : forall r s e s' t,
  frag r = true -> build env r s = (Some e, s') -> In t (safe_inputs r) -> ok_piece t = true -> retained t e.
Proof.
  intros r s e s' t Hf Hb Ht Ha. destruct t as [|a t'] eqn:Et; [right; apply infix_nil|]. rewrite <- Et in *.
  apply held_retained. apply (api_retained_held r s e s' t Hf Hb Ht Ha). rewrite Et. discriminate.
Qed.

(* in GetAllSafeDetails itself (never only in the report), indented by two spaces per hiding level *)
Corollary api_retained_in_details r s e s' t :
  frag r = true -> build env r s = (Some e, s') -> In t (safe_inputs r) -> ok_piece t = true -> t <> [] ->
  exists p d, In p (get_all_safe_details e) /\ In d (sd_details p) /\ infix_of t d.
Proof.
  intros Hf Hb Ht Ha Hne. destruct (api_retained_held r s e s' t Hf Hb Ht Ha Hne) as (lv & n & d & Hn & Hd & Hi).
  destruct (deep_details_retained' e lv n d Hn Hd) as (p & Hp & Hd').
  exists p, (indent_k lv d). split; [exact Hp|]. split; [exact Hd'|]. now apply infix_indent.
Qed.
End Main.

(* ================================================================== *)
(* 7. example                                                           *)
(* ================================================================== *)
Definition env0 : benv := mkbenv [].
Definition built (r : recipe) : err :=
  match fst (build env0 r bs_init) with Some e => e | None => Leaf 1%positive LTestError end.

(* errors.WithSecondaryError(
     errors.Wrapf(errors.WithDomain(errors.Handled(errors.WithTelemetry(errors.New("boom"), "key.one")), "dom.x"),
                  "while doing %s for %s", redact.Safe("step7"), "alice"),
     errors.WithIssueLink(errors.New("other"), IssueLink{"https://issue/1", "det1"})) *)
Definition r_ex : recipe :=
  RSecondary
    (RWrapf (RDomain (RHandled (RTelemetry (RNew (lit "boom")) [lit "key.one"])) (lit "dom.x"))
            [FLit (lit "while doing "); FSafeStr VS (lit "step7"); FLit (lit " for "); FStr VS (lit "alice")])
    (RIssueLink (RNew (lit "other")) (lit "https://issue/1") (lit "det1")).

Example r_ex_inputs :
  frag r_ex = true /\
  safe_inputs r_ex = [lit "boom"; lit "key.one"; lit "dom.x"; lit "while doing "; lit "step7"; lit " for ";
                      lit "other"; lit "https://issue/1"; lit "det1"].
Proof. split; vm_compute; reflexivity. Qed.

Example r_ex_retained : forall t, In t (safe_inputs r_ex) -> retained t (built r_ex).
Proof.
  intros t Ht.
  apply (api_retained env0 r_ex bs_init (built r_ex) (snd (build env0 r_ex bs_init)) t).
  - vm_compute. reflexivity.
  - vm_compute. reflexivity.
  - exact Ht.
  - rewrite (proj2 r_ex_inputs) in Ht. cbn [In] in Ht.
    repeat (destruct Ht as [<- | Ht]; [reflexivity|]). destruct Ht.
Qed.

(* the same, computed: each input is found in a string of GetAllSafeDetails; the unsafe argument is not,
   neither in GetAllSafeDetails nor in the report *)
Example r_ex_computed :
  forallb (fun t => mentions t (built r_ex)) (safe_inputs r_ex) = true /\
  mentions (lit "alice") (built r_ex) = false /\ in_report (lit "alice") (built r_ex) = false.
Proof. repeat split; vm_compute; reflexivity. Qed.

(* ================================================================== *)
(* 8. witnesses: what is NOT retained                                   *)
(* ================================================================== *)
Lemma is_infix_eq a s :
  is_infix a s = has_prefix a s || match s with [] => false | _ :: r => is_infix a r end.
Proof. destruct s; reflexivity. Qed.

Lemma drop_prefix_app' a b : drop_prefix a (a ++ b) = Some b.
Proof. induction a as [|x a IH]; [reflexivity|]. cbn [app drop_prefix]. now rewrite N.eqb_refl. Qed.

Lemma infix_is_infix a s : infix_of a s -> is_infix a s = true.
Proof.
  intros (p & q & ->). induction p as [|x p IH]; rewrite is_infix_eq.
  - cbn [app]. unfold has_prefix. now rewrite drop_prefix_app'.
  - cbn [app]. rewrite IH. apply orb_true_r.
Qed.

(* the boolean oracles of SafeRetained decide [retained] negatively *)
Lemma not_retained t e : mentions t e = false -> in_report t e = false -> ~ retained t e.
Proof.
  intros Hm Hr [(p & d & Hp & Hd & Hi) | Hi].
  - assert (X : mentions t e = true); [|congruence].
    unfold mentions, details_text. apply existsb_exists. exists d. split; [|now apply infix_is_infix].
    apply in_flat_map. exists p. now split.
  - apply infix_is_infix in Hi. unfold in_report in Hr. congruence.
Qed.

Definition r_arg : recipe := RTelemetry (RNew (lit "arg")) [lit "key1"].
Definition f_arg : list fpiece := [FLit (lit "lit "); FErr VV r_arg].

(* FINDING (a): WithMessagef, WithSafeDetails, HandledWithMessagef (and WithHintf / WithDetailf) do not
   attach the error ARGUMENTS of their format as secondary errors (Newf / Wrapf / AssertionFailedf do):
   what such an argument carries in its safe channels -- here a telemetry key -- is in NEITHER output.
   (With Wrapf the same key is retained.) *)
Example withmessagef_arg_not_retained :
  In (lit "key1") (safe_inputs r_arg) /\
  ~ retained (lit "key1") (built (RWithMessagef (RNew (lit "boom")) f_arg)) /\
  ~ retained (lit "key1") (built (RSafeDetails (RNew (lit "boom")) f_arg)) /\
  ~ retained (lit "key1") (built (RHandledMsgf (RNew (lit "boom")) f_arg)) /\
  ~ retained (lit "key1") (built (RHintf (RNew (lit "boom")) f_arg)) /\
  ~ retained (lit "key1") (built (RDetailf (RNew (lit "boom")) f_arg)) /\
  mentions (lit "key1") (built (RWrapf (RNew (lit "boom")) f_arg)) = true.
Proof.
  split; [vm_compute; right; left; reflexivity|].
  do 5 (split; [apply not_retained; vm_compute; reflexivity|]).
  vm_compute. reflexivity.
Qed.

(* (b) HandledWithMessagef: the constant text and the Safe() arguments of the format are absent from
   GetAllSafeDetails (the barrier's SafeDetails() gives the details of the MASKED error only); they are
   in the report message, through the rendering of the barrier message.  Not covered by [api_retained]. *)
Example handledmsgf_literal_report_only :
  let e := built (RHandledMsgf (RNew (lit "boom")) [FLit (lit "handled literal "); FSafeStr VS (lit "safeval")]) in
  mentions (lit "handled literal ") e = false /\ mentions (lit "safeval") e = false /\
  in_report (lit "handled literal safeval") e = true.
Proof. repeat split; vm_compute; reflexivity. Qed.

(* (c) WithTags: a Safe() value given for a key that a later pair of the same call overwrites
   (logtags.Buffer.Add replaces in place) is in neither output; the key is kept *)
Example overwritten_tag_value_not_retained :
  let tags := [(lit "k", TVSafe (lit "sv")); (lit "k", TVStr (lit "other"))] in
  let e := built (RTags (RNew (lit "boom")) tags) in
  tag_inputs tags = [lit "k"; lit "k"] /\ ~ retained (lit "sv") e /\ mentions (lit "k") e = true.
Proof. split; [vm_compute; reflexivity|]. split; [apply not_retained; vm_compute; reflexivity|vm_compute; reflexivity]. Qed.

(* (d) fmt.Errorf (not a constructor of the library): an error argument without %w is flattened to a
   string; with %w its safe inputs are retained *)
Example fmt_errorf_arg_not_retained :
  ~ retained (lit "key1") (built (RFmtErrorf [FLit (lit "x "); FErr VV r_arg])) /\
  mentions (lit "key1") (built (RFmtErrorf [FLit (lit "x "); FErr VW r_arg])) = true.
Proof. split; [apply not_retained; vm_compute; reflexivity|vm_compute; reflexivity]. Qed.

(* (e) Join: the safe inputs of the elements are absent from GetAllSafeDetails and present in the
   report message only (SafeRetained.multi_cause_children_not_in_details): outside [frag] *)
Example join_elements_report_only :
  let e := built (RJoin [r_arg; RNew (lit "b")]) in
  mentions (lit "key1") e = false /\ in_report (lit "key1") e = true.
Proof. split; vm_compute; reflexivity. Qed.

(* (f) channels that are NOT safe: the message of UnimplementedError, hints *)
Example unsafe_channels :
  ~ retained (lit "unimplmsg") (built (RUnimpl (lit "http://u") (lit "det") (lit "unimplmsg"))) /\
  ~ retained (lit "hint1") (built (RHint (RNew (lit "boom")) (lit "hint1"))).
Proof. split; apply not_retained; vm_compute; reflexivity. Qed.

(* (g) why [ok_piece] asks for ASCII: a Safe() argument that looks like a marker is escaped *)
Example non_ascii_input_not_verbatim :
  let t := lit "a" ++ m_start ++ lit "b" in
  ok_piece t = false /\ ~ retained t (built (RNew t)).
Proof. split; [vm_compute; reflexivity|apply not_retained; vm_compute; reflexivity]. Qed.

Print Assumptions api_retained.
Print Assumptions api_retained_in_details.
Print Assumptions live_build.
