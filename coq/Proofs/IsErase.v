(* Is / IsAny cannot tell apart two errors with the same erasure, as long as the
   reference shares no object identity with their identity-compared nodes
   (the situation after a network transfer: decoded errors get fresh
   identities). *)
From Coq Require Import Lia List Bool ZArith.
From Errv Require Import Base.Str Redact.Markers Model.Err Model.Sem Model.Details Model.Marks Model.Codec
     Model.Report Proofs.StrFacts Proofs.FastIs Proofs.MarksFacts Proofs.EraseDef Proofs.EraseFacts.
Import ListNotations.

(* all object identities occurring in the visible tree *)
Definition oids (e : err) : list oid := List.map node_oid (visit_all e).

(* kinds compared by value, not by identity; the two non-comparable value
   types (the leaf ut.NoCmp and the wrapper ut.WNoCmp) are never compared at all *)
Definition value_kind (e : err) : bool :=
  match e with
  | Leaf _ LDeadline | Leaf _ (LErrno _) | Leaf _ (LUser ULVal _ _ _) | Leaf _ LTestError
  | Leaf _ (LUser ULNoCmp _ _ _) => true
  | Wrap _ (WUser UWNoCmp _ _) _ => true
  | _ => false
  end.

(* destructs [x] far enough for [erase x] to reduce to a constructor *)
Ltac des_erase x :=
  let i := fresh "i" in let k := fresh "k" in let w := fresh "w" in let c := fresh "c" in
  let s := fresh "s" in let m := fresh "m" in let h := fresh "h" in let cs := fresh "cs" in
  let d := fresh "d" in let p := fresh "p" in let mt := fresh "mt" in
  let tags := fresh "tags" in let red := fresh "red" in
  destruct x as [i k|i w c|i c s|i m h|i k cs|i m d cs|i p d mt c];
  [ | destruct w as [ | | | | | | | |tags red| | | | | | | | | | | | | ]; [ | | | | | | | |destruct red| | | | | | | | | | | | | ] | | | | | ].

(* ---------- node-local facts ---------- *)
Definition leaf_of (e : err) : option leafk :=
  match e with Leaf _ k => Some k | _ => None end.

Lemma leaf_of_erase e : leaf_of (erase e) = leaf_of e.
Proof. des_erase e; reflexivity. Qed.

(* the non-comparable wrapper ut.WNoCmp *)
Definition nocmp_wrap (e : err) : bool :=
  match e with Wrap _ (WUser UWNoCmp _ _) _ => true | _ => false end.

Lemma nocmp_wrap_erase e : nocmp_wrap (erase e) = nocmp_wrap e.
Proof. des_erase e; reflexivity. Qed.

(* [comparable] is a function of the leaf kind, except for the wrapper ut.WNoCmp *)
Lemma comparable_leaf r :
  comparable r =
  negb (nocmp_wrap r) && match leaf_of r with Some (LUser ULNoCmp _ _ _) => false | _ => true end.
Proof.
  destruct r as [i k|i w c|i c s|i m h|i k cs|i m d cs|i p d mt c]; try reflexivity.
  destruct w as [| | | | | | | | | | | | | | | | | | | | |u m xs]; try reflexivity.
  destruct u; reflexivity.
Qed.

(* the former statement (without [nocmp_wrap]) fails on that wrapper *)
Example comparable_leaf_needs_nocmp_wrap :
  let r := Wrap 1%positive (WUser UWNoCmp (lit "w") []) (Leaf 2%positive (LErrString (lit "x"))) in
  comparable r = false /\
  (match leaf_of r with Some (LUser ULNoCmp _ _ _) => false | _ => true end) = true.
Proof. split; vm_compute; reflexivity. Qed.

Lemma comparable_erase r : comparable (erase r) = comparable r.
Proof. now rewrite !comparable_leaf, leaf_of_erase, nocmp_wrap_erase. Qed.

Lemma get_mark_nomark e :
  match e with Wrap _ (WMark _) _ => False | _ => True end ->
  get_mark e = mkem (error_text e) (ns_tmarks (sem e)).
Proof.
  destruct e as [i k|i w c|i c s|i m h|i k cs|i m d cs|i p d mt c]; intro H; try reflexivity.
  destruct w; try reflexivity. destruct H.
Qed.

Lemma get_mark_erase e : get_mark (erase e) = get_mark e.
Proof.
  assert (Hm : (exists i m c, e = Wrap i (WMark m) c) \/
               (match e with Wrap _ (WMark _) _ => False | _ => True end /\
                match erase e with Wrap _ (WMark _) _ => False | _ => True end)).
  { des_erase e; try (right; split; exact I). left; eauto. }
  destruct Hm as [(i & m & c & ->)|[H1 H2]]; [reflexivity|].
  rewrite (get_mark_nomark _ H1), (get_mark_nomark _ H2), error_text_erase, sem_erase.
  reflexivity.
Qed.

(* Is methods compare values / tags / the os sentinels' identities on the
   REFERENCE side only *)
Lemma is_method_erase_l c r : is_method (erase c) r = is_method c r.
Proof. des_erase c; reflexivity. Qed.

Lemma mark_match_erase_l c r : mark_match (erase c) r = mark_match c r.
Proof. unfold mark_match. now rewrite get_mark_erase. Qed.

Lemma mark_match_erase_r c r : mark_match c (erase r) = mark_match c r.
Proof. unfold mark_match. now rewrite get_mark_erase. Qed.

(* ---------- the identity-free part of [go_eq] ---------- *)
Definition kind_val_eq (k k' : leafk) : bool :=
  match k, k' with
  | LDeadline, LDeadline => true
  | LTestError, LTestError => true
  | LErrno a, LErrno b => Z.eqb a b
  | LUser ULVal m t _, LUser ULVal m' t' _ => str_eqb m m' && Z.eqb t t'
  | _, _ => false
  end.

Definition go_eq_val (c r : err) : bool :=
  match leaf_of c, leaf_of r with
  | Some k, Some k' => kind_val_eq k k'
  | _, _ => false
  end.

Lemma go_eq_val_erase_l c r : go_eq_val (erase c) r = go_eq_val c r.
Proof. unfold go_eq_val. now rewrite leaf_of_erase. Qed.

Lemma go_eq_val_erase_r c r : go_eq_val c (erase r) = go_eq_val c r.
Proof. unfold go_eq_val. now rewrite leaf_of_erase. Qed.

(* no other type of the universe has the Go type of *errorspb.TestError *)
Lemma same_go_type_testerror i r :
  match r with Leaf _ LTestError => False | _ => True end ->
  same_go_type (Leaf i LTestError) r = false.
Proof.
  intro H.
  destruct r as [j k|j w c|j c s|j m h|j k cs|j m d cs|j p d mt c].
  - destruct k as [| | | | | | | | | | |u m t xs]; try (vm_compute; reflexivity); try (destruct H).
  - destruct w as [| | | | | | | | | | | | | | | | | | | | |u m xs]; try (vm_compute; reflexivity).
  - vm_compute; reflexivity.
  - vm_compute; reflexivity.
  - destruct k; vm_compute; reflexivity.
  - destruct cs; vm_compute; reflexivity.
  - vm_compute; reflexivity.
Qed.

Ltac des_kind x :=
  let i := fresh "i" in let k := fresh "k" in let u := fresh "u" in
  let w := fresh "w" in let v := fresh "v" in
  destruct x as [i k|i w ?|i ? ?|i ? ?|i ? ?|i ? ? ?|i ? ? ? ?];
  [destruct k as [| | | | | | | | | | |u ? ? ?]; [ | | | | | | | | | | |destruct u]
  |destruct w as [| | | | | | | | | | | | | | | | | | | | |v ? ?];
   [ | | | | | | | | | | | | | | | | | | | | |destruct v] | | | | | ].

Lemma go_eq_nid c r :
  (value_kind c = false -> node_oid c <> node_oid r) -> go_eq c r = go_eq_val c r.
Proof.
  intro H.
  des_kind c; des_kind r; cbn [value_kind node_oid] in H;
    try reflexivity;
    cbn [go_eq go_eq_val leaf_of kind_val_eq node_oid];
    try reflexivity;
    try (rewrite (proj2 (Pos.eqb_neq _ _) (H eq_refl)); reflexivity);
    try (rewrite same_go_type_testerror by exact I; apply andb_false_r).
Qed.

(* the identity-free match test *)
Definition nmatch (c r : err) : bool :=
  (comparable r && go_eq_val c r) || is_method c r || mark_match c r.

Lemma nmatch_erase_l c r : nmatch (erase c) r = nmatch c r.
Proof. unfold nmatch. now rewrite go_eq_val_erase_l, is_method_erase_l, mark_match_erase_l. Qed.

Lemma own_nmatch c r :
  (value_kind c = false -> node_oid c <> node_oid r) ->
  own_match c r || mark_match c r = nmatch c r.
Proof. intro H. unfold own_match, nmatch. now rewrite (go_eq_nid _ _ H). Qed.

(* ---------- the visible tree of an erasure ---------- *)
Lemma visit_all_erase e : visit_all (erase e) = List.map erase (visit_all e).
Proof.
  induction e as [i k|i w c IH|i c s IHc IHs|i m h IH|i k cs IH|i m d cs IH|i p d mt c IH] using err_ind'.
  - reflexivity.
  - destruct w; try (cbn [erase visit_all List.map]; rewrite IH; reflexivity).
    destruct redacted; cbn [erase visit_all List.map]; rewrite IH; reflexivity.
  - cbn [erase visit_all List.map]. now rewrite IHc.
  - reflexivity.
  - cbn [erase visit_all List.map]. f_equal.
    induction IH as [|x l Hx Hl IHl]; [reflexivity|].
    cbn [List.map flat_map]. now rewrite map_app, Hx, IHl.
  - cbn [erase visit_all List.map]. f_equal.
    induction IH as [|x l Hx Hl IHl]; [reflexivity|].
    cbn [List.map flat_map]. now rewrite map_app, Hx, IHl.
  - cbn [erase visit_all List.map]. now rewrite IH.
Qed.

(* the reference is a different object from every identity-compared node of a *)
Definition disjoint_ref (a r : err) : Prop :=
  forall c, In c (visit_all a) -> value_kind c = false -> node_oid c <> node_oid r.

(* Is against a reference sharing no identity is a function of the erasure *)
Lemma is_nid a r :
  disjoint_ref a r -> is_ a r = existsb (fun c => nmatch c r) (visit_all (erase a)).
Proof.
  intro H. rewrite is_visit, visit_all_erase, existsb_map'.
  apply existsb_ext'. intros c Hc. rewrite nmatch_erase_l. apply own_nmatch. now apply H.
Qed.

Theorem is_same_erase a b r :
  erase a = erase b -> disjoint_ref a r -> disjoint_ref b r -> is_ a r = is_ b r.
Proof. intros He Ha Hb. now rewrite (is_nid _ _ Ha), (is_nid _ _ Hb), He. Qed.

Lemma is_any_nid a rs :
  Forall (disjoint_ref a) rs ->
  is_any a rs = existsb (fun c => existsb (fun r => nmatch c r) rs) (visit_all (erase a)).
Proof.
  intro H. rewrite is_any_visit, visit_all_erase, existsb_map'.
  apply existsb_ext'. intros c Hc. apply existsb_ext'. intros r Hr.
  rewrite nmatch_erase_l. apply own_nmatch.
  rewrite Forall_forall in H. now apply (H r Hr).
Qed.

Theorem is_any_same_erase a b rs :
  erase a = erase b -> Forall (disjoint_ref a) rs -> Forall (disjoint_ref b) rs ->
  is_any a rs = is_any b rs.
Proof. intros He Ha Hb. now rewrite (is_any_nid _ _ Ha), (is_any_nid _ _ Hb), He. Qed.

(* ---------- reference side ---------- *)
(* The Is methods of syscall.Errno / OpaqueErrno compare the reference with the
   three os sentinels by identity: this is the only thing Is reads from the
   reference that [erase] forgets. *)
Definition os_class (r : err) : bool * bool * bool :=
  match r with
  | Leaf i (LErrString _) => (Pos.eqb i oid_permission, Pos.eqb i oid_exist, Pos.eqb i oid_notexist)
  | _ => (false, false, false)
  end.

Lemma is_method_ref c r1 r2 :
  leaf_of r1 = leaf_of r2 -> os_class r1 = os_class r2 -> is_method c r1 = is_method c r2.
Proof.
  intros H1 H2.
  destruct c as [i k|i w c|i c s|i m h|i k cs|i m d cs|i p d mt c]; try reflexivity.
  destruct k as [| | | | | | | | | | |u m t xs]; try reflexivity; try (destruct u; try reflexivity);
    (destruct r1 as [i1 k1|? ? ?|? ? ?|? ? ?|? ? ?|? ? ? ?|? ? ? ? ?],
              r2 as [i2 k2|? ? ?|? ? ?|? ? ?|? ? ?|? ? ? ?|? ? ? ? ?];
     cbn [leaf_of] in H1; try discriminate H1; try reflexivity;
     injection H1 as ->; destruct k2; try reflexivity;
     pose proof (f_equal (fun x => fst (fst x)) H2) as E1;
     pose proof (f_equal (fun x => snd (fst x)) H2) as E2;
     pose proof (f_equal snd H2) as E3;
     cbn [os_class fst snd] in E1, E2, E3;
     cbn [is_method]; rewrite E1, E2, E3; reflexivity).
Qed.

Lemma nmatch_ref c r1 r2 :
  erase r1 = erase r2 -> os_class r1 = os_class r2 -> nmatch c r1 = nmatch c r2.
Proof.
  intros He Ho. unfold nmatch.
  assert (Hl : leaf_of r1 = leaf_of r2) by now rewrite <- (leaf_of_erase r1), He, leaf_of_erase.
  rewrite (is_method_ref c r1 r2 Hl Ho).
  rewrite <- (comparable_erase r1), <- (go_eq_val_erase_r c r1), <- (mark_match_erase_r c r1), He.
  now rewrite comparable_erase, go_eq_val_erase_r, mark_match_erase_r.
Qed.

(* marks, types and values of the reference, plus which os sentinel it is, are
   all that matters when no identity is shared *)
Theorem is_ref_same_erase e r1 r2 :
  erase r1 = erase r2 -> os_class r1 = os_class r2 ->
  (forall c, In c (visit_all e) -> value_kind c = false ->
             node_oid c <> node_oid r1 /\ node_oid c <> node_oid r2) ->
  is_ e r1 = is_ e r2.
Proof.
  intros He Ho H. rewrite !is_visit. apply existsb_ext'. intros c Hc.
  rewrite (own_nmatch c r1), (own_nmatch c r2).
  - now apply nmatch_ref.
  - intro Hv. now apply (H c Hc Hv).
  - intro Hv. now apply (H c Hc Hv).
Qed.

(* [os_class] is trivial for references that are not one of the three sentinels *)
Definition not_os_sentinel (r : err) : Prop :=
  node_oid r <> oid_permission /\ node_oid r <> oid_exist /\ node_oid r <> oid_notexist.

Lemma os_class_fresh r : not_os_sentinel r -> os_class r = (false, false, false).
Proof.
  intros (H1 & H2 & H3).
  destruct r as [i k|? ? ?|? ? ?|? ? ?|? ? ?|? ? ? ?|? ? ? ? ?]; try reflexivity.
  destruct k; try reflexivity. cbn [os_class node_oid] in *.
  now rewrite (proj2 (Pos.eqb_neq _ _) H1), (proj2 (Pos.eqb_neq _ _) H2), (proj2 (Pos.eqb_neq _ _) H3).
Qed.

Corollary is_ref_same_erase_fresh e r1 r2 :
  erase r1 = erase r2 -> not_os_sentinel r1 -> not_os_sentinel r2 ->
  (forall c, In c (visit_all e) -> value_kind c = false ->
             node_oid c <> node_oid r1 /\ node_oid c <> node_oid r2) ->
  is_ e r1 = is_ e r2.
Proof.
  intros He H1 H2 H. apply is_ref_same_erase; [assumption| |assumption].
  now rewrite !os_class_fresh.
Qed.

(* The statement without the [os_class] hypothesis is false: os.ErrPermission
   and a fresh errors.New("permission denied") have the same erasure, but only
   the former is recognised by syscall.Errno.Is. *)
Example is_ref_same_erase_needs_os_class :
  let e := Leaf 50%positive (LErrno 13%Z) in
  let r1 := Leaf oid_permission (LErrString (lit "permission denied")) in
  let r2 := Leaf 200%positive (LErrString (lit "permission denied")) in
  erase r1 = erase r2 /\
  (forall c, In c (visit_all e) -> value_kind c = false ->
             node_oid c <> node_oid r1 /\ node_oid c <> node_oid r2) /\
  is_ e r1 = true /\ is_ e r2 = false.
Proof.
  cbv zeta. split; [reflexivity|]. split.
  - intros c [<-|[]] Hv. discriminate Hv.
  - split; vm_compute; reflexivity.
Qed.
