(* Facts about report.BuildSentryReport (Model/Report.v): shape of the
   "error types" extra, of the exception list and of the message. *)
From Coq Require Import Lia List.
From Errv Require Import Base.Str Redact.Markers Redact.Buffer Model.Err Model.Sem Model.Details
     Model.Marks Model.Access Model.Report Proofs.StrFacts.

(* ------------------------------------------------------------------ *)
(* list helpers *)

Lemma filter_rev' {A} (f : A -> bool) (l : list A) : filter f (rev l) = rev (filter f l).
Proof.
  induction l as [|a l IH]; [reflexivity|].
  cbn [rev filter]. rewrite filter_app, IH. cbn [filter].
  destruct (f a); cbn [rev]; [reflexivity|]. now rewrite app_nil_r.
Qed.

Lemma app5_assoc {A} (a b c d e r : list A) :
  (a ++ b ++ c ++ d ++ e) ++ r = a ++ b ++ c ++ d ++ e ++ r.
Proof. now rewrite <- !app_assoc. Qed.

(* ------------------------------------------------------------------ *)
(* specification vocabulary *)

(* the line of the "error types" extra for one layer *)
Definition type_line (l : err) : str :=
  let sd := get_safe_details l in
  sd_orig sd ++ lit " (" ++ (if str_eqb (sd_orig sd) (sd_fam sd) then lit "*" else sd_fam sd)
          ++ lit "::" ++ sd_ext sd ++ lit ")" ++ [nl].

(* does the layer carry a (reportable) stack trace *)
Definition has_stack (l : err) : bool :=
  match get_reportable_stack l with Some _ => true | None => false end.

(* ------------------------------------------------------------------ *)
(* one step of the composition loop *)

Ltac layer_cases l st :=
  unfold report_layer;
  destruct (get_reportable_stack l) as [fr|];
  [ destruct (rev fr) as [|f fs]; destruct (c_exc st) as [|x xs]
  | destruct (sd_details (get_safe_details l)) as [|d ds];
    [| destruct (first_line d) as [|c cs]] ];
  cbn [c_types c_exc c_msg].

Lemma report_layer_types m b st l :
  c_types (report_layer m b st l) = c_types st ++ type_line l.
Proof. layer_cases l st; reflexivity. Qed.

(* the exceptions created by one layer *)
Lemma report_layer_exc m b st l :
  match get_reportable_stack l with
  | Some fr => exists ty v, c_exc (report_layer m b st l) = c_exc st ++ [mkexc ty v m (Some fr)]
  | None => c_exc (report_layer m b st l) = c_exc st
  end.
Proof.
  unfold report_layer.
  destruct (get_reportable_stack l) as [fr|].
  - destruct (rev fr) as [|f fs]; destruct (c_exc st) as [|x xs]; cbn [c_exc];
      eexists; eexists; reflexivity.
  - destruct (sd_details (get_safe_details l)) as [|d ds];
      [| destruct (first_line d) as [|c cs]]; reflexivity.
Qed.

Lemma report_layer_msg m b st l :
  exists r, c_msg (report_layer m b st l) = c_msg st ++ r.
Proof.
  layer_cases l st; rewrite <- ?app_assoc; eexists; reflexivity.
Qed.

(* ------------------------------------------------------------------ *)
(* the whole loop *)

Lemma report_layers_types m b st ls :
  c_types (report_layers m b st ls) = c_types st ++ List.concat (List.map type_line ls).
Proof.
  revert b st; induction ls as [|l ls IH]; intros b st; cbn [report_layers List.map List.concat].
  - now rewrite app_nil_r.
  - rewrite IH, report_layer_types. now rewrite <- app_assoc.
Qed.

Lemma report_layers_frames m b st ls :
  List.map ex_frames (c_exc (report_layers m b st ls)) =
  List.map ex_frames (c_exc st) ++ List.map get_reportable_stack (filter has_stack ls).
Proof.
  revert b st; induction ls as [|l ls IH]; intros b st; cbn [report_layers filter List.map].
  - now rewrite app_nil_r.
  - rewrite IH. pose proof (report_layer_exc m b st l) as H.
    unfold has_stack at 2.
    destruct (get_reportable_stack l) as [fr|] eqn:E.
    + destruct H as (ty & v & ->). rewrite map_app. cbn [List.map ex_frames].
      rewrite <- app_assoc. cbn [app]. now rewrite E.
    + now rewrite H.
Qed.

Lemma report_layers_length m b st ls :
  List.length (c_exc (report_layers m b st ls)) =
  (List.length (c_exc st) + List.length (filter has_stack ls))%nat.
Proof.
  pose proof (f_equal (@List.length _) (report_layers_frames m b st ls)) as H.
  now rewrite app_length, !map_length in H.
Qed.

Lemma report_layers_modules m b st ls :
  (forall x, In x (c_exc st) -> ex_module x = m) ->
  forall x, In x (c_exc (report_layers m b st ls)) -> ex_module x = m.
Proof.
  revert b st; induction ls as [|l ls IH]; intros b st Hst; cbn [report_layers]; [exact Hst|].
  apply IH. intros x Hx.
  pose proof (report_layer_exc m b st l) as H.
  destruct (get_reportable_stack l) as [fr|].
  - destruct H as (ty & v & H). rewrite H in Hx. apply in_app_or in Hx as [Hx|[<-|[]]].
    + now apply Hst.
    + reflexivity.
  - rewrite H in Hx. now apply Hst.
Qed.

Lemma report_layers_msg m b st ls :
  exists r, c_msg (report_layers m b st ls) = c_msg st ++ r.
Proof.
  revert b st; induction ls as [|l ls IH]; intros b st; cbn [report_layers].
  - exists []. now rewrite app_nil_r.
  - destruct (IH false (report_layer m b st l)) as [r1 H1].
    destruct (report_layer_msg m b st l) as [r2 H2].
    exists (r2 ++ r1). now rewrite H1, H2, app_assoc.
Qed.

(* ------------------------------------------------------------------ *)
(* build_report *)

(* one line per layer, innermost layer first *)
Lemma report_types e :
  rp_types (build_report e) = List.concat (List.map type_line (rev (visit_all e))).
Proof.
  unfold build_report. cbn [rp_types]. now rewrite report_layers_types.
Qed.

(* one exception per layer that carries a stack trace, one synthetic exception when none does *)
Lemma report_exception_count e :
  List.length (rp_exceptions (build_report e)) =
  Nat.max 1 (List.length (filter has_stack (visit_all e))).
Proof.
  unfold build_report. cbn [rp_exceptions]. rewrite rev_involutive.
  match goal with |- context [report_layers ?m ?b ?st ?ls] =>
    pose proof (report_layers_length m b st ls) as H;
    set (S := report_layers m b st ls) in * end.
  cbn [c_exc List.length plus] in H.
  rewrite filter_rev', rev_length in H. rewrite <- H.
  destruct (c_exc S) as [|x xs]; [reflexivity|].
  rewrite rev_length. cbn [List.length]. lia.
Qed.

(* every exception's module is the error's domain *)
Lemma report_modules e x : In x (rp_exceptions (build_report e)) -> ex_module x = get_domain e.
Proof.
  unfold build_report. cbn [rp_exceptions]. rewrite rev_involutive.
  match goal with |- context [report_layers ?m ?b ?st ?ls] =>
    assert (H : forall y, In y (c_exc (report_layers m b st ls)) -> ex_module y = m)
      by (apply report_layers_modules; cbn [c_exc]; intros y []);
    set (S := report_layers m b st ls) in * end.
  destruct (c_exc S) as [|y ys].
  - intros [<-|[]]. reflexivity.
  - intros Hx. apply in_rev in Hx. destruct Hx as [<-|Hx].
    + cbn [ex_module]. apply H. now left.
    + apply H. now right.
Qed.

(* exceptions are ordered outermost first and carry the frames of the layers that have a stack *)
Lemma report_exception_frames e :
  filter has_stack (visit_all e) <> [] ->
  List.map ex_frames (rp_exceptions (build_report e)) =
  List.map get_reportable_stack (filter has_stack (visit_all e)).
Proof.
  intros Hne.
  unfold build_report. cbn [rp_exceptions]. rewrite rev_involutive.
  match goal with |- context [report_layers ?m ?b ?st ?ls] =>
    pose proof (report_layers_frames m b st ls) as H;
    set (S := report_layers m b st ls) in * end.
  cbn [c_exc List.map app] in H.
  rewrite filter_rev', map_rev in H.
  destruct (c_exc S) as [|y ys].
  - exfalso. cbn [List.map] in H. symmetry in H.
    apply (f_equal (@rev _)) in H. rewrite rev_involutive in H. cbn [rev] in H.
    apply map_eq_nil in H. contradiction.
  - rewrite map_rev. cbn [List.map ex_frames]. cbn [List.map] in H.
    rewrite H. now rewrite rev_involutive.
Qed.

(* the message starts with [file:line: ] + the redacted verbose rendering + the composition header *)
Lemma report_message_prefix e :
  exists rest,
    rp_message (build_report e) =
    (match get_one_line_source e with
     | Some (f, l, _) => f ++ [colon] ++ dec_of_Z l ++ lit ": "
     | None => []
     end) ++ strip_markers (redact (fmt_red_verbose e)) ++ [nl] ++ lit "-- report composition:" ++ [nl] ++ rest.
Proof.
  unfold build_report. cbn [rp_message].
  match goal with |- context [report_layers ?m ?b ?st ?ls] =>
    destruct (report_layers_msg m b st ls) as [r H];
    set (S := report_layers m b st ls) in * end.
  cbn [c_msg] in H. rewrite H.
  destruct (1 <? c_extra S)%N.
  - eexists. rewrite <- app_assoc. rewrite app5_assoc. reflexivity.
  - eexists. rewrite app5_assoc. reflexivity.
Qed.
