(* [erase] (Proofs/EraseDef.v) is invisible to everything the library renders,
   reports or encodes. *)
From Coq Require Import Lia List Bool.
From Errv Require Import Base.Str Redact.Markers Redact.Buffer Model.Err Model.Sem Model.Details Model.Codec
     Proofs.StrFacts Proofs.FastIs Proofs.EraseDef.
Import ListNotations.

(* ---------- node-local functions ---------- *)
Lemma go_ty_erase e : go_ty (erase e) = go_ty e.
Proof.
  destruct e as [i k|i w c|i c s|i m h|i k cs|i m d cs|i p d mt c]; try reflexivity.
  - destruct w; try reflexivity. destruct redacted; reflexivity.
  - destruct cs; reflexivity.
Qed.

Lemma go_type_string_erase e : go_type_string (erase e) = go_type_string e.
Proof. unfold go_type_string. now rewrite go_ty_erase. Qed.

Lemma go_full_name_erase e : go_full_name (erase e) = go_full_name e.
Proof. unfold go_full_name. now rewrite go_ty_erase. Qed.

Lemma own_ext_erase e : own_ext (erase e) = own_ext e.
Proof.
  destruct e as [i k|i w c|i c s|i m h|i k cs|i m d cs|i p d mt c]; try reflexivity.
  destruct w; try reflexivity. destruct redacted; reflexivity.
Qed.

Lemma own_tmark_erase e : own_tmark (erase e) = own_tmark e.
Proof.
  destruct e as [i k|i w c|i c s|i m h|i k cs|i m d cs|i p d mt c]; try reflexivity.
  destruct w; try reflexivity. destruct redacted; reflexivity.
Qed.

Lemma has_format_method_erase e : has_format_method (erase e) = has_format_method e.
Proof.
  destruct e as [i k|i w c|i c s|i m h|i k cs|i m d cs|i p d mt c]; try reflexivity.
  destruct w; try reflexivity. destruct redacted; reflexivity.
Qed.

Lemma lib_format_erase e : lib_format (erase e) = lib_format e.
Proof.
  destruct e as [i k|i w c|i c s|i m h|i k cs|i m d cs|i p d mt c]; try reflexivity.
  destruct w; try reflexivity. destruct redacted; reflexivity.
Qed.

Lemma own_sentinel_erase e : own_sentinel (erase e) = own_sentinel e.
Proof.
  destruct e as [i k|i w c|i c s|i m h|i k cs|i m d cs|i p d mt c]; try reflexivity.
  destruct w; try reflexivity. destruct redacted; reflexivity.
Qed.

(* equality of the functions themselves: [default_body] only looks at the
   constructor shape of its first argument *)
Lemma default_body_erase e : default_body (erase e) = default_body e.
Proof.
  destruct e as [i k|i w c|i c s|i m h|i k cs|i m d cs|i p d mt c]; try reflexivity.
  destruct w; try reflexivity. destruct redacted; reflexivity.
Qed.

Lemma map_erase_ext {B} (f : err -> B) cs :
  Forall (fun e => f (erase e) = f e) cs -> List.map f (List.map erase cs) = List.map f cs.
Proof.
  induction 1 as [|x l Hx Hl IH]; cbn [List.map]; [reflexivity|]. now rewrite Hx, IH.
Qed.

(* ---------- sem ---------- *)
Lemma sem_erase e : sem (erase e) = sem e.
Proof.
  induction e as [i k|i w c IH|i c s IHc IHs|i m h IH|i k cs IH|i m d cs IH|i p d mt c IH] using err_ind'.
  - reflexivity.
  - destruct w; try (cbn [erase sem]; rewrite IH, lib_format_erase; reflexivity).
    destruct redacted; cbn [erase sem]; rewrite IH, lib_format_erase; reflexivity.
  - cbn [erase sem]. rewrite IHc, IHs. reflexivity.
  - cbn [erase sem]. rewrite IH. reflexivity.
  - apply map_erase_ext in IH. cbn [erase sem]. rewrite IH.
    destruct k; destruct cs; reflexivity.
  - apply map_erase_ext in IH. cbn [erase sem]. rewrite IH.
    destruct cs; reflexivity.
  - cbn [erase sem]. rewrite IH, lib_format_erase. reflexivity.
Qed.

Lemma error_text_erase e : error_text (erase e) = error_text e.
Proof. unfold error_text. now rewrite sem_erase. Qed.

(* ---------- details ---------- *)
Lemma type_details_erase e : type_details (erase e) = type_details e.
Proof.
  destruct e as [i k|i w c|i c s|i m h|i k cs|i m d cs|i p d mt c]; try reflexivity.
  destruct w; try reflexivity. destruct redacted; reflexivity.
Qed.

(* the inner fixpoint of [safe_details_of] as a top-level function *)
Fixpoint fill_chain_top (x : err) (acc : list str) : list str :=
  let '(o, f, xt) := type_details x in
  let acc1 := sdp_fill (mksdp o f xt (get_details x)) acc in
  match x with
  | Wrap _ _ c | Second _ c _ | OWrap _ _ _ _ c => fill_chain_top c acc1
  | _ => acc1
  end.

Definition fill_chain_in : err -> list str -> list str :=
  fix fill_chain (x : err) : list str -> list str :=
    fun acc =>
    let own := match safe_details_of x with
               | Some ds => ds
               | None =>
                 match x with
                 | Leaf _ (LPkgFund _ st) => [print_stack st]
                 | Wrap _ (WPkgStack st) _ => [print_stack st]
                 | _ => []
                 end
               end in
    let '(o, f, xt) := type_details x in
    let acc1 := sdp_fill (mksdp o f xt own) acc in
    match x with
    | Wrap _ _ c | Second _ c _ | OWrap _ _ _ _ c => fill_chain c acc1
    | _ => acc1
    end.

Lemma fill_chain_in_top x acc : fill_chain_in x acc = fill_chain_top x acc.
Proof. reflexivity. Qed.

Lemma safe_details_second i c s :
  safe_details_of (Second i c s) = Some (fill_chain_top s []).
Proof.
  rewrite <- fill_chain_in_top. reflexivity.
Qed.

Lemma safe_details_barrier i m h :
  safe_details_of (Barrier i m h) =
  Some (fill_chain_top h [] ++
        [redact_strip (sprint_pieces [PLit (lit "masked error: "); nested_plus_v (sem h)])]).
Proof.
  rewrite <- fill_chain_in_top. reflexivity.
Qed.

Lemma get_details_erase_of e :
  safe_details_of (erase e) = safe_details_of e -> get_details (erase e) = get_details e.
Proof.
  intro H. unfold get_details. rewrite H. destruct (safe_details_of e); [reflexivity|].
  destruct e as [i k|i w c|i c s|i m h|i k cs|i m d cs|i p d mt c]; try reflexivity.
  destruct w; try reflexivity. destruct redacted; reflexivity.
Qed.

Lemma fill_chain_top_step x acc :
  fill_chain_top x acc =
  let '(o, f, xt) := type_details x in
  let acc1 := sdp_fill (mksdp o f xt (get_details x)) acc in
  match x with
  | Wrap _ _ c | Second _ c _ | OWrap _ _ _ _ c => fill_chain_top c acc1
  | _ => acc1
  end.
Proof. destruct x; reflexivity. Qed.

Lemma safe_fill_erase e :
  safe_details_of (erase e) = safe_details_of e /\
  forall acc, fill_chain_top (erase e) acc = fill_chain_top e acc.
Proof.
  induction e as [i k|i w c IH|i c s IHc IHs|i m h IH|i k cs IH|i m d cs IH|i p d mt c IH] using err_ind'.
  - split; reflexivity.
  - assert (Hs : safe_details_of (erase (Wrap i w c)) = safe_details_of (Wrap i w c)).
    { destruct w; try reflexivity. destruct redacted; reflexivity. }
    split; [exact Hs|]. intro acc.
    rewrite (fill_chain_top_step (erase (Wrap i w c))), (fill_chain_top_step (Wrap i w c)).
    rewrite type_details_erase, (get_details_erase_of _ Hs).
    destruct (type_details (Wrap i w c)) as [[o f] xt].
    destruct IH as [_ IH].
    destruct w; try (cbn [erase]; apply IH). destruct redacted; cbn [erase]; apply IH.
  - assert (Hs : safe_details_of (erase (Second i c s)) = safe_details_of (Second i c s)).
    { cbn [erase]. rewrite !safe_details_second. destruct IHs as [_ IHs]. now rewrite IHs. }
    split; [exact Hs|]. intro acc.
    rewrite (fill_chain_top_step (erase (Second i c s))), (fill_chain_top_step (Second i c s)).
    rewrite type_details_erase, (get_details_erase_of _ Hs).
    destruct (type_details (Second i c s)) as [[o f] xt].
    destruct IHc as [_ IHc]. cbn [erase]. apply IHc.
  - assert (Hs : safe_details_of (erase (Barrier i m h)) = safe_details_of (Barrier i m h)).
    { cbn [erase]. rewrite !safe_details_barrier. destruct IH as [_ IH]. now rewrite IH, sem_erase. }
    split; [exact Hs|]. intro acc.
    rewrite (fill_chain_top_step (erase (Barrier i m h))), (fill_chain_top_step (Barrier i m h)).
    rewrite type_details_erase, (get_details_erase_of _ Hs).
    destruct (type_details (Barrier i m h)) as [[o f] xt]. reflexivity.
  - split; [reflexivity|]. intro acc.
    rewrite (fill_chain_top_step (erase (Multi i k cs))), (fill_chain_top_step (Multi i k cs)).
    rewrite type_details_erase, (get_details_erase_of (Multi i k cs) eq_refl).
    destruct (type_details (Multi i k cs)) as [[o f] xt]. reflexivity.
  - split; [reflexivity|]. intro acc.
    rewrite (fill_chain_top_step (erase (OLeaf i m d cs))), (fill_chain_top_step (OLeaf i m d cs)).
    rewrite type_details_erase, (get_details_erase_of (OLeaf i m d cs) eq_refl).
    destruct (type_details (OLeaf i m d cs)) as [[o f] xt]. reflexivity.
  - split; [reflexivity|]. intro acc.
    rewrite (fill_chain_top_step (erase (OWrap i p d mt c))), (fill_chain_top_step (OWrap i p d mt c)).
    rewrite type_details_erase, (get_details_erase_of (OWrap i p d mt c) eq_refl).
    destruct (type_details (OWrap i p d mt c)) as [[o f] xt].
    destruct IH as [_ IH]. cbn [erase]. apply IH.
Qed.

Lemma safe_details_erase e : safe_details_of (erase e) = safe_details_of e.
Proof. apply safe_fill_erase. Qed.

Lemma fill_chain_top_erase e acc : fill_chain_top (erase e) acc = fill_chain_top e acc.
Proof. apply safe_fill_erase. Qed.

Lemma get_details_erase e : get_details (erase e) = get_details e.
Proof. apply get_details_erase_of, safe_details_erase. Qed.

Lemma get_safe_details_erase e : get_safe_details (erase e) = get_safe_details e.
Proof. unfold get_safe_details. now rewrite type_details_erase, get_details_erase. Qed.

(* ---------- encode ---------- *)
Lemma mk_details_erase e rep full : mk_details (erase e) rep full = mk_details e rep full.
Proof. unfold mk_details. now rewrite type_details_erase. Qed.

Lemma sd_or_nil_erase e : sd_or_nil (erase e) = sd_or_nil e.
Proof. unfold sd_or_nil. now rewrite safe_details_erase. Qed.

Ltac node_facts x :=
  let H1 := fresh "Ht" in let H2 := fresh "Hsd" in let H3 := fresh "Hmk" in
  pose proof (error_text_erase x) as H1;
  pose proof (sd_or_nil_erase x) as H2;
  pose proof (mk_details_erase x) as H3;
  cbn [erase] in H1, H2, H3;
  rewrite ?H1, ?H2, ?H3.

Lemma encode_erase e : encode (erase e) = encode e.
Proof.
  induction e as [i k|i w c IH|i c s IHc IHs|i m h IH|i k cs IH|i m d cs IH|i p d mt c IH] using err_ind'.
  - cbn [erase encode]. node_facts (Leaf i k). reflexivity.
  - destruct w; try (cbn [erase encode]; rewrite IH, ?error_text_erase;
                     match goal with |- context [Wrap i ?w c] => node_facts (Wrap i w c) end; reflexivity).
    destruct redacted; cbn [erase encode]; rewrite IH, ?error_text_erase.
    + node_facts (Wrap i (WContext tags (Some l)) c). reflexivity.
    + node_facts (Wrap i (WContext tags None) c). reflexivity.
  - cbn [erase encode]. rewrite IHc, IHs. node_facts (Second i c s). reflexivity.
  - cbn [erase encode]. rewrite IH. node_facts (Barrier i m h). reflexivity.
  - apply map_erase_ext in IH. cbn [erase encode]. rewrite IH. node_facts (Multi i k cs). reflexivity.
  - apply map_erase_ext in IH. cbn [erase encode]. rewrite IH. reflexivity.
  - cbn [erase encode]. rewrite IH. reflexivity.
Qed.

(* ---------- erase itself ---------- *)
Lemma erase_idem e : erase (erase e) = erase e.
Proof.
  induction e as [i k|i w c IH|i c s IHc IHs|i m h IH|i k cs IH|i m d cs IH|i p d mt c IH] using err_ind'.
  - reflexivity.
  - destruct w; try (cbn [erase]; rewrite IH; reflexivity).
    destruct redacted; cbn [erase]; rewrite IH; reflexivity.
  - cbn [erase]. now rewrite IHc, IHs.
  - cbn [erase]. now rewrite IH.
  - apply map_erase_ext in IH. cbn [erase]. now rewrite IH.
  - apply map_erase_ext in IH. cbn [erase]. now rewrite IH.
  - cbn [erase]. now rewrite IH.
Qed.

(* two errors with the same erasure render, report and encode alike *)
Lemma same_erase_sem a b : erase a = erase b -> sem a = sem b.
Proof. intro H. rewrite <- (sem_erase a), H. apply sem_erase. Qed.

Lemma same_erase_encode a b : erase a = erase b -> encode a = encode b.
Proof. intro H. rewrite <- (encode_erase a), H. apply encode_erase. Qed.

Lemma same_erase_safe_details a b : erase a = erase b -> get_safe_details a = get_safe_details b.
Proof. intro H. rewrite <- (get_safe_details_erase a), H. apply get_safe_details_erase. Qed.
