(* Barriers, secondary errors and Mark references hide their payload (C07). *)
From Errv Require Import Base.Str Redact.Markers Model.Err Model.Sem Model.Details Model.Marks
     Model.Access Model.Report Model.Std Proofs.StrFacts Proofs.FastIs Proofs.MarksFacts.

(* nothing behind a barrier is reachable *)
Lemma barrier_visible i m h : visit_all (Barrier i m h) = [Barrier i m h].
Proof. reflexivity. Qed.
Lemma barrier_unwrap i m h : unwrap_once (Barrier i m h) = None /\ unwrap_all (Barrier i m h) = Barrier i m h.
Proof. split; reflexivity. Qed.
Lemma secondary_visible i c s : visit_all (Second i c s) = Second i c s :: visit_all c.
Proof. reflexivity. Qed.

(* identity questions do not depend on the hidden payload *)
Lemma barrier_is i m h1 h2 r : is_ (Barrier i m h1) r = is_ (Barrier i m h2) r.
Proof. reflexivity. Qed.
Lemma barrier_ref i m h1 h2 e : is_ e (Barrier i m h1) = is_ e (Barrier i m h2).
Proof.
  rewrite !is_visit. apply existsb_ext'. intros c _. reflexivity.
Qed.
Lemma secondary_is i c s1 s2 r : is_ (Second i c s1) r = is_ (Second i c s2) r.
Proof. reflexivity. Qed.
Lemma barrier_as i m h1 h2 t :
  match as_ (Barrier i m h1) t, as_ (Barrier i m h2) t with
  | Some _, Some _ | None, None => True
  | _, _ => False
  end.
Proof. cbn [as_]. destruct t; cbn; destruct (_ : bool); exact I. Qed.
Lemma secondary_as_below i c s1 s2 t :
  assignable (Second i c s1) t = false ->
  as_ (Second i c s1) t = as_ (Second i c s2) t.
Proof.
  intro H. cbn [as_]. rewrite H.
  assert (assignable (Second i c s2) t = false) as -> by (destruct t; exact H). reflexivity.
Qed.

(* no accessor sees the hidden payload *)
Lemma barrier_accessors i m h :
  get_all_hints (Barrier i m h) = [] /\ get_all_details (Barrier i m h) = [] /\
  get_all_issue_links (Barrier i m h) = [] /\ get_telemetry_keys (Barrier i m h) = [] /\
  get_domain (Barrier i m h) = no_domain /\ get_context_tags (Barrier i m h) = [] /\
  has_assertion_failure (Barrier i m h) = false /\ has_issue_link (Barrier i m h) = false /\
  has_unimplemented (Barrier i m h) = false /\
  (forall d, get_http_code (Barrier i m h) d = d) /\ get_grpc_code (Barrier i m h) = 2%N.
Proof. repeat split; reflexivity. Qed.

Lemma secondary_accessors i c s :
  get_all_hints (Second i c s) = get_all_hints c /\ get_all_details (Second i c s) = get_all_details c /\
  get_all_issue_links (Second i c s) = get_all_issue_links c /\
  get_telemetry_keys (Second i c s) = get_telemetry_keys c /\
  get_domain (Second i c s) = get_domain c /\ get_context_tags (Second i c s) = get_context_tags c /\
  has_assertion_failure (Second i c s) = has_assertion_failure c /\
  has_issue_link (Second i c s) = has_issue_link c /\
  has_unimplemented (Second i c s) = has_unimplemented c /\
  (forall d, get_http_code (Second i c s) d = get_http_code c d) /\
  get_grpc_code (Second i c s) = get_grpc_code c.
Proof. repeat split; reflexivity. Qed.

(* a Mark layer carries only the mark of its reference *)
Lemma mark_only_mark i e r1 r2 : get_mark r1 = get_mark r2 -> mark_ i e r1 = mark_ i e r2.
Proof. unfold mark_. now intros ->. Qed.

Lemma mark_accessors i m c :
  get_all_hints (Wrap i (WMark m) c) = get_all_hints c /\
  get_all_details (Wrap i (WMark m) c) = get_all_details c /\
  get_all_issue_links (Wrap i (WMark m) c) = get_all_issue_links c /\
  get_telemetry_keys (Wrap i (WMark m) c) = get_telemetry_keys c /\
  get_domain (Wrap i (WMark m) c) = get_domain c /\
  get_context_tags (Wrap i (WMark m) c) = get_context_tags c /\
  has_assertion_failure (Wrap i (WMark m) c) = has_assertion_failure c /\
  has_issue_link (Wrap i (WMark m) c) = has_issue_link c /\
  has_unimplemented (Wrap i (WMark m) c) = has_unimplemented c /\
  unwrap_all (Wrap i (WMark m) c) = unwrap_all c /\
  error_text (Wrap i (WMark m) c) = error_text c.
Proof. repeat split; reflexivity. Qed.

(* Handled keeps the hidden error's text; the message variants replace it *)
Lemma barrier_message i smsg h : error_text (Barrier i smsg h) = strip_markers smsg.
Proof. reflexivity. Qed.
