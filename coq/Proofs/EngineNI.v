(* C03 at the level of the formatting engine: non-interference.  What Redact()
   leaves of a redactable rendering of an error does not depend on the CONTENT
   of the strings that the engine prints as unsafe. *)
From Errv Require Import Base.Str Redact.Markers Redact.Buffer Model.Err Model.Sem
     Proofs.StrFacts Proofs.RedactFacts Proofs.RedactWf Proofs.FastIs Proofs.EngineFacts Proofs.EngineWf.
From Coq Require Import Lia.

(* ------------------------------------------------------------------ *)
(* 1. Redact() is a homomorphism for the concatenations of the engine  *)
(* ------------------------------------------------------------------ *)
Definition oof (r : option ast) : option bool :=
  match r with Some (o, _, _) => Some o | None => None end.

Lemma vout_oof a a' b b' x out : oof a = oof a' -> oof b = oof b' -> vout a b x out = vout a' b' x out.
Proof.
  destruct a as [[[[|] ?] ?]|], a' as [[[[|] ?] ?]|]; cbn [oof]; intro H; try discriminate H;
  destruct b as [[[[|] ?] ?]|], b' as [[[[|] ?] ?]|]; cbn [oof]; intro H'; try discriminate H'; reflexivity.
Qed.

Lemma erd_oof r1 r2 : erd r1 = erd r2 -> oof r1 = oof r2.
Proof.
  destruct r1 as [[[? ?] ?]|], r2 as [[[? ?] ?]|]; cbn; intro H; try discriminate; try reflexivity.
  injection H as -> _. reflexivity.
Qed.

Lemma vrun_erd s : forall r1 r2 out, erd r1 = erd r2 -> snd (vrun s (r1, out)) = snd (vrun s (r2, out)).
Proof.
  induction s as [|x s IH]; intros r1 r2 out H; [reflexivity|].
  rewrite !vrun_cons. unfold vstep. cbn [fst snd].
  assert (H' : erd (step true r1 x) = erd (step true r2 x)) by (rewrite !step_erd; now rewrite H).
  rewrite (vout_oof r1 r2 (step true r1 x) (step true r2 x)) by (now apply erd_oof).
  now apply IH.
Qed.

Lemma run2_alive s r : run2 s (erd r) <> None -> alive (run true s r) = true.
Proof. rewrite <- run_erd. destruct (run true s r); [reflexivity|]. cbn. congruence. Qed.

Lemma vo_rv s : run2 s c0 <> None -> rev (vo s) = rv (tokenize s) false.
Proof.
  intro H. destruct (vcorr s false false []) as [C _]. apply C.
  apply (run2_alive s (Some (false, K0, false))). exact H.
Qed.

Lemma vo_K0 s d out : run2 s c0 <> None -> snd (vrun s (Some (false, K0, d), out)) = vo s ++ out.
Proof.
  intro H. destruct (vcorr s false d out) as [C _].
  specialize (C (run2_alive s (Some (false, K0, d)) H)).
  apply (f_equal (@rev N)) in C. rewrite rev_involutive, rev_app_distr, rev_involutive in C.
  rewrite C. rewrite <- (vo_rv s H). now rewrite rev_involutive.
Qed.

Lemma cls_alive s : cls s -> run2 s c0 <> None.
Proof. intros [k H]. congruence. Qed.

Lemma redact_cls s : cls s -> redact s = rev (vo s).
Proof.
  intro H. rewrite redact_rv by (now apply cls_wf). symmetry. apply vo_rv. now apply cls_alive.
Qed.

Lemma sst_of_run2 s o k : run2 s c0 = Some (o, k) -> exists d, sst true s = Some (o, k, d).
Proof.
  rewrite <- sst_run2. destruct (sst true s) as [[[o' k'] d]|]; [|discriminate].
  cbn [erd]. intro H. injection H as -> ->. eauto.
Qed.

Lemma vrun_sst s : vrun s (Some st0, []) = (sst true s, vo s).
Proof.
  rewrite (surjective_pairing (vrun s (Some st0, []))). rewrite vrun_fst. reflexivity.
Qed.

Lemma vo_app a b o k d : sst true a = Some (o, k, d) -> vo (a ++ b) = snd (vrun b (Some (o, k, d), vo a)).
Proof. intro H. unfold vo at 1. now rewrite vrun_app, vrun_sst, H. Qed.

Lemma redact_app_cln a b : cln a -> cls b -> redact (a ++ b) = redact a ++ redact b.
Proof.
  intros Ha Hb. rewrite !redact_cls; [|exact Hb|now apply cln_cls|now apply cls_app_cln].
  destruct (sst_of_run2 a false K0 Ha) as [d E].
  rewrite (vo_app a b _ _ _ E), vo_K0 by (now apply cls_alive). now rewrite rev_app_distr.
Qed.

Lemma step_plain k d x : (x <? 128) = true -> step true (Some (false, k, d)) x = Some (false, K0, false).
Proof.
  intro H. apply N.ltb_lt in H. cbn [step].
  assert (E1 : (x =? 226) = false) by (apply N.eqb_neq; lia).
  assert (E2 : (x =? 128) = false) by (apply N.eqb_neq; lia).
  assert (E3 : (x =? 185) = false) by (apply N.eqb_neq; lia).
  assert (E4 : (x =? 186) = false) by (apply N.eqb_neq; lia).
  rewrite E1. destruct k; rewrite ?E2, ?E3, ?E4, andb_false_r; reflexivity.
Qed.

Lemma vrun_ascii sep : ascii sep = true -> sep <> [] -> forall k d out,
  vrun sep (Some (false, k, d), out) = (Some st0, rev sep ++ out).
Proof.
  induction sep as [|x s IH]; intros Ha Hne k d out; [congruence|].
  cbn [ascii forallb] in Ha. apply andb_true_iff in Ha as [Hx Hs].
  rewrite vrun_cons. unfold vstep. cbn [fst snd]. rewrite step_plain by exact Hx. cbn [vout].
  destruct s as [|y s'].
  - reflexivity.
  - rewrite IH by (exact Hs || discriminate). cbn [rev]. now rewrite <- !app_assoc.
Qed.

Lemma redact_sep a sep b : cls a -> ascii sep = true -> sep <> [] -> cls b ->
  redact (a ++ sep ++ b) = redact a ++ sep ++ redact b.
Proof.
  intros Ha Hs Hne Hb. rewrite !redact_cls; [|exact Hb|exact Ha|now apply cls_sep].
  destruct Ha as [k Hk]. destruct (sst_of_run2 a false k Hk) as [d E].
  rewrite (vo_app a _ _ _ _ E), vrun_app, vrun_ascii by assumption.
  unfold st0. rewrite vo_K0 by (now apply cls_alive).
  rewrite !rev_app_distr, rev_involutive. now rewrite <- app_assoc.
Qed.

Lemma redact_sep0 a sep : cls a -> ascii sep = true -> sep <> [] -> redact (a ++ sep) = redact a ++ sep.
Proof.
  intros Ha Hs Hne. pose proof (redact_sep a sep [] Ha Hs Hne cls_nil) as H.
  rewrite redact_nil, !app_nil_r in H. exact H.
Qed.

Lemma cln_sep a sep b : cls a -> ascii sep = true -> sep <> [] -> cln b -> cln (a ++ sep ++ b).
Proof.
  intros [k Ha] Hs Hne Hb. unfold cln. rewrite !run2_app, Ha, run2_ascii by assumption. exact Hb.
Qed.

(* ---- what Redact() keeps of the first byte, of the length class, of newlines ---- *)
Lemma tokenize_step3 a b c r : tokenize (a :: b :: c :: r) =
  if (a =? 226) && (b =? 128) && (c =? 185) then TOpen :: tokenize r
  else if (a =? 226) && (b =? 128) && (c =? 186) then TClose :: tokenize r
  else TB a :: tokenize (b :: c :: r).
Proof. reflexivity. Qed.

Lemma untok_tokenize_len n : forall s, (List.length s <= n)%nat -> untok (tokenize s) = s.
Proof.
  induction n as [|n IH]; intros s Hs.
  - destruct s; [reflexivity|cbn in Hs; lia].
  - destruct s as [|a [|b [|c r]]]; try reflexivity.
    rewrite tokenize_step3. cbn [List.length] in Hs.
    destruct ((a =? 226) && (b =? 128) && (c =? 185)) eqn:E1.
    + apply andb_true_iff in E1 as [E1 Ec]. apply andb_true_iff in E1 as [Ea Eb].
      apply N.eqb_eq in Ea, Eb, Ec. subst.
      change (untok (TOpen :: tokenize r)) with (m_start ++ untok (tokenize r)).
      rewrite IH by lia. reflexivity.
    + destruct ((a =? 226) && (b =? 128) && (c =? 186)) eqn:E2.
      * apply andb_true_iff in E2 as [E2 Ec]. apply andb_true_iff in E2 as [Ea Eb].
        apply N.eqb_eq in Ea, Eb, Ec. subst.
        change (untok (TClose :: tokenize r)) with (m_end ++ untok (tokenize r)).
        rewrite IH by lia. reflexivity.
      * change (untok (TB a :: tokenize (b :: c :: r))) with (a :: untok (tokenize (b :: c :: r))).
        rewrite IH by (cbn [List.length]; lia). reflexivity.
Qed.

Lemma untok_tokenize s : untok (tokenize s) = s.
Proof. exact (untok_tokenize_len _ s (le_n _)). Qed.

(* length class of a line: the engine treats 0, 1 and >= 2 bytes differently *)
Definition lc (s : str) : nat := match s with [] => 0 | [_] => 1 | _ => 2 end%nat.

Lemma rv_open l : wf_toks l true = true -> exists r, rv l true = m_redacted ++ r.
Proof.
  induction l as [|t l IH]; [discriminate|]. destruct t as [| |b]; cbn [wf_toks rv negb andb].
  - discriminate.
  - intros _. eauto.
  - intro H. apply andb_true_iff in H as [_ H]. now apply IH.
Qed.

Lemma rv_first l : wf_toks l false = true -> first_byte (rv l false) = first_byte (untok l).
Proof.
  destruct l as [|t l]; [reflexivity|]. destruct t as [| |b]; cbn [wf_toks rv negb andb].
  - intro H. destruct (rv_open l H) as [r ->]. reflexivity.
  - discriminate.
  - reflexivity.
Qed.

Lemma first_byte_nil s : first_byte s = None <-> s = [].
Proof. destruct s; split; intro H; try reflexivity; discriminate. Qed.

Lemma rv_lc l : wf_toks l false = true -> lc (rv l false) = lc (untok l).
Proof.
  destruct l as [|t l]; [reflexivity|]. destruct t as [| |b]; cbn [wf_toks rv negb andb].
  - intro H. destruct (rv_open l H) as [r ->]. reflexivity.
  - discriminate.
  - intro H. apply andb_true_iff in H as [_ H]. pose proof (rv_first l H) as F.
    change (untok (TB b :: l)) with (b :: untok l).
    destruct (rv l false) as [|x r]; destruct (untok l) as [|y r']; try reflexivity; discriminate.
Qed.

Lemma redact_first s : cls s -> first_byte (redact s) = first_byte s.
Proof.
  intro H. apply cls_wf in H. rewrite redact_rv by exact H.
  rewrite rv_first by exact H. now rewrite untok_tokenize.
Qed.

Lemma redact_lc s : cls s -> lc (redact s) = lc s.
Proof.
  intro H. apply cls_wf in H. rewrite redact_rv by exact H.
  rewrite rv_lc by exact H. now rewrite untok_tokenize.
Qed.

Lemma forallb_tl {A} (P : A -> bool) l : forallb P l = true -> forallb P (tl l) = true.
Proof. destruct l; [trivial|]. cbn. intro H. now apply andb_true_iff in H as [_ H]. Qed.

Lemma forallb_rev' {A} (P : A -> bool) l : forallb P (rev l) = forallb P l.
Proof.
  induction l as [|x l IH]; [reflexivity|]. cbn [rev forallb]. rewrite forallb_app, IH. cbn.
  rewrite andb_true_r. apply andb_comm.
Qed.

Lemma vrun_forallb (P : N -> bool) s : forallb P s = true -> forallb P rmred = true ->
  forall p, forallb P (snd p) = true -> forallb P (snd (vrun s p)) = true.
Proof.
  intros Hs Hr. induction s as [|x s IH]; intros p Hp; [exact Hp|].
  cbn [forallb] in Hs. apply andb_true_iff in Hs as [Hx Hs].
  rewrite vrun_cons. apply IH; [exact Hs|]. unfold vstep. destruct p as [r out]. cbn [snd fst] in *.
  destruct r as [[[[|] ?] ?]|]; destruct (step true _ x) as [[[[|] ?] ?]|]; cbn [vout];
    first [exact Hp | now rewrite forallb_app, Hr | now apply forallb_tl, forallb_tl
          | cbn [forallb]; now rewrite Hx].
Qed.

Lemma no_nl_redact f : cls f -> no_nl f = true -> no_nl (redact f) = true.
Proof.
  intros H Hn. rewrite redact_cls by exact H. unfold no_nl. rewrite forallb_rev'.
  unfold vo. apply vrun_forallb; [exact Hn|reflexivity|reflexivity].
Qed.

(* ------------------------------------------------------------------ *)
(* 2. the printer on two related argument lists                        *)
(* ------------------------------------------------------------------ *)
(* arguments other than nested redactable strings: literals and safe arguments
   equal, unsafe arguments of the same line shape *)
Definition prel0 (p1 p2 : piece) : Prop :=
  match p1, p2 with
  | PLit a, PLit b => a = b
  | PSafe a, PSafe b => a = b
  | PUnsafe a, PUnsafe b => shape a = shape b
  | _, _ => False
  end.

Lemma prel0_ok ps1 ps2 : Forall2 prel0 ps1 ps2 -> pieces_ok ps1 /\ pieces_ok ps2.
Proof.
  induction 1 as [|p1 p2 l1 l2 Hp _ [IH1 IH2]]; [split; constructor|].
  split; constructor; try assumption; destruct p1, p2; cbn in Hp; try contradiction; exact I.
Qed.

Lemma piece_rel2 b1 b2 p1 p2 : BRel b1 b2 -> prel0 p1 p2 -> BRel (print_piece b1 p1) (print_piece b2 p2).
Proof.
  intros HB Hp. destruct p1 as [a|a|a|a], p2 as [b|b|b|b]; cbn [prel0] in Hp; try contradiction.
  - subst b. apply piece_rel; [exact HB|exact I].
  - now apply unsafe_rel.
  - subst b. apply piece_rel; [exact HB|exact I].
Qed.

Lemma pieces_rel2 ps1 ps2 : Forall2 prel0 ps1 ps2 -> forall b1 b2, BRel b1 b2 ->
  BRel (fold_left print_piece ps1 b1) (fold_left print_piece ps2 b2).
Proof.
  induction 1 as [|p1 p2 l1 l2 Hp _ IH]; intros b1 b2 HB; [exact HB|].
  cbn [fold_left]. apply IH. now apply piece_rel2.
Qed.

Lemma sprint_pre_rel ps1 ps2 : Forall2 prel0 ps1 ps2 ->
  raw_ok (sprint_pieces ps1) /\ raw_ok (sprint_pieces ps2) /\
  redact (sprint_pieces ps1) = redact (sprint_pieces ps2).
Proof.
  intro H. destruct (prel0_ok _ _ H) as [O1 O2].
  split; [now apply sprint_raw_ok|]. split; [now apply sprint_raw_ok|].
  unfold sprint_pieces, print_pieces. apply take_rel, pieces_rel2; [exact H|].
  apply BRel_refl. repeat split.
Qed.

(* a nested redactable string in last position: the result is the concatenation,
   plus the escape mark when it ends with an invalid rune *)
Lemma sprint_last_eq pre r : pieces_ok pre ->
  sprint_pieces (pre ++ [PRaw r]) =
  (if last_rune_invalid_rev (rev (sprint_pieces pre ++ r))
   then (sprint_pieces pre ++ r) ++ [qmark] else sprint_pieces pre ++ r).
Proof.
  intro Hpre. unfold sprint_pieces, print_pieces. rewrite fold_left_app. cbn [fold_left].
  assert (H0 : Inv true (set_mode buf_empty SafeEscaped)) by (repeat split).
  pose proof (print_pieces_inv true pre _ H0 (pieces_ok_piece_ok _ Hpre)) as Hb.
  set (b := fold_left print_piece pre (set_mode buf_empty SafeEscaped)) in *. clearbody b.
  rewrite (print_raw_eq true b r Hb). rewrite (take_eq true b Hb).
  set (E := escape_from (bvalid b) (bpend b) false). clearbody E.
  unfold buf_take, buf_finalize. cbn [bmode bopen]. unfold escape_to_end. cbn [bmode bopen bvalid bpend].
  unfold whole. cbn [bvalid bpend]. rewrite app_nil_r.
  unfold escape_from. rewrite ?frev_eq. cbn [List.length escape_loop rev app].
  destruct (last_rune_invalid_rev (rev (E ++ r))).
  - cbn [rev]. now rewrite rev_involutive.
  - now rewrite rev_involutive.
Qed.

Lemma cls_sst s : cls s -> exists k d, sst true s = Some (false, k, d).
Proof. intro H. now apply wf_sst, cls_wf. Qed.

Lemma redact_vo_eq a b : cls a -> cls b -> redact a = redact b -> vo a = vo b.
Proof.
  intros Ha Hb H. rewrite !redact_cls in H by assumption.
  apply (f_equal (@rev N)) in H. now rewrite !rev_involutive in H.
Qed.

Lemma sprint_last_rel pre1 pre2 r1 r2 :
  Forall2 prel0 pre1 pre2 -> cls r1 -> cls r2 -> redact r1 = redact r2 ->
  cln (sprint_pieces (pre1 ++ [PRaw r1])) /\ cln (sprint_pieces (pre2 ++ [PRaw r2])) /\
  redact (sprint_pieces (pre1 ++ [PRaw r1])) = redact (sprint_pieces (pre2 ++ [PRaw r2])).
Proof.
  intros Hpre H1 H2 Hr. destruct (prel0_ok _ _ Hpre) as [O1 O2].
  split; [apply sprint_cln, okps_raw_last; assumption|].
  split; [apply sprint_cln, okps_raw_last; assumption|].
  rewrite !sprint_last_eq by assumption.
  destruct (sprint_pre_rel _ _ Hpre) as (R1 & R2 & RE).
  apply raw_ok_cln in R1, R2.
  set (E1 := sprint_pieces pre1) in *. set (E2 := sprint_pieces pre2) in *. clearbody E1 E2.
  assert (C1 : cls (E1 ++ r1)) by (now apply cls_app_cln).
  assert (C2 : cls (E2 ++ r2)) by (now apply cls_app_cln).
  assert (RV : redact (E1 ++ r1) = redact (E2 ++ r2)).
  { rewrite !redact_app_cln by assumption. now rewrite RE, Hr. }
  assert (EL : last_rune_invalid_rev (rev (E1 ++ r1)) = last_rune_invalid_rev (rev (E2 ++ r2))).
  { destruct (cls_sst _ C1) as (k1 & d1 & S1). destruct (cls_sst _ C2) as (k2 & d2 & S2).
    apply (lri_rel (rev (E1 ++ r1)) (rev (E2 ++ r2)) k1 d1 k2 d2 []).
    - now rewrite rs_rev.
    - now rewrite rs_rev.
    - rewrite <- !rvo_vo. now apply redact_vo_eq. }
  rewrite EL. destruct (last_rune_invalid_rev (rev (E2 ++ r2))); [|exact RV].
  rewrite (redact_sep0 (E1 ++ r1) [qmark]), (redact_sep0 (E2 ++ r2) [qmark])
    by (assumption || reflexivity || discriminate). now rewrite RV.
Qed.

(* argument lists of one Print / Printf call of the engine in the two runs *)
Inductive PR : list piece -> list piece -> Prop :=
| PR_plain ps1 ps2 : Forall2 prel0 ps1 ps2 -> PR ps1 ps2
| PR_raw pre1 pre2 r1 r2 : Forall2 prel0 pre1 pre2 -> cls r1 -> cls r2 -> redact r1 = redact r2 ->
    PR (pre1 ++ [PRaw r1]) (pre2 ++ [PRaw r2]).

Lemma sprint_PR ps1 ps2 : PR ps1 ps2 ->
  cln (sprint_pieces ps1) /\ cln (sprint_pieces ps2) /\
  redact (sprint_pieces ps1) = redact (sprint_pieces ps2).
Proof.
  intros [a b H|a b r1 r2 H H1 H2 Hr].
  - destruct (sprint_pre_rel _ _ H) as (R1 & R2 & RE).
    split; [now apply raw_ok_cln|]. split; [now apply raw_ok_cln|exact RE].
  - now apply sprint_last_rel.
Qed.

(* ------------------------------------------------------------------ *)
(* 3. state.Write, line by line                                        *)
(* ------------------------------------------------------------------ *)
Definition fillof (st : fstate) : str :=
  if fs_wantDetail st then rep_str (fs_needNewline st - 1) detail_sep_m1 ++ detail_sep else [nl].

(* a byte other than a newline: the state change does not depend on the byte *)
Definition bstep (st : fstate) : fstate :=
  set_notEmpty (if (negb (Nat.eqb (fs_needNewline st) 0)) && fs_notEmpty st
                then set_needNewline (set_buf st (fs_buf st ++ fillof st)) 0 else st) true.

Definition nlstep (st : fstate) (chunk : str) : fstate :=
  let st1 := set_needNewline (set_buf st (fs_buf st ++ rev chunk)) (S (fs_needNewline st)) in
  if fs_wantDetail st1 then switch_over st1 else st1.

Lemma wl_byte c r st chunk : (c =? nl) = false ->
  write_loop (c :: r) st chunk = write_loop r (bstep st) (c :: chunk).
Proof. intro E. cbn [write_loop]. rewrite E. reflexivity. Qed.

Lemma wl_nl r st chunk : write_loop (nl :: r) st chunk = write_loop r (nlstep st chunk) [].
Proof. reflexivity. Qed.

Fixpoint bsteps (n : nat) (st : fstate) : fstate :=
  match n with O => st | S k => bsteps k (bstep st) end.

Lemma wl_frag f : no_nl f = true -> forall st chunk rest,
  write_loop (f ++ rest) st chunk = write_loop rest (bsteps (List.length f) st) (rev f ++ chunk).
Proof.
  induction f as [|c f IH]; intros Hn st chunk rest; [reflexivity|].
  cbn [no_nl forallb] in Hn. apply andb_true_iff in Hn as [Hc Hn]. apply negb_true_iff in Hc.
  cbn [app]. rewrite wl_byte by exact Hc. rewrite IH by exact Hn.
  cbn [List.length bsteps rev]. now rewrite <- app_assoc.
Qed.

(* closed form: what a fragment of length class [l] does to the state before it is copied *)
Definition fillnow (l : nat) (st : fstate) : bool :=
  negb (Nat.eqb l 0) && negb (Nat.eqb (fs_needNewline st) 0) && (fs_notEmpty st || Nat.leb 2 l).

Definition after_frag (l : nat) (st : fstate) : fstate :=
  mkst (fs_redout st) (fs_plus st) (fs_entries st)
       (fs_buf st ++ (if fillnow l st then fillof st else []))
       (fs_headbuf st) (fs_last st) (fs_hasDetail st) (fs_wantDetail st)
       (if Nat.eqb l 0 then fs_notEmpty st else true)
       (if fillnow l st then 0%nat else fs_needNewline st).

Lemma bstep_idem st : bstep (bstep (bstep st)) = bstep (bstep st).
Proof. destruct st as [ro pl es bf hb ls hd wdt ne nn]. destruct nn, ne; reflexivity. Qed.

Lemma bsteps_idem n st : bsteps n (bstep (bstep st)) = bstep (bstep st).
Proof. induction n as [|n IH]; [reflexivity|]. cbn [bsteps]. now rewrite bstep_idem. Qed.

Lemma bsteps_after f st : bsteps (List.length f) st = after_frag (lc f) st.
Proof.
  destruct f as [|a [|b r]].
  - destruct st as [ro pl es bf hb ls hd wdt ne nn]. unfold after_frag, fillnow. cbn. now rewrite app_nil_r.
  - destruct st as [ro pl es bf hb ls hd wdt ne nn]. unfold after_frag, fillnow, bstep. cbn.
    destruct nn, ne; cbn; rewrite ?app_nil_r; reflexivity.
  - cbn [List.length bsteps]. rewrite bsteps_idem.
    destruct st as [ro pl es bf hb ls hd wdt ne nn]. unfold after_frag, fillnow, bstep. cbn.
    destruct nn, ne; cbn; rewrite ?app_nil_r; reflexivity.
Qed.

Definition line_step (st : fstate) (f : str) : fstate := nlstep (after_frag (lc f) st) (rev f).
Definition last_step (st : fstate) (f : str) : fstate :=
  set_buf (after_frag (lc f) st) (fs_buf (after_frag (lc f) st) ++ f).

Lemma wl_line f w st : no_nl f = true -> write_loop (f ++ nl :: w) st [] = write_loop w (line_step st f) [].
Proof. intro H. rewrite wl_frag by exact H. rewrite wl_nl, bsteps_after, app_nil_r. reflexivity. Qed.

Lemma wl_last f st : no_nl f = true -> write_loop f st [] = last_step st f.
Proof.
  intro H. rewrite <- (app_nil_r f) at 1. rewrite wl_frag by exact H. rewrite bsteps_after, app_nil_r.
  cbn [write_loop]. unfold last_step. now rewrite rev_involutive.
Qed.

Lemma st_write_wl st b : st_write st b = write_loop b st [].
Proof.
  destruct b; [|reflexivity]. destruct st. cbn. now rewrite app_nil_r.
Qed.

(* ---- line shapes ---- *)
Lemma shape_nil : shape [] = [true].
Proof. reflexivity. Qed.

Lemma shape_cons_nl s : shape (nl :: s) = true :: shape s.
Proof. reflexivity. Qed.

Lemma shape_cons x s : (x =? nl) = false -> shape (x :: s) = false :: tl (shape s).
Proof.
  intro E. unfold shape. cbn [split_on]. rewrite E. destruct (split_on_cons nl s) as [l [ls ->]]. reflexivity.
Qed.

Lemma shape_ne s : exists e r, shape s = e :: r.
Proof. unfold shape. destruct (split_on_cons nl s) as [l [ls ->]]. cbn. eauto. Qed.

Fixpoint scat (sa sb : list bool) : list bool :=
  match sa with
  | [] => sb
  | e :: ra =>
    match ra with
    | [] => match sb with [] => [e] | f :: r => (e && f) :: r end
    | _ => e :: scat ra sb
    end
  end.

Lemma shape_app a b : shape (a ++ b) = scat (shape a) (shape b).
Proof.
  induction a as [|x a IH].
  - cbn [app]. rewrite shape_nil. destruct (shape_ne b) as [f [r ->]]. reflexivity.
  - cbn [app]. destruct (x =? nl) eqn:E.
    + apply N.eqb_eq in E. subst x. rewrite !shape_cons_nl, IH.
      destruct (shape_ne a) as [e [r ->]]. reflexivity.
    + rewrite !shape_cons, IH by exact E.
      destruct (shape_ne a) as [e [r ->]]. destruct (shape_ne b) as [f [r' ->]].
      destruct r as [|e2 r2]; reflexivity.
Qed.

Lemma shape_app_congr a1 a2 b1 b2 : shape a1 = shape a2 -> shape b1 = shape b2 ->
  shape (a1 ++ b1) = shape (a2 ++ b2).
Proof. intros Ha Hb. now rewrite !shape_app, Ha, Hb. Qed.

Lemma shape_no_nl f : no_nl f = true -> shape f = [is_empty f].
Proof.
  induction f as [|x f IH]; intro H; [reflexivity|].
  cbn [no_nl forallb] in H. apply andb_true_iff in H as [Hx H]. apply negb_true_iff in Hx.
  rewrite shape_cons by exact Hx. rewrite IH by exact H. reflexivity.
Qed.

Lemma lc_empty f1 f2 : lc f1 = lc f2 -> is_empty f1 = is_empty f2.
Proof. destruct f1 as [|? [|? ?]], f2 as [|? [|? ?]]; cbn; intro H; try discriminate; reflexivity. Qed.

Lemma lc_0 f : lc f = 0%nat -> f = [].
Proof. destruct f as [|? [|? ?]]; cbn; intro H; try discriminate; reflexivity. Qed.

(* ---- the relation between the states of the two runs ---- *)
(* [m] = the buffers hold redactable text (true) / raw text that printEntry will escape (false) *)
Definition SB (m : bool) (a b : str) : Prop :=
  if m then cls a /\ cls b /\ redact a = redact b else shape a = shape b.

Lemma SB_nil m : SB m [] [].
Proof. destruct m; cbn; [split; [exact cls_nil|split; [exact cls_nil|reflexivity]]|reflexivity]. Qed.

Definition ER (e1 e2 : fentry) : Prop :=
  fe_ty e1 = fe_ty e2 /\ fe_red e1 = fe_red e2 /\ fe_elide e1 = fe_elide e2 /\
  fe_stack e1 = fe_stack e2 /\ fe_elided e1 = fe_elided e2 /\ fe_depth e1 = fe_depth e2 /\
  SB (fe_red e1) (fe_head e1) (fe_head e2) /\ SB (fe_red e1) (fe_details e1) (fe_details e2).

Definition WI (st : fstate) : Prop :=
  (fs_needNewline st = 0%nat -> cln (fs_buf st)) /\ (fs_notEmpty st = false -> fs_buf st = []).

Record WS (m : bool) (st1 st2 : fstate) : Prop := mkWS {
  ws_ro1 : fs_redout st1 = true;
  ws_ro2 : fs_redout st2 = true;
  ws_plus : fs_plus st1 = fs_plus st2;
  ws_ent : Forall2 ER (fs_entries st1) (fs_entries st2);
  ws_last : fs_last st1 = fs_last st2;
  ws_hd : fs_hasDetail st1 = fs_hasDetail st2;
  ws_wd : fs_wantDetail st1 = fs_wantDetail st2;
  ws_ne : fs_notEmpty st1 = fs_notEmpty st2;
  ws_nn : fs_needNewline st1 = fs_needNewline st2;
  ws_buf : SB m (fs_buf st1) (fs_buf st2);
  ws_hb : SB m (fs_headbuf st1) (fs_headbuf st2);
  ws_h0 : fs_wantDetail st1 = false -> fs_headbuf st1 = [] /\ fs_headbuf st2 = [];
  ws_iv : m = true -> WI st1 /\ WI st2 }.

(* fragments (pieces of a line) of the strings written in the two runs *)
Definition FQ (m : bool) (last : bool) (f1 f2 : str) : Prop :=
  if m then (if last then cln f1 /\ cln f2 else cls f1 /\ cls f2) /\ redact f1 = redact f2 else True.

Lemma FQ_cls last f1 f2 : FQ true last f1 f2 -> cls f1 /\ cls f2 /\ redact f1 = redact f2.
Proof.
  cbn. intros [H E]. destruct last; destruct H as [H1 H2]; repeat split; try assumption; now apply cln_cls.
Qed.

Lemma fillof_ascii st : ascii (fillof st) = true /\ fillof st <> [].
Proof.
  unfold fillof. destruct (fs_wantDetail st).
  - split; [rewrite ascii_app, ascii_rep_str; reflexivity|].
    intro E. apply app_eq_nil in E as [_ E]. discriminate.
  - split; [reflexivity|discriminate].
Qed.

Lemma fillof_eq st1 st2 : fs_wantDetail st1 = fs_wantDetail st2 -> fs_needNewline st1 = fs_needNewline st2 ->
  fillof st1 = fillof st2.
Proof. unfold fillof. now intros -> ->. Qed.

Lemma frag_buf m last st1 st2 f1 f2 :
  WS m st1 st2 -> no_nl f1 = true -> no_nl f2 = true -> lc f1 = lc f2 -> FQ m last f1 f2 ->
  let a1 := after_frag (lc f1) st1 in let a2 := after_frag (lc f2) st2 in
  SB m (fs_buf a1 ++ f1) (fs_buf a2 ++ f2) /\
  fs_notEmpty a1 = fs_notEmpty a2 /\ fs_needNewline a1 = fs_needNewline a2 /\
  (m = true -> fs_notEmpty a1 = false -> fs_buf a1 ++ f1 = [] /\ fs_buf a2 ++ f2 = []) /\
  (m = true -> last = true -> fs_needNewline a1 = 0%nat -> cln (fs_buf a1 ++ f1) /\ cln (fs_buf a2 ++ f2)).
Proof.
  intros [Hr1 Hr2 Hpl Hent Hls Hhd Hwd Hne Hnn Hb Hhb Hh0 Hiv] N1 N2 Hl HQ. cbv zeta.
  pose proof (fillof_eq st1 st2 Hwd Hnn) as Hfill.
  destruct (fillof_ascii st1) as [Fa Fn]. rewrite <- Hl.
  assert (Efn : fillnow (lc f1) st1 = fillnow (lc f1) st2) by (unfold fillnow; now rewrite Hne, Hnn).
  unfold after_frag. cbn [fs_buf fs_notEmpty fs_needNewline]. rewrite <- Efn, <- Hfill, <- Hne, <- Hnn.
  split; [|split; [reflexivity|split; [reflexivity|]]].
  - (* the buffers *)
    destruct (fillnow (lc f1) st1) eqn:Ef.
    + rewrite <- !app_assoc. destruct m.
      * destruct (FQ_cls _ _ _ HQ) as (C1 & C2 & RE). destruct Hb as (B1 & B2 & BE).
        split; [now apply cls_sep|]. split; [now apply cls_sep|].
        rewrite !redact_sep by assumption. now rewrite BE, RE.
      * cbn in Hb |- *. apply shape_app_congr; [exact Hb|]. apply shape_app_congr; [reflexivity|].
        rewrite !shape_no_nl by assumption. f_equal. now apply lc_empty.
    + rewrite !app_nil_r. destruct m.
      * destruct (FQ_cls _ _ _ HQ) as (C1 & C2 & RE). destruct Hb as (B1 & B2 & BE).
        destruct (Hiv eq_refl) as [[I1 J1] [I2 J2]].
        unfold fillnow in Ef.
        destruct (Nat.eqb (lc f1) 0) eqn:E0.
        { apply Nat.eqb_eq in E0. pose proof E0 as E0'. rewrite Hl in E0'.
          apply lc_0 in E0, E0'. subst f1 f2. rewrite !app_nil_r. repeat split; assumption. }
        destruct (Nat.eqb (fs_needNewline st1) 0) eqn:En.
        { apply Nat.eqb_eq in En. pose proof En as En'. rewrite Hnn in En'.
          specialize (I1 En). specialize (I2 En').
          split; [now apply cls_app_cln|]. split; [now apply cls_app_cln|].
          rewrite !redact_app_cln by assumption. now rewrite BE, RE. }
        cbn [negb andb] in Ef. apply orb_false_iff in Ef as [Ene _].
        pose proof Ene as Ene'. rewrite Hne in Ene'.
        rewrite (J1 Ene), (J2 Ene'). cbn [app]. repeat split; assumption.
      * cbn in Hb |- *. apply shape_app_congr; [exact Hb|].
        rewrite !shape_no_nl by assumption. f_equal. now apply lc_empty.
  - split.
    + (* nothing written yet *)
      intros -> Ene. destruct (Nat.eqb (lc f1) 0) eqn:E0; [|discriminate].
      apply Nat.eqb_eq in E0. pose proof E0 as E0'. rewrite Hl in E0'. apply lc_0 in E0, E0'. subst f1 f2.
      unfold fillnow. cbn [lc Nat.eqb negb andb]. rewrite !app_nil_r.
      destruct (Hiv eq_refl) as [[_ J1] [_ J2]]. split; [now apply J1|apply J2; now rewrite <- Hne].
    + (* end of a write: clean *)
      intros -> -> En. destruct HQ as [[C1 C2] RE]. destruct Hb as (B1 & B2 & BE).
      destruct (Hiv eq_refl) as [[I1 J1] [I2 J2]].
      destruct (fillnow (lc f1) st1) eqn:Ef.
      * rewrite <- !app_assoc. split; now apply cln_sep.
      * rewrite !app_nil_r. pose proof En as En'. rewrite Hnn in En'.
        split; apply cln_app; auto.
Qed.

Lemma line_WS m st1 st2 f1 f2 :
  WS m st1 st2 -> no_nl f1 = true -> no_nl f2 = true -> lc f1 = lc f2 -> FQ m false f1 f2 ->
  WS m (line_step st1 f1) (line_step st2 f2).
Proof.
  intros H N1 N2 Hl HQ.
  destruct (frag_buf m false st1 st2 f1 f2 H N1 N2 Hl HQ) as (HB & Hne' & Hnn' & Hz & _).
  destruct H as [Hr1 Hr2 Hpl Hent Hls Hhd Hwd Hne Hnn Hb Hhb Hh0 Hiv].
  unfold line_step, nlstep. rewrite !rev_involutive.
  unfold after_frag in *. fsimpl. rewrite <- Hwd.
  destruct (fs_wantDetail st1).
  - rewrite <- Hhd. destruct (fs_hasDetail st1).
    + constructor; fsimpl; try assumption; try reflexivity; try discriminate.
      * now rewrite Hnn'.
      * intros ->. split; (split; [discriminate|]); intro E.
        -- exact (proj1 (Hz eq_refl E)).
        -- rewrite <- Hne' in E. exact (proj2 (Hz eq_refl E)).
    + constructor; fsimpl; try assumption; try reflexivity; try discriminate.
      * now rewrite Hnn'.
      * apply SB_nil.
      * intros _. split; (split; [discriminate|reflexivity]).
  - constructor; fsimpl; try assumption; try reflexivity.
    + now rewrite Hnn'.
    + intros ->. split; (split; [discriminate|]); intro E.
      * exact (proj1 (Hz eq_refl E)).
      * rewrite <- Hne' in E. exact (proj2 (Hz eq_refl E)).
Qed.

Lemma last_WS m st1 st2 f1 f2 :
  WS m st1 st2 -> no_nl f1 = true -> no_nl f2 = true -> lc f1 = lc f2 -> FQ m true f1 f2 ->
  WS m (last_step st1 f1) (last_step st2 f2).
Proof.
  intros H N1 N2 Hl HQ.
  destruct (frag_buf m true st1 st2 f1 f2 H N1 N2 Hl HQ) as (HB & Hne' & Hnn' & Hz & Hc).
  destruct H as [Hr1 Hr2 Hpl Hent Hls Hhd Hwd Hne Hnn Hb Hhb Hh0 Hiv].
  unfold last_step. unfold after_frag in *. fsimpl.
  constructor; fsimpl; try assumption; try reflexivity.
  intros ->. split; split; intro E.
  - exact (proj1 (Hc eq_refl eq_refl E)).
  - exact (proj1 (Hz eq_refl E)).
  - rewrite <- Hnn' in E. exact (proj2 (Hc eq_refl eq_refl E)).
  - rewrite <- Hne' in E. exact (proj2 (Hz eq_refl E)).
Qed.

(* two written strings, line by line *)
Inductive LR (m : bool) : str -> str -> Prop :=
| LR_one f1 f2 : no_nl f1 = true -> no_nl f2 = true -> lc f1 = lc f2 -> FQ m true f1 f2 -> LR m f1 f2
| LR_more f1 f2 w1 w2 : no_nl f1 = true -> no_nl f2 = true -> lc f1 = lc f2 -> FQ m false f1 f2 ->
    LR m w1 w2 -> LR m (f1 ++ nl :: w1) (f2 ++ nl :: w2).

Lemma write_loop_LR m w1 w2 : LR m w1 w2 -> forall st1 st2, WS m st1 st2 ->
  WS m (write_loop w1 st1 []) (write_loop w2 st2 []).
Proof.
  induction 1 as [f1 f2 N1 N2 Hl HQ|f1 f2 w1 w2 N1 N2 Hl HQ _ IH]; intros st1 st2 H.
  - rewrite !wl_last by assumption. now apply last_WS.
  - rewrite !wl_line by assumption. apply IH. now apply line_WS.
Qed.

Lemma st_write_LR m w1 w2 st1 st2 : LR m w1 w2 -> WS m st1 st2 -> WS m (st_write st1 w1) (st_write st2 w2).
Proof. intros. rewrite !st_write_wl. now apply write_loop_LR. Qed.

(* ---- decomposition into lines ---- *)
Lemma nl_dec s : no_nl s = true \/ exists f w, s = f ++ nl :: w /\ no_nl f = true.
Proof.
  induction s as [|x s IH]; [left; reflexivity|].
  destruct (x =? nl) eqn:E.
  - apply N.eqb_eq in E. subst x. right. exists [], s. split; reflexivity.
  - destruct IH as [IH|(f & w & -> & Hf)].
    + left. cbn [no_nl forallb]. now rewrite E.
    + right. exists (x :: f), w. split; [reflexivity|]. cbn [no_nl forallb]. now rewrite E.
Qed.

Lemma no_nl_app_nl a b : no_nl (a ++ nl :: b) = false.
Proof. unfold no_nl. rewrite forallb_app. cbn. apply andb_false_r. Qed.

Lemma nl_split_unique a : forall a' b b', no_nl a = true -> no_nl a' = true ->
  a ++ nl :: b = a' ++ nl :: b' -> a = a' /\ b = b'.
Proof.
  induction a as [|x a IH]; intros a' b b' Ha Ha' E.
  - destruct a' as [|y a']; cbn [app] in E.
    + injection E as ->. now split.
    + injection E as <- _. cbn in Ha'. discriminate.
  - destruct a' as [|y a']; cbn [app] in E.
    + injection E as -> _. cbn in Ha. discriminate.
    + injection E as -> E. cbn [no_nl forallb] in Ha, Ha'.
      apply andb_true_iff in Ha as [_ Ha]. apply andb_true_iff in Ha' as [_ Ha'].
      destruct (IH a' b b' Ha Ha' E) as [-> ->]. now split.
Qed.

Definition sh3 (s : str) : list nat := List.map lc (split_on nl s).

Lemma split_on_no_nl f : no_nl f = true -> split_on nl f = [f].
Proof.
  induction f as [|x f IH]; intro H; [reflexivity|].
  cbn [no_nl forallb] in H. apply andb_true_iff in H as [Hx H]. apply negb_true_iff in Hx.
  cbn [split_on]. rewrite Hx, IH by exact H. reflexivity.
Qed.

Lemma split_on_line f w : no_nl f = true -> split_on nl (f ++ nl :: w) = f :: split_on nl w.
Proof.
  induction f as [|x f IH]; intro H; [reflexivity|].
  cbn [no_nl forallb] in H. apply andb_true_iff in H as [Hx H]. apply negb_true_iff in Hx.
  cbn [app split_on]. rewrite Hx, IH by exact H. reflexivity.
Qed.

Lemma LR_raw_len n : forall w1 w2, (List.length w1 <= n)%nat -> sh3 w1 = sh3 w2 -> LR false w1 w2.
Proof.
  induction n as [|n IH]; intros w1 w2 Hlen E;
    destruct (nl_dec w1) as [N1|(f1 & w1' & -> & N1)]; destruct (nl_dec w2) as [N2|(f2 & w2' & -> & N2)];
    unfold sh3 in E;
    repeat match type of E with
           | context [split_on nl (?f ++ nl :: ?w)] => rewrite (split_on_line f w) in E by assumption
           | context [split_on nl ?f] => rewrite (split_on_no_nl f) in E by assumption
           end; cbn [List.map] in E.
  all: try (injection E as E; apply LR_one; try assumption; exact I).
  all: try (injection E as _ E; destruct (split_on_cons nl w2') as [l [ls El]]; rewrite El in E; discriminate).
  all: try (injection E as _ E; destruct (split_on_cons nl w1') as [l [ls El]]; rewrite El in E; discriminate).
  - rewrite app_length in Hlen. cbn in Hlen. lia.
  - injection E as E1 E2. apply LR_more; try assumption; [exact I|].
    apply IH; [|exact E2]. rewrite app_length in Hlen. cbn in Hlen. lia.
Qed.

Lemma LR_raw w1 w2 : sh3 w1 = sh3 w2 -> LR false w1 w2.
Proof. apply (LR_raw_len (List.length w1)). apply le_n. Qed.

Lemma cln_split f w : cln (f ++ nl :: w) -> cls f /\ cln w.
Proof.
  unfold cln. rewrite run2_app, run2_cons. intro H.
  destruct (run2 f c0) as [p|] eqn:Ef; [|cbn in H; rewrite run2_None in H; discriminate].
  destruct (step2 (Some p) nl) as [q|] eqn:Eq; [|rewrite run2_None in H; discriminate].
  apply step2_nl in Eq as [Ho ->]. destruct p as [o k]. cbn in Ho. subst o.
  split; [exists k; exact Ef|exact H].
Qed.

Lemma redact_line f w : cls f -> cls w -> redact (f ++ nl :: w) = redact f ++ nl :: redact w.
Proof.
  intros Hf Hw. change (f ++ nl :: w) with (f ++ [nl] ++ w).
  rewrite redact_sep; [reflexivity|exact Hf|reflexivity|discriminate|exact Hw].
Qed.

Lemma LR_red_len n : forall w1 w2, (List.length w1 <= n)%nat ->
  cln w1 -> cln w2 -> redact w1 = redact w2 -> LR true w1 w2.
Proof.
  induction n as [|n IH]; intros w1 w2 Hlen C1 C2 E;
    destruct (nl_dec w1) as [N1|(f1 & w1' & -> & N1)]; destruct (nl_dec w2) as [N2|(f2 & w2' & -> & N2)].
  all: try (apply LR_one; try assumption;
            [rewrite <- (redact_lc w1), <- (redact_lc w2) by (now apply cln_cls); now rewrite E
            |split; [split; assumption|exact E]]).
  all: try (exfalso; destruct (cln_split _ _ C2) as [Cf Cw]; apply cln_cls in Cw;
            rewrite (redact_line f2 w2' Cf Cw) in E;
            pose proof (no_nl_redact w1 (cln_cls _ C1) N1) as Hx; rewrite E, no_nl_app_nl in Hx; discriminate).
  all: try (exfalso; destruct (cln_split _ _ C1) as [Cf Cw]; apply cln_cls in Cw;
            rewrite (redact_line f1 w1' Cf Cw) in E;
            pose proof (no_nl_redact w2 (cln_cls _ C2) N2) as Hx; rewrite <- E, no_nl_app_nl in Hx; discriminate).
  - rewrite app_length in Hlen. cbn in Hlen. lia.
  - destruct (cln_split _ _ C1) as [Cf1 Cw1]. destruct (cln_split _ _ C2) as [Cf2 Cw2].
    rewrite (redact_line f1 w1'), (redact_line f2 w2') in E by (assumption || now apply cln_cls).
    apply nl_split_unique in E as [E1 E2]; try (now apply no_nl_redact).
    apply LR_more; try assumption.
    + rewrite <- (redact_lc f1), <- (redact_lc f2) by assumption. now rewrite E1.
    + split; [split; assumption|exact E1].
    + apply IH; try assumption. rewrite app_length in Hlen. cbn in Hlen. lia.
Qed.

Lemma LR_red w1 w2 : cln w1 -> cln w2 -> redact w1 = redact w2 -> LR true w1 w2.
Proof. apply (LR_red_len (List.length w1)). apply le_n. Qed.

(* safePrinter.Print / Printf in the two runs *)
Lemma sp_print_WS st1 st2 ps1 ps2 : WS true st1 st2 -> PR ps1 ps2 -> WS true (sp_print st1 ps1) (sp_print st2 ps2).
Proof.
  intros H HP. destruct (sprint_PR _ _ HP) as (C1 & C2 & E).
  unfold sp_print. apply st_write_LR; [|exact H]. now apply LR_red.
Qed.

Lemma st_write_raw st1 st2 w1 w2 : WS false st1 st2 -> sh3 w1 = sh3 w2 -> WS false (st_write st1 w1) (st_write st2 w2).
Proof. intros H E. apply st_write_LR; [now apply LR_raw|exact H]. Qed.

(* ------------------------------------------------------------------ *)
(* 4. the per-type parts of formatRecursive in the two runs            *)
(* ------------------------------------------------------------------ *)
Ltac ws_fields :=
  constructor; fsimpl; try assumption; try reflexivity; try discriminate; try apply SB_nil.

Lemma st_detail_WS m st1 st2 : WS m st1 st2 ->
  WS m (fst (st_detail st1)) (fst (st_detail st2)) /\ snd (st_detail st1) = snd (st_detail st2).
Proof.
  intros [Hr1 Hr2 Hpl Hent Hls Hhd Hwd Hne Hnn Hb Hhb Hh0 Hiv]. unfold st_detail.
  destruct st1 as [ro1 pl1 es1 bf1 hb1 ls1 hd1 wd1 ne1 nn1], st2 as [ro2 pl2 es2 bf2 hb2 ls2 hd2 wd2 ne2 nn2].
  fsimpl. subst ro1 ro2 pl2 ls2 hd2 wd2 ne2 nn2.
  destruct wd1; cbn [negb fst snd]; [|split; [ws_fields|reflexivity]].
  split; [|reflexivity].
  assert (HI : m = true -> (nn1 = 0%nat -> cln bf1) /\ (ne1 = false -> bf1 = []) /\
                            (nn1 = 0%nat -> cln bf2) /\ (ne1 = false -> bf2 = [])).
  { intro Em. destruct (Hiv Em) as [[A B] [C D]]. fsimpl. tauto. }
  destruct ne1, hd1; fsimpl; ws_fields; intro Em; destruct (HI Em) as (A & B & C & D);
    unfold WI; fsimpl; repeat split; intros; try discriminate; try reflexivity; try exact cln_nil; auto.
Qed.

Lemma if_detail_WS m st1 st2 k1 k2 : WS m st1 st2 ->
  (forall s1 s2, WS m s1 s2 -> WS m (k1 s1) (k2 s2)) -> WS m (if_detail st1 k1) (if_detail st2 k2).
Proof.
  intros H Hk. unfold if_detail. destruct (st_detail_WS m st1 st2 H) as [H1 H2].
  destruct (st_detail st1) as [a1 d1], (st_detail st2) as [a2 d2]. cbn [fst snd] in *. subst d2.
  destruct d1; auto.
Qed.

Definition noraw (p : piece) : Prop := match p with PRaw _ => False | _ => True end.

Lemma prel0_refl ps : Forall noraw ps -> Forall2 prel0 ps ps.
Proof. induction 1 as [|p ps Hp _ IH]; constructor; [|exact IH]. destruct p; cbn in *; tauto. Qed.

Ltac pr_plain :=
  apply PR_plain; repeat (first [apply Forall2_nil | apply Forall2_cons]; cbn [prel0];
                          try reflexivity; try assumption).

Lemma sp_same st1 st2 ps : WS true st1 st2 -> Forall noraw ps -> WS true (sp_print st1 ps) (sp_print st2 ps).
Proof. intros H Hp. apply sp_print_WS; [exact H|]. apply PR_plain. now apply prel0_refl. Qed.

Ltac sp_same_tac := apply sp_same; [|repeat constructor].

Lemma opaque_details_WS kind d st1 st2 : WS true st1 st2 ->
  WS true (opaque_details kind d st1) (opaque_details kind d st2).
Proof.
  intro H. unfold opaque_details. cbv zeta.
  assert (H2 : WS true (sp_print (sp_print st1 [PLit (nl :: lit kind)])
                               [PLit (nl :: lit "type name: "); PSafe (dt_orig d)])
                       (sp_print (sp_print st2 [PLit (nl :: lit kind)])
                               [PLit (nl :: lit "type name: "); PSafe (dt_orig d)])).
  { sp_same_tac. sp_same_tac. exact H. }
  set (a1 := sp_print (sp_print st1 [PLit (nl :: lit kind)]) _) in *.
  set (a2 := sp_print (sp_print st2 [PLit (nl :: lit kind)]) _) in *. clearbody a1 a2.
  assert (H3 : forall l (n : N) b1 b2, WS true b1 b2 ->
     WS true (snd (fold_left
      (fun (acc : N * fstate) (r : str) =>
         (fst acc + 1,
          sp_print (snd acc) [PLit (nl :: lit "reportable "); PSafe (dec_of_N (fst acc));
                              PLit ([colon; nl]); PSafe r])) l (n, b1)))
             (snd (fold_left
      (fun (acc : N * fstate) (r : str) =>
         (fst acc + 1,
          sp_print (snd acc) [PLit (nl :: lit "reportable "); PSafe (dec_of_N (fst acc));
                              PLit ([colon; nl]); PSafe r])) l (n, b2)))).
  { induction l as [|x l IHl]; intros n b1 b2 Hb; cbn [fold_left]; [exact Hb|].
    cbn [fst snd]. apply IHl. sp_same_tac. exact Hb. }
  specialize (H3 (dt_rep d) 0 a1 a2 H2).
  destruct (dt_full d); [sp_same_tac; exact H3|exact H3].
Qed.

Lemma print_safe_details_WS ds : forall st1 st2 comma, WS true st1 st2 ->
  WS true (print_safe_details st1 ds comma) (print_safe_details st2 ds comma).
Proof.
  induction ds as [|d r IH]; intros st1 st2 comma H; cbn [print_safe_details]; [exact H|].
  apply IH. sp_same_tac. exact H.
Qed.

(* tags of a context: keys and safe values equal, string values of the same shape *)
Definition tagv_rel (v1 v2 : tagval) : Prop :=
  match v1, v2 with
  | TVNil, TVNil => True
  | TVStr a, TVStr b => shape a = shape b
  | TVInt a, TVInt b => shape (dec_of_Z a) = shape (dec_of_Z b)
  | TVSafe a, TVSafe b => a = b
  | _, _ => False
  end.
Definition tag_rel (kv1 kv2 : str * tagval) : Prop := fst kv1 = fst kv2 /\ tagv_rel (snd kv1) (snd kv2).

Lemma tag_redactable_rel kv1 kv2 : tag_rel kv1 kv2 ->
  cls (tag_redactable kv1) /\ cls (tag_redactable kv2) /\ redact (tag_redactable kv1) = redact (tag_redactable kv2).
Proof.
  destruct kv1 as [k1 v1], kv2 as [k2 v2]. intros [Hk Hv]. cbn [fst snd] in *. subst k2.
  unfold tag_redactable.
  assert (HP : Forall2 prel0 (tag_piece_list (k1, v1)) (tag_piece_list (k1, v2))).
  { unfold tag_piece_list. destruct v1, v2; cbn [tagv_rel] in Hv; try contradiction;
      repeat (first [apply Forall2_nil | apply Forall2_cons]; cbn [prel0]; try reflexivity; try assumption). }
  destruct (sprint_pre_rel _ _ HP) as (R1 & R2 & RE).
  split; [now apply cln_cls, raw_ok_cln|]. split; [now apply cln_cls, raw_ok_cln|exact RE].
Qed.

Lemma print_tags_WS tags1 tags2 : Forall2 tag_rel tags1 tags2 -> forall st1 st2 first, WS true st1 st2 ->
  WS true (print_tags st1 tags1 first) (print_tags st2 tags2 first).
Proof.
  induction 1 as [|kv1 kv2 r1 r2 Hkv _ IH]; intros st1 st2 first H; cbn [print_tags]; [exact H|].
  apply IH. destruct (tag_redactable_rel _ _ Hkv) as (C1 & C2 & E).
  apply sp_print_WS; [|exact (PR_raw [] [] _ _ (Forall2_nil _) C1 C2 E)].
  destruct first; [exact H|]. sp_same_tac. exact H.
Qed.

(* result of the per-type part in the two runs *)
Definition BRR (r1 r2 : body_res) : Prop :=
  br_red r1 = br_red r2 /\ br_elide r1 = br_elide r2 /\ br_seen r1 = br_seen r2 /\
  WS (br_red r1) (br_st r1) (br_st r2).

Ltac brr_split :=
  split; [reflexivity|split; [reflexivity|split; [reflexivity|cbn [br_red br_st]]]].

Lemma shape_is_empty a b : shape a = shape b -> is_empty a = is_empty b.
Proof.
  assert (F : forall x s, shape (x :: s) <> [true]).
  { intros x s. destruct (x =? nl) eqn:E.
    - apply N.eqb_eq in E. subst x. rewrite shape_cons_nl. destruct (shape_ne s) as [e [r ->]]. discriminate.
    - rewrite shape_cons by exact E. discriminate. }
  destruct a as [|x a], b as [|y b]; try reflexivity; rewrite shape_nil; intro H.
  - symmetry in H. now apply F in H.
  - now apply F in H.
Qed.

(* wrapper layers: safe fields equal, redactable fields equal after Redact(), unsafe fields of the
   same shape (same length classes of lines for the strings the engine writes itself) *)
Definition wrel (w1 w2 : wlayer) : Prop :=
  match w1, w2 with
  | WStack s1, WStack s2 => s1 = s2
  | WPrefix r1, WPrefix r2 => redact r1 = redact r2
  | WNewMsg r1, WNewMsg r2 => redact r1 = redact r2
  | WHint h1, WHint h2 => sh3 h1 = sh3 h2
  | WDetail h1, WDetail h2 => sh3 h1 = sh3 h2
  | WIssueLink u1 d1, WIssueLink u2 d2 => u1 = u2 /\ d1 = d2
  | WTelemetry k1, WTelemetry k2 => k1 = k2
  | WDomain d1, WDomain d2 => d1 = d2
  | WContext t1 _, WContext t2 _ => Forall2 tag_rel t1 t2
  | WAssert, WAssert => True
  | WMark m1, WMark m2 =>
    em_types m1 = em_types m2 /\ shape (go_quote (em_msg m1)) = shape (go_quote (em_msg m2))
  | WSafeDetails d1, WSafeDetails d2 => d1 = d2
  | WHTTP c1, WHTTP c2 => shape (dec_of_Z c1) = shape (dec_of_Z c2)
  | WGrpc c1, WGrpc c2 => c1 = c2
  | WFmtWrap _, WFmtWrap _ => True
  | WPkgMsg _, WPkgMsg _ => True
  | WPkgStack s1, WPkgStack s2 => s1 = s2
  | WPathError o1 p1, WPathError o2 p2 => o1 = o2 /\ shape p1 = shape p2
  | WLinkError o1 a1 b1, WLinkError o2 a2 b2 => o1 = o2 /\ shape a1 = shape a2 /\ shape b1 = shape b2
  | WSyscallError s1, WSyscallError s2 => s1 = s2
  | WOpError o1 n1 s1 a1, WOpError o2 n2 s2 a2 =>
    o1 = o2 /\ n1 = n2 /\ shape s1 = shape s2 /\ shape a1 = shape a2
  | WUser u1 _ _, WUser u2 _ _ => u1 = u2
  | _, _ => False
  end.

Lemma wrap_body_rel w1 w2 st1 st2 :
  (forall m, WS m st1 st2) -> wrel w1 w2 -> wfield_ok w1 -> wfield_ok w2 ->
  match wrap_body w1 st1, wrap_body w2 st2 with
  | Some (a1, n1, r1), Some (a2, n2, r2) => n1 = n2 /\ r1 = r2 /\ WS r1 a1 a2
  | None, None => True
  | _, _ => False
  end.
Proof.
  intros H Hw O1 O2.
  destruct w1, w2; cbn [wrel] in Hw; try contradiction; cbn [wrap_body wfield_ok] in *; try exact I.
  - (* WStack *) split; [reflexivity|split; [reflexivity|]].
    apply if_detail_WS; [apply H|]. intros s1 s2 Hs. sp_same_tac. exact Hs.
  - (* WPrefix *) split; [reflexivity|split; [reflexivity|]].
    apply sp_print_WS; [apply H|]. apply (PR_raw [] []); [constructor|now apply wf_cls|now apply wf_cls|exact Hw].
  - (* WNewMsg *) split; [reflexivity|split; [reflexivity|]].
    apply sp_print_WS; [apply H|]. apply (PR_raw [] []); [constructor|now apply wf_cls|now apply wf_cls|exact Hw].
  - (* WHint *) split; [reflexivity|split; [reflexivity|]].
    apply if_detail_WS; [apply H|]. intros s1 s2 Hs. unfold pl_print. now apply st_write_raw.
  - (* WDetail *) split; [reflexivity|split; [reflexivity|]].
    apply if_detail_WS; [apply H|]. intros s1 s2 Hs. unfold pl_print. now apply st_write_raw.
  - (* WIssueLink *) destruct Hw as [-> ->]. split; [reflexivity|split; [reflexivity|]].
    apply if_detail_WS; [apply H|]. intros s1 s2 Hs.
    assert (H1 : WS true (match url0 with [] => s1 | _ => sp_print s1 [PLit (lit "issue: "); PSafe url0] end)
                         (match url0 with [] => s2 | _ => sp_print s2 [PLit (lit "issue: "); PSafe url0] end)).
    { destruct url0; [exact Hs|]. sp_same_tac. exact Hs. }
    destruct det0; [exact H1|]. sp_same_tac. exact H1.
  - (* WTelemetry *) subst. split; [reflexivity|split; [reflexivity|]].
    apply if_detail_WS; [apply H|]. intros s1 s2 Hs. sp_same_tac. exact Hs.
  - (* WDomain *) subst. split; [reflexivity|split; [reflexivity|]].
    apply if_detail_WS; [apply H|]. intros s1 s2 Hs. sp_same_tac. exact Hs.
  - (* WContext *)
    destruct (st_detail_WS true st1 st2 (H true)) as [H1 H2].
    destruct (st_detail st1) as [a1 d1], (st_detail st2) as [a2 d2]. cbn [fst snd] in *. subst d2.
    split; [reflexivity|split; [reflexivity|]].
    destruct Hw as [|kv1 kv2 r1 r2 Hkv Hr].
    + rewrite andb_false_r. exact H1.
    + rewrite andb_true_r. destruct d1; [|exact H1].
      sp_same_tac. apply print_tags_WS; [now constructor|]. sp_same_tac. exact H1.
  - (* WAssert *) split; [reflexivity|split; [reflexivity|]].
    apply if_detail_WS; [apply H|]. intros s1 s2 Hs. sp_same_tac. exact Hs.
  - (* WMark *) destruct Hw as [Et Hs]. rewrite Et. split; [reflexivity|split; [reflexivity|]].
    apply if_detail_WS; [apply H|]. intros s1 s2 Hs'. cbv zeta.
    apply sp_print_WS; [sp_same_tac; exact Hs'|]. pr_plain.
  - (* WSafeDetails *) subst. split; [reflexivity|split; [reflexivity|]].
    apply if_detail_WS; [apply H|]. intros s1 s2 Hs. cbv zeta.
    match goal with |- context [if ?x then _ else _] => destruct x end.
    + now apply print_safe_details_WS.
    + apply print_safe_details_WS. sp_same_tac. exact Hs.
  - (* WHTTP *) split; [reflexivity|split; [reflexivity|]].
    apply if_detail_WS; [apply H|]. intros s1 s2 Hs. apply sp_print_WS; [exact Hs|]. pr_plain.
  - (* WGrpc *) subst. split; [reflexivity|split; [reflexivity|]].
    apply if_detail_WS; [apply H|]. intros s1 s2 Hs. sp_same_tac. exact Hs.
Qed.

(* formatSimple on two (text, cause text) pairs: the extracted prefixes have the same line
   classes and the same elision flag *)
Definition xrel (t1 c1 t2 c2 : str) : Prop :=
  sh3 (fst (extract_prefix t1 c1)) = sh3 (fst (extract_prefix t2 c2)) /\
  snd (extract_prefix t1 c1) = snd (extract_prefix t2 c2).

Lemma format_simple_rel st1 st2 t1 c1 t2 c2 : WS false st1 st2 -> xrel t1 c1 t2 c2 ->
  WS false (fst (format_simple st1 t1 (Some c1))) (fst (format_simple st2 t2 (Some c2))) /\
  snd (format_simple st1 t1 (Some c1)) = snd (format_simple st2 t2 (Some c2)).
Proof.
  intros H [X1 X2]. unfold format_simple.
  destruct (extract_prefix t1 c1) as [p1 m1], (extract_prefix t2 c2) as [p2 m2]. cbn [fst snd] in *.
  subst m2. split; [now apply st_write_raw|reflexivity].
Qed.

Definition fsw (w : wlayer) : bool :=
  match w with WFmtWrap _ | WPkgMsg _ | WPkgStack _ | WUser _ _ _ => true | _ => false end.

Definition wnone (e : err) (w : wlayer) (text : str) (sent : bool) (ct : str) (st : fstate) : body_res :=
  match w with
  | WPkgMsg _ | WPkgStack _ => let '(st1, el) := format_simple st text (Some ct) in mkbody st1 false el false
  | _ => default_body e text sent false false (Some ct) st
  end.

Lemma BRR_fs st1 st2 t1 c1 t2 c2 (b : bool) : WS false st1 st2 -> xrel t1 c1 t2 c2 ->
  BRR (let '(a, el) := format_simple st1 t1 (Some c1) in mkbody a false (el || b) false)
      (let '(a, el) := format_simple st2 t2 (Some c2) in mkbody a false (el || b) false).
Proof.
  intros H X. destruct (format_simple_rel _ _ _ _ _ _ H X) as [A B].
  destruct (format_simple st1 t1 (Some c1)) as [a1 e1], (format_simple st2 t2 (Some c2)) as [a2 e2].
  cbn [fst snd] in *. subst e2. brr_split. exact A.
Qed.

Lemma wrap_none_rel i1 i2 w1 w2 x1 x2 t1 t2 s1 s2 ct1 ct2 st1 st2 :
  (forall m, WS m st1 st2) -> wrel w1 w2 -> wrap_body w1 st1 = None ->
  (fsw w1 = true -> xrel t1 ct1 t2 ct2) ->
  BRR (wnone (Wrap i1 w1 x1) w1 t1 s1 ct1 st1) (wnone (Wrap i2 w2 x2) w2 t2 s2 ct2 st2).
Proof.
  intros H Hw HN HX.
  destruct w1, w2; cbn [wrel] in Hw; try contradiction; cbn [wrap_body] in HN; try discriminate;
    unfold wnone, default_body; cbn [andb fsw] in *.
  - (* WFmtWrap *) apply BRR_fs; [apply H|now apply HX].
  - (* WPkgMsg *) pose proof (BRR_fs st1 st2 t1 ct1 t2 ct2 false (H false) (HX eq_refl)) as B.
    destruct (format_simple st1 t1 (Some ct1)) as [a1 e1], (format_simple st2 t2 (Some ct2)) as [a2 e2].
    now rewrite !orb_false_r in B.
  - (* WPkgStack *) pose proof (BRR_fs st1 st2 t1 ct1 t2 ct2 false (H false) (HX eq_refl)) as B.
    destruct (format_simple st1 t1 (Some ct1)) as [a1 e1], (format_simple st2 t2 (Some ct2)) as [a2 e2].
    now rewrite !orb_false_r in B.
  - (* WPathError *) destruct Hw as [-> Hp]. brr_split.
    apply sp_print_WS; [apply H|]. pr_plain.
  - (* WLinkError *) destruct Hw as (-> & Ha & Hb). brr_split.
    apply sp_print_WS; [apply H|]. pr_plain.
  - (* WSyscallError *) subst. brr_split. sp_same_tac. apply H.
  - (* WOpError *) destruct Hw as (-> & -> & Hs & Ha). brr_split.
    pose proof (shape_is_empty _ _ Hs) as Es. pose proof (shape_is_empty _ _ Ha) as Ea.
    assert (H1 : WS true (sp_print st1 [PSafe op0]) (sp_print st2 [PSafe op0])) by (sp_same_tac; apply H).
    assert (H2 : WS true (match net0 with [] => sp_print st1 [PSafe op0]
                          | _ => sp_print (sp_print st1 [PSafe op0]) [PLit [sp]; PSafe net0] end)
                         (match net0 with [] => sp_print st2 [PSafe op0]
                          | _ => sp_print (sp_print st2 [PSafe op0]) [PLit [sp]; PSafe net0] end)).
    { destruct net0; [exact H1|]. sp_same_tac. exact H1. }
    set (a1 := match net0 with [] => sp_print st1 [PSafe op0] | _ => _ end) in *.
    set (a2 := match net0 with [] => sp_print st2 [PSafe op0] | _ => _ end) in *. clearbody a1 a2.
    assert (H3 : WS true (match src with [] => a1 | _ => sp_print a1 [PLit [sp]; PUnsafe src] end)
                         (match src0 with [] => a2 | _ => sp_print a2 [PLit [sp]; PUnsafe src0] end)).
    { destruct src, src0; try discriminate Es; [exact H2|]. apply sp_print_WS; [exact H2|]. pr_plain. }
    destruct addr, addr0; try discriminate Ea; [exact H3|].
    apply sp_print_WS; [|pr_plain].
    destruct src, src0; try discriminate Es; [exact H3|]. sp_same_tac. exact H3.
  - (* WUser *) apply BRR_fs; [apply H|now apply HX].
Qed.

(* ---- leaves ---- *)
Definition lsent (i : oid) (k : leafk) : bool :=
  own_sentinel (Leaf i k) || mark_is_sentinel (leaf_text k) [own_tmark (Leaf i k)].

Lemma lsent_indep i k : lsent i k = lsent 1%positive k.
Proof. reflexivity. Qed.

(* a foreign leaf: printed safe when it is one of the sentinels of the special-case printer
   (then the texts are equal), else written raw (same line classes) *)
Definition frel (k1 k2 : leafk) : Prop :=
  lsent 1%positive k1 = lsent 1%positive k2 /\
  (if lsent 1%positive k1 then leaf_text k1 = leaf_text k2 else sh3 (leaf_text k1) = sh3 (leaf_text k2)).

Definition lrel (k1 k2 : leafk) : Prop :=
  match k1, k2 with
  | LErrString _, LErrString _ => frel k1 k2
  | LDeadline, LDeadline => True
  | LPkgFund m1 s1, LPkgFund m2 s2 => sh3 m1 = sh3 m2 /\ s1 = s2
  | LErrno n1, LErrno n2 => n1 = n2
  | LOpaqueErrno _ _, LOpaqueErrno _ _ => frel k1 k2
  | LLeafError r1, LLeafError r2 => redact r1 = redact r2
  | LUnimpl m1 u1 d1, LUnimpl m2 u2 d2 => shape m1 = shape m2 /\ u1 = u2 /\ d1 = d2
  | LGrpcStatus _ _, LGrpcStatus _ _ => frel k1 k2
  | LGogoStatus _ _, LGogoStatus _ _ => frel k1 k2
  | LTestError, LTestError => True
  | LFmtWrapNil _, LFmtWrapNil _ => frel k1 k2
  | LUser u1 m1 _ _, LUser u2 m2 _ _ =>
    u1 = u2 /\ match u1 with ULSafeMsg => m1 = m2 | _ => frel k1 k2 end
  | _, _ => False
  end.

Definition lbody (e : err) (k : leafk) (text : str) (sent : bool) (outermost : bool) (st : fstate) : body_res :=
  match k with
  | LLeafError rm => body_safe (sp_print st [PRaw rm]) true
  | LUnimpl m url det =>
    let st1 := sp_print st [PUnsafe m] in
    body_safe (if_detail st1 (fun s =>
      let s1 := sp_print s [PLit (lit "unimplemented")] in
      let s2 := match url with [] => s1 | _ => sp_print s1 [PLit (nl :: lit "issue: "); PSafe url] end in
      match det with [] => s2 | _ => sp_print s2 [PLit (nl :: lit "detail: "); PSafe det] end)) true
  | LPkgFund m stk =>
    if negb outermost then mkbody (set_last (fundamental_format st m stk) stk) false false true
    else let '(st1, el) := format_simple st text None in mkbody st1 false el false
  | _ => default_body e text sent true false None st
  end.

Lemma leaf_fmt i k : ns_fmt (sem (Leaf i k)) =
  format_node (go_type_string (Leaf i k)) None [] (leaf_stack k)
              (lbody (Leaf i k) k (leaf_text k) (lsent i k)).
Proof. reflexivity. Qed.

Lemma set_last_WS m a1 a2 l : WS m a1 a2 -> WS m (set_last a1 l) (set_last a2 l).
Proof. intros [Hr1 Hr2 Hpl Hent Hls Hhd Hwd Hne Hnn Hb Hhb Hh0 Hiv]. ws_fields. Qed.

Lemma default_generic st1 st2 t1 t2 (s1 s2 : bool) :
  (forall m, WS m st1 st2) -> s1 = s2 -> (if s1 then t1 = t2 else sh3 t1 = sh3 t2) ->
  BRR (if s1 then mkbody (sp_print st1 [PSafe t1]) true true false
       else let '(a, el) := format_simple st1 t1 None in mkbody a false (el || false) false)
      (if s2 then mkbody (sp_print st2 [PSafe t2]) true true false
       else let '(a, el) := format_simple st2 t2 None in mkbody a false (el || false) false).
Proof.
  intros H <- Ht. destruct s1.
  - subst t2. brr_split. sp_same_tac. apply H.
  - cbn [format_simple]. brr_split. apply st_write_raw; [apply H|exact Ht].
Qed.

Lemma leaf_body_rel i1 i2 k1 k2 o st1 st2 :
  (forall m, WS m st1 st2) -> lrel k1 k2 ->
  match k1 with LLeafError rm => wf_red rm = true | _ => True end ->
  match k2 with LLeafError rm => wf_red rm = true | _ => True end ->
  BRR (lbody (Leaf i1 k1) k1 (leaf_text k1) (lsent i1 k1) o st1)
      (lbody (Leaf i2 k2) k2 (leaf_text k2) (lsent i2 k2) o st2).
Proof.
  intros H Hk O1 O2. rewrite (lsent_indep i1 k1), (lsent_indep i2 k2).
  destruct k1, k2; cbn [lrel] in Hk; try contradiction; unfold lbody.
  - (* LErrString *) destruct Hk as [E1 E2]. unfold default_body. cbn [andb]. now apply default_generic.
  - (* LDeadline *) unfold default_body. cbn [andb]. apply default_generic; [exact H|reflexivity|reflexivity].
  - (* LPkgFund *) destruct Hk as [Em ->]. destruct (negb o).
    + brr_split. apply set_last_WS. unfold fundamental_format.
      assert (H1 : WS false (st_write st1 msg) (st_write st2 msg0)) by (apply st_write_raw; [apply H|exact Em]).
      rewrite <- (ws_plus _ _ _ (H false)). destruct (fs_plus st1); [|exact H1].
      revert H1. generalize (st_write st1 msg) (st_write st2 msg0).
      induction st0 as [|f r IH]; intros a1 a2 Ha; cbn [fold_left]; [exact Ha|].
      apply IH. apply st_write_raw; [exact Ha|reflexivity].
    + cbn [format_simple leaf_text]. brr_split. apply st_write_raw; [apply H|exact Em].
  - (* LErrno *) subst. unfold default_body. cbn [andb].
    destruct (lsent 1%positive (LErrno n0)); brr_split; sp_same_tac; apply H.
  - (* LOpaqueErrno *) destruct Hk as [E1 E2]. unfold default_body. cbn [andb]. now apply default_generic.
  - (* LLeafError *) unfold body_safe. brr_split. apply sp_print_WS; [apply H|].
    apply (PR_raw [] []); [constructor|now apply wf_cls|now apply wf_cls|exact Hk].
  - (* LUnimpl *) destruct Hk as (Em & -> & ->). unfold body_safe. cbv zeta. brr_split.
    apply if_detail_WS; [apply sp_print_WS; [apply H|pr_plain]|]. intros s1 s2 Hs.
    assert (H1 : WS true (sp_print s1 [PLit (lit "unimplemented")]) (sp_print s2 [PLit (lit "unimplemented")]))
      by (sp_same_tac; exact Hs).
    assert (H2 : WS true (match url0 with [] => sp_print s1 [PLit (lit "unimplemented")]
                          | _ => sp_print (sp_print s1 [PLit (lit "unimplemented")])
                                          [PLit (nl :: lit "issue: "); PSafe url0] end)
                         (match url0 with [] => sp_print s2 [PLit (lit "unimplemented")]
                          | _ => sp_print (sp_print s2 [PLit (lit "unimplemented")])
                                          [PLit (nl :: lit "issue: "); PSafe url0] end)).
    { destruct url0; [exact H1|]. sp_same_tac. exact H1. }
    destruct det0; [exact H2|]. sp_same_tac. exact H2.
  - (* LGrpcStatus *) destruct Hk as [E1 E2]. unfold default_body. cbn [andb]. now apply default_generic.
  - (* LGogoStatus *) destruct Hk as [E1 E2]. unfold default_body. cbn [andb]. now apply default_generic.
  - (* LTestError *) unfold default_body. cbn [andb]. apply default_generic; [exact H|reflexivity|].
    destruct (lsent 1%positive LTestError); reflexivity.
  - (* LFmtWrapNil *) destruct Hk as [E1 E2]. unfold default_body. cbn [andb]. now apply default_generic.
  - (* LUser *) destruct Hk as [<- Hk]. unfold default_body. cbn [andb].
    destruct u; try (apply default_generic; [exact H|exact (proj1 Hk)|exact (proj2 Hk)]).
    subst msg0. cbn [leaf_text].
    destruct (lsent 1%positive (LUser ULSafeMsg msg tagn xs)), (lsent 1%positive (LUser ULSafeMsg msg tagn0 xs0));
      brr_split; sp_same_tac; apply H.
Qed.

(* ------------------------------------------------------------------ *)
(* 5. the skeleton of formatRecursive in the two runs                  *)
(* ------------------------------------------------------------------ *)
Definition PreR (st1 st2 : fstate) : Prop :=
  fs_buf st1 = [] /\ fs_buf st2 = [] /\ fs_redout st1 = true /\ fs_redout st2 = true /\
  fs_plus st1 = fs_plus st2 /\ Forall2 ER (fs_entries st1) (fs_entries st2) /\ fs_last st1 = fs_last st2.

Definition NodeRel (wd : bool) (ns1 ns2 : nsem) : Prop :=
  forall o wdp depth st1 st2, PreR st1 st2 ->
    PreR (fst (ns_fmt ns1 o wd wdp depth st1)) (fst (ns_fmt ns2 o wd wdp depth st2)) /\
    snd (ns_fmt ns1 o wd wdp depth st1) = snd (ns_fmt ns2 o wd wdp depth st2).

Lemma fold_multi_rel wd depth m1 m2 : Forall2 (NodeRel wd) m1 m2 ->
  forall acc1 acc2 : fstate * nat, PreR (fst acc1) (fst acc2) -> snd acc1 = snd acc2 ->
  let f := (fun (acc : fstate * nat) (k : nsem) =>
         let '(s', m) := ns_fmt k false wd true (S depth) (fst acc) in (s', (snd acc + m)%nat)) in
  PreR (fst (fold_left f m1 acc1)) (fst (fold_left f m2 acc2)) /\
  snd (fold_left f m1 acc1) = snd (fold_left f m2 acc2).
Proof.
  cbv zeta. induction 1 as [|k1 k2 l1 l2 Hk _ IH]; intros acc1 acc2 Ha Hn; cbn [fold_left]; [now split|].
  destruct (Hk false true (S depth) (fst acc1) (fst acc2) Ha) as [A B].
  destruct (ns_fmt k1 false wd true (S depth) (fst acc1)) as [a1 n1].
  destruct (ns_fmt k2 false wd true (S depth) (fst acc2)) as [a2 n2]. cbn [fst snd] in A, B.
  apply IH; cbn [fst snd]; [exact A|congruence].
Qed.

Lemma mark_first_ER n : forall es1 es2, Forall2 ER es1 es2 -> Forall2 ER (mark_first n es1) (mark_first n es2).
Proof.
  induction n as [|n IH]; intros es1 es2 H; destruct H as [|e1 e2 r1 r2 He Hr]; cbn [mark_first];
    try constructor; try assumption.
  - destruct He as (A & B & C & D & E & F & G & I). repeat split; assumption.
  - now apply IH.
Qed.

Lemma elide_short_WS m a1 a2 n : WS m a1 a2 -> WS m (elide_short a1 n) (elide_short a2 n).
Proof.
  intros [Hr1 Hr2 Hpl Hent Hls Hhd Hwd Hne Hnn Hb Hhb Hh0 Hiv]. unfold elide_short. ws_fields.
  now apply mark_first_ER.
Qed.

Lemma collect_entry_ER m st1 st2 ty wdp depth : WS m st1 st2 ->
  ER (collect_entry st1 ty m wdp depth) (collect_entry st2 ty m wdp depth).
Proof.
  intros [Hr1 Hr2 Hpl Hent Hls Hhd Hwd Hne Hnn Hb Hhb Hh0 Hiv]. unfold collect_entry.
  rewrite <- Hwd, <- Hhd, Hr1, Hr2.
  destruct (fs_wantDetail st1) eqn:Ew.
  - destruct (fs_hasDetail st1); destruct m; cbn [fe_ty fe_red fe_elide fe_stack fe_elided fe_depth fe_head fe_details];
      repeat split; try assumption; try apply (SB_nil true); try apply (SB_nil false);
      try apply Hb; try apply Hhb.
  - destruct (Hh0 eq_refl) as [-> ->]. change (last_byte []) with (@None N). cbv iota. cbn [app].
    destruct m; cbn [fe_ty fe_red fe_elide fe_stack fe_elided fe_depth fe_head fe_details];
      repeat split; try assumption; try apply (SB_nil true); try apply (SB_nil false); try apply Hb.
Qed.

Lemma format_node_rel wd ty s1 s2 m1 m2 own b1 b2 :
  match s1, s2 with Some a, Some b => NodeRel wd a b | None, None => True | _, _ => False end ->
  Forall2 (NodeRel wd) m1 m2 ->
  (forall o st1 st2, (forall m, WS m st1 st2) -> fs_wantDetail st1 = wd -> BRR (b1 o st1) (b2 o st2)) ->
  forall o wdp depth st1 st2, PreR st1 st2 ->
    PreR (fst (format_node ty s1 m1 own b1 o wd wdp depth st1))
         (fst (format_node ty s2 m2 own b2 o wd wdp depth st2)) /\
    snd (format_node ty s1 m1 own b1 o wd wdp depth st1) =
    snd (format_node ty s2 m2 own b2 o wd wdp depth st2).
Proof.
  intros Hs Hm Hb o wdp depth st1 st2 HP. unfold format_node.
  assert (H1 : PreR (fst (match s1 with Some sc => ns_fmt sc false wd wdp (S depth) st1 | None => (st1, 0%nat) end))
                    (fst (match s2 with Some sc => ns_fmt sc false wd wdp (S depth) st2 | None => (st2, 0%nat) end)) /\
               snd (match s1 with Some sc => ns_fmt sc false wd wdp (S depth) st1 | None => (st1, 0%nat) end) =
               snd (match s2 with Some sc => ns_fmt sc false wd wdp (S depth) st2 | None => (st2, 0%nat) end)).
  { destruct s1, s2; try contradiction; [now apply Hs|split; [exact HP|reflexivity]]. }
  destruct (match s1 with Some sc => ns_fmt sc false wd wdp (S depth) st1 | None => (st1, 0%nat) end) as [a1 n1].
  destruct (match s2 with Some sc => ns_fmt sc false wd wdp (S depth) st2 | None => (st2, 0%nat) end) as [a2 n2].
  cbn [fst snd] in H1. destruct H1 as [H1 En]. subst n2.
  pose proof (fold_multi_rel wd depth m1 m2 Hm (a1, n1) (a2, n1) H1 eq_refl) as H2. cbv zeta in H2.
  destruct (fold_left _ m1 (a1, n1)) as [c1 k1]. destruct (fold_left _ m2 (a2, n1)) as [c2 k2].
  cbn [fst snd] in H2. destruct H2 as [(B1 & B2 & R1 & R2 & Pl & Ent & Ls) Ek]. subst k2. cbv zeta.
  match goal with |- context [b1 o ?s3] => set (t1 := s3) end.
  match goal with |- context [b2 o ?s3] => set (t2 := s3) end.
  assert (H3 : forall m, WS m t1 t2).
  { intro m. subst t1 t2. constructor; fsimpl; try assumption; try reflexivity; try apply SB_nil.
    - rewrite B1, B2. apply SB_nil.
    - intros _. now split.
    - intros _. rewrite B1, B2. split; (split; [intros _; exact cln_nil|reflexivity]). }
  pose proof (Hb o t1 t2 H3 eq_refl) as HB.
  destruct (b1 o t1) as [bst1 bred1 bel1 bseen1]. destruct (b2 o t2) as [bst2 bred2 bel2 bseen2].
  destruct HB as (E1 & E2 & E3 & HW). cbn [br_st br_red br_elide br_seen] in *. subst bred2 bel2 bseen2.
  set (u1 := if bel1 then elide_short bst1 k1 else bst1).
  set (u2 := if bel1 then elide_short bst2 k1 else bst2).
  assert (HU : WS bred1 u1 u2) by (subst u1 u2; destruct bel1; [now apply elide_short_WS|exact HW]).
  pose proof (collect_entry_ER bred1 u1 u2 ty wdp depth HU) as HE.
  destruct HU as [Hr1 Hr2 Hpl Hent Hls Hhd Hwd Hne Hnn Hbf Hhb Hh0 Hiv].
  set (e1 := collect_entry u1 ty bred1 wdp depth) in *. set (e2 := collect_entry u2 ty bred1 wdp depth) in *.
  destruct bseen1.
  - cbn [fst snd]. split; [|reflexivity]. repeat split; fsimpl; try assumption. now constructor.
  - destruct own as [stk|].
    + rewrite <- Hls. destruct (elide_shared (fs_last u1) stk) as [s' el]. cbn [fst snd].
      split; [|reflexivity]. repeat split; fsimpl; try assumption. constructor; [|assumption].
      destruct HE as (A & B & C & D & E & F & G & I).
      repeat split; cbn [fe_ty fe_red fe_elide fe_stack fe_elided fe_depth fe_head fe_details]; assumption.
    + cbn [fst snd]. split; [|reflexivity]. repeat split; fsimpl; try assumption. now constructor.
Qed.

(* ------------------------------------------------------------------ *)
(* 6. final assembly of the short rendering                            *)
(* ------------------------------------------------------------------ *)
Lemma escape_bytes_rel s1 s2 : shape s1 = shape s2 -> redact (escape_bytes s1) = redact (escape_bytes s2).
Proof.
  intro Hs. rewrite !redact_cls by (apply cln_cls, escape_bytes_cln). f_equal.
  assert (R0 : RelO m_start m_start) by (repeat split).
  destruct (esc_open_rel m_start m_start s1 s2 R0 Hs) as (S1 & S2 & Hv & _).
  unfold escape_bytes.
  set (R1 := escape_from m_start s1 true) in *. set (R2 := escape_from m_start s2 true) in *. clearbody R1 R2.
  rewrite !rvo_vo, !rev_app_distr. change (rev m_end) with rend.
  rewrite (rvo_rend (rev R1) K0 false), (rvo_rend (rev R2) K0 false) by (now rewrite rs_rev).
  rewrite <- !rvo_vo. now rewrite Hv.
Qed.

Lemma SB_first a b : SB true a b -> first_byte a = first_byte b.
Proof. intros (Ca & Cb & E). rewrite <- (redact_first a Ca), <- (redact_first b Cb). now rewrite E. Qed.

Lemma SB_empty m a b : SB m a b -> is_empty a = is_empty b.
Proof.
  destruct m; intro H.
  - apply SB_first in H. destruct a, b; try discriminate; reflexivity.
  - now apply shape_is_empty.
Qed.

Definition outb (e : fentry) (b : str) : str := out_bytes true e b.

Lemma outb_rel r1 r2 b1 b2 e1 e2 : fe_red e1 = r1 -> fe_red e2 = r1 -> r2 = r1 -> SB r1 b1 b2 ->
  SB true (outb e1 b1) (outb e2 b2).
Proof.
  intros E1 E2 -> H. unfold outb, out_bytes. cbn [negb orb]. rewrite E1, E2. destruct r1; [exact H|].
  split; [apply cln_cls, escape_bytes_cln|]. split; [apply cln_cls, escape_bytes_cln|].
  now apply escape_bytes_rel.
Qed.

Lemma single_line_rel es1 es2 : Forall2 ER es1 es2 -> forall acc1 acc2, SB true acc1 acc2 ->
  SB true (single_line true es1 acc1) (single_line true es2 acc2).
Proof.
  induction 1 as [|e1 e2 r1 r2 He _ IH]; intros acc1 acc2 Ha; cbn [single_line]; [exact Ha|].
  destruct He as (Ty & Rd & El & Stk & Eld & Dp & Hh & Hd).
  rewrite <- El. destruct (fe_elide e1); [now apply IH|].
  pose proof (SB_empty _ _ _ Hh) as Em.
  pose proof (outb_rel (fe_red e1) (fe_red e1) _ _ e1 e2 eq_refl (eq_sym Rd) eq_refl Hh) as Ho.
  unfold outb in Ho.
  destruct (fe_head e1) as [|x1 h1] eqn:E1, (fe_head e2) as [|x2 h2] eqn:E2; try discriminate Em; [now apply IH|].
  apply IH. pose proof (SB_empty _ _ _ Ha) as Ea.
  destruct acc1 as [|a1 t1], acc2 as [|a2 t2]; try discriminate Ea; [exact Ho|].
  rewrite <- !app_assoc. destruct Ha as (C1 & C2 & E). destruct Ho as (D1 & D2 & F).
  split; [apply cls_sep; try assumption; [reflexivity|discriminate]|].
  split; [apply cls_sep; try assumption; [reflexivity|discriminate]|].
  rewrite !redact_sep by (assumption || reflexivity || discriminate). now rewrite E, F.
Qed.

Lemma PreR_init plus : PreR (st_init true plus) (st_init true plus).
Proof. repeat split. constructor. Qed.

Lemma final_short_rel ns1 ns2 plus : NodeRel false ns1 ns2 ->
  SB true (final_short ns1 true plus) (final_short ns2 true plus).
Proof.
  intro H. unfold final_short.
  destruct (H true false 0%nat _ _ (PreR_init plus)) as [(_ & _ & _ & _ & _ & Ent & _) _].
  destruct (ns_fmt ns1 true false false 0%nat (st_init true plus)) as [a1 n1].
  destruct (ns_fmt ns2 true false false 0%nat (st_init true plus)) as [a2 n2]. cbn [fst] in Ent.
  apply single_line_rel; [exact Ent|apply (SB_nil true)].
Qed.

Lemma nested_v_PR pre ns1 ns2 : Forall noraw pre -> NodeRel false ns1 ns2 -> ns_safemsg ns1 = ns_safemsg ns2 ->
  PR (pre ++ [nested_v ns1]) (pre ++ [nested_v ns2]).
Proof.
  intros Hpre H E. unfold nested_v. rewrite <- E. destruct (ns_safemsg ns1).
  - apply PR_plain. apply prel0_refl. apply Forall_app. split; [exact Hpre|repeat constructor].
  - destruct (final_short_rel ns1 ns2 false H) as (C1 & C2 & R).
    apply PR_raw; try assumption. now apply prel0_refl.
Qed.

(* ------------------------------------------------------------------ *)
(* 7. every node kind                                                  *)
(* ------------------------------------------------------------------ *)
Lemma write_loop_wd b : forall st chunk, fs_wantDetail (write_loop b st chunk) = fs_wantDetail st.
Proof.
  induction b as [|c r IH]; intros st chunk; cbn [write_loop]; [destruct st; reflexivity|].
  destruct (c =? nl); rewrite IH; destruct st as [ro pl es bf hb ls hd wdt ne nn]; fsimpl.
  - destruct wdt; [destruct hd|]; reflexivity.
  - destruct (negb (Nat.eqb nn 0) && ne); reflexivity.
Qed.

Lemma sp_print_wd st ps : fs_wantDetail (sp_print st ps) = fs_wantDetail st.
Proof. unfold sp_print, st_write. destruct (sprint_pieces ps); [reflexivity|apply write_loop_wd]. Qed.

Lemma if_detail_WS_wd m st1 st2 k1 k2 : WS m st1 st2 ->
  (fs_wantDetail st1 = true -> forall s1 s2, WS m s1 s2 -> WS m (k1 s1) (k2 s2)) ->
  WS m (if_detail st1 k1) (if_detail st2 k2).
Proof.
  intros H Hk. unfold if_detail. destruct (st_detail_WS m st1 st2 H) as [H1 H2].
  assert (Ed : snd (st_detail st1) = fs_wantDetail st1).
  { unfold st_detail. destruct (fs_wantDetail st1); reflexivity. }
  destruct (st_detail st1) as [a1 d1], (st_detail st2) as [a2 d2]. cbn [fst snd] in *. subst d2.
  destruct d1; [|exact H1]. apply Hk; [now symmetry|exact H1].
Qed.

Lemma lrel_ty k1 k2 : lrel k1 k2 -> snd (leaf_ty k1) = snd (leaf_ty k2) /\ leaf_stack k1 = leaf_stack k2.
Proof.
  destruct k1, k2; cbn [lrel]; try contradiction; intro H; try (split; reflexivity).
  - destruct H as [_ ->]. split; reflexivity.
  - destruct H as [-> _]. split; reflexivity.
Qed.

Lemma leaf_node_rel wd i1 i2 k1 k2 : lrel k1 k2 ->
  match k1 with LLeafError rm => wf_red rm = true | _ => True end ->
  match k2 with LLeafError rm => wf_red rm = true | _ => True end ->
  NodeRel wd (sem (Leaf i1 k1)) (sem (Leaf i2 k2)).
Proof.
  intros Hk O1 O2. unfold NodeRel. rewrite !leaf_fmt. destruct (lrel_ty _ _ Hk) as [Ty St].
  unfold go_type_string. cbn [go_ty]. rewrite Ty, St.
  apply format_node_rel; [exact I|constructor|]. intros o st1 st2 H _. now apply leaf_body_rel.
Qed.

Lemma wrap_fmt i w c : ns_fmt (sem (Wrap i w c)) =
  format_node (go_type_string (Wrap i w c)) (Some (sem c)) [] (wrap_stack w)
    (fun (_ : bool) st =>
       match wrap_body w st with
       | Some (st1, nn, red) => mkbody st1 red nn false
       | None => wnone (Wrap i w c) w (error_text (Wrap i w c)) (ns_sent (sem (Wrap i w c))) (error_text c) st
       end).
Proof. reflexivity. Qed.

Lemma wrel_ty w1 w2 : wrel w1 w2 -> snd (wrap_ty w1) = snd (wrap_ty w2) /\ wrap_stack w1 = wrap_stack w2.
Proof.
  destruct w1, w2; cbn [wrel]; try contradiction; intro H; try (split; reflexivity); subst; split; reflexivity.
Qed.

Lemma wrap_node_rel wd i1 i2 w1 w2 c1 c2 : wrel w1 w2 -> wfield_ok w1 -> wfield_ok w2 ->
  (fsw w1 = true -> xrel (error_text (Wrap i1 w1 c1)) (error_text c1) (error_text (Wrap i2 w2 c2)) (error_text c2)) ->
  NodeRel wd (sem c1) (sem c2) -> NodeRel wd (sem (Wrap i1 w1 c1)) (sem (Wrap i2 w2 c2)).
Proof.
  intros Hw O1 O2 HX Hc. unfold NodeRel. rewrite !wrap_fmt. destruct (wrel_ty _ _ Hw) as [Ty St].
  unfold go_type_string. cbn [go_ty]. rewrite Ty, St.
  apply format_node_rel; [exact Hc|constructor|]. intros o st1 st2 H _.
  pose proof (wrap_body_rel w1 w2 st1 st2 H Hw O1 O2) as HB.
  destruct (wrap_body w1 st1) as [[[a1 n1] r1]|] eqn:E1; destruct (wrap_body w2 st2) as [[[a2 n2] r2]|];
    try contradiction.
  - destruct HB as (-> & -> & HW). brr_split. exact HW.
  - now apply wrap_none_rel.
Qed.

Definition sec_lit : str := lit "secondary error attachment" ++ [nl].
Definition bar_lit : str := lit "-- cause hidden behind barrier" ++ [nl].

Lemma second_node_rel wd i1 i2 c1 c2 s1 s2 :
  NodeRel wd (sem c1) (sem c2) ->
  (wd = true -> PR [PLit sec_lit; nested_plus_v (sem s1)] [PLit sec_lit; nested_plus_v (sem s2)]) ->
  NodeRel wd (sem (Second i1 c1 s1)) (sem (Second i2 c2 s2)).
Proof.
  intros Hc Hs. unfold NodeRel. cbn [sem ns_fmt].
  apply format_node_rel; [exact Hc|constructor|]. intros o st1 st2 H Ewd. unfold body_safe. brr_split.
  apply if_detail_WS_wd; [apply H|]. intros E a1 a2 Ha. apply sp_print_WS; [exact Ha|]. apply Hs. congruence.
Qed.

Lemma barrier_node_rel wd i1 i2 m1 m2 h1 h2 :
  wf_red m1 = true -> wf_red m2 = true -> redact m1 = redact m2 ->
  (wd = true -> PR [PLit bar_lit; nested_plus_v (sem h1)] [PLit bar_lit; nested_plus_v (sem h2)]) ->
  NodeRel wd (sem (Barrier i1 m1 h1)) (sem (Barrier i2 m2 h2)).
Proof.
  intros W1 W2 Hm Hs. unfold NodeRel. cbn [sem ns_fmt].
  apply format_node_rel; [exact I|constructor|]. intros o st1 st2 H Ewd. unfold body_safe. brr_split.
  apply if_detail_WS_wd.
  - apply sp_print_WS; [apply H|]. apply (PR_raw [] []); [constructor|now apply wf_cls|now apply wf_cls|exact Hm].
  - rewrite sp_print_wd. intros E a1 a2 Ha. apply sp_print_WS; [exact Ha|]. apply Hs. congruence.
Qed.

Lemma Forall2_map' {A B} (P : B -> B -> Prop) (f : A -> B) l1 l2 :
  Forall2 (fun x y => P (f x) (f y)) l1 l2 -> Forall2 P (List.map f l1) (List.map f l2).
Proof. induction 1; cbn [List.map]; constructor; assumption. Qed.

Lemma join_fold_WS scs1 scs2 :
  Forall2 (fun a b => PR [nested_v a] [nested_v b]) scs1 scs2 ->
  forall (f : bool) a1 a2, WS true a1 a2 ->
  let g := (fun (acc : bool * fstate) (sc : nsem) =>
             let s0 := if fst acc then snd acc else sp_print (snd acc) [PUnsafe [nl]] in
             (false, sp_print s0 [nested_v sc])) in
  WS true (snd (fold_left g scs1 (f, a1))) (snd (fold_left g scs2 (f, a2))).
Proof.
  cbv zeta. induction 1 as [|x y l1 l2 Hxy _ IH]; intros f a1 a2 Ha; cbn [fold_left]; [exact Ha|].
  cbn [fst snd]. apply IH. apply sp_print_WS; [|exact Hxy].
  destruct f; [exact Ha|]. sp_same_tac. exact Ha.
Qed.

Definition mkrel (k1 k2 : multik) : Prop :=
  match k1, k2 with
  | MJoin, MJoin | MStdJoin, MStdJoin | MFmtWraps _, MFmtWraps _ => True
  | _, _ => False
  end.

(* a foreign multi-cause error: printed safe when it is a leaf and a sentinel, else written raw *)
Definition msent (e : err) : bool :=
  match e with
  | Multi _ _ cs => (match cs with [] => true | _ => false end) && ns_sent (sem e)
  | _ => false
  end.
Definition mrel (e1 e2 : err) : Prop :=
  msent e1 = msent e2 /\
  (if msent e1 then error_text e1 = error_text e2 else sh3 (error_text e1) = sh3 (error_text e2)).

Lemma default_multi st1 st2 t1 t2 (s1 s2 : bool) :
  (forall m, WS m st1 st2) -> s1 = s2 -> (if s1 then t1 = t2 else sh3 t1 = sh3 t2) ->
  BRR (if s1 then mkbody (sp_print st1 [PSafe t1]) true true false
       else let '(a, el) := format_simple st1 t1 None in mkbody a false (el || true) false)
      (if s2 then mkbody (sp_print st2 [PSafe t2]) true true false
       else let '(a, el) := format_simple st2 t2 None in mkbody a false (el || true) false).
Proof.
  intros H <- Ht. destruct s1.
  - subst t2. brr_split. sp_same_tac. apply H.
  - cbn [format_simple]. brr_split. apply st_write_raw; [apply H|exact Ht].
Qed.

Lemma multi_fmt_std i k cs : k <> MJoin -> ns_fmt (sem (Multi i k cs)) =
  format_node (go_type_string (Multi i k cs)) None (List.map sem cs) None
    (fun (_ : bool) st =>
       default_body (Multi i k cs) (error_text (Multi i k cs)) (ns_sent (sem (Multi i k cs)))
                    (match cs with [] => true | _ => false end) true None st).
Proof. destruct k; [congruence| |]; reflexivity. Qed.

Lemma multi_node_rel wd i1 i2 k1 k2 cs1 cs2 :
  mkrel k1 k2 ->
  Forall2 (fun c1 c2 => NodeRel wd (sem c1) (sem c2)) cs1 cs2 ->
  (k1 = MJoin -> Forall2 (fun c1 c2 => PR [nested_v (sem c1)] [nested_v (sem c2)]) cs1 cs2) ->
  (k1 <> MJoin -> mrel (Multi i1 k1 cs1) (Multi i2 k2 cs2)) ->
  NodeRel wd (sem (Multi i1 k1 cs1)) (sem (Multi i2 k2 cs2)).
Proof.
  intros Hk Hcs Hj Hm.
  assert (Ecs : (match cs1 with [] => true | _ => false end) = (match cs2 with [] => true | _ => false end)).
  { destruct Hcs; reflexivity. }
  apply Forall2_map' in Hcs.
  unfold NodeRel. destruct k1, k2; cbn [mkrel] in Hk; try contradiction.
  - (* MJoin *) cbn [sem ns_fmt].
    apply format_node_rel; [exact I|exact Hcs|]. intros o st1 st2 H _. unfold body_safe. brr_split.
    specialize (Hj eq_refl). apply (Forall2_map' (fun a b => PR [nested_v a] [nested_v b]) sem) in Hj.
    apply join_fold_WS; [exact Hj|apply H].
  - (* MStdJoin *) rewrite !multi_fmt_std by discriminate.
    apply format_node_rel; [exact I|exact Hcs|]. intros o st1 st2 H _.
    destruct (Hm ltac:(discriminate)) as [E1 E2]. unfold msent in E1, E2.
    unfold default_body. rewrite <- Ecs in *. now apply default_multi.
  - (* MFmtWraps *) rewrite !multi_fmt_std by discriminate.
    apply format_node_rel; [exact I|exact Hcs|]. intros o st1 st2 H _.
    destruct (Hm ltac:(discriminate)) as [E1 E2]. unfold msent in E1, E2.
    unfold default_body. rewrite <- Ecs in *. now apply default_multi.
Qed.

Lemma oleaf_node_rel wd i1 i2 m1 m2 d cs1 cs2 :
  shape m1 = shape m2 ->
  Forall2 (fun c1 c2 => NodeRel wd (sem c1) (sem c2)) cs1 cs2 ->
  NodeRel wd (sem (OLeaf i1 m1 d cs1)) (sem (OLeaf i2 m2 d cs2)).
Proof.
  intros Hm Hcs.
  assert (Ety : go_type_string (OLeaf i1 m1 d cs1) = go_type_string (OLeaf i2 m2 d cs2)).
  { destruct Hcs; reflexivity. }
  apply Forall2_map' in Hcs. unfold NodeRel. cbn [sem ns_fmt]. rewrite Ety.
  apply format_node_rel; [exact I|exact Hcs|]. intros o st1 st2 H _. unfold body_safe. cbv zeta. brr_split.
  apply if_detail_WS; [apply sp_print_WS; [apply H|pr_plain]|].
  intros a1 a2 Ha. now apply opaque_details_WS.
Qed.

Lemma owrap_node_rel wd i1 i2 p1 p2 d t1 t2 c1 c2 :
  shape p1 = shape p2 -> is_full_msg t1 = is_full_msg t2 ->
  NodeRel wd (sem c1) (sem c2) ->
  NodeRel wd (sem (OWrap i1 p1 d t1 c1)) (sem (OWrap i2 p2 d t2 c2)).
Proof.
  intros Hp Ht Hc. unfold NodeRel. cbn [sem ns_fmt]. rewrite Ht.
  apply format_node_rel; [exact Hc|constructor|]. intros o st1 st2 H _. unfold body_safe. cbv zeta. brr_split.
  apply if_detail_WS; [|intros a1 a2 Ha; now apply opaque_details_WS].
  pose proof (shape_is_empty _ _ Hp) as Ee.
  destruct p1, p2; try discriminate Ee; [apply H|]. apply sp_print_WS; [apply H|pr_plain].
Qed.

(* ------------------------------------------------------------------ *)
(* 8. the relation on errors, and the theorem for %v                   *)
(* ------------------------------------------------------------------ *)
Definition all2 {A} (P : A -> A -> Prop) : list A -> list A -> Prop :=
  fix go l1 l2 :=
    match l1, l2 with
    | [], [] => True
    | x :: r, y :: s => P x y /\ go r s
    | _, _ => False
    end.

Lemma all2_Forall2 {A} (P : A -> A -> Prop) l1 : forall l2, all2 P l1 l2 <-> Forall2 P l1 l2.
Proof.
  induction l1 as [|x r IH]; intros [|y s]; simpl; split; intro H; try constructor; try contradiction;
    try (inversion H; fail).
  - exact (proj1 H).
  - apply IH, (proj2 H).
  - now inversion H.
  - inversion H; subst. now apply IH.
Qed.

(* [ueq e1 e2]: same shape of tree (object identities irrelevant), same Go types, all safe material
   equal, stored redactable strings equal after Redact(), unsafe strings arbitrary up to their
   line structure:
   - [shape] (which lines are empty) for the strings the engine prints as unsafe ARGUMENTS
     (opaque messages and prefixes, paths, unimplemented-error message, tag values, ...);
   - [sh3] (which lines have 0, 1 or >= 2 bytes) for the strings the engine WRITES itself into its
     buffer (messages of foreign leaves, hints, details): see [ni_short_false_shape] for why;
   - for the foreign wrappers / multi-cause errors whose own part is computed from Error() texts
     (fmt.wrapError, pkg/errors, user types, stdlib join): the computed parts are related ([xrel],
     [mrel]). *)
Fixpoint ueq (e1 e2 : err) {struct e1} : Prop :=
  match e1, e2 with
  | Leaf _ k1, Leaf _ k2 => lrel k1 k2
  | Wrap _ w1 c1, Wrap _ w2 c2 =>
    wrel w1 w2 /\ ueq c1 c2 /\
    (fsw w1 = true -> xrel (error_text e1) (error_text c1) (error_text e2) (error_text c2))
  | Second _ c1 s1, Second _ c2 s2 => ueq c1 c2 /\ ueq s1 s2
  | Barrier _ m1 h1, Barrier _ m2 h2 => redact m1 = redact m2 /\ ueq h1 h2
  | Multi _ k1 cs1, Multi _ k2 cs2 =>
    mkrel k1 k2 /\ all2 ueq cs1 cs2 /\ (k1 <> MJoin -> mrel e1 e2)
  | OLeaf _ m1 d1 cs1, OLeaf _ m2 d2 cs2 => shape m1 = shape m2 /\ d1 = d2 /\ all2 ueq cs1 cs2
  | OWrap _ p1 d1 t1 c1, OWrap _ p2 d2 t2 c2 =>
    shape p1 = shape p2 /\ d1 = d2 /\ is_full_msg t1 = is_full_msg t2 /\ ueq c1 c2
  | _, _ => False
  end.

Lemma Forall_all2 (U R : err -> err -> Prop) (O : err -> Prop) cs1 :
  Forall (fun c1 => forall c2, U c1 c2 -> O c1 -> O c2 -> R c1 c2) cs1 ->
  forall cs2, all2 U cs1 cs2 -> Forall O cs1 -> Forall O cs2 -> Forall2 R cs1 cs2.
Proof.
  induction 1 as [|x r Hx _ IH]; intros [|y s] Hu O1 O2; simpl in Hu; try contradiction; constructor.
  - inversion O1; inversion O2; subst. apply Hx; [exact (proj1 Hu)|assumption|assumption].
  - inversion O1; inversion O2; subst. apply IH; [exact (proj2 Hu)|assumption|assumption].
Qed.

Lemma Forall2_imp {A} (P Q : A -> A -> Prop) l1 l2 :
  (forall a b, P a b -> Q a b) -> Forall2 P l1 l2 -> Forall2 Q l1 l2.
Proof. intros H. induction 1; constructor; auto. Qed.

Lemma lrel_safemsg i1 i2 k1 k2 : lrel k1 k2 -> ns_safemsg (sem (Leaf i1 k1)) = ns_safemsg (sem (Leaf i2 k2)).
Proof.
  cbn [sem ns_safemsg]. destruct k1, k2; cbn [lrel]; try contradiction; try reflexivity.
  intros [<- H]. destruct u; try reflexivity. now subst.
Qed.

Definition SRel (e1 e2 : err) : Prop :=
  NodeRel false (sem e1) (sem e2) /\ ns_safemsg (sem e1) = ns_safemsg (sem e2).

Lemma SRel_PR e1 e2 : SRel e1 e2 -> PR [nested_v (sem e1)] [nested_v (sem e2)].
Proof. intros [H E]. exact (nested_v_PR [] _ _ (Forall_nil _) H E). Qed.

Lemma ueq_short e1 : forall e2, ueq e1 e2 -> sh_ok e1 -> sh_ok e2 -> SRel e1 e2.
Proof.
  induction e1 using err_ind'; intros e2 Hu O1 O2; destruct e2; cbn [ueq] in Hu; try contradiction;
    cbn [sh_ok] in O1, O2.
  - (* Leaf *) split; [now apply leaf_node_rel|now apply lrel_safemsg].
  - (* Wrap *) destruct Hu as (Hw & Hc & HX). destruct O1 as [W1 O1]. destruct O2 as [W2 O2].
    split; [|reflexivity]. apply wrap_node_rel; try assumption. exact (proj1 (IHe1 _ Hc O1 O2)).
  - (* Second *) destruct Hu as (Hc & Hs). split; [|reflexivity].
    apply second_node_rel; [exact (proj1 (IHe1_1 _ Hc O1 O2))|discriminate].
  - (* Barrier *) destruct Hu as (Hm & Hh). split; [|reflexivity].
    apply barrier_node_rel; try assumption. discriminate.
  - (* Multi *) destruct Hu as (Hk & Hcs & Hm). rewrite allP_Forall in O1, O2.
    pose proof (Forall_all2 ueq SRel sh_ok cs H cs0 Hcs O1 O2) as HR.
    split; [|destruct k, k0; cbn [mkrel] in Hk; try contradiction; reflexivity].
    apply multi_node_rel; try assumption.
    + revert HR. apply Forall2_imp. intros a b Hab. exact (proj1 Hab).
    + intros _. revert HR. apply Forall2_imp. intros a b Hab. now apply SRel_PR.
  - (* OLeaf *) destruct Hu as (Hm & <- & Hcs). rewrite allP_Forall in O1, O2.
    pose proof (Forall_all2 ueq SRel sh_ok cs H cs0 Hcs O1 O2) as HR.
    split; [|reflexivity]. apply oleaf_node_rel; [exact Hm|].
    revert HR. apply Forall2_imp. intros a b Hab. exact (proj1 Hab).
  - (* OWrap *) destruct Hu as (Hp & <- & Ht & Hc). split; [|reflexivity].
    apply owrap_node_rel; try assumption. exact (proj1 (IHe1 _ Hc O1 O2)).
Qed.

(* redact.Sprint(err).Redact() does not depend on the content of the unsafe strings *)
Theorem ni_short e1 e2 : ueq e1 e2 -> sh_ok e1 -> sh_ok e2 ->
  redact (fmt_red_short e1) = redact (fmt_red_short e2).
Proof.
  intros Hu O1 O2. unfold fmt_red_short.
  exact (proj2 (proj2 (sprint_PR _ _ (SRel_PR _ _ (ueq_short e1 e2 Hu O1 O2))))).
Qed.

(* ------------------------------------------------------------------ *)
(* 9. %+v: printEntry glues head and details                           *)
(* ------------------------------------------------------------------ *)
Definition need (st : option ast) : nat :=
  match st with Some (false, K1, _) => 1 | Some (false, K2, _) => 2 | _ => 0 end%nat.

Lemma vstep_frame st pre out x : (need st <= List.length pre)%nat ->
  vout st (step true st x) x (pre ++ out) = vout st (step true st x) x pre ++ out /\
  (need (step true st x) <= List.length (vout st (step true st x) x pre))%nat.
Proof.
  intro Hn. destruct st as [[[o k] d]|]; [|split; [reflexivity|cbn; lia]].
  cbn [step]. destruct (x =? 226).
  { destruct o; cbn [vout need List.length app] in *; split; try reflexivity; try lia. }
  destruct k.
  - destruct ((x =? nl) && o); [destruct o; split; try reflexivity; cbn; lia|].
    destruct o; cbn [vout need List.length app]; split; try reflexivity; lia.
  - destruct (x =? 128).
    + destruct o; cbn [vout need List.length app] in *; split; try reflexivity; lia.
    + destruct ((x =? nl) && o); [destruct o; split; try reflexivity; cbn; lia|].
      destruct o; cbn [vout need List.length app]; split; try reflexivity; lia.
  - destruct (x =? 185).
    + destruct o; cbn [orb negb]; [split; [reflexivity|cbn; lia]|].
      cbn [vout need] in *. destruct pre as [|a [|b pre']]; cbn [List.length] in Hn; try lia.
      cbn [app tl]. split; [reflexivity|lia].
    + destruct (x =? 186).
      * destruct o; cbn [vout need List.length app]; split; try reflexivity; try lia.
      * destruct ((x =? nl) && o); [destruct o; split; try reflexivity; cbn; lia|].
        destruct o; cbn [vout need List.length app]; split; try reflexivity; lia.
Qed.

Lemma vrun_frame s : forall st pre out, (need st <= List.length pre)%nat ->
  snd (vrun s (st, pre ++ out)) = snd (vrun s (st, pre)) ++ out.
Proof.
  induction s as [|x s IH]; intros st pre out Hn; [reflexivity|].
  rewrite !vrun_cons. unfold vstep. cbn [fst snd].
  destruct (vstep_frame st pre out x Hn) as [E Hn']. rewrite E. now apply IH.
Qed.

(* an open and a closed run of the same bytes cannot both end closed *)
Lemma no_both r : forall k o1 k1 o2 k2,
  run2 r (Some (true, k)) = Some (o1, k1) -> run2 r (Some (false, k)) = Some (o2, k2) -> o1 = true /\ o2 = false.
Proof.
  induction r as [|x r IH]; intros k o1 k1 o2 k2 H1 H2.
  - injection H1 as <- _. injection H2 as <- _. now split.
  - rewrite run2_cons in H1, H2. cbn [step2] in H1, H2.
    destruct (x =? 226); [exact (IH _ _ _ _ _ H1 H2)|].
    destruct k.
    + rewrite andb_true_r, andb_false_r in *. destruct (x =? nl); [rewrite run2_None in H1; discriminate|].
      exact (IH _ _ _ _ _ H1 H2).
    + destruct (x =? 128); [exact (IH _ _ _ _ _ H1 H2)|].
      rewrite andb_true_r, andb_false_r in *. destruct (x =? nl); [rewrite run2_None in H1; discriminate|].
      exact (IH _ _ _ _ _ H1 H2).
    + destruct (x =? 185); [rewrite run2_None in H1; discriminate|].
      destruct (x =? 186); [rewrite run2_None in H2; discriminate|].
      rewrite andb_true_r, andb_false_r in *. destruct (x =? nl); [rewrite run2_None in H1; discriminate|].
      exact (IH _ _ _ _ _ H1 H2).
Qed.

Definition pend (k : pk) : str := match k with K0 => [] | K1 => [226] | K2 => [128; 226] end.

Lemma need_pend k d : (need (Some (false, k, d)) <= List.length (pend k))%nat.
Proof. destruct k; cbn; lia. Qed.

Lemma vo_K0a s d out : run2 s c0 <> None ->
  snd (vrun s ((Some (false, K0, d) : option ast), out)) = vo s ++ out.
Proof. exact (vo_K0 s d out). Qed.

Lemma vo_cons_K0 x r : (x =? 226) = false -> run2 (x :: r) c0 <> None ->
  vo (x :: r) = vo r ++ [x] /\ run2 r c0 <> None.
Proof.
  intros E H. unfold vo at 1. rewrite vrun_cons. unfold vstep. cbn [fst snd].
  unfold c0 in H. rewrite run2_cons in H. cbn [step2] in H. unfold st0. cbn [step]. rewrite E in *.
  rewrite andb_false_r in *. cbn [vout]. fold c0 in H.
  split; [|exact H]. exact (vo_K0 r false [x] H).
Qed.

(* the view of [d] run from a closed state with pending marker bytes *)
Lemma glue_core d : forall k dd k', run2 d (Some (false, k)) = Some (false, k') -> cls d ->
  snd (vrun d (Some (false, k, dd), pend k)) = vo d ++ pend k.
Proof.
  induction d as [|x r IH]; intros k dd k' Hk Hc; [reflexivity|].
  destruct k.
  - cbn [pend]. rewrite app_nil_r. pose proof (vo_K0 (x :: r) dd [] (cls_alive _ Hc)) as Q.
    rewrite app_nil_r in Q. exact Q.
  - (* pending E2 *)
    rewrite vrun_cons. unfold vstep. cbn [fst snd pend]. rewrite run2_cons in Hk.
    cbn [step step2] in *. destruct (x =? 226) eqn:E226.
    + apply N.eqb_eq in E226. subst x. cbn [vout].
      unfold vo. rewrite vrun_cons. unfold vstep. cbn [fst snd]. unfold st0. cbn [step N.eqb Pos.eqb vout].
      transitivity (snd (vrun r ((Some (false, K1, false) : option ast), [226; 226])));
        [apply vrun_erd; reflexivity|].
      exact (vrun_frame r (Some (false, K1, false)) [226] [226] (le_n 1)).
    + destruct (vo_cons_K0 x r E226 (cls_alive _ Hc)) as [Ev Hr]. rewrite Ev.
      destruct (x =? 128) eqn:E128.
      * apply N.eqb_eq in E128. subst x. cbn [vout].
        assert (Cr : cls r).
        { destruct Hc as [kc Hc]. unfold c0 in Hc. rewrite run2_cons in Hc. exists kc. exact Hc. }
        pose proof (IH K2 dd k' Hk Cr) as Q. cbn [pend] in Q. rewrite <- app_assoc. exact Q.
      * rewrite andb_false_r in *. cbn [vout].
        change [x; 226] with ([x] ++ [226]). rewrite vrun_frame by (cbn; lia).
        f_equal. exact (vo_K0 r false [x] Hr).
  - (* pending E2 80 *)
    rewrite vrun_cons. unfold vstep. cbn [fst snd pend]. rewrite run2_cons in Hk.
    cbn [step step2] in *. destruct (x =? 226) eqn:E226.
    + apply N.eqb_eq in E226. subst x. cbn [vout].
      unfold vo. rewrite vrun_cons. unfold vstep. cbn [fst snd]. unfold st0. cbn [step N.eqb Pos.eqb vout].
      transitivity (snd (vrun r ((Some (false, K1, false) : option ast), [226; 128; 226])));
        [apply vrun_erd; reflexivity|].
      exact (vrun_frame r (Some (false, K1, false)) [226] [128; 226] (le_n 1)).
    + destruct (vo_cons_K0 x r E226 (cls_alive _ Hc)) as [Ev Hr]. rewrite Ev.
      destruct (x =? 185) eqn:E185.
      * exfalso. apply N.eqb_eq in E185. subst x. cbn [negb orb] in Hk.
        destruct Hc as [kc Hc]. unfold c0 in Hc. rewrite run2_cons in Hc. cbn in Hc.
        destruct (no_both r K0 _ _ _ _ Hk Hc) as [Ho _]. discriminate.
      * destruct (x =? 186); [rewrite run2_None in Hk; discriminate|].
        rewrite andb_false_r in *. cbn [vout].
        change [x; 128; 226] with ([x] ++ [128; 226]). rewrite vrun_frame by (cbn; lia).
        f_equal. exact (vo_K0 r false [x] Hr).
Qed.

(* the top of the view of a closed string shows its pending marker bytes *)
Lemma cut_inv1 l : cut 1 l = [226] -> exists r, l = 226 :: r.
Proof.
  destruct l as [|x r]; [discriminate|]. cbn [cut]. destruct (rune_start x); intro H; injection H as ->; eauto.
Qed.

Lemma view_pend h k d : sst true h = Some (false, k, d) -> exists rest, vo h = pend k ++ rest.
Proof.
  intro H. pose proof (rs_rev true h) as S. rewrite H in S.
  pose proof (cut_rvo (rev h) k d S) as C. rewrite <- rvo_vo in C.
  destruct k.
  - exists (vo h). reflexivity.
  - destruct (top_K1 _ _ _ _ S) as [r Er]. specialize (C 1%nat). rewrite Er in C. cbn [cut] in C.
    change (rune_start 226) with true in C. cbv iota in C. symmetry in C.
    destruct (cut_inv1 _ C) as [rest ->]. exists rest. reflexivity.
  - destruct (top_K2 _ _ _ _ S) as [r Er]. specialize (C 2%nat). rewrite Er in C. cbn [cut] in C.
    change (rune_start 128) with false in C. change (rune_start 226) with true in C. cbv iota in C.
    symmetry in C. destruct (vo h) as [|a t]; [discriminate|]. cbn [cut] in C.
    destruct (rune_start a); [discriminate|]. injection C as -> C.
    destruct (cut_inv1 _ C) as [rest ->]. exists rest. reflexivity.
Qed.

Lemma redact_glue h d : cls h -> cls d -> cls (h ++ d) -> redact (h ++ d) = redact h ++ redact d.
Proof.
  intros Hh Hd Hhd. rewrite !redact_cls by assumption.
  destruct Hh as [k Hk]. destruct (sst_of_run2 h false k Hk) as [dd E].
  rewrite (vo_app h d _ _ _ E). destruct (view_pend h k dd E) as [rest Ev].
  destruct Hhd as [k' Hk']. rewrite run2_app, Hk in Hk'.
  assert (Q : snd (vrun d ((Some (false, k, dd) : option ast), vo h)) = vo d ++ vo h).
  { rewrite Ev.
    transitivity (snd (vrun d ((Some (false, k, dd) : option ast), pend k)) ++ rest);
      [exact (vrun_frame d _ (pend k) rest (need_pend k dd))|].
    rewrite app_assoc. f_equal. exact (glue_core d k dd k' Hk' Hd). }
  apply (f_equal (@rev N)) in Q. rewrite rev_app_distr in Q. exact Q.
Qed.

(* ---- closure properties of the relation on redactable strings ---- *)
Lemma SB_refl a : cls a -> SB true a a.
Proof. intro H. repeat split; assumption. Qed.

Lemma SB_sep a1 a2 sep b1 b2 : SB true a1 a2 -> ascii sep = true -> sep <> [] -> SB true b1 b2 ->
  SB true (a1 ++ sep ++ b1) (a2 ++ sep ++ b2).
Proof.
  intros (A1 & A2 & EA) Hs Hn (B1 & B2 & EB).
  split; [now apply cls_sep|]. split; [now apply cls_sep|].
  rewrite !redact_sep by assumption. now rewrite EA, EB.
Qed.

Lemma SB_cln a1 a2 b1 b2 : cln a1 -> cln a2 -> SB true a1 a2 -> SB true b1 b2 -> SB true (a1 ++ b1) (a2 ++ b2).
Proof.
  intros C1 C2 (A1 & A2 & EA) (B1 & B2 & EB).
  split; [now apply cls_app_cln|]. split; [now apply cls_app_cln|].
  rewrite !redact_app_cln by assumption. now rewrite EA, EB.
Qed.

Lemma SB_pre p b1 b2 : ascii p = true -> SB true b1 b2 -> SB true (p ++ b1) (p ++ b2).
Proof.
  intros Hp H. apply SB_cln; try (now apply cln_ascii); [|exact H]. apply SB_refl, cln_cls. now apply cln_ascii.
Qed.

Lemma SB_glue a1 a2 b1 b2 : SB true a1 a2 -> SB true b1 b2 -> cls (a1 ++ b1) -> cls (a2 ++ b2) ->
  SB true (a1 ++ b1) (a2 ++ b2).
Proof.
  intros (A1 & A2 & EA) (B1 & B2 & EB) G1 G2. split; [exact G1|]. split; [exact G2|].
  rewrite !redact_glue by assumption. now rewrite EA, EB.
Qed.

Definition osp (c : N) : str := if c =? nl then [] else [sp].
Lemma osp_ascii c : ascii (osp c) = true.
Proof. unfold osp. destruct (c =? nl); reflexivity. Qed.

Lemma shape_first_nl x a y b : shape (x :: a) = shape (y :: b) -> (x =? nl) = (y =? nl).
Proof.
  intro H. destruct (x =? nl) eqn:Ex, (y =? nl) eqn:Ey; try reflexivity.
  - apply N.eqb_eq in Ex. subst x. rewrite shape_cons_nl, shape_cons in H by exact Ey. discriminate.
  - apply N.eqb_eq in Ey. subst y. rewrite shape_cons_nl, shape_cons in H by exact Ex. discriminate.
Qed.

(* the stack-trace part of printEntry *)
Definition stack_part (e : fentry) : str :=
  match fe_stack e with
  | Some stk =>
    nl :: lit "  -- stack trace:" ++ replace_nl (print_stack stk) detail_sep ++
    (if fe_elided e then detail_sep ++ lit "[...repeated from below...]" else [])
  | None => []
  end.

Lemma stack_part_cases e : EI true e -> stack_part e = [] \/ exists t, stack_part e = [nl] ++ t /\ cls t.
Proof.
  intros [_ He]. unfold stack_part. destruct (fe_stack e) as [stk|] eqn:Es; [|now left]. right.
  destruct (He eq_refl) as [Hst _]. specialize (Hst stk eq_refl).
  eexists. split; [reflexivity|]. apply cls_app_cln; [reflexivity|]. apply cls_rcl.
  - destruct (print_stack_rcl stk Hst K0) as [k' E]. exists k'. rewrite replace_nl_run2. exact E.
  - destruct (fe_elided e); [apply rcl_ascii; reflexivity|exact rcl_nil].
Qed.

Lemma wf_glue e : EI true e -> entry_glue e = true -> fe_red e = true -> cls (fe_head e ++ fe_details e).
Proof. intros _ Hg Hr. unfold entry_glue in Hg. rewrite Hr in Hg. cbn in Hg. now apply wf_cls. Qed.

Definition head_part (e : fentry) : str :=
  match fe_head e with [] => [] | c :: _ => (if c =? nl then [] else [sp]) ++ out_bytes true e (fe_head e) end.
Definition det_part (e : fentry) : str :=
  match fe_details e with
  | [] => []
  | c :: _ => (match fe_head e with [] => if c =? nl then [] else [sp] | _ => [] end) ++ out_bytes true e (fe_details e)
  end.
Lemma print_entry_eq e : print_entry true e = head_part e ++ det_part e ++ stack_part e.
Proof. reflexivity. Qed.

Lemma print_entry_rel e1 e2 : ER e1 e2 -> EI true e1 -> EI true e2 ->
  entry_glue e1 = true -> entry_glue e2 = true -> SB true (print_entry true e1) (print_entry true e2).
Proof.
  intros (Ty & Rd & El & Stk & Eld & Dp & Hh & Hd) I1 I2 G1 G2.
  rewrite !print_entry_eq.
  assert (ES : stack_part e2 = stack_part e1) by (unfold stack_part; now rewrite Stk, Eld).
  rewrite ES, !app_assoc. unfold head_part, det_part.
  assert (HD : SB true
     ((match fe_head e1 with [] => [] | c :: _ => (if c =? nl then [] else [sp]) ++ out_bytes true e1 (fe_head e1) end) ++
      (match fe_details e1 with [] => [] | c :: _ =>
         (match fe_head e1 with [] => if c =? nl then [] else [sp] | _ => [] end) ++ out_bytes true e1 (fe_details e1) end))
     ((match fe_head e2 with [] => [] | c :: _ => (if c =? nl then [] else [sp]) ++ out_bytes true e2 (fe_head e2) end) ++
      (match fe_details e2 with [] => [] | c :: _ =>
         (match fe_head e2 with [] => if c =? nl then [] else [sp] | _ => [] end) ++ out_bytes true e2 (fe_details e2) end))).
  { pose proof (SB_empty _ _ _ Hh) as Eh. pose proof (SB_empty _ _ _ Hd) as Ed.
    unfold out_bytes. cbn [negb orb]. rewrite <- Rd.
    pose proof (wf_glue e1 I1 G1) as W1. pose proof (wf_glue e2 I2 G2) as W2. rewrite <- Rd in W2.
    destruct (fe_red e1).
    - (* redactable entry *)
      specialize (W1 eq_refl). specialize (W2 eq_refl).
      pose proof (SB_first _ _ Hh) as Fh. pose proof (SB_first _ _ Hd) as Fd.
      destruct (fe_head e1) as [|c1 h1], (fe_head e2) as [|c2 h2]; try discriminate Eh;
      destruct (fe_details e1) as [|x1 d1], (fe_details e2) as [|x2 d2]; try discriminate Ed;
        cbn [first_byte] in Fh, Fd; try (injection Fh as <-); try (injection Fd as <-).
      + apply (SB_nil true).
      + cbn [app]. apply (SB_pre (osp x1)); [apply osp_ascii|exact Hd].
      + rewrite !app_nil_r. apply (SB_pre (osp c1)); [apply osp_ascii|exact Hh].
      + cbn [app] in *. rewrite <- !app_assoc.
        apply (SB_pre (osp c1)); [apply osp_ascii|]. now apply SB_glue.
    - (* raw entry: head and details are escaped separately *)
      cbn in Hh, Hd.
      assert (X : forall a b, shape a = shape b -> SB true (escape_bytes a) (escape_bytes b)).
      { intros a b Hab. split; [apply cln_cls, escape_bytes_cln|]. split; [apply cln_cls, escape_bytes_cln|].
        now apply escape_bytes_rel. }
      destruct (fe_head e1) as [|c1 h1], (fe_head e2) as [|c2 h2]; try discriminate Eh;
      destruct (fe_details e1) as [|x1 d1], (fe_details e2) as [|x2 d2]; try discriminate Ed.
      + apply (SB_nil true).
      + cbn [app]. rewrite <- (shape_first_nl _ _ _ _ Hd). apply (SB_pre (osp x1)); [apply osp_ascii|now apply X].
      + rewrite !app_nil_r. rewrite <- (shape_first_nl _ _ _ _ Hh). apply (SB_pre (osp c1)); [apply osp_ascii|now apply X].
      + cbn [app]. rewrite <- (shape_first_nl _ _ _ _ Hh), <- !app_assoc.
        apply (SB_pre (osp c1)); [apply osp_ascii|].
        apply SB_cln; try apply escape_bytes_cln; now apply X. }
  destruct (stack_part_cases e1 I1) as [->|(t & -> & Ct)].
  - now rewrite !app_nil_r.
  - apply SB_sep; [exact HD|reflexivity|discriminate|now apply SB_refl].
Qed.

Lemma wraps_tail_rel es1 es2 : Forall2 ER es1 es2 -> Forall EG es1 -> Forall EG es2 ->
  forall j z1 z2, SB true z1 z2 ->
  exists w1 w2, wraps_lines true es1 j ++ nl :: z1 = nl :: w1 /\
                wraps_lines true es2 j ++ nl :: z2 = nl :: w2 /\ SB true w1 w2.
Proof.
  induction 1 as [|e1 e2 r1 r2 He _ IH]; intros G1 G2 j z1 z2 Hz.
  - exists z1, z2. split; [reflexivity|split; [reflexivity|exact Hz]].
  - inversion G1 as [|? ? [I1 Gl1] G1']; inversion G2 as [|? ? [I2 Gl2] G2']; subst.
    destruct (IH G1' G2' (j + 1) z1 z2 Hz) as (w1 & w2 & E1 & E2 & Hw).
    cbn [wraps_lines]. cbn [app]. rewrite <- !app_assoc, E1, E2.
    eexists. eexists. split; [reflexivity|]. split; [reflexivity|].
    destruct He as (Ty & Rd & El & Stk & Eld & Dp & Hh & Hd). rewrite <- Dp.
    assert (Cp : forall x1 x2, SB true x1 x2 ->
              SB true (indent_for (fe_depth e1) ++ lit "Wraps: (" ++ dec_of_N j ++ lit ")" ++ x1)
                      (indent_for (fe_depth e1) ++ lit "Wraps: (" ++ dec_of_N j ++ lit ")" ++ x2)).
    { intros x1 x2 Hx. apply SB_cln; try apply indent_for_cln; [apply SB_refl, cln_cls, indent_for_cln|].
      apply SB_pre; [reflexivity|]. apply SB_pre; [apply dec_of_N_ascii|]. apply SB_pre; [reflexivity|exact Hx]. }
    apply Cp. apply (SB_sep _ _ [nl]); [|reflexivity|discriminate|exact Hw].
    apply print_entry_rel; try assumption. repeat split; assumption.
Qed.

Lemma types_line_eq es1 es2 : Forall2 ER es1 es2 -> forall j, types_line es1 j = types_line es2 j.
Proof.
  induction 1 as [|e1 e2 r1 r2 He _ IH]; intro j; [reflexivity|]. cbn [types_line].
  destruct He as (Ty & _). now rewrite Ty, IH.
Qed.

Lemma types_line_ascii es : Forall EG es -> forall j, ascii (types_line es j) = true.
Proof.
  induction 1 as [|e r [[_ He] _] _ IH]; intro j; [reflexivity|]. cbn [types_line].
  rewrite !ascii_app, dec_of_N_ascii, IH, (proj2 (He eq_refl)). reflexivity.
Qed.

Lemma format_entries_rel es1 es2 : Forall2 ER es1 es2 -> Forall EG es1 -> Forall EG es2 ->
  SB true (format_entries true es1) (format_entries true es2).
Proof.
  intros H G1 G2. unfold format_entries. destruct H as [|e1 e2 r1 r2 He Hr]; [apply (SB_nil true)|].
  pose proof (Forall2_cons _ _ He Hr) as Hall.
  rewrite <- (types_line_eq _ _ Hall 1).
  assert (Z : SB true (lit "Error types:" ++ types_line (e1 :: r1) 1) (lit "Error types:" ++ types_line (e1 :: r1) 1)).
  { apply SB_refl, cln_cls, cln_ascii. rewrite ascii_app, types_line_ascii by exact G1. reflexivity. }
  inversion G1 as [|? ? [I1 Gl1] G1']; inversion G2 as [|? ? [I2 Gl2] G2']; subst.
  destruct (wraps_tail_rel r1 r2 Hr G1' G2' 2 _ _ Z) as (w1 & w2 & E1 & E2 & Hw).
  change (nl :: lit "(1)" ++ print_entry true e1 ++ wraps_lines true r1 2 ++ nl :: lit "Error types:" ++ types_line (e1 :: r1) 1)
    with ([nl] ++ lit "(1)" ++ print_entry true e1 ++ wraps_lines true r1 2 ++ nl :: lit "Error types:" ++ types_line (e1 :: r1) 1).
  change (nl :: lit "(1)" ++ print_entry true e2 ++ wraps_lines true r2 2 ++ nl :: lit "Error types:" ++ types_line (e1 :: r1) 1)
    with ([nl] ++ lit "(1)" ++ print_entry true e2 ++ wraps_lines true r2 2 ++ nl :: lit "Error types:" ++ types_line (e1 :: r1) 1).
  rewrite E1, E2.
  apply SB_sep; [|reflexivity|discriminate|].
  - apply single_line_rel; [exact Hall|apply (SB_nil true)].
  - apply SB_pre; [reflexivity|]. apply (SB_sep _ _ [nl]); [|reflexivity|discriminate|exact Hw].
    now apply print_entry_rel.
Qed.

Lemma verbose_EG ns : NodeOK true ns -> glue_ns ns = true ->
  Forall EG (fs_entries (fst (ns_fmt ns true true false 0%nat (st_init true true)))).
Proof.
  intros H Hg. unfold glue_ns, verbose_entries_of in Hg.
  assert (HP : Pre true (st_init true true)) by (split; [reflexivity|constructor]).
  specialize (H true false 0%nat _ HP). destruct H as [_ H].
  rewrite forallb_forall in Hg. apply Forall_forall. intros x Hx. split.
  - rewrite Forall_forall in H. now apply H.
  - now apply Hg.
Qed.

Lemma final_verbose_rel ns1 ns2 : NodeRel true ns1 ns2 -> NodeOK true ns1 -> NodeOK true ns2 ->
  glue_ns ns1 = true -> glue_ns ns2 = true -> SB true (final_verbose ns1 true) (final_verbose ns2 true).
Proof.
  intros H O1 O2 G1 G2. unfold final_verbose.
  pose proof (verbose_EG ns1 O1 G1) as E1. pose proof (verbose_EG ns2 O2 G2) as E2.
  destruct (H true false 0%nat _ _ (PreR_init true)) as [(_ & _ & _ & _ & _ & Ent & _) _].
  destruct (ns_fmt ns1 true true false 0%nat (st_init true true)) as [a1 n1].
  destruct (ns_fmt ns2 true true false 0%nat (st_init true true)) as [a2 n2]. cbn [fst] in *.
  now apply format_entries_rel.
Qed.

Lemma nested_plus_v_PR pre ns1 ns2 : Forall noraw pre ->
  NodeRel true ns1 ns2 -> NodeOK true ns1 -> NodeOK true ns2 -> glue_ns ns1 = true -> glue_ns ns2 = true ->
  ns_safemsg ns1 = ns_safemsg ns2 ->
  PR (pre ++ [nested_plus_v ns1]) (pre ++ [nested_plus_v ns2]).
Proof.
  intros Hpre H O1 O2 G1 G2 E. unfold nested_plus_v. rewrite <- E. destruct (ns_safemsg ns1).
  - apply PR_plain. apply prel0_refl. apply Forall_app. split; [exact Hpre|repeat constructor].
  - destruct (final_verbose_rel ns1 ns2 H O1 O2 G1 G2) as (C1 & C2 & R).
    apply PR_raw; try assumption. now apply prel0_refl.
Qed.

Definition VRel (e1 e2 : err) : Prop :=
  NodeRel true (sem e1) (sem e2) /\ ns_safemsg (sem e1) = ns_safemsg (sem e2).

Lemma VRel_PR pre e1 e2 : Forall noraw pre -> VRel e1 e2 -> vb_ok e1 -> vb_ok e2 -> glue_top e1 -> glue_top e2 ->
  PR (pre ++ [nested_plus_v (sem e1)]) (pre ++ [nested_plus_v (sem e2)]).
Proof.
  intros Hpre [H E] O1 O2 G1 G2. apply nested_plus_v_PR; try assumption; now apply verbose_node_ok.
Qed.

Lemma ueq_verbose e1 : forall e2, ueq e1 e2 -> vb_ok e1 -> vb_ok e2 -> VRel e1 e2.
Proof.
  induction e1 using err_ind'; intros e2 Hu O1 O2; destruct e2; cbn [ueq] in Hu; try contradiction;
    cbn [vb_ok] in O1, O2.
  - (* Leaf *) split; [|now apply lrel_safemsg].
    apply leaf_node_rel; [exact Hu|destruct k; trivial|destruct k0; trivial].
  - (* Wrap *) destruct Hu as (Hw & Hc & HX). destruct O1 as (W1 & S1 & O1). destruct O2 as (W2 & S2 & O2).
    split; [|reflexivity]. apply wrap_node_rel; try assumption. exact (proj1 (IHe1 _ Hc O1 O2)).
  - (* Second *) destruct Hu as (Hc & Hs). destruct O1 as (O1 & P1 & G1). destruct O2 as (O2 & P2 & G2).
    split; [|reflexivity]. apply second_node_rel; [exact (proj1 (IHe1_1 _ Hc O1 O2))|]. intros _.
    apply (VRel_PR [PLit sec_lit]); try assumption; [repeat constructor|]. now apply IHe1_2.
  - (* Barrier *) destruct Hu as (Hm & Hh). destruct O1 as (W1 & P1 & G1). destruct O2 as (W2 & P2 & G2).
    split; [|reflexivity]. apply barrier_node_rel; try assumption. intros _.
    apply (VRel_PR [PLit bar_lit]); try assumption; [repeat constructor|]. now apply IHe1.
  - (* Multi *) destruct Hu as (Hk & Hcs & Hm). rewrite allP_Forall in O1, O2.
    pose proof (Forall_all2 ueq VRel vb_ok cs H cs0 Hcs O1 O2) as HR.
    assert (HS : Forall2 SRel cs cs0).
    { apply (Forall_all2 ueq SRel vb_ok cs); try assumption.
      apply Forall_forall. intros c _ c2 Hc V1 V2. apply ueq_short; [exact Hc|now apply vb_sh|now apply vb_sh]. }
    split; [|destruct k, k0; cbn [mkrel] in Hk; try contradiction; reflexivity].
    apply multi_node_rel; try assumption.
    + revert HR. apply Forall2_imp. intros a b Hab. exact (proj1 Hab).
    + intros _. revert HS. apply Forall2_imp. intros a b Hab. now apply SRel_PR.
  - (* OLeaf *) destruct Hu as (Hm & <- & Hcs). rewrite allP_Forall in O1, O2.
    pose proof (Forall_all2 ueq VRel vb_ok cs H cs0 Hcs O1 O2) as HR.
    split; [|reflexivity]. apply oleaf_node_rel; [exact Hm|].
    revert HR. apply Forall2_imp. intros a b Hab. exact (proj1 Hab).
  - (* OWrap *) destruct Hu as (Hp & <- & Ht & Hc). split; [|reflexivity].
    apply owrap_node_rel; try assumption. exact (proj1 (IHe1 _ Hc O1 O2)).
Qed.

(* redact.Sprintf("%+v", err).Redact() does not depend on the content of the unsafe strings *)
Theorem ni_verbose e1 e2 : ueq e1 e2 -> vb_ok e1 -> vb_ok e2 -> glue_top e1 -> glue_top e2 ->
  redact (fmt_red_verbose e1) = redact (fmt_red_verbose e2).
Proof.
  intros Hu O1 O2 G1 G2. unfold fmt_red_verbose.
  exact (proj2 (proj2 (sprint_PR _ _ (VRel_PR [] e1 e2 (Forall_nil _) (ueq_verbose e1 e2 Hu O1 O2) O1 O2 G1 G2)))).
Qed.

(* ------------------------------------------------------------------ *)
(* 10. what is FALSE                                                   *)
(* ------------------------------------------------------------------ *)
(* FINDING (reproduced byte for byte on the Go implementation in /repo): the line shape of an
   unsafe string ([shape], the side condition of [redact_pieces_ni]) is NOT enough for the strings
   that the engine writes itself through state.Write (messages of foreign leaves, hints, details,
   extracted prefixes).  state.Write emits a pending line break only when it sees a SECOND byte
   after the break ("needNewline > 0 && notEmpty", notEmpty being set by the first byte), so when
   the buffer is empty at the break, a line of exactly one byte is glued to what precedes while a
   longer line is not.  What Redact() leaves therefore tells whether such a line of the unsafe
   message has exactly one byte:
     redact.Sprint(errors.New("\na")).Redact()  = "‹×›"
     redact.Sprint(errors.New("\nbc")).Redact() = "\n‹×›"
     %+v of errors.New("x\na"):  "‹×›\n(1) ‹×›‹×›\nError types: ..."
     %+v of errors.New("y\nbc"): "‹×›\n(1) ‹×›\n‹×›\nError types: ..."
   Hence [ueq] uses the length classes of the lines ([sh3]) for those strings. *)
Example ni_short_false_shape :
  let e1 := Leaf 1%positive (LErrString [nl; 97]) in
  let e2 := Leaf 1%positive (LErrString [nl; 98; 99]) in
  shape [nl; 97] = shape [nl; 98; 99] /\ sh_ok e1 /\ sh_ok e2 /\
  redact (fmt_red_short e1) = m_redacted /\ redact (fmt_red_short e2) = nl :: m_redacted.
Proof. vm_compute. repeat split. Qed.

Example ni_verbose_false_shape :
  let e1 := Leaf 1%positive (LErrString [120; nl; 97]) in
  let e2 := Leaf 1%positive (LErrString [121; nl; 98; 99]) in
  shape [120; nl; 97] = shape [121; nl; 98; 99] /\ vb_ok e1 /\ vb_ok e2 /\ glue_top e1 /\ glue_top e2 /\
  redact (fmt_red_short e1) = redact (fmt_red_short e2) /\
  redact (fmt_red_verbose e1) = m_redacted ++ [nl] ++ lit "(1) " ++ m_redacted ++ m_redacted ++ [nl] ++
                                 lit "Error types: (1) *errors.errorString" /\
  redact (fmt_red_verbose e2) = m_redacted ++ [nl] ++ lit "(1) " ++ m_redacted ++ [nl] ++ m_redacted ++ [nl] ++
                                 lit "Error types: (1) *errors.errorString".
Proof. vm_compute. repeat split. Qed.

(* the same through a hint (an unsafe string printed by printer.Print) *)
Example ni_verbose_false_hint :
  let e1 := Wrap 2%positive (WHint [nl; 97]) (Leaf 1%positive (LErrString [109])) in
  let e2 := Wrap 2%positive (WHint [nl; 98; 99]) (Leaf 1%positive (LErrString [109])) in
  shape [nl; 97] = shape [nl; 98; 99] /\ vb_ok e1 /\ vb_ok e2 /\ glue_top e1 /\ glue_top e2 /\
  redact (fmt_red_verbose e1) <> redact (fmt_red_verbose e2).
Proof.
  cbv zeta. split; [reflexivity|]. split; [cbn; tauto|]. split; [cbn; tauto|].
  split; [vm_compute; reflexivity|]. split; [vm_compute; reflexivity|]. vm_compute. discriminate.
Qed.

(* by design: the special-case printer prints a foreign leaf whose message and type are those of a
   well-known sentinel as SAFE, so the content of such a message is kept by Redact() *)
Example sentinel_text_is_kept :
  let e := Leaf 100%positive (LErrString (lit "context canceled")) in
  redact (fmt_red_short e) = lit "context canceled".
Proof. vm_compute. reflexivity. Qed.

(* ------------------------------------------------------------------ *)
(* 11. the semantic clauses of [ueq] in plain terms                    *)
(* ------------------------------------------------------------------ *)
Lemma frel_plain k1 k2 : lsent 1%positive k1 = false -> lsent 1%positive k2 = false ->
  sh3 (leaf_text k1) = sh3 (leaf_text k2) -> frel k1 k2.
Proof. intros E1 E2 H. unfold frel. rewrite E1, E2. now split. Qed.

(* numbers never contain a line break: HTTP codes and integer tag values are unconstrained *)
Lemma dec_digits_no_nl fuel : forall n acc, no_nl acc = true -> no_nl (dec_digits fuel n acc) = true.
Proof.
  induction fuel as [|f IH]; intros n acc H; cbn [dec_digits]; [exact H|].
  assert (Hd : no_nl ((48 + n mod 10) :: acc) = true).
  { cbn [no_nl forallb]. rewrite andb_true_iff. split; [|exact H]. apply negb_true_iff, N.eqb_neq.
    unfold nl. generalize (n mod 10). intro x. lia. }
  destruct (N.eqb (n / 10) 0); [exact Hd|]. now apply IH.
Qed.

Lemma dec_digits_ne fuel : forall n acc, (fuel <> 0%nat \/ acc <> []) -> dec_digits fuel n acc <> [].
Proof.
  induction fuel as [|f IH]; intros n acc H; cbn [dec_digits].
  - destruct H as [H|H]; [congruence|exact H].
  - destruct (N.eqb (n / 10) 0); [discriminate|]. apply IH. right. discriminate.
Qed.

Lemma shape_dec_of_Z z : shape (dec_of_Z z) = [false].
Proof.
  assert (HN : forall n, no_nl (dec_of_N n) = true /\ dec_of_N n <> []).
  { intro n. unfold dec_of_N. split; [now apply dec_digits_no_nl|apply dec_digits_ne; left; discriminate]. }
  assert (H : no_nl (dec_of_Z z) = true /\ dec_of_Z z <> []).
  { destruct z; cbn [dec_of_Z]; [split; [reflexivity|discriminate]|apply HN|].
    destruct (HN (Npos p)) as [A B]. split; [unfold no_nl in *; cbn [forallb]; now rewrite A|discriminate]. }
  destruct H as [A B]. rewrite shape_no_nl by exact A. destruct (dec_of_Z z); [congruence|reflexivity].
Qed.

Lemma wrel_http c1 c2 : wrel (WHTTP c1) (WHTTP c2).
Proof. cbn [wrel]. now rewrite !shape_dec_of_Z. Qed.

Lemma tagv_rel_int a b : tagv_rel (TVInt a) (TVInt b).
Proof. cbn [tagv_rel]. now rewrite !shape_dec_of_Z. Qed.

(* prefix-style foreign wrappers: Error() = msg + ": " + cause text, the extracted prefix is msg *)
Lemma drop_prefix_app a b : drop_prefix a (a ++ b) = Some b.
Proof. induction a as [|x a IH]; [reflexivity|]. cbn. now rewrite N.eqb_refl. Qed.

Lemma drop_suffix_app a t : drop_suffix t (a ++ t) = Some a.
Proof. unfold drop_suffix. rewrite !frev_eq, rev_app_distr, drop_prefix_app, frev_eq. now rewrite rev_involutive. Qed.

Lemma extract_prefix_colon' m t : extract_prefix (m ++ colon_sp ++ t) t = (m, 0).
Proof.
  unfold extract_prefix. rewrite app_assoc, drop_suffix_app.
  destruct (m ++ colon_sp) as [|x r] eqn:E; [destruct m; discriminate|]. rewrite <- E, drop_suffix_app. reflexivity.
Qed.

Lemma extract_prefix_same' t : extract_prefix t t = ([], 0).
Proof. unfold extract_prefix. change t with ([] ++ t) at 2. now rewrite drop_suffix_app. Qed.

Lemma xrel_colon m1 c1 m2 c2 : sh3 m1 = sh3 m2 -> xrel (m1 ++ colon_sp ++ c1) c1 (m2 ++ colon_sp ++ c2) c2.
Proof. intro H. unfold xrel. rewrite !extract_prefix_colon'. now split. Qed.

Lemma xrel_same c1 c2 : xrel c1 c1 c2 c2.
Proof. unfold xrel. rewrite !extract_prefix_same'. now split. Qed.

(* pkg/errors.WithMessage, pkg/errors.WithStack *)
Lemma xrel_pkgmsg i1 i2 m1 m2 c1 c2 : sh3 m1 = sh3 m2 ->
  xrel (error_text (Wrap i1 (WPkgMsg m1) c1)) (error_text c1) (error_text (Wrap i2 (WPkgMsg m2) c2)) (error_text c2).
Proof. intro H. exact (xrel_colon m1 (error_text c1) m2 (error_text c2) H). Qed.

Lemma xrel_pkgstack i1 i2 s1 s2 c1 c2 :
  xrel (error_text (Wrap i1 (WPkgStack s1) c1)) (error_text c1) (error_text (Wrap i2 (WPkgStack s2) c2)) (error_text c2).
Proof. exact (xrel_same (error_text c1) (error_text c2)). Qed.

(* a foreign multi-cause error is never one of the sentinels *)
Lemma existsb_false {A} (f : A -> bool) l : Forall (fun x => f x = false) l -> existsb f l = false.
Proof. induction 1 as [|x l Hx _ IH]; [reflexivity|]. cbn. now rewrite Hx, IH. Qed.

Lemma msent_false i k cs : k <> MJoin -> msent (Multi i k cs) = false.
Proof.
  intro Hk. unfold msent. destruct cs as [|c cs]; [|reflexivity]. cbn [andb].
  destruct k; [congruence|reflexivity|].
  cbn [sem ns_sent List.map existsb]. rewrite orb_false_r.
  unfold mark_is_sentinel. apply existsb_false. unfold sentinel_marks.
  repeat constructor; cbn [fst snd]; apply andb_false_intro2; reflexivity.
Qed.

Lemma mrel_plain i1 i2 k1 k2 cs1 cs2 : k1 <> MJoin -> k2 <> MJoin ->
  sh3 (error_text (Multi i1 k1 cs1)) = sh3 (error_text (Multi i2 k2 cs2)) ->
  mrel (Multi i1 k1 cs1) (Multi i2 k2 cs2).
Proof. intros H1 H2 H. unfold mrel. rewrite !msent_false by assumption. now split. Qed.

(* user-defined wrappers of the harness: prefix style, or Error() = cause text *)
Lemma xrel_user i1 i2 u m1 m2 x1 x2 c1 c2 : u <> UWFull -> sh3 m1 = sh3 m2 ->
  xrel (error_text (Wrap i1 (WUser u m1 x1) c1)) (error_text c1)
       (error_text (Wrap i2 (WUser u m2 x2) c2)) (error_text c2).
Proof.
  intros Hu H. destruct u; try congruence;
    first [exact (xrel_colon m1 (error_text c1) m2 (error_text c2) H)
          |exact (xrel_same (error_text c1) (error_text c2))].
Qed.

(* ------------------------------------------------------------------ *)
(* 12. an instance                                                     *)
(* ------------------------------------------------------------------ *)
Definition ex_d : details := mkdet (lit "pkg/*pkg.T") (lit "pkg/*pkg.T") [] [lit "safe detail"] None.
Definition ex_e1 : err :=
  Wrap 5%positive (WHint (lit "try" ++ [nl] ++ lit "again"))
    (Wrap 4%positive (WPrefix (sprint_pieces [PUnsafe (lit "user alice"); PLit (lit " failed")]))
      (Second 3%positive (Leaf 1%positive (LErrString (lit "disk full")))
                         (OLeaf 2%positive (lit "remote msg") ex_d []))).
Definition ex_e2 : err :=
  Wrap 15%positive (WHint (lit "abc" ++ [nl] ++ lit "zzzzzzzz"))
    (Wrap 14%positive (WPrefix (sprint_pieces [PUnsafe (lit "user bob"); PLit (lit " failed")]))
      (Second 13%positive (Leaf 11%positive (LErrString (lit "no space left")))
                          (OLeaf 12%positive (lit "another remote message") ex_d []))).

Example ex_ueq : ueq ex_e1 ex_e2.
Proof.
  unfold ex_e1, ex_e2. cbn [ueq wrel fsw].
  split; [vm_compute; reflexivity|]. split; [|discriminate].
  split; [vm_compute; reflexivity|]. split; [|discriminate].
  split.
  - cbn [lrel]. unfold frel. split; vm_compute; reflexivity.
  - split; [vm_compute; reflexivity|]. split; [reflexivity|exact I].
Qed.

Example ex_vb : vb_ok ex_e1 /\ vb_ok ex_e2 /\ glue_top ex_e1 /\ glue_top ex_e2.
Proof.
  split; [|split; [|split; vm_compute; reflexivity]].
  - unfold ex_e1. cbn [vb_ok wfield_ok wstack_ok allP fold_right].
    split; [exact I|]. split; [exact I|]. split; [vm_compute; reflexivity|]. split; [exact I|].
    split; [exact I|]. split; [exact I|]. vm_compute. reflexivity.
  - unfold ex_e2. cbn [vb_ok wfield_ok wstack_ok allP fold_right].
    split; [exact I|]. split; [exact I|]. split; [vm_compute; reflexivity|]. split; [exact I|].
    split; [exact I|]. split; [exact I|]. vm_compute. reflexivity.
Qed.

Example ni_example :
  redact (fmt_red_short ex_e1) = redact (fmt_red_short ex_e2) /\
  redact (fmt_red_verbose ex_e1) = redact (fmt_red_verbose ex_e2).
Proof.
  destruct ex_vb as (V1 & V2 & G1 & G2). split.
  - apply ni_short; [exact ex_ueq|now apply vb_sh|now apply vb_sh].
  - now apply ni_verbose; [exact ex_ueq| | | |].
Qed.

(* a second instance, through a join, a barrier, context tags, a path error, pkg/errors layers with
   stack traces, an opaque wrapper, a stdlib join, an HTTP code and a detail *)
Definition ex_stk : stack :=
  [mkframe 7 (lit "main.f") (lit "/src/main.go") 12; mkframe 8 (lit "main.main") (lit "/src/main.go") 30].
Definition ex_mk (m1 m2 p q t o h : str) (c : Z) : err :=
  Multi 20%positive MJoin
    [ Wrap 9%positive (WStack ex_stk)
        (Wrap 8%positive (WContext [(lit "user", TVStr t); (lit "n", TVInt c)] None)
          (Wrap 7%positive (WPathError (lit "open") p)
            (Wrap 6%positive (WPkgMsg m2) (Leaf 5%positive (LPkgFund m1 ex_stk)))));
      Barrier 10%positive (sprint_pieces [PUnsafe q; PLit (lit " masked")])
        (Wrap 4%positive (WFmtWrap (h ++ lit ": " ++ o))
           (OWrap 3%positive o ex_d 0 (Leaf 2%positive (LErrString m1))));
      Multi 11%positive MStdJoin [Leaf 12%positive (LErrString h); Leaf 13%positive (LErrno 13)];
      Wrap 15%positive (WHTTP c)
        (Wrap 14%positive (WDetail h)
           (Leaf 1%positive (LLeafError (sprint_pieces [PSafe (lit "safe "); PUnsafe m2])))) ].
Definition ex_a1 : err :=
  ex_mk (lit "alpha") (lit "beta" ++ [nl] ++ lit "b2") (lit "/home/alice/x") (lit "secret") (lit "alice")
        (lit "op") (lit "hh") 404.
Definition ex_a2 : err :=
  ex_mk (lit "gamma!!") (lit "delta---" ++ [nl] ++ lit "zz") (lit "/root/bob") (lit "other secret") (lit "bobby")
        (lit "oqq") (lit "hint2") 5.

Example ex2_ueq : ueq ex_a1 ex_a2.
Proof.
  unfold ex_a1, ex_a2, ex_mk. cbn [ueq mkrel]. split; [exact I|]. split; [|congruence].
  simpl all2. split; [|split; [|split; [|split; [|exact I]]]].
  - cbn [ueq wrel fsw lrel]. split; [reflexivity|]. split; [|discriminate].
    split; [repeat constructor; vm_compute; reflexivity|]. split; [|discriminate].
    split; [split; [reflexivity|vm_compute; reflexivity]|]. split; [|discriminate].
    split; [exact I|]. split; [split; [vm_compute; reflexivity|reflexivity]|].
    intros _. apply xrel_pkgmsg. vm_compute. reflexivity.
  - cbn [ueq wrel fsw lrel]. split; [vm_compute; reflexivity|].
    split; [exact I|]. split.
    + split; [vm_compute; reflexivity|]. split; [reflexivity|]. split; [reflexivity|].
      unfold frel. split; vm_compute; reflexivity.
    + intros _. unfold xrel. split; vm_compute; reflexivity.
  - cbn [ueq mkrel lrel]. split; [exact I|]. split.
    + simpl all2. split; [unfold frel; split; vm_compute; reflexivity|]. split; [reflexivity|exact I].
    + intros _. apply mrel_plain; try discriminate. vm_compute. reflexivity.
  - cbn [ueq wrel fsw lrel]. split; [vm_compute; reflexivity|]. split; [|discriminate].
    split; [vm_compute; reflexivity|]. split; [|discriminate]. vm_compute. reflexivity.
Qed.

Example ex2_vb : vb_ok ex_a1 /\ vb_ok ex_a2 /\ glue_top ex_a1 /\ glue_top ex_a2.
Proof.
  assert (S : stack_ok ex_stk) by (repeat constructor).
  split; [|split; [|split; vm_compute; reflexivity]].
  - unfold ex_a1, ex_mk. cbn [vb_ok wfield_ok wstack_ok allP fold_right].
    repeat (split; try exact I; try exact S); vm_compute; reflexivity.
  - unfold ex_a2, ex_mk. cbn [vb_ok wfield_ok wstack_ok allP fold_right].
    repeat (split; try exact I; try exact S); vm_compute; reflexivity.
Qed.

Example ni_example2 :
  redact (fmt_red_short ex_a1) = redact (fmt_red_short ex_a2) /\
  redact (fmt_red_verbose ex_a1) = redact (fmt_red_verbose ex_a2).
Proof.
  destruct ex2_vb as (V1 & V2 & G1 & G2). split.
  - apply ni_short; [exact ex2_ueq|now apply vb_sh|now apply vb_sh].
  - now apply ni_verbose; [exact ex2_ueq| | | |].
Qed.

(* why [xrel] is a clause of [ueq]: the own part of a fmt.wrapError is what extractPrefix finds,
   i.e. it depends on whether the message ends with the text of the cause *)
Example xrel_needed :
  let c := Leaf 1%positive (LErrString (lit "x")) in
  let e1 := Wrap 2%positive (WFmtWrap (lit "p: x")) c in
  let e2 := Wrap 2%positive (WFmtWrap (lit "p: y")) c in
  sh3 (lit "p: x") = sh3 (lit "p: y") /\
  redact (fmt_red_short e1) = m_redacted ++ lit ": " ++ m_redacted /\
  redact (fmt_red_short e2) = m_redacted.
Proof. vm_compute. repeat split. Qed.
