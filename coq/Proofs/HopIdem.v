(* From the first hop on, decoding and re-encoding is stable. *)
From Errv Require Import Base.Str Redact.Markers Redact.Buffer Model.Err Model.Sem Model.Details Model.Marks
     Model.Codec Proofs.StrFacts Proofs.FastIs Proofs.CodecFacts Proofs.RoundTrip Proofs.EraseDef.
From Coq Require Import Lia.

(* What a process must know together for its decode-encode-decode to settle:
   - the previous barrier type decodes to the current one, which re-encodes under the current key;
   - syscall.Errno and *errbase.OpaqueErrno decode to each other, depending on the platform
     recorded in the payload: a process that knows one of the two keys but not the other
     still loses the value on the second hop (witnesses [errno_closure_needed_1/2] below). *)
Definition proc_closed (p : proc) : Prop :=
  (knows p k_barrierPrev = true -> knows p k_barrier = true) /\
  knows p k_errno = knows p k_opaqueErrno.

Lemma proc_closed_all_knowing : proc_closed all_knowing.
Proof. split; [intro; reflexivity|reflexivity]. Qed.

Lemma proc_closed_unknowing : proc_closed unknowing.
Proof. split; [intro H; discriminate H|reflexivity]. Qed.

(* ---- induction over wire messages that also descends into nested payloads ---- *)
Definition pl_P (P : enc -> Prop) (pl : option payload) : Prop :=
  match pl with Some (PlEnc m) => P m | _ => True end.

Definition enc_ind2 (P : enc -> Prop)
  (HL : forall msg o f e r pl cs, Forall P cs -> pl_P P pl -> P (ELeaf msg (mkdet o f e r pl) cs))
  (HW : forall c msg o f e r pl mt, P c -> pl_P P pl -> P (EWrap c msg (mkdet o f e r pl) mt)) :
  forall x, P x :=
  fix F (x : enc) : P x :=
    match x with
    | ELeaf msg d cs =>
      match d return P (ELeaf msg d cs) with
      | mkdet o f e r pl =>
        HL msg o f e r pl cs
           ((fix G (l : list enc) : Forall P l :=
               match l with [] => Forall_nil _ | y :: r => Forall_cons _ (F y) (G r) end) cs)
           (match pl return pl_P P pl with
            | Some q => match q return pl_P P (Some q) with PlEnc m => F m | _ => I end
            | None => I
            end)
      end
    | EWrap c msg d mt =>
      match d return P (EWrap c msg d mt) with
      | mkdet o f e r pl =>
        HW c msg o f e r pl mt (F c)
           (match pl return pl_P P pl with
            | Some q => match q return pl_P P (Some q) with PlEnc m => F m | _ => I end
            | None => I
            end)
      end
    end.

(* ---- formerly the one obstruction: an errno payload of a foreign platform ----
   decoded by a process that knows syscall.Errno it becomes an *errbase.OpaqueErrno,
   which re-encodes under its own type key.  That key had no decoder; it has one now
   (k_opaqueErrno), so the side condition below is no longer needed: see [hop_idem'].
   It is kept because the older statements mention it.  [errno_ok p x]: no node of x
   that p would decode with the syscall.Errno decoder carries a foreign-platform payload. *)
Fixpoint errno_ok (p : proc) (x : enc) : bool :=
  match x with
  | ELeaf _ (mkdet _ fam _ _ pl) cs =>
    match pl with
    | Some (PlErrno pe) => negb (str_eqb fam k_errno && knows p fam) || str_eqb (en_arch pe) this_arch
    | Some (PlEnc m) =>
      negb ((str_eqb fam k_barrier || str_eqb fam k_barrierPrev) && knows p fam) || errno_ok p m
    | _ => true
    end && forallb (errno_ok p) cs
  | EWrap c _ (mkdet _ fam _ _ pl) _ =>
    errno_ok p c &&
    match pl with
    | Some (PlEnc m) => negb (str_eqb fam k_withSecondary && knows p fam) || errno_ok p m
    | _ => true
    end
  end.

(* ---- strings ---- *)
Lemma drop_prefix_app a b : drop_prefix a (a ++ b) = Some b.
Proof. induction a as [|x a IH]; cbn; [reflexivity|]. now rewrite N.eqb_refl. Qed.

Lemma drop_suffix_app t a : drop_suffix t (a ++ t) = Some a.
Proof. unfold drop_suffix. rewrite ?frev_eq. rewrite rev_app_distr, drop_prefix_app. now rewrite frev_eq, rev_involutive. Qed.

Lemma extract_prefix_colon m t : extract_prefix (m ++ colon_sp ++ t) t = (m, 0).
Proof.
  unfold extract_prefix. rewrite app_assoc, drop_suffix_app.
  destruct (m ++ colon_sp) eqn:E.
  - destruct m; discriminate.
  - rewrite <- E. now rewrite drop_suffix_app.
Qed.

(* ---- tags ---- *)
Section Tags.
Context {V : Type}.
Notation keys l := (List.map (@fst str V) l).

Lemma tag_add_notin k (v : V) l : mem_str k (keys l) = false -> tag_add k v l = l ++ [(k, v)].
Proof.
  induction l as [|[k' v'] l IH]; cbn; [reflexivity|].
  intro H. apply orb_false_iff in H as [H1 H2]. rewrite H1. now rewrite IH.
Qed.

Lemma keys_tag_add k (v : V) l :
  keys (tag_add k v l) = if mem_str k (keys l) then keys l else keys l ++ [k].
Proof.
  induction l as [|[k' v'] l IH]; cbn; [reflexivity|].
  destruct (str_eqb k k') eqn:E; cbn.
  - apply str_eqb_eq in E. now subst.
  - rewrite IH. now destruct (mem_str k (keys l)).
Qed.

Fixpoint nodup_keys (l : list str) : bool :=
  match l with [] => true | k :: r => negb (mem_str k r) && nodup_keys r end.

Lemma nodup_keys_snoc l k : nodup_keys l = true -> mem_str k l = false -> nodup_keys (l ++ [k]) = true.
Proof.
  induction l as [|x l IH]; cbn; [reflexivity|]. intros H1 H2.
  apply andb_true_iff in H1 as [H1 H3]. apply orb_false_iff in H2 as [H2 H4].
  rewrite mem_str_app. cbn. rewrite str_eqb_sym, H2.
  apply negb_true_iff in H1. rewrite H1. cbn. now apply IH.
Qed.

Lemma nodup_tag_add k (v : V) l : nodup_keys (keys l) = true -> nodup_keys (keys (tag_add k v l)) = true.
Proof.
  intro H. rewrite keys_tag_add. destruct (mem_str k (keys l)) eqn:E; [assumption|].
  now apply nodup_keys_snoc.
Qed.

Lemma fold_tag_add_nodup (l acc : list (str * V)) :
  nodup_keys (keys acc) = true ->
  nodup_keys (keys (fold_left (fun a kv => tag_add (fst kv) (snd kv) a) l acc)) = true.
Proof.
  revert acc; induction l as [|[k v] l IH]; intros acc H; cbn; [assumption|].
  apply IH. now apply nodup_tag_add.
Qed.

Lemma fold_tag_add_fresh (l acc : list (str * V)) :
  nodup_keys (keys (acc ++ l)) = true ->
  fold_left (fun a kv => tag_add (fst kv) (snd kv) a) l acc = acc ++ l.
Proof.
  revert acc; induction l as [|[k v] l IH]; intros acc H; cbn [fold_left fst snd].
  - now rewrite app_nil_r.
  - assert (Hk : mem_str k (keys acc) = false).
    { clear IH. induction acc as [|[k' v'] acc IHa]; [reflexivity|].
      cbn in H |- *. apply andb_true_iff in H as [H1 H2]. apply negb_true_iff in H1.
      rewrite map_app, mem_str_app in H1. cbn in H1.
      apply orb_false_iff in H1 as [_ H1]. apply orb_false_iff in H1 as [H1 _].
      rewrite str_eqb_sym, H1. cbn. now apply IHa. }
    rewrite tag_add_notin by assumption. rewrite IH; rewrite <- app_assoc; [reflexivity|exact H].
Qed.

Lemma tags_of_idem (l : list (str * V)) : tags_of (tags_of l) = tags_of l.
Proof.
  unfold tags_of at 1. rewrite fold_tag_add_fresh; [reflexivity|]. cbn [app].
  unfold tags_of. now apply fold_tag_add_nodup.
Qed.

Lemma tags_of_nonempty (l : list (str * V)) : l <> [] -> tags_of l <> [].
Proof.
  destruct l as [|[k v] l]; [congruence|]. intros _. unfold tags_of. cbn [fold_left fst snd tag_add].
  assert (G : forall (l : list (str * V)) acc, acc <> [] ->
              fold_left (fun a kv => tag_add (fst kv) (snd kv) a) l acc <> []).
  { clear. induction l as [|[k v] l IH]; intros acc H; cbn; [assumption|].
    apply IH. destruct acc as [|[k' v'] acc]; [congruence|]. cbn. destruct (str_eqb k k'); discriminate. }
  apply G. discriminate.
Qed.
End Tags.

Lemma tag_add_map {V W} (g : V -> W) k v (l : list (str * V)) :
  tag_add k (g v) (List.map (fun kv => (fst kv, g (snd kv))) l)
  = List.map (fun kv => (fst kv, g (snd kv))) (tag_add k v l).
Proof.
  induction l as [|[k' v'] l IH]; cbn; [reflexivity|].
  destruct (str_eqb k k'); cbn; [reflexivity|]. now rewrite IH.
Qed.

Lemma tags_of_map {V W} (g : V -> W) (l : list (str * V)) :
  tags_of (List.map (fun kv => (fst kv, g (snd kv))) l)
  = List.map (fun kv => (fst kv, g (snd kv))) (tags_of l).
Proof.
  unfold tags_of.
  change (@nil (str * W)) with (List.map (fun kv : str * V => (fst kv, g (snd kv))) []).
  generalize (@nil (str * V)) as acc.
  induction l as [|[k v] l IH]; intro acc; cbn [List.map fold_left fst snd]; [reflexivity|].
  rewrite tag_add_map. apply IH.
Qed.

(* what the context decoder builds is a fixed point of encode-then-decode *)
Lemma context_tags_stable (tags : list (str * str)) :
  let T := tags_of (List.map (fun kv => (fst kv, TVStr (snd kv))) tags) in
  tags_of (List.map (fun kv => (fst kv, TVStr (snd kv)))
                    (List.map (fun kv => (fst kv, tag_value_str (snd kv))) T)) = T.
Proof.
  cbv zeta. rewrite map_map. cbn [fst snd].
  rewrite (tags_of_map (fun v => TVStr (tag_value_str v))).
  rewrite tags_of_idem. rewrite <- (tags_of_map (fun v => TVStr (tag_value_str v))).
  rewrite map_map. reflexivity.
Qed.

(* ---- stability of one node, given stability of its children ---- *)
Definition stable (p : proc) (e : err) : Prop :=
  forall n, erase (fst (decode p (encode e) n)) = erase e.

Ltac enc_step := cbn [encode]; unfold mk_details; cbn [type_details]; cbn [decode].
Ltac fam_is e k := change (tm_family (own_tmark e)) with k.

Section Nodes.
Variable p : proc.

(* leaves *)
Ltac r_leaf e1 k K :=
  let n := fresh "n" in
  intros K n; enc_step; fam_is e1 k; rewrite K; reflexivity.

Lemma st_errorString i msg : knows p k_errorString = true -> stable p (Leaf i (LErrString msg)).
Proof. r_leaf (Leaf i (LErrString msg)) k_errorString K. Qed.

Lemma st_deadline i : knows p k_deadline = true -> stable p (Leaf i LDeadline).
Proof. r_leaf (Leaf i LDeadline) k_deadline K. Qed.

Lemma st_leafError i m : knows p k_leafError = true -> stable p (Leaf i (LLeafError m)).
Proof. r_leaf (Leaf i (LLeafError m)) k_leafError K. Qed.

Lemma st_unimpl i m u d : knows p k_unimpl = true -> stable p (Leaf i (LUnimpl m u d)).
Proof. r_leaf (Leaf i (LUnimpl m u d)) k_unimpl K. Qed.

Lemma st_errno i z : knows p k_errno = true -> stable p (Leaf i (LErrno z)).
Proof. r_leaf (Leaf i (LErrno z)) k_errno K. Qed.

(* an errno of another platform comes back as the same *errbase.OpaqueErrno *)
Lemma st_opaqueErrno i m pe :
  knows p k_opaqueErrno = true -> str_eqb (en_arch pe) this_arch = false ->
  stable p (Leaf i (LOpaqueErrno m pe)).
Proof.
  intros K Ha n. enc_step. fam_is (Leaf i (LOpaqueErrno m pe)) k_opaqueErrno. rewrite K, Ha. reflexivity.
Qed.

(* the OK code 0 is not an error: the decoder falls back to the opaque leaf *)
Lemma st_grpcStatus i c m : c <> 0 -> knows p k_grpcStatus = true -> stable p (Leaf i (LGrpcStatus c m)).
Proof.
  intros Hc K n. apply N.eqb_neq in Hc. enc_step. fam_is (Leaf i (LGrpcStatus c m)) k_grpcStatus.
  rewrite K, Hc. reflexivity.
Qed.

Lemma st_gogoStatus i c m : c <> 0 -> knows p k_gogoStatus = true -> stable p (Leaf i (LGogoStatus c m)).
Proof.
  intros Hc K n. apply N.eqb_neq in Hc. enc_step. fam_is (Leaf i (LGogoStatus c m)) k_gogoStatus.
  rewrite K, Hc. reflexivity.
Qed.

(* the payload that is itself an error: no decoder is involved *)
Lemma st_testError i : stable p (Leaf i LTestError).
Proof. intro n. reflexivity. Qed.

Lemma st_barrier i s m : knows p k_barrier = true -> stable p m -> stable p (Barrier i s m).
Proof.
  intros K Hm n. enc_step. destruct (decode p (encode m) n) as [em n0] eqn:E.
  fam_is (Barrier i s m) k_barrier. rewrite K.
  change (erase (Barrier n0 s em) = erase (Barrier i s m)).
  cbn [erase]. f_equal. specialize (Hm n). now rewrite E in Hm.
Qed.

(* cause lists *)
Lemma decode_list_stable cs :
  Forall (stable p) cs ->
  forall n, List.map erase (fst (decode_list (decode p) (List.map encode cs) n)) = List.map erase cs.
Proof.
  induction 1 as [|c l Hc Hl IH]; intro n; cbn [List.map decode_list]; [reflexivity|].
  destruct (decode p (encode c) n) as [e n1] eqn:E1.
  destruct (decode_list (decode p) (List.map encode l) n1) as [es n2] eqn:E2.
  cbn [fst List.map]. specialize (Hc n). rewrite E1 in Hc. cbn [fst] in Hc. rewrite Hc.
  specialize (IH n1). rewrite E2 in IH. cbn [fst] in IH. now rewrite IH.
Qed.

Lemma decode_list_nonempty cs n : cs <> [] -> fst (decode_list (decode p) cs n) <> [].
Proof.
  destruct cs as [|c l]; [congruence|]. intros _. cbn [decode_list].
  destruct (decode p c n) as [e n1]. destruct (decode_list (decode p) l n1) as [es n2]. discriminate.
Qed.

Lemma st_join i cs : knows p k_join = true -> cs <> [] -> Forall (stable p) cs -> stable p (Multi i MJoin cs).
Proof.
  intros K Hne Hcs n. enc_step. fam_is (Multi i MJoin cs) k_join. rewrite K.
  change (mem_str k_join leaf_decoder_keys) with false.
  change (mem_str k_join multi_decoder_keys) with true. cbn [andb].
  pose proof (decode_list_stable cs Hcs n) as Hm.
  assert (Hne' : List.map encode cs <> []) by (destruct cs; [congruence|discriminate]).
  pose proof (decode_list_nonempty (List.map encode cs) n Hne') as Hn.
  destruct (decode_list (decode p) (List.map encode cs) n) as [es n1]. cbn [fst] in Hm, Hn.
  destruct es as [|e0 es]; [congruence|]. cbn [fresh fst erase]. now rewrite Hm.
Qed.

(* opaque leaves: the decoder's decision depends on the family, the payload and
   the process only, and the re-encoding repeats all of them *)
Definition leaf_opaque (fam : str) (pl : option payload) : Prop :=
  forall msg o ext rep cs n,
    decode p (ELeaf msg (mkdet o fam ext rep pl) cs) n =
    (let '(es, n1) := decode_list (decode p) cs n in
     (OLeaf n1 msg (mkdet o fam ext rep pl) es, Pos.succ n1)).

Lemma st_oleaf i msg o fam ext rep pl cs :
  leaf_opaque fam pl -> Forall (stable p) cs -> stable p (OLeaf i msg (mkdet o fam ext rep pl) cs).
Proof.
  intros HO Hcs n. rewrite encode_opaque_leaf, HO.
  pose proof (decode_list_stable cs Hcs n) as Hm.
  destruct (decode_list (decode p) (List.map encode cs) n) as [es n1]. cbn [fst] in Hm.
  cbn [fst erase]. now rewrite Hm.
Qed.

(* join.Join() of no error is nil: the node stays opaque *)
Lemma st_oleaf_join_nil i msg o ext rep pl :
  knows p k_join = true -> stable p (OLeaf i msg (mkdet o k_join ext rep pl) []).
Proof. intros K n. rewrite encode_opaque_leaf. cbn [List.map decode]. rewrite K. reflexivity. Qed.

(* opaque wrappers *)
Definition wrap_opaque (fam : str) (rep : list str) (pl : option payload) : Prop :=
  forall c msg o ext mt n,
    decode p (EWrap c msg (mkdet o fam ext rep pl) mt) n =
    (let '(ec, n0) := decode p c n in
     (OWrap n0 msg (mkdet o fam ext rep pl) mt ec, Pos.succ n0)).

Lemma st_owrap i msg o fam ext rep pl mt c :
  wrap_opaque fam rep pl -> stable p c -> stable p (OWrap i msg (mkdet o fam ext rep pl) mt c).
Proof.
  intros HO Hc n. rewrite encode_opaque_wrapper, HO. specialize (Hc n).
  destruct (decode p (encode c) n) as [ec n0]. cbn [fst] in Hc. cbn [fst erase]. now rewrite Hc.
Qed.

(* wrappers with a decoder *)
Ltac r_wrap c e1 k w K :=
  let Hc := fresh "Hc" in let n := fresh "n" in let ec := fresh "ec" in let n0 := fresh "n0" in
  let E := fresh "E" in let pfx := fresh "pfx" in let mt := fresh "mt" in
  intros K Hc n; cbn [encode]; try (destruct (extract_prefix _ _) as [pfx mt]);
  unfold mk_details; cbn [type_details]; cbn [decode];
  destruct (decode p (encode c) n) as [ec n0] eqn:E;
  fam_is e1 k; rewrite K;
  change (erase (Wrap n0 w ec) = erase e1);
  cbn [erase]; f_equal; specialize (Hc n); rewrite E in Hc; exact Hc.

Lemma st_withPrefix i m c : knows p k_withPrefix = true -> stable p c -> stable p (Wrap i (WPrefix m) c).
Proof. r_wrap c (Wrap i (WPrefix m) c) k_withPrefix (WPrefix m) K. Qed.
Lemma st_withNewMessage i m c : knows p k_withNewMessage = true -> stable p c -> stable p (Wrap i (WNewMsg m) c).
Proof. r_wrap c (Wrap i (WNewMsg m) c) k_withNewMessage (WNewMsg m) K. Qed.
Lemma st_withHint i m c : knows p k_withHint = true -> stable p c -> stable p (Wrap i (WHint m) c).
Proof. r_wrap c (Wrap i (WHint m) c) k_withHint (WHint m) K. Qed.
Lemma st_withDetail i m c : knows p k_withDetail = true -> stable p c -> stable p (Wrap i (WDetail m) c).
Proof. r_wrap c (Wrap i (WDetail m) c) k_withDetail (WDetail m) K. Qed.
Lemma st_withIssueLink i u d c :
  knows p k_withIssueLink = true -> stable p c -> stable p (Wrap i (WIssueLink u d) c).
Proof. r_wrap c (Wrap i (WIssueLink u d) c) k_withIssueLink (WIssueLink u d) K. Qed.
Lemma st_withTelemetry i ks c :
  knows p k_withTelemetry = true -> stable p c -> stable p (Wrap i (WTelemetry ks) c).
Proof. r_wrap c (Wrap i (WTelemetry ks) c) k_withTelemetry (WTelemetry ks) K. Qed.
Lemma st_withDomain i d c : knows p k_withDomain = true -> stable p c -> stable p (Wrap i (WDomain d) c).
Proof. r_wrap c (Wrap i (WDomain d) c) k_withDomain (WDomain d) K. Qed.
Lemma st_withAssert i c : knows p k_withAssert = true -> stable p c -> stable p (Wrap i WAssert c).
Proof. r_wrap c (Wrap i WAssert c) k_withAssert WAssert K. Qed.
(* a mark payload without types is malformed: the decoder falls back to the opaque wrapper *)
Lemma st_withMark i m t tys c :
  knows p k_withMark = true -> stable p c -> stable p (Wrap i (WMark (mkem m (t :: tys))) c).
Proof. r_wrap c (Wrap i (WMark (mkem m (t :: tys))) c) k_withMark (WMark (mkem m (t :: tys))) K. Qed.
Lemma st_withSafeDetails i ds c :
  knows p k_withSafeDetails = true -> stable p c -> stable p (Wrap i (WSafeDetails ds) c).
Proof. r_wrap c (Wrap i (WSafeDetails ds) c) k_withSafeDetails (WSafeDetails ds) K. Qed.
Lemma st_withGrpc i code c : knows p k_withGrpc = true -> stable p c -> stable p (Wrap i (WGrpc code) c).
Proof. r_wrap c (Wrap i (WGrpc code) c) k_withGrpc (WGrpc code) K. Qed.
Lemma st_pathError i op path c :
  knows p k_pathError = true -> stable p c -> stable p (Wrap i (WPathError op path) c).
Proof. r_wrap c (Wrap i (WPathError op path) c) k_pathError (WPathError op path) K. Qed.
Lemma st_linkError i op old new c :
  knows p k_linkError = true -> stable p c -> stable p (Wrap i (WLinkError op old new) c).
Proof. r_wrap c (Wrap i (WLinkError op old new) c) k_linkError (WLinkError op old new) K. Qed.
Lemma st_syscallError i sc c :
  knows p k_syscallError = true -> stable p c -> stable p (Wrap i (WSyscallError sc) c).
Proof. r_wrap c (Wrap i (WSyscallError sc) c) k_syscallError (WSyscallError sc) K. Qed.

Lemma st_withHTTP i code c :
  knows p k_withHTTP = true -> stable p c -> stable p (Wrap i (WHTTP (Z.of_N code)) c).
Proof.
  intros K Hc n. enc_step. rewrite N2Z.id.
  destruct (decode p (encode c) n) as [ec n0] eqn:E.
  fam_is (Wrap i (WHTTP (Z.of_N code)) c) k_withHTTP. rewrite K.
  change (erase (Wrap n0 (WHTTP (Z.of_N code)) ec) = erase (Wrap i (WHTTP (Z.of_N code)) c)).
  cbn [erase]. f_equal. specialize (Hc n). now rewrite E in Hc.
Qed.

Lemma st_pkgMsg i m c : knows p k_pkgMsg = true -> stable p c -> stable p (Wrap i (WPkgMsg m) c).
Proof.
  intros K Hc n. cbn [encode].
  change (error_text (Wrap i (WPkgMsg m) c)) with (m ++ colon_sp ++ error_text c).
  rewrite extract_prefix_colon. unfold mk_details; cbn [type_details]; cbn [decode].
  destruct (decode p (encode c) n) as [ec n0] eqn:E.
  fam_is (Wrap i (WPkgMsg m) c) k_pkgMsg. rewrite K.
  change (erase (Wrap n0 (WPkgMsg m) ec) = erase (Wrap i (WPkgMsg m) c)).
  cbn [erase]. f_equal. specialize (Hc n). now rewrite E in Hc.
Qed.

Lemma st_secondary i c s :
  knows p k_withSecondary = true -> stable p c -> stable p s -> stable p (Second i c s).
Proof.
  intros K Hc Hs n. enc_step.
  destruct (decode p (encode c) n) as [ec n0] eqn:E.
  fam_is (Second i c s) k_withSecondary. rewrite K.
  change (erase (fst (let '(es, n2) := decode p (encode s) (Pos.succ n0) in (Second n0 ec es, n2)))
          = erase (Second i c s)).
  destruct (decode p (encode s) (Pos.succ n0)) as [es n2] eqn:E2.
  cbn [fst erase]. f_equal.
  - specialize (Hc n). now rewrite E in Hc.
  - specialize (Hs (Pos.succ n0)). now rewrite E2 in Hs.
Qed.

(* context tags *)
Lemma ctx_match {A B C} (tags : list A) (rep : list B) (X Y : C) :
  tags <> [] \/ rep <> [] ->
  match tags, rep with [], [] => X | _, _ => Y end = Y.
Proof. destruct tags, rep; intros [H|H]; congruence. Qed.

Lemma list_match_same {A C} (l : list A) (Y : C) : match l with [] => Y | _ :: _ => Y end = Y.
Proof. now destruct l. Qed.

Lemma some_nonempty {A} (l : list A) : l <> [] -> match l with [] => None | _ => Some l end = Some l.
Proof. destruct l; congruence. Qed.

Lemma st_withContext_some i tags r0 rr c :
  let T := tags_of (List.map (fun kv : str * str => (fst kv, TVStr (snd kv))) tags) in
  knows p k_withContext = true -> stable p c -> stable p (Wrap i (WContext T (Some (r0 :: rr))) c).
Proof.
  intros T K Hc n. enc_step.
  destruct (decode p (encode c) n) as [ec n0] eqn:E.
  fam_is (Wrap i (WContext T (Some (r0 :: rr))) c) k_withContext. rewrite K.
  change (sd_or_nil (Wrap i (WContext T (Some (r0 :: rr))) c)) with (r0 :: rr).
  change (mem_str k_withContext wrap_decoder_keys && true) with true. cbv iota.
  change (str_eqb k_withContext k_withPrefix) with false.
  change (str_eqb k_withContext k_withNewMessage) with false.
  change (str_eqb k_withContext k_withHint) with false.
  change (str_eqb k_withContext k_withDetail) with false.
  change (str_eqb k_withContext k_withIssueLink) with false.
  change (str_eqb k_withContext k_withTelemetry) with false.
  change (str_eqb k_withContext k_withDomain) with false.
  change (str_eqb k_withContext k_withContext) with true. cbv iota.
  cbn [fresh]. rewrite list_match_same.
  unfold T at 1 2. rewrite context_tags_stable. fold T.
  cbn [fst erase]. f_equal. specialize (Hc n). now rewrite E in Hc.
Qed.

Lemma st_withContext_none i tags c :
  let T := tags_of (List.map (fun kv : str * str => (fst kv, TVStr (snd kv))) tags) in
  tags <> [] ->
  knows p k_withContext = true -> stable p c -> stable p (Wrap i (WContext T None) c).
Proof.
  intros T Hne K Hc n. enc_step.
  destruct (decode p (encode c) n) as [ec n0] eqn:E.
  fam_is (Wrap i (WContext T None) c) k_withContext. rewrite K.
  change (sd_or_nil (Wrap i (WContext T None) c)) with (redact_tags T).
  change (mem_str k_withContext wrap_decoder_keys && true) with true. cbv iota.
  change (str_eqb k_withContext k_withPrefix) with false.
  change (str_eqb k_withContext k_withNewMessage) with false.
  change (str_eqb k_withContext k_withHint) with false.
  change (str_eqb k_withContext k_withDetail) with false.
  change (str_eqb k_withContext k_withIssueLink) with false.
  change (str_eqb k_withContext k_withTelemetry) with false.
  change (str_eqb k_withContext k_withDomain) with false.
  change (str_eqb k_withContext k_withContext) with true. cbv iota.
  assert (HT : T <> []).
  { apply tags_of_nonempty. destruct tags; [congruence|discriminate]. }
  assert (HR : redact_tags T <> []).
  { unfold redact_tags. destruct T; [congruence|discriminate]. }
  cbn [fresh]. rewrite ctx_match by (right; exact HR).
  rewrite some_nonempty by exact HR.
  unfold T at 1 2. rewrite context_tags_stable. fold T.
  cbn [fst erase]. f_equal. specialize (Hc n). now rewrite E in Hc.
Qed.
End Nodes.

(* ---- the induction ---- *)
Section Main.
Variable p : proc.
Hypothesis Hp : proc_closed p.

Definition HI (x : enc) : Prop := forall n, stable p (fst (decode p x n)).

Lemma decode_list_all cs :
  Forall HI cs -> forall n, Forall (stable p) (fst (decode_list (decode p) cs n)).
Proof.
  induction 1 as [|c l Hc Hl IH]; intros n; cbn [decode_list]; [constructor|].
  specialize (Hc n).
  destruct (decode p c n) as [e n1]. specialize (IH n1).
  destruct (decode_list (decode p) l n1) as [es n2]. cbn [fst] in *. now constructor.
Qed.

Ltac rw_hyps :=
  repeat match goal with
         | H : _ = true |- _ => rewrite H
         | H : _ = false |- _ => rewrite H
         end.

Ltac solve_leaf_opaque :=
  intros ? ? ? ? ? ?; cbn [decode]; rw_hyps; reflexivity.

Ltac fin_oleaf Hes cs n :=
  let Hn := fresh "Hn" in let es := fresh "es" in let n1 := fresh "n1" in
  pose proof (Hes n) as Hn; destruct (decode_list (decode p) cs n) as [es n1];
  cbn [fresh fst] in Hn |- *; apply st_oleaf; [solve_leaf_opaque | exact Hn].

Ltac is_key E fam := apply str_eqb_eq in E; subst fam.

Lemma hop_leaf msg o fam ext rep pl cs : Forall HI cs -> pl_P HI pl -> HI (ELeaf msg (mkdet o fam ext rep pl) cs).
Proof.
  intros IHcs IHpl n. destruct Hp as [Hpb Hpe].
  pose proof (decode_list_all cs IHcs) as Hes. clear IHcs.
  cbn [decode].
  destruct (mem_str fam leaf_decoder_keys && knows p fam) eqn:HL.
  - apply andb_true_iff in HL as [HLm HK].
    destruct (str_eqb fam k_errorString) eqn:E1.
    { is_key E1 fam. cbn [fresh fst]. now apply st_errorString. }
    destruct (str_eqb fam k_deadline) eqn:E2.
    { is_key E2 fam. cbn [fst]. now apply st_deadline. }
    destruct (str_eqb fam k_leafError) eqn:E3.
    { is_key E3 fam. destruct pl as [pl0|]; [destruct pl0|]; try (fin_oleaf Hes cs n).
      cbn [fresh fst]. now apply st_leafError. }
    destruct (str_eqb fam k_barrier) eqn:E4.
    { is_key E4 fam. destruct pl as [pl0|]; [destruct pl0|]; try (fin_oleaf Hes cs n).
      cbn [pl_P] in IHpl.
      specialize (IHpl n). destruct (decode p e n) as [em n1]. cbn [fresh fst] in IHpl |- *.
      now apply st_barrier. }
    destruct (str_eqb fam k_barrierPrev) eqn:E5.
    { is_key E5 fam. destruct pl as [pl0|]; [destruct pl0|]; try (fin_oleaf Hes cs n).
      cbn [pl_P] in IHpl.
      specialize (IHpl n). destruct (decode p e n) as [em n1]. cbn [fresh fst] in IHpl |- *.
      apply st_barrier; [now apply Hpb | exact IHpl]. }
    destruct (str_eqb fam k_unimpl) eqn:E6.
    { is_key E6 fam. cbn [fresh fst]. now apply st_unimpl. }
    destruct (str_eqb fam k_errno) eqn:E7.
    { is_key E7 fam. cbn [orb]. destruct pl as [pl0|]; [destruct pl0|]; try (fin_oleaf Hes cs n).
      destruct (str_eqb (en_arch p0) this_arch) eqn:Ea; cbn [fresh fst].
      - now apply st_errno.
      - apply st_opaqueErrno; [now rewrite <- Hpe | exact Ea]. }
    destruct (str_eqb fam k_opaqueErrno) eqn:E7'.
    { is_key E7' fam. cbn [orb]. destruct pl as [pl0|]; [destruct pl0|]; try (fin_oleaf Hes cs n).
      destruct (str_eqb (en_arch p0) this_arch) eqn:Ea; cbn [fresh fst].
      - apply st_errno. now rewrite Hpe.
      - now apply st_opaqueErrno. }
    cbn [orb].
    destruct (str_eqb fam k_grpcStatus) eqn:E8.
    { is_key E8 fam. destruct pl as [pl0|]; [destruct pl0|]; try (fin_oleaf Hes cs n).
      destruct (c =? 0) eqn:Ec; [fin_oleaf Hes cs n|]. apply N.eqb_neq in Ec.
      cbn [fresh fst]. now apply st_grpcStatus. }
    destruct (str_eqb fam k_gogoStatus) eqn:E9.
    { is_key E9 fam. destruct pl as [pl0|]; [destruct pl0|]; try (fin_oleaf Hes cs n).
      destruct (c =? 0) eqn:Ec; [fin_oleaf Hes cs n|]. apply N.eqb_neq in Ec.
      cbn [fresh fst]. now apply st_gogoStatus. }
    fin_oleaf Hes cs n.
  - destruct (mem_str fam multi_decoder_keys && knows p fam) eqn:HM.
    + apply andb_true_iff in HM as [HMm HK].
      assert (fam = k_join).
      { cbn [mem_str multi_decoder_keys] in HMm. rewrite orb_false_r in HMm. now apply str_eqb_eq. }
      subst fam. clear HL HMm.
      pose proof (Hes n) as Hn. destruct (decode_list (decode p) cs n) as [es n1]. cbn [fst] in Hn.
      destruct es as [|e0 es]; cbn [fresh fst].
      * now apply st_oleaf_join_nil.
      * apply st_join; [assumption|discriminate|assumption].
    + destruct pl as [pl0|]; [destruct pl0|]; try (fin_oleaf Hes cs n).
      cbn [fresh fst]. apply st_testError.
Qed.

Ltac solve_wrap_opaque :=
  let c' := fresh "c'" in let n' := fresh "n'" in
  intros c' ? ? ? ? n'; cbn [decode]; destruct (decode p c' n'); rw_hyps; reflexivity.

Ltac fin_owrap IHc := cbn [fst]; apply st_owrap; [solve_wrap_opaque | exact IHc].

Ltac pl_cases pl IHc := destruct pl as [pl0|]; [destruct pl0|]; try (fin_owrap IHc).

Lemma hop_wrap c msg o fam ext rep pl mt : HI c -> pl_P HI pl -> HI (EWrap c msg (mkdet o fam ext rep pl) mt).
Proof.
  intros IHc IHpl n.
  specialize (IHc n). cbn [decode].
  destruct (decode p c n) as [ec n0]. cbn [fst] in IHc. cbn [fresh].
  destruct (mem_str fam wrap_decoder_keys && knows p fam) eqn:HL.
  - apply andb_true_iff in HL as [HLm HK].
    destruct (str_eqb fam k_withPrefix) eqn:E1.
    { is_key E1 fam. pl_cases pl IHc. cbn [fst]. now apply st_withPrefix. }
    destruct (str_eqb fam k_withNewMessage) eqn:E2.
    { is_key E2 fam. pl_cases pl IHc. cbn [fst]. now apply st_withNewMessage. }
    destruct (str_eqb fam k_withHint) eqn:E3.
    { is_key E3 fam. pl_cases pl IHc. cbn [fst]. now apply st_withHint. }
    destruct (str_eqb fam k_withDetail) eqn:E4.
    { is_key E4 fam. pl_cases pl IHc. cbn [fst]. now apply st_withDetail. }
    destruct (str_eqb fam k_withIssueLink) eqn:E5.
    { is_key E5 fam. cbn [fst]. now apply st_withIssueLink. }
    destruct (str_eqb fam k_withTelemetry) eqn:E6.
    { is_key E6 fam. cbn [fst]. now apply st_withTelemetry. }
    destruct (str_eqb fam k_withDomain) eqn:E7.
    { is_key E7 fam. destruct rep as [|d0 rr]; [fin_owrap IHc|]. cbn [fst]. now apply st_withDomain. }
    destruct (str_eqb fam k_withContext) eqn:E8.
    { is_key E8 fam. pl_cases pl IHc.
      destruct l as [|t tt], rep as [|r0 rr]; try (fin_owrap IHc); cbn [fst].
      - now apply (st_withContext_some p n0 [] r0 rr ec).
      - apply (st_withContext_none p n0 (t :: tt) ec); [discriminate|assumption|assumption].
      - now apply (st_withContext_some p n0 (t :: tt) r0 rr ec). }
    destruct (str_eqb fam k_withAssert) eqn:E9.
    { is_key E9 fam. cbn [fst]. now apply st_withAssert. }
    destruct (str_eqb fam k_withMark) eqn:E10.
    { is_key E10 fam. pl_cases pl IHc. destruct tys as [|t tys]; [fin_owrap IHc|].
      cbn [fst]. now apply st_withMark. }
    destruct (str_eqb fam k_withSafeDetails) eqn:E11.
    { is_key E11 fam. cbn [fst]. now apply st_withSafeDetails. }
    destruct (str_eqb fam k_withSecondary) eqn:E12.
    { is_key E12 fam. pl_cases pl IHc.
      cbn [pl_P] in IHpl.
      specialize (IHpl (Pos.succ n0)). destruct (decode p e (Pos.succ n0)) as [es n2].
      cbn [fst] in IHpl |- *. now apply st_secondary. }
    destruct (str_eqb fam k_withHTTP) eqn:E13.
    { is_key E13 fam. pl_cases pl IHc. cbn [fst]. now apply st_withHTTP. }
    destruct (str_eqb fam k_withGrpc) eqn:E14.
    { is_key E14 fam. pl_cases pl IHc. cbn [fst]. now apply st_withGrpc. }
    destruct (str_eqb fam k_pkgMsg) eqn:E15.
    { is_key E15 fam. cbn [fst]. now apply st_pkgMsg. }
    destruct (str_eqb fam k_pathError) eqn:E16.
    { is_key E16 fam. pl_cases pl IHc.
      destruct l as [|op [|path l']]; try (fin_owrap IHc). cbn [fst]. now apply st_pathError. }
    destruct (str_eqb fam k_linkError) eqn:E17.
    { is_key E17 fam. pl_cases pl IHc.
      destruct l as [|op [|old [|new l']]]; try (fin_owrap IHc). cbn [fst]. now apply st_linkError. }
    destruct (str_eqb fam k_syscallError) eqn:E18.
    { is_key E18 fam. cbn [fst]. now apply st_syscallError. }
    fin_owrap IHc.
  - fin_owrap IHc.
Qed.

Theorem hop_stable_node x : HI x.
Proof. induction x using enc_ind2; [now apply hop_leaf | now apply hop_wrap]. Qed.
End Main.

(* For every wire message x (including ones no honest encoder would produce):
   what p decodes from its own re-encoding of the decoded error is the same error,
   up to object identities and the cached redacted tags of context layers.
   No condition on x any more: a foreign-platform errno comes back as the same
   *errbase.OpaqueErrno. *)
Theorem hop_idem' p (Hp : proc_closed p) x n n' :
  erase (fst (decode p (encode (fst (decode p x n))) n')) = erase (fst (decode p x n)).
Proof. exact (hop_stable_node p Hp x n n'). Qed.

(* the older statement, with its now superfluous side condition *)
Theorem hop_idem p (Hp : proc_closed p) x (Hx : errno_ok p x = true) n n' :
  erase (fst (decode p (encode (fst (decode p x n))) n')) = erase (fst (decode p x n)).
Proof. now apply hop_idem'. Qed.

(* The message that used to need the side condition: a foreign-platform errno payload,
   decoded by a process that knows syscall.Errno, becomes an *errbase.OpaqueErrno;
   its re-encoding now has a decoder, and the value is stable from the first hop. *)
Definition foreign_errno_msg : enc :=
  ELeaf (lit "boom")
        (mkdet [] k_errno [] []
               (Some (PlErrno (mkerrno 1%Z (lit "plan9:arm") false false false false false)))) [].

Example foreign_errno_stable :
  errno_ok all_knowing foreign_errno_msg = false /\
  erase (fst (decode all_knowing (encode (fst (decode all_knowing foreign_errno_msg 100%positive))) 200%positive))
  = erase (fst (decode all_knowing foreign_errno_msg 100%positive)).
Proof. vm_compute. split; reflexivity. Qed.

(* The closure of [proc_closed] under errno knowledge is needed, in both directions. *)
Definition only_errno : proc := mkproc [k_opaqueErrno].
Definition only_opaqueErrno : proc := mkproc [k_errno].
Definition native_opaque_errno_msg : enc :=
  ELeaf (lit "boom")
        (mkdet [] k_opaqueErrno [] []
               (Some (PlErrno (mkerrno 1%Z this_arch false false false false false)))) [].

Example errno_closure_needed_1 :
  (knows only_errno k_barrierPrev = true -> knows only_errno k_barrier = true) /\
  erase (fst (decode only_errno (encode (fst (decode only_errno foreign_errno_msg 100%positive))) 200%positive))
  <> erase (fst (decode only_errno foreign_errno_msg 100%positive)).
Proof. split; [intro; reflexivity|]. vm_compute. discriminate. Qed.

Example errno_closure_needed_2 :
  (knows only_opaqueErrno k_barrierPrev = true -> knows only_opaqueErrno k_barrier = true) /\
  errno_ok only_opaqueErrno native_opaque_errno_msg = true /\
  erase (fst (decode only_opaqueErrno
                (encode (fst (decode only_opaqueErrno native_opaque_errno_msg 100%positive))) 200%positive))
  <> erase (fst (decode only_opaqueErrno native_opaque_errno_msg 100%positive)).
Proof. split; [intro; reflexivity|]. vm_compute. split; [reflexivity|discriminate]. Qed.

(* ---- whatever p decodes re-encodes to a message satisfying [errno_ok p] ---- *)
Section Reencode.
Variable p : proc.

Definition leaf_pl_ok (fam : str) (pl : option payload) : bool :=
  match pl with
  | Some (PlErrno _) => negb (str_eqb fam k_errno && knows p fam)
  | Some (PlEnc _) => negb ((str_eqb fam k_barrier || str_eqb fam k_barrierPrev) && knows p fam)
  | _ => true
  end.

Definition wrap_pl_ok (fam : str) (pl : option payload) : bool :=
  match pl with
  | Some (PlEnc _) => negb (str_eqb fam k_withSecondary && knows p fam)
  | _ => true
  end.

Lemma eo_leaf i k : errno_ok p (encode (Leaf i k)) = true.
Proof.
  destruct k; cbn [encode]; unfold mk_details; cbn [type_details errno_ok]; try reflexivity.
  change (str_eqb this_arch this_arch) with true. now rewrite orb_true_r.
Qed.

Lemma eo_barrier i s m : errno_ok p (encode m) = true -> errno_ok p (encode (Barrier i s m)) = true.
Proof.
  intro H. cbn [encode]. unfold mk_details. cbn [type_details errno_ok]. rewrite H. now rewrite orb_true_r.
Qed.

Lemma eo_multi i k cs :
  forallb (errno_ok p) (List.map encode cs) = true -> errno_ok p (encode (Multi i k cs)) = true.
Proof. intro H. cbn [encode]. unfold mk_details. cbn [type_details errno_ok]. now rewrite H. Qed.

Lemma eo_second i c s :
  errno_ok p (encode c) = true -> errno_ok p (encode s) = true -> errno_ok p (encode (Second i c s)) = true.
Proof.
  intros H1 H2. cbn [encode]. unfold mk_details. cbn [type_details errno_ok]. rewrite H1, H2.
  now rewrite orb_true_r.
Qed.

Lemma eo_wrap i w c : errno_ok p (encode c) = true -> errno_ok p (encode (Wrap i w c)) = true.
Proof.
  intro H. destruct w; cbn [encode]; try (destruct (extract_prefix _ _));
    unfold mk_details; cbn [type_details errno_ok]; now rewrite H.
Qed.

Lemma eo_oleaf i msg o fam ext rep pl cs :
  leaf_pl_ok fam pl = true -> forallb (errno_ok p) (List.map encode cs) = true ->
  errno_ok p (encode (OLeaf i msg (mkdet o fam ext rep pl) cs)) = true.
Proof.
  intros H1 H2. cbn [encode errno_ok]. rewrite H2, andb_true_r.
  destruct pl as [pl0|]; [destruct pl0|]; try reflexivity; cbn [leaf_pl_ok] in H1; now rewrite H1.
Qed.

Lemma eo_owrap i msg o fam ext rep pl mt c :
  wrap_pl_ok fam pl = true -> errno_ok p (encode c) = true ->
  errno_ok p (encode (OWrap i msg (mkdet o fam ext rep pl) mt c)) = true.
Proof.
  intros H1 H2. cbn [encode errno_ok]. rewrite H2.
  destruct pl as [pl0|]; [destruct pl0|]; try reflexivity; cbn [wrap_pl_ok] in H1; now rewrite H1.
Qed.

Definition EO (x : enc) : Prop := forall n, errno_ok p (encode (fst (decode p x n))) = true.

Lemma decode_list_eo cs :
  Forall EO cs -> forall n, forallb (errno_ok p) (List.map encode (fst (decode_list (decode p) cs n))) = true.
Proof.
  induction 1 as [|c l Hc Hl IH]; intro n; cbn [decode_list]; [reflexivity|].
  specialize (Hc n). destruct (decode p c n) as [e n1]. specialize (IH n1).
  destruct (decode_list (decode p) l n1) as [es n2]. cbn [fst List.map forallb] in *. now rewrite Hc, IH.
Qed.

Lemma not_key_known keys k fam :
  mem_str k keys = true -> mem_str fam keys && knows p fam = false -> str_eqb fam k && knows p fam = false.
Proof.
  intros Hk H. destruct (str_eqb fam k) eqn:E; [|reflexivity].
  apply str_eqb_eq in E. subst fam. now rewrite Hk in H.
Qed.

Ltac rw_hyps :=
  repeat match goal with
         | H : _ = true |- _ => rewrite H
         | H : _ = false |- _ => rewrite H
         end.
Ltac is_key E fam := apply str_eqb_eq in E; subst fam.

Ltac fin_eo_oleaf Hes cs n :=
  let Hn := fresh "Hn" in let es := fresh "es" in let n1 := fresh "n1" in
  pose proof (Hes n) as Hn; destruct (decode_list (decode p) cs n) as [es n1];
  cbn [fresh fst] in Hn |- *; apply eo_oleaf; [cbn [leaf_pl_ok]; rw_hyps; reflexivity | exact Hn].

Ltac fin_eo_barrier IHpl n :=
  cbn [pl_P] in IHpl; specialize (IHpl n);
  match goal with |- context [decode p ?m n] => destruct (decode p m n) end;
  cbn [fresh fst] in IHpl |- *; now apply eo_barrier.

Ltac eo_leaf_fin Hes cs n pl IHpl :=
  try (destruct pl as [pl0|]; [destruct pl0|]);
  try (match goal with |- context [str_eqb (en_arch ?pe) this_arch] => destruct (str_eqb (en_arch pe) this_arch) end);
  try (match goal with |- context [?c =? 0] => is_var c; destruct (c =? 0) end);
  first [ cbn [fresh fst]; apply eo_leaf | fin_eo_oleaf Hes cs n | fin_eo_barrier IHpl n ].

Lemma eo_leaf_node msg o fam ext rep pl cs : Forall EO cs -> pl_P EO pl -> EO (ELeaf msg (mkdet o fam ext rep pl) cs).
Proof.
  intros IHcs IHpl n. pose proof (decode_list_eo cs IHcs) as Hes. clear IHcs. cbn [decode].
  destruct (mem_str fam leaf_decoder_keys && knows p fam) eqn:HL.
  - apply andb_true_iff in HL as [HLm HK].
    destruct (str_eqb fam k_errorString) eqn:E1. { is_key E1 fam. eo_leaf_fin Hes cs n pl IHpl. }
    destruct (str_eqb fam k_deadline) eqn:E2. { is_key E2 fam. eo_leaf_fin Hes cs n pl IHpl. }
    destruct (str_eqb fam k_leafError) eqn:E3. { is_key E3 fam. eo_leaf_fin Hes cs n pl IHpl. }
    destruct (str_eqb fam k_barrier) eqn:E4. { is_key E4 fam. eo_leaf_fin Hes cs n pl IHpl. }
    destruct (str_eqb fam k_barrierPrev) eqn:E5. { is_key E5 fam. eo_leaf_fin Hes cs n pl IHpl. }
    destruct (str_eqb fam k_unimpl) eqn:E6. { is_key E6 fam. eo_leaf_fin Hes cs n pl IHpl. }
    destruct (str_eqb fam k_errno) eqn:E7. { is_key E7 fam. cbn [orb]. eo_leaf_fin Hes cs n pl IHpl. }
    destruct (str_eqb fam k_opaqueErrno) eqn:E7'. { is_key E7' fam. cbn [orb]. eo_leaf_fin Hes cs n pl IHpl. }
    cbn [orb].
    destruct (str_eqb fam k_grpcStatus) eqn:E8. { is_key E8 fam. eo_leaf_fin Hes cs n pl IHpl. }
    destruct (str_eqb fam k_gogoStatus) eqn:E9. { is_key E9 fam. eo_leaf_fin Hes cs n pl IHpl. }
    eo_leaf_fin Hes cs n pl IHpl.
  - assert (Hne : str_eqb fam k_errno && knows p fam = false)
      by (apply (not_key_known leaf_decoder_keys); [reflexivity|assumption]).
    assert (Hnb : (str_eqb fam k_barrier || str_eqb fam k_barrierPrev) && knows p fam = false).
    { rewrite andb_orb_distrib_l.
      rewrite (not_key_known leaf_decoder_keys k_barrier) by (reflexivity || assumption).
      rewrite (not_key_known leaf_decoder_keys k_barrierPrev) by (reflexivity || assumption). reflexivity. }
    destruct (mem_str fam multi_decoder_keys && knows p fam) eqn:HM.
    + pose proof (Hes n) as Hn. destruct (decode_list (decode p) cs n) as [es n1]. cbn [fst] in Hn.
      destruct es as [|e0 es]; cbn [fresh fst].
      * apply eo_oleaf; [|reflexivity]. destruct pl as [pl0|]; [destruct pl0|]; cbn [leaf_pl_ok]; rw_hyps; reflexivity.
      * now apply eo_multi.
    + eo_leaf_fin Hes cs n pl IHpl.
Qed.

Ltac fin_eo_owrap IHc :=
  cbn [fst]; apply eo_owrap; [cbn [wrap_pl_ok]; rw_hyps; reflexivity | exact IHc].

Ltac fin_eo_second IHc IHpl n0 :=
  cbn [pl_P] in IHpl; specialize (IHpl (Pos.succ n0));
  match goal with |- context [decode p ?m (Pos.succ n0)] => destruct (decode p m (Pos.succ n0)) end;
  cbn [fst] in IHpl |- *; now apply eo_second.

Ltac eo_wrap_fin IHc IHpl n0 pl rep :=
  try (destruct pl as [pl0|]; [destruct pl0|]);
  try (destruct rep);
  try (match goal with |- context [match ?l with [] => _ | _ => _ end] => is_var l; destruct l as [|? [|? [|? ?]]] end);
  first [ cbn [fst]; apply eo_wrap; exact IHc | fin_eo_owrap IHc | fin_eo_second IHc IHpl n0 ].

Lemma eo_wrap_node c msg o fam ext rep pl mt : EO c -> pl_P EO pl -> EO (EWrap c msg (mkdet o fam ext rep pl) mt).
Proof.
  intros IHc IHpl n. specialize (IHc n). cbn [decode].
  destruct (decode p c n) as [ec n0]. cbn [fst] in IHc. cbn [fresh].
  destruct (mem_str fam wrap_decoder_keys && knows p fam) eqn:HL.
  - apply andb_true_iff in HL as [HLm HK].
    destruct (str_eqb fam k_withPrefix) eqn:E1. { is_key E1 fam. eo_wrap_fin IHc IHpl n0 pl rep. }
    destruct (str_eqb fam k_withNewMessage) eqn:E2. { is_key E2 fam. eo_wrap_fin IHc IHpl n0 pl rep. }
    destruct (str_eqb fam k_withHint) eqn:E3. { is_key E3 fam. eo_wrap_fin IHc IHpl n0 pl rep. }
    destruct (str_eqb fam k_withDetail) eqn:E4. { is_key E4 fam. eo_wrap_fin IHc IHpl n0 pl rep. }
    destruct (str_eqb fam k_withIssueLink) eqn:E5. { is_key E5 fam. eo_wrap_fin IHc IHpl n0 pl rep. }
    destruct (str_eqb fam k_withTelemetry) eqn:E6. { is_key E6 fam. eo_wrap_fin IHc IHpl n0 pl rep. }
    destruct (str_eqb fam k_withDomain) eqn:E7. { is_key E7 fam. eo_wrap_fin IHc IHpl n0 pl rep. }
    destruct (str_eqb fam k_withContext) eqn:E8. { is_key E8 fam. eo_wrap_fin IHc IHpl n0 pl rep. }
    destruct (str_eqb fam k_withAssert) eqn:E9. { is_key E9 fam. eo_wrap_fin IHc IHpl n0 pl rep. }
    destruct (str_eqb fam k_withMark) eqn:E10. { is_key E10 fam. eo_wrap_fin IHc IHpl n0 pl rep. }
    destruct (str_eqb fam k_withSafeDetails) eqn:E11. { is_key E11 fam. eo_wrap_fin IHc IHpl n0 pl rep. }
    destruct (str_eqb fam k_withSecondary) eqn:E12. { is_key E12 fam. eo_wrap_fin IHc IHpl n0 pl rep. }
    destruct (str_eqb fam k_withHTTP) eqn:E13. { is_key E13 fam. eo_wrap_fin IHc IHpl n0 pl rep. }
    destruct (str_eqb fam k_withGrpc) eqn:E14. { is_key E14 fam. eo_wrap_fin IHc IHpl n0 pl rep. }
    destruct (str_eqb fam k_pkgMsg) eqn:E15. { is_key E15 fam. eo_wrap_fin IHc IHpl n0 pl rep. }
    destruct (str_eqb fam k_pathError) eqn:E16. { is_key E16 fam. eo_wrap_fin IHc IHpl n0 pl rep. }
    destruct (str_eqb fam k_linkError) eqn:E17. { is_key E17 fam. eo_wrap_fin IHc IHpl n0 pl rep. }
    destruct (str_eqb fam k_syscallError) eqn:E18. { is_key E18 fam. eo_wrap_fin IHc IHpl n0 pl rep. }
    eo_wrap_fin IHc IHpl n0 pl rep.
  - assert (Hns : str_eqb fam k_withSecondary && knows p fam = false)
      by (apply (not_key_known wrap_decoder_keys); [reflexivity|assumption]).
    eo_wrap_fin IHc IHpl n0 pl rep.
Qed.

Theorem reencode_errno_ok x n : errno_ok p (encode (fst (decode p x n))) = true.
Proof. revert n. change (EO x). induction x using enc_ind2; [now apply eo_leaf_node | now apply eo_wrap_node]. Qed.
End Reencode.

(* k >= 1 hops through the same process: the decoded error no longer changes.
   No condition on e, and already from the first hop. *)
Corollary hop_stable_first' p (Hp : proc_closed p) e n n' :
  erase (fst (hop p (fst (hop p e n)) n')) = erase (fst (hop p e n)).
Proof. unfold hop. now apply hop_idem'. Qed.

Corollary hop_stable p (Hp : proc_closed p) e n n' n'' :
  erase (fst (hop p (fst (hop p (fst (hop p e n)) n')) n'')) = erase (fst (hop p (fst (hop p e n)) n')).
Proof. now apply hop_stable_first'. Qed.

(* the older statement of the first hop, with its now superfluous side condition *)
Corollary hop_stable_first p (Hp : proc_closed p) e n n' :
  errno_ok p (encode e) = true ->
  erase (fst (hop p (fst (hop p e n)) n')) = erase (fst (hop p e n)).
Proof. intros _. now apply hop_stable_first'. Qed.
